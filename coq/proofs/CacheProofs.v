(** Proofs about the LRU cache model ([model/Cache.v]): invariant, sub-map of the unbounded map
    (a hit is never stale), retention, eviction order, remove. *)
From Coq Require Import List NArith Bool Lia Permutation Arith.
From RainVerif.model Require Import Cache.
Import ListNotations.
Open Scope N_scope.

(** * Vocabulary used by the statements *)

(** the state after a list of operations *)
Definition lru_exec (c : lru) (ops : list cop) : lru :=
  fold_left (fun c o => fst (lru_step c o)) ops c.

Definition cop_key (o : cop) : N :=
  match o with CInsert k _ => k | CGet k => k | CRemove k => k end.

(** [o] does not write key [k] in the unbounded map *)
Definition nowrite (k : N) (o : cop) : Prop :=
  match o with CInsert k' _ => k' <> k | CGet _ => True | CRemove k' => k' <> k end.

Definition noinsert (k : N) (o : cop) : Prop :=
  match o with CInsert k' _ => k' <> k | _ => True end.

(** [o] cannot push the entry of [k] out when the keys it may bring to the front are in [ks]:
    inserts and gets of other keys must be in [ks]; gets of [k] itself and removes of other keys
    are free; inserts and removes of [k] are excluded *)
Definition keeps (k : N) (ks : list N) (o : cop) : Prop :=
  match o with
  | CInsert k' _ => k' <> k /\ In k' ks
  | CGet k' => k' = k \/ In k' ks
  | CRemove k' => k' <> k
  end.

Definition lru_inv (cap : nat) (c : lru) : Prop :=
  lru_cap c = cap /\ NoDup (map fst (lru_entries c)) /\ (length (lru_entries c) <= cap)%nat.

Definition submap (l m : list (N * N)) : Prop :=
  forall k v, lru_find k l = Some v -> lru_find k m = Some v.

(** * Lists *)

Lemma find_cons : forall k a b l,
  lru_find k ((a, b) :: l) = if a =? k then Some b else lru_find k l.
Proof. intros. unfold lru_find. simpl. destruct (a =? k); reflexivity. Qed.

Lemma find_drop : forall k' k l,
  lru_find k' (drop_key k l) = if k' =? k then None else lru_find k' l.
Proof.
  intros k' k l. induction l as [|[a b] l IH].
  - simpl. destruct (k' =? k); reflexivity.
  - unfold drop_key in *. simpl. destruct (a =? k) eqn:E; simpl.
    + rewrite IH. rewrite find_cons. apply N.eqb_eq in E. subst a.
      destruct (k' =? k) eqn:F; [reflexivity|]. rewrite N.eqb_sym, F. reflexivity.
    + rewrite !find_cons, IH. destruct (a =? k') eqn:F; [|reflexivity].
      apply N.eqb_eq in F. subst a. rewrite E. reflexivity.
Qed.

Lemma find_none_iff : forall k l, lru_find k l = None <-> ~ In k (map fst l).
Proof.
  intros k l. induction l as [|[a b] l IH]; simpl.
  - split; [intros _ []|reflexivity].
  - rewrite find_cons. destruct (a =? k) eqn:E.
    + apply N.eqb_eq in E. split; [discriminate|]. intros H. exfalso. apply H. left. exact E.
    + apply N.eqb_neq in E. rewrite IH. split; intros H; [intros [F|F]; [exact (E F)|exact (H F)]|].
      intros F. apply H. right. exact F.
Qed.

Lemma find_some_in : forall k v l, lru_find k l = Some v -> In (k, v) l.
Proof.
  intros k v l. induction l as [|[a b] l IH]; [discriminate|].
  rewrite find_cons. destruct (a =? k) eqn:E.
  - apply N.eqb_eq in E. intros H. inversion H. subst. left. reflexivity.
  - intros H. right. exact (IH H).
Qed.

Lemma find_some_key : forall k v l, lru_find k l = Some v -> In k (map fst l).
Proof. intros k v l H. apply find_some_in in H. apply (in_map fst) in H. exact H. Qed.

Lemma find_app_some : forall k v a b, lru_find k a = Some v -> lru_find k (a ++ b) = Some v.
Proof.
  intros k v a b. induction a as [|[x y] a IH]; [discriminate|].
  simpl. rewrite !find_cons. destruct (x =? k); [trivial|exact IH].
Qed.

Lemma find_app_none : forall k a b, ~ In k (map fst a) -> lru_find k (a ++ b) = lru_find k b.
Proof.
  intros k a b. induction a as [|[x y] a IH]; [reflexivity|].
  simpl. intros H. rewrite find_cons. destruct (x =? k) eqn:E.
  - apply N.eqb_eq in E. exfalso. apply H. left. exact E.
  - apply IH. intros F. apply H. right. exact F.
Qed.

Lemma drop_keys_iff : forall x k l,
  In x (map fst (drop_key k l)) <-> In x (map fst l) /\ x <> k.
Proof.
  intros x k l. unfold drop_key. rewrite !in_map_iff. split.
  - intros [e [H1 H2]]. apply filter_In in H2. destruct H2 as [H2 H3]. split; [exists e; split; assumption|].
    subst x. apply negb_true_iff in H3. apply N.eqb_neq in H3. exact H3.
  - intros [[e [H1 H2]] H3]. exists e. split; [exact H1|]. apply filter_In. split; [exact H2|].
    apply negb_true_iff. apply N.eqb_neq. subst x. exact H3.
Qed.

Lemma drop_nodup : forall k l, NoDup (map fst l) -> NoDup (map fst (drop_key k l)).
Proof.
  intros k l. induction l as [|[a b] l IH]; simpl; [trivial|].
  intros H. inversion H as [|? ? H1 H2]. subst. unfold drop_key in *. simpl.
  destruct (a =? k); simpl; [exact (IH H2)|]. constructor; [|exact (IH H2)].
  intros F. apply (drop_keys_iff a k l) in F. exact (H1 (proj1 F)).
Qed.

Lemma filter_len_le : forall (A : Type) (f : A -> bool) l, (length (filter f l) <= length l)%nat.
Proof. intros A f l. induction l as [|x l IH]; simpl; [lia|]. destruct (f x); simpl; lia. Qed.

Lemma drop_length : forall k l, (length (drop_key k l) <= length l)%nat.
Proof. intros. unfold drop_key. apply filter_len_le. Qed.

Lemma drop_length_lt : forall k l, In k (map fst l) -> (length (drop_key k l) < length l)%nat.
Proof.
  intros k l. induction l as [|[a b] l IH]; simpl; [intros []|].
  unfold drop_key in *. simpl. destruct (a =? k) eqn:E; simpl.
  - intros _. pose proof (filter_len_le _ (fun e => negb (fst e =? k)) l). lia.
  - intros [H|H]; [apply N.eqb_neq in E; exfalso; exact (E H)|]. specialize (IH H). lia.
Qed.

Lemma drop_absent : forall k l, ~ In k (map fst l) -> drop_key k l = l.
Proof.
  intros k l. induction l as [|[a b] l IH]; simpl; [reflexivity|].
  intros H. unfold drop_key in *. simpl. destruct (a =? k) eqn:E.
  - apply N.eqb_eq in E. exfalso. apply H. left. exact E.
  - simpl. f_equal. apply IH. intros F. apply H. right. exact F.
Qed.

Lemma drop_app : forall k a b, drop_key k (a ++ b) = drop_key k a ++ drop_key k b.
Proof. intros. unfold drop_key. apply filter_app. Qed.

Lemma drop_incl : forall k l ks, incl (map fst l) ks -> incl (map fst (drop_key k l)) ks.
Proof. intros k l ks H x Hx. apply drop_keys_iff in Hx. apply H. exact (proj1 Hx). Qed.

(** a present key splits the list; with unique keys the rest does not mention it *)
Lemma find_split : forall k v l, lru_find k l = Some v ->
  exists a b, l = a ++ (k, v) :: b /\ ~ In k (map fst a).
Proof.
  intros k v l. induction l as [|[x y] l IH]; [discriminate|].
  rewrite find_cons. destruct (x =? k) eqn:E.
  - apply N.eqb_eq in E. intros H. inversion H. subst. exists [], l. split; [reflexivity|intros []].
  - intros H. destruct (IH H) as [a [b [H1 H2]]]. exists ((x, y) :: a), b. split; [subst l; reflexivity|].
    simpl. intros [F|F]; [apply N.eqb_neq in E; exact (E F)|exact (H2 F)].
Qed.

Lemma nodup_mid : forall (k v : N) a b, NoDup (map fst (a ++ (k, v) :: b)) ->
  ~ In k (map fst a) /\ ~ In k (map fst b).
Proof.
  intros k v a b H. rewrite map_app in H. simpl in H. apply NoDup_remove_2 in H.
  split; intros F; apply H; apply in_or_app; [left|right]; exact F.
Qed.

Lemma drop_mid_same : forall (k v : N) a b, ~ In k (map fst a) -> ~ In k (map fst b) ->
  drop_key k (a ++ (k, v) :: b) = a ++ b.
Proof.
  intros k v a b Ha Hb. rewrite drop_app. rewrite (drop_absent k a Ha).
  unfold drop_key at 1. simpl. rewrite N.eqb_refl. simpl. fold (drop_key k b).
  rewrite (drop_absent k b Hb). reflexivity.
Qed.

Lemma drop_mid_other : forall (k k' v : N) a b, k <> k' ->
  drop_key k' (a ++ (k, v) :: b) = drop_key k' a ++ (k, v) :: drop_key k' b.
Proof.
  intros k k' v a b H. rewrite drop_app. f_equal. unfold drop_key at 1. simpl.
  apply N.eqb_neq in H. rewrite H. reflexivity.
Qed.

Lemma removelast_len : forall (A : Type) (l : list A), length (removelast l) = (length l - 1)%nat.
Proof.
  intros A l. induction l as [|x l IH]; [reflexivity|]. destruct l as [|y l]; [reflexivity|].
  change (removelast (x :: y :: l)) with (x :: removelast (y :: l)). simpl length in *. lia.
Qed.

Lemma removelast_split : forall (A : Type) (l : list A), l <> [] -> exists e, l = removelast l ++ [e].
Proof.
  intros A l H. destruct l as [|x l]; [congruence|]. exists (last (x :: l) x).
  apply app_removelast_last. exact H.
Qed.

Lemma nodup_app_l : forall (A : Type) (a b : list A), NoDup (a ++ b) -> NoDup a.
Proof.
  intros A a b. induction a as [|x a IH]; simpl; intros H; [constructor|].
  inversion H as [|? ? H1 H2]. subst. constructor; [|exact (IH H2)].
  intros F. apply H1. apply in_or_app. left. exact F.
Qed.

Lemma removelast_nodup : forall (l : list (N * N)), NoDup (map fst l) -> NoDup (map fst (removelast l)).
Proof.
  intros l H. destruct l as [|x l]; [exact H|].
  destruct (removelast_split _ (x :: l)) as [e He]; [discriminate|].
  rewrite He in H. rewrite map_app in H. apply nodup_app_l in H. exact H.
Qed.

Lemma removelast_find : forall k v (l : list (N * N)),
  lru_find k (removelast l) = Some v -> lru_find k l = Some v.
Proof.
  intros k v l H. destruct l as [|x l]; [exact H|].
  destruct (removelast_split _ (x :: l)) as [e He]; [discriminate|].
  rewrite He. apply find_app_some. exact H.
Qed.

(** * Single operations *)

Lemma get_answer : forall c k, snd (lru_get c k) = lru_find k (lru_entries c).
Proof. intros c k. unfold lru_get. destruct (lru_find k (lru_entries c)); reflexivity. Qed.

Lemma get_hit : forall c k v, lru_find k (lru_entries c) = Some v ->
  lru_get c k = (mkLru (lru_cap c) ((k, v) :: drop_key k (lru_entries c)), Some v).
Proof. intros c k v H. unfold lru_get. rewrite H. reflexivity. Qed.

Lemma get_miss : forall c k, lru_find k (lru_entries c) = None -> lru_get c k = (c, None).
Proof. intros c k H. unfold lru_get. rewrite H. reflexivity. Qed.

Lemma insert_entries : forall c k v,
  lru_entries (lru_insert c k v) =
  (let l := (k, v) :: drop_key k (lru_entries c) in
   if Nat.ltb (lru_cap c) (length l) then removelast l else l).
Proof. reflexivity. Qed.

Lemma step_cap : forall c o, lru_cap (fst (lru_step c o)) = lru_cap c.
Proof.
  intros c [k v|k|k]; simpl; try reflexivity.
  unfold lru_get. destruct (lru_find k (lru_entries c)); reflexivity.
Qed.

Lemma inv_insert : forall cap c k v, lru_inv cap c -> lru_inv cap (lru_insert c k v).
Proof.
  intros cap c k v [Hc [Hn Hl]]. split; [exact Hc|]. rewrite insert_entries. cbv zeta.
  assert (Hn' : NoDup (map fst ((k, v) :: drop_key k (lru_entries c)))).
  { simpl. constructor; [|apply drop_nodup; exact Hn]. intros F. apply drop_keys_iff in F.
    destruct F as [_ F]. exact (F eq_refl). }
  destruct (Nat.ltb (lru_cap c) (length ((k, v) :: drop_key k (lru_entries c)))) eqn:E.
  - split; [apply removelast_nodup; exact Hn'|]. rewrite removelast_len.
    pose proof (drop_length k (lru_entries c)). simpl length. lia.
  - split; [exact Hn'|]. apply Nat.ltb_ge in E. lia.
Qed.

Lemma inv_get : forall cap c k, lru_inv cap c -> lru_inv cap (fst (lru_get c k)).
Proof.
  intros cap c k [Hc [Hn Hl]]. destruct (lru_find k (lru_entries c)) as [v|] eqn:E.
  - rewrite (get_hit c k v E). simpl. split; [exact Hc|]. split.
    + simpl. constructor; [|apply drop_nodup; exact Hn]. intros F. apply drop_keys_iff in F.
      destruct F as [_ F]. exact (F eq_refl).
    + simpl. pose proof (drop_length_lt k (lru_entries c) (find_some_key k v _ E)). lia.
  - rewrite (get_miss c k E). simpl. split; [exact Hc|]. split; assumption.
Qed.

Lemma inv_remove : forall cap c k, lru_inv cap c -> lru_inv cap (lru_remove c k).
Proof.
  intros cap c k [Hc [Hn Hl]]. split; [exact Hc|]. simpl. split; [apply drop_nodup; exact Hn|].
  pose proof (drop_length k (lru_entries c)). lia.
Qed.

Lemma inv_step : forall cap c o, lru_inv cap c -> lru_inv cap (fst (lru_step c o)).
Proof.
  intros cap c [k v|k|k] H; simpl; [apply inv_insert|apply inv_get|apply inv_remove]; exact H.
Qed.

Lemma exec_app : forall c a b, lru_exec c (a ++ b) = lru_exec (lru_exec c a) b.
Proof. intros. unfold lru_exec. apply fold_left_app. Qed.

Lemma exec_cons : forall c o r, lru_exec c (o :: r) = lru_exec (fst (lru_step c o)) r.
Proof. reflexivity. Qed.

Lemma inv_exec : forall cap ops c, lru_inv cap c -> lru_inv cap (lru_exec c ops).
Proof.
  intros cap ops. induction ops as [|o r IH]; intros c H; [exact H|].
  rewrite exec_cons. apply IH. apply inv_step. exact H.
Qed.

Lemma inv_new : forall cap, lru_inv cap (lru_new cap).
Proof. intros cap. split; [reflexivity|]. split; [constructor|simpl; lia]. Qed.

(** T1 *)
Theorem lru_invariant : forall cap ops,
  let c := lru_exec (lru_new cap) ops in
  lru_cap c = cap /\ NoDup (map fst (lru_entries c)) /\ (length (lru_entries c) <= cap)%nat.
Proof. intros cap ops. apply inv_exec. apply inv_new. Qed.

(** * Runs and states *)

Lemma run_app : forall a c b, lru_run c (a ++ b) = lru_run c a ++ lru_run (lru_exec c a) b.
Proof.
  intros a. induction a as [|o r IH]; intros c b; [reflexivity|].
  simpl. rewrite IH. reflexivity.
Qed.

Lemma run_length : forall a c, length (lru_run c a) = length a.
Proof. intros a. induction a as [|o r IH]; intros c; [reflexivity|]. simpl. rewrite IH. reflexivity. Qed.

Lemma run_nth : forall c a o b d,
  nth (length a) (lru_run c (a ++ o :: b)) d = snd (lru_step (lru_exec c a) o).
Proof.
  intros c a o b d. rewrite run_app. rewrite app_nth2; rewrite run_length; [|lia].
  rewrite Nat.sub_diag. reflexivity.
Qed.

Lemma run_last : forall c a o d,
  last (lru_run c (a ++ [o])) d = snd (lru_step (lru_exec c a) o).
Proof. intros c a o d. rewrite run_app. simpl. apply last_last. Qed.

(** the observations are the state's: a get answers what the entries hold, and the count is the
    number of entries afterwards *)
Lemma step_obs_get : forall c k, fst (snd (lru_step c (CGet k))) = lru_find k (lru_entries c).
Proof. intros c k. simpl. apply get_answer. Qed.

Lemma step_obs_count : forall c o, snd (snd (lru_step c o)) = length (lru_entries (fst (lru_step c o))).
Proof. intros c [k v|k|k]; reflexivity. Qed.

(** T1, observed: the count reported by every operation of a run is at most the capacity *)
Theorem lru_run_count_le_cap : forall cap ops x,
  In x (lru_run (lru_new cap) ops) -> (snd x <= cap)%nat.
Proof.
  intros cap ops x H. apply In_nth with (d := x) in H. destruct H as [n [Hn Hx]].
  rewrite run_length in Hn.
  destruct (nth_split ops (CGet 0) Hn) as [a [b [Hab Hlen]]].
  rewrite Hab, <- Hlen, run_nth in Hx. subst x. rewrite step_obs_count.
  pose proof (inv_step cap _ (nth n ops (CGet 0)) (inv_exec cap a _ (inv_new cap))) as [_ [_ H]].
  rewrite Hlen. exact H.
Qed.

(** * T2: the cache is a sub-map of the unbounded map *)

Lemma submap_step : forall c o m, submap (lru_entries c) m ->
  submap (lru_entries (fst (lru_step c o))) (spec_map [o] m).
Proof.
  intros c [k v|k|k] m H k' v'.
  - change (fst (lru_step c (CInsert k v))) with (lru_insert c k v).
    change (spec_map [CInsert k v] m) with ((k, v) :: drop_key k m).
    rewrite insert_entries. cbv zeta. intros F.
    assert (G : lru_find k' ((k, v) :: drop_key k (lru_entries c)) = Some v').
    { destruct (Nat.ltb _ _) in F; [apply removelast_find|]; exact F. }
    clear F. rewrite find_cons in *. destruct (k =? k'); [exact G|].
    rewrite find_drop in *. destruct (k' =? k); [discriminate|]. apply H. exact G.
  - change (fst (lru_step c (CGet k))) with (fst (lru_get c k)).
    change (spec_map [CGet k] m) with m.
    destruct (lru_find k (lru_entries c)) as [v|] eqn:E.
    + rewrite (get_hit c k v E). simpl. rewrite find_cons. destruct (k =? k') eqn:F.
      * apply N.eqb_eq in F. subst k'. intros G. apply H. rewrite E. exact G.
      * rewrite find_drop. destruct (k' =? k); [discriminate|]. apply H.
    + rewrite (get_miss c k E). simpl. apply H.
  - simpl. rewrite !find_drop. destruct (k' =? k); [discriminate|]. apply H.
Qed.

Lemma spec_cons : forall o r m, spec_map (o :: r) m = spec_map r (spec_map [o] m).
Proof. intros [k v|k|k] r m; reflexivity. Qed.

Lemma spec_app : forall p s m, spec_map (p ++ s) m = spec_map s (spec_map p m).
Proof.
  intros p. induction p as [|o r IH]; intros s m; [reflexivity|].
  simpl app. rewrite spec_cons, IH, <- spec_cons. reflexivity.
Qed.

Lemma submap_exec : forall ops c m, submap (lru_entries c) m ->
  submap (lru_entries (lru_exec c ops)) (spec_map ops m).
Proof.
  intros ops. induction ops as [|o r IH]; intros c m H; [exact H|].
  rewrite exec_cons, spec_cons. apply IH. apply submap_step. exact H.
Qed.

(** T2, states *)
Theorem lru_submap_of_spec : forall cap ops k v,
  lru_find k (lru_entries (lru_exec (lru_new cap) ops)) = Some v ->
  lru_find k (spec_map ops []) = Some v.
Proof. intros cap ops. apply (submap_exec ops (lru_new cap) []). intros k v H. exact H. Qed.

(** T2, runs *)
Theorem lru_hit_not_stale : forall cap pre k rest v n d,
  nth (length pre) (lru_run (lru_new cap) (pre ++ CGet k :: rest)) d = (Some v, n) ->
  lru_find k (spec_map pre []) = Some v.
Proof.
  intros cap pre k rest v n d H. rewrite run_nth in H.
  apply (f_equal fst) in H. rewrite step_obs_get in H. simpl in H.
  exact (lru_submap_of_spec cap pre k v H).
Qed.

(** what the unbounded map holds: the value of the latest insert with no later remove *)
Lemma spec_nowrite : forall k s m, Forall (nowrite k) s -> lru_find k (spec_map s m) = lru_find k m.
Proof.
  intros k s. induction s as [|o r IH]; intros m H; [reflexivity|].
  inversion H as [|? ? H1 H2]. subst. rewrite spec_cons, (IH _ H2).
  destruct o as [k' v'|k'|k']; simpl in *.
  - rewrite find_cons. apply N.eqb_neq in H1. rewrite H1. rewrite find_drop.
    rewrite N.eqb_sym, H1. reflexivity.
  - reflexivity.
  - rewrite find_drop. apply N.eqb_neq in H1. rewrite N.eqb_sym, H1. reflexivity.
Qed.

Lemma spec_char_fwd : forall k v ops m, lru_find k (spec_map ops m) = Some v ->
  (exists p s, ops = p ++ CInsert k v :: s /\ Forall (nowrite k) s) \/
  (Forall (nowrite k) ops /\ lru_find k m = Some v).
Proof.
  intros k v ops. induction ops as [|o r IH]; intros m H.
  - right. split; [constructor|exact H].
  - rewrite spec_cons in H. destruct (IH _ H) as [[p [s [H1 H2]]]|[H1 H2]].
    + left. exists (o :: p), s. split; [subst r; reflexivity|exact H2].
    + destruct o as [k' v'|k'|k']; simpl in H2.
      * rewrite find_cons in H2. destruct (k' =? k) eqn:E.
        -- apply N.eqb_eq in E. inversion H2. subst. left. exists [], r. split; [reflexivity|exact H1].
        -- rewrite find_drop in H2. rewrite N.eqb_sym, E in H2. right. split; [|exact H2].
           constructor; [apply N.eqb_neq in E; exact E|exact H1].
      * right. split; [constructor; [exact I|exact H1]|exact H2].
      * rewrite find_drop in H2. destruct (k =? k') eqn:E; [discriminate|]. right. split; [|exact H2].
        constructor; [|exact H1]. apply N.eqb_neq in E. simpl. congruence.
Qed.

Theorem spec_map_latest_insert : forall ops k v,
  lru_find k (spec_map ops []) = Some v <->
  exists p s, ops = p ++ CInsert k v :: s /\ Forall (nowrite k) s.
Proof.
  intros ops k v. split.
  - intros H. destruct (spec_char_fwd k v ops [] H) as [H1|[_ H1]]; [exact H1|discriminate].
  - intros [p [s [H1 H2]]]. subst ops. rewrite spec_app, spec_cons, (spec_nowrite k s _ H2).
    simpl. rewrite find_cons, N.eqb_refl. reflexivity.
Qed.

(** T2, spelled out: the value of a hit is that of the latest insert of the key before the get
    and no remove of the key lies between them *)
Theorem lru_hit_latest_insert : forall cap pre k rest v n d,
  nth (length pre) (lru_run (lru_new cap) (pre ++ CGet k :: rest)) d = (Some v, n) ->
  exists p s, pre = p ++ CInsert k v :: s /\ Forall (nowrite k) s.
Proof. intros. apply spec_map_latest_insert. eapply lru_hit_not_stale. eassumption. Qed.

Lemma spec_noinsert_none : forall k s m, Forall (noinsert k) s -> lru_find k m = None ->
  lru_find k (spec_map s m) = None.
Proof.
  intros k s. induction s as [|o r IH]; intros m H Hm; [exact Hm|].
  inversion H as [|? ? H1 H2]. subst. rewrite spec_cons. apply (IH _ H2).
  destruct o as [k' v'|k'|k']; simpl in *.
  - rewrite find_cons. apply N.eqb_neq in H1. rewrite H1. rewrite find_drop.
    rewrite N.eqb_sym, H1. exact Hm.
  - exact Hm.
  - rewrite find_drop. destruct (k =? k'); [reflexivity|exact Hm].
Qed.

(** * T3: what is kept *)

Lemma insert_head : forall cap c k v, (1 <= cap)%nat -> lru_inv cap c ->
  exists rest, lru_entries (lru_insert c k v) = (k, v) :: rest.
Proof.
  intros cap c k v Hcap [Hc _]. rewrite insert_entries. cbv zeta.
  destruct (Nat.ltb _ _) eqn:E; [|eexists; reflexivity].
  destruct (drop_key k (lru_entries c)) as [|x l].
  - apply Nat.ltb_lt in E. simpl in E. lia.
  - exists (removelast (x :: l)). reflexivity.
Qed.

(** T3, immediate *)
Theorem lru_insert_then_get : forall cap pre k v, (1 <= cap)%nat ->
  fst (snd (lru_step (lru_exec (lru_new cap) (pre ++ [CInsert k v])) (CGet k))) = Some v.
Proof.
  intros cap pre k v Hcap. rewrite step_obs_get, exec_app.
  destruct (insert_head cap (lru_exec (lru_new cap) pre) k v Hcap (inv_exec cap pre _ (inv_new cap))) as [rest H].
  change (lru_exec ?c [CInsert k v]) with (lru_insert c k v). rewrite H, find_cons, N.eqb_refl. reflexivity.
Qed.

Definition kept (k v : N) (ks : list N) (cap : nat) (c : lru) : Prop :=
  lru_inv cap c /\
  exists pre post, lru_entries c = pre ++ (k, v) :: post /\ incl (map fst pre) ks.

Lemma kept_find : forall k v ks cap c, kept k v ks cap c -> lru_find k (lru_entries c) = Some v.
Proof.
  intros k v ks cap c [[_ [Hn _]] [pre [post [He _]]]]. rewrite He in *.
  destruct (nodup_mid _ _ _ _ Hn) as [Ha _]. rewrite (find_app_none k pre _ Ha), find_cons, N.eqb_refl.
  reflexivity.
Qed.

(** moving another key [k'] of [ks] to the front of a list that holds [k] behind keys of [ks] *)
Lemma front_other : forall k v k' v' ks cap pre post,
  (length ks < cap)%nat -> k' <> k -> In k' ks -> incl (map fst pre) ks ->
  NoDup (map fst (pre ++ (k, v) :: post)) ->
  let l := (k', v') :: drop_key k' (pre ++ (k, v) :: post) in
  exists pre' post',
    (if Nat.ltb cap (length l) then removelast l else l) = pre' ++ (k, v) :: post' /\
    incl (map fst pre') ks.
Proof.
  intros k v k' v' ks cap pre post Hks Hne Hin Hincl Hn l. subst l.
  rewrite (drop_mid_other k k' v pre post (not_eq_sym Hne)).
  assert (Hpre : incl (map fst ((k', v') :: drop_key k' pre)) ks).
  { simpl. intros x [Hx|Hx]; [subst x; exact Hin|exact (drop_incl k' pre ks Hincl x Hx)]. }
  assert (Hlen : (length ((k', v') :: drop_key k' pre) <= length ks)%nat).
  { rewrite <- (map_length fst). apply NoDup_incl_length; [|exact Hpre]. simpl. constructor.
    - intros F. apply drop_keys_iff in F. exact (proj2 F eq_refl).
    - apply drop_nodup. rewrite map_app in Hn. apply nodup_app_l in Hn. exact Hn. }
  destruct (Nat.ltb _ _) eqn:E.
  - destruct (drop_key k' post) as [|p ps].
    + apply Nat.ltb_lt in E. simpl length in *. rewrite app_length in E. simpl in E. lia.
    + exists ((k', v') :: drop_key k' pre), (removelast (p :: ps)). split; [|exact Hpre].
      replace ((k', v') :: drop_key k' pre ++ (k, v) :: p :: ps)
        with ((((k', v') :: drop_key k' pre) ++ [(k, v)]) ++ (p :: ps))
        by (rewrite <- app_assoc; reflexivity).
      
      rewrite removelast_app by discriminate. rewrite <- app_assoc. reflexivity.
  - exists ((k', v') :: drop_key k' pre), (drop_key k' post). split; [reflexivity|exact Hpre].
Qed.

Lemma kept_step : forall k v ks cap c o, (length ks < cap)%nat ->
  kept k v ks cap c -> keeps k ks o -> kept k v ks cap (fst (lru_step c o)).
Proof.
  intros k v ks cap c o Hks Hk Ho. pose proof (kept_find _ _ _ _ _ Hk) as Hf.
  destruct Hk as [Hinv [pre [post [He Hincl]]]]. split; [apply inv_step; exact Hinv|].
  destruct Hinv as [Hc [Hn Hl]]. destruct o as [k' v'|k'|k']; simpl in Ho.
  - destruct Ho as [Hne Hin]. change (fst (lru_step c (CInsert k' v'))) with (lru_insert c k' v').
    rewrite insert_entries. cbv zeta. rewrite Hc, He. rewrite He in Hn.
    exact (front_other k v k' v' ks cap pre post Hks Hne Hin Hincl Hn).
  - change (fst (lru_step c (CGet k'))) with (fst (lru_get c k')).
    destruct (lru_find k' (lru_entries c)) as [w|] eqn:E.
    + rewrite (get_hit c k' w E). simpl. destruct (N.eq_dec k' k) as [Heq|Hne].
      * subst k'. rewrite Hf in E. inversion E. subst w. exists [], (drop_key k (lru_entries c)).
        split; [reflexivity|intros x []].
      * destruct Ho as [Ho|Ho]; [contradiction|]. rewrite He. rewrite He in Hn.
        rewrite (drop_mid_other k k' v pre post (not_eq_sym Hne)).
        exists ((k', w) :: drop_key k' pre), (drop_key k' post). split; [reflexivity|].
        simpl. intros x [Hx|Hx]; [subst x; exact Ho|exact (drop_incl k' pre ks Hincl x Hx)].
    + rewrite (get_miss c k' E). simpl. exists pre, post. split; assumption.
  - simpl. rewrite He. rewrite (drop_mid_other k k' v pre post (not_eq_sym Ho)).
    exists (drop_key k' pre), (drop_key k' post). split; [reflexivity|apply drop_incl; exact Hincl].
Qed.

Lemma kept_exec : forall k v ks cap ops c, (length ks < cap)%nat ->
  kept k v ks cap c -> Forall (keeps k ks) ops -> kept k v ks cap (lru_exec c ops).
Proof.
  intros k v ks cap ops. induction ops as [|o r IH]; intros c Hks Hk H; [exact Hk|].
  inversion H as [|? ? H1 H2]. subst. rewrite exec_cons. apply IH; [exact Hks| |exact H2].
  apply kept_step; assumption.
Qed.

(** T3, general: after [CInsert k v] the entry is still there after any [others] whose inserts and
    gets of other keys stay within a set [ks] of fewer than [cap] keys, with no insert or remove of
    [k] (gets of [k] and removes of other keys are free) *)
Theorem lru_kept_general : forall cap pre k v others ks,
  (length ks < cap)%nat -> Forall (keeps k ks) others ->
  lru_find k (lru_entries (lru_exec (lru_new cap) (pre ++ CInsert k v :: others))) = Some v.
Proof.
  intros cap pre k v others ks Hks Ho. rewrite exec_app, exec_cons.
  apply (kept_find k v ks cap). apply kept_exec; [exact Hks| |exact Ho].
  pose proof (inv_exec cap pre _ (inv_new cap)) as Hinv. split; [apply inv_step; exact Hinv|].
  destruct (insert_head cap _ k v ltac:(lia) Hinv) as [rest H]. simpl. exists [], rest.
  split; [exact H|intros x []].
Qed.

(** T3, clean: [others] touches only keys of [ks], fewer than [cap] of them, none equal to [k] *)
Theorem lru_kept : forall cap pre k v others ks rest d,
  (length ks < cap)%nat -> ~ In k ks -> Forall (fun o => In (cop_key o) ks) others ->
  exists n,
    nth (length (pre ++ CInsert k v :: others))
        (lru_run (lru_new cap) ((pre ++ CInsert k v :: others) ++ CGet k :: rest)) d = (Some v, n).
Proof.
  intros cap pre k v others ks rest d Hks Hk Ho. rewrite run_nth.
  eexists. rewrite (surjective_pairing (snd _)). f_equal. rewrite step_obs_get.
  apply (lru_kept_general cap pre k v others ks Hks). apply Forall_impl with (2 := Ho).
  intros [k' v'|k'|k'] H; simpl in *.
  - split; [intros F; subst k'; exact (Hk H)|exact H].
  - right. exact H.
  - intros F. subst k'. exact (Hk H).
Qed.

(** T3, counting distinct keys *)
Theorem lru_kept_distinct : forall cap pre k v others rest d,
  (length (nodup N.eq_dec (map cop_key others)) < cap)%nat -> ~ In k (map cop_key others) ->
  exists n,
    nth (length (pre ++ CInsert k v :: others))
        (lru_run (lru_new cap) ((pre ++ CInsert k v :: others) ++ CGet k :: rest)) d = (Some v, n).
Proof.
  intros cap pre k v others rest d Hlen Hk.
  apply (lru_kept cap pre k v others (nodup N.eq_dec (map cop_key others))); [exact Hlen| |].
  - intros F. apply nodup_In in F. exact (Hk F).
  - apply Forall_forall. intros o Ho. apply nodup_In. apply in_map. exact Ho.
Qed.

(** * T4: eviction order *)

(** inserting a present key evicts nothing: the entry moves to the front with the new value *)
Theorem lru_insert_present : forall cap c k v w, lru_inv cap c ->
  lru_find k (lru_entries c) = Some w ->
  exists a b, lru_entries c = a ++ (k, w) :: b /\
              lru_entries (lru_insert c k v) = (k, v) :: a ++ b.
Proof.
  intros cap c k v w [Hc [Hn Hl]] Hf. destruct (find_split k w _ Hf) as [a [b [He Ha]]].
  exists a, b. split; [exact He|]. rewrite insert_entries. cbv zeta. rewrite He in *.
  destruct (nodup_mid _ _ _ _ Hn) as [_ Hb]. rewrite (drop_mid_same k w a b Ha Hb).
  replace (Nat.ltb (lru_cap c) (length ((k, v) :: a ++ b))) with false; [reflexivity|].
  symmetry. apply Nat.ltb_ge. rewrite app_length in Hl. simpl in *. rewrite app_length. lia.
Qed.

(** inserting an absent key below capacity evicts nothing *)
Theorem lru_insert_room : forall cap c k v, lru_inv cap c ->
  lru_find k (lru_entries c) = None -> (length (lru_entries c) < cap)%nat ->
  lru_entries (lru_insert c k v) = (k, v) :: lru_entries c.
Proof.
  intros cap c k v [Hc _] Hf Hl. rewrite insert_entries. cbv zeta.
  rewrite (drop_absent k _ (proj1 (find_none_iff k _) Hf)).
  replace (Nat.ltb _ _) with false; [reflexivity|]. symmetry. apply Nat.ltb_ge. simpl. lia.
Qed.

(** inserting an absent key at capacity evicts exactly the last (least recently used) entry *)
Theorem lru_insert_evicts_last : forall cap c k v, (1 <= cap)%nat -> lru_inv cap c ->
  lru_find k (lru_entries c) = None -> length (lru_entries c) = cap ->
  exists l0 e, lru_entries c = l0 ++ [e] /\
               lru_entries (lru_insert c k v) = (k, v) :: l0 /\
               lru_find (fst e) (lru_entries (lru_insert c k v)) = None /\
               forall k', k' <> fst e ->
                 lru_find k' (lru_entries (lru_insert c k v)) = lru_find k' ((k, v) :: lru_entries c).
Proof.
  intros cap c k v Hcap [Hc [Hn _]] Hf Hl.
  assert (Hne : lru_entries c <> []) by (intros F; rewrite F in Hl; simpl in Hl; lia).
  destruct (removelast_split _ _ Hne) as [e He]. exists (removelast (lru_entries c)), e.
  split; [exact He|].
  assert (Hi : lru_entries (lru_insert c k v) = (k, v) :: removelast (lru_entries c)).
  { rewrite insert_entries. cbv zeta. rewrite (drop_absent k _ (proj1 (find_none_iff k _) Hf)).
    replace (Nat.ltb _ _) with true; [|symmetry; apply Nat.ltb_lt; simpl; lia].
    destruct (lru_entries c); [congruence|reflexivity]. }
  split; [exact Hi|]. rewrite Hi. set (l0 := removelast (lru_entries c)) in *.
  assert (Hk : k <> fst e).
  { intros F. apply find_none_iff in Hf. apply Hf. rewrite He, map_app. apply in_or_app. right.
    left. symmetry. exact F. }
  rewrite He in Hn. rewrite map_app in Hn. simpl in Hn.
  assert (He0 : ~ In (fst e) (map fst l0)).
  { apply NoDup_remove_2 in Hn. rewrite app_nil_r in Hn. exact Hn. }
  split.
  - rewrite find_cons. apply N.eqb_neq in Hk. rewrite Hk. apply find_none_iff. exact He0.
  - intros k' Hk'. rewrite !find_cons. destruct (k =? k'); [reflexivity|]. rewrite He.
    destruct (lru_find k' l0) as [w|] eqn:E.
    + symmetry. apply find_app_some. exact E.
    + apply find_none_iff in E. rewrite (find_app_none k' l0 _ E). destruct e as [x y].
      rewrite find_cons. simpl in Hk'. apply not_eq_sym in Hk'. apply N.eqb_neq in Hk'. rewrite Hk'.
      reflexivity.
Qed.

(** a hit moves the entry to the front; the others keep their order *)
Theorem lru_get_hit_moves_front : forall cap c k v, lru_inv cap c ->
  lru_find k (lru_entries c) = Some v ->
  snd (lru_get c k) = Some v /\
  exists a b, lru_entries c = a ++ (k, v) :: b /\
              lru_entries (fst (lru_get c k)) = (k, v) :: a ++ b.
Proof.
  intros cap c k v [Hc [Hn Hl]] Hf. rewrite (get_hit c k v Hf). split; [reflexivity|].
  destruct (find_split k v _ Hf) as [a [b [He Ha]]]. exists a, b. split; [exact He|]. simpl.
  rewrite He in *. destruct (nodup_mid _ _ _ _ Hn) as [_ Hb]. rewrite (drop_mid_same k v a b Ha Hb).
  reflexivity.
Qed.

Theorem lru_get_hit_same_entries : forall cap c k v, lru_inv cap c ->
  lru_find k (lru_entries c) = Some v ->
  Permutation (lru_entries (fst (lru_get c k))) (lru_entries c).
Proof.
  intros cap c k v Hinv Hf. destruct (lru_get_hit_moves_front cap c k v Hinv Hf) as [_ [a [b [H1 H2]]]].
  rewrite H1, H2. apply Permutation_middle.
Qed.

Theorem lru_get_miss_unchanged : forall c k, lru_find k (lru_entries c) = None ->
  lru_get c k = (c, None).
Proof. exact get_miss. Qed.

(** * T5: remove *)

Theorem lru_remove_then_get : forall c k,
  fst (snd (lru_step (fst (lru_step c (CRemove k))) (CGet k))) = None.
Proof.
  intros c k. rewrite step_obs_get. simpl. rewrite find_drop, N.eqb_refl. reflexivity.
Qed.

Theorem lru_remove_absent : forall c k, lru_find k (lru_entries c) = None -> lru_remove c k = c.
Proof.
  intros [cap l] k H. unfold lru_remove. simpl in *.
  rewrite (drop_absent k l (proj1 (find_none_iff k l) H)). reflexivity.
Qed.

Theorem lru_remove_others : forall c k k', k' <> k ->
  lru_find k' (lru_entries (lru_remove c k)) = lru_find k' (lru_entries c).
Proof. intros c k k' H. simpl. rewrite find_drop. apply N.eqb_neq in H. rewrite H. reflexivity. Qed.

(** in a run: after [CRemove k], a [CGet k] answers [None] until the next insert of [k] *)
Theorem lru_removed_stays_absent : forall cap pre k s rest d,
  Forall (noinsert k) s ->
  fst (nth (length (pre ++ CRemove k :: s))
           (lru_run (lru_new cap) ((pre ++ CRemove k :: s) ++ CGet k :: rest)) d) = None.
Proof.
  intros cap pre k s rest d Hs.
  destruct (nth _ _ d) as [[v|] n] eqn:E; [|reflexivity]. exfalso.
  apply lru_hit_not_stale in E. rewrite spec_app, spec_cons in E.
  rewrite (spec_noinsert_none k s) in E; [discriminate|exact Hs|].
  simpl. rewrite find_drop, N.eqb_refl. reflexivity.
Qed.

(** * Run forms *)

Theorem lru_insert_then_get_run : forall cap pre k v d, (1 <= cap)%nat ->
  fst (last (lru_run (lru_new cap) ((pre ++ [CInsert k v]) ++ [CGet k])) d) = Some v.
Proof. intros cap pre k v d H. rewrite run_last. apply lru_insert_then_get. exact H. Qed.

Theorem lru_remove_then_get_run : forall cap pre k d,
  fst (last (lru_run (lru_new cap) ((pre ++ [CRemove k]) ++ [CGet k])) d) = None.
Proof.
  intros cap pre k d. rewrite run_last, exec_app.
  change (lru_exec ?c [CRemove k]) with (fst (lru_step c (CRemove k))). apply lru_remove_then_get.
Qed.

Theorem lru_run_get_observes_state : forall cap pre k rest d,
  fst (nth (length pre) (lru_run (lru_new cap) (pre ++ CGet k :: rest)) d) =
  lru_find k (lru_entries (lru_exec (lru_new cap) pre)).
Proof. intros. rewrite run_nth. apply step_obs_get. Qed.

Theorem lru_reachable_inv : forall cap ops, lru_inv cap (lru_exec (lru_new cap) ops).
Proof. intros. apply inv_exec. apply inv_new. Qed.
