(** M7: recovery from a crash image re-establishes the invariant. [Crashed img bs]: [img] is a
    directory as a clean shutdown or a crash (at any file operation, the last one possibly torn)
    leaves it, from which the batches [bs] must be recovered. Every step lemma is restated with
    crash images that are again [Crashed] (so the argument iterates: nested crashes), and [p_open]
    is proved correct on every [Crashed] image. Definitions of histories (sessions ending in a
    crash or cleanly). No axioms. *)
From Coq Require Import Lia ZArith ZifyN ZifyBool ZifyNat Arith List NArith Bool.
From RainVerif Require Import Params.
From RainVerif.model Require Import Bytes Key Block Crc Log Table TableSpec Version Lsm DbSpec Codec WalModel Gc Recover Proto.
From RainVerif.proofs Require Import LogXProofs ImgProofs ManifestSem ContentsProofs ProtoDurable ProtoSteps ProtoReplay ProtoOpen ProtoInstall.
Import ListNotations.
Open Scope N_scope.

(** * Crash images *)

(** before the first CURRENT install: only (a prefix of) manifest 1 and the temporary file 1 can exist *)
Definition NoCur (img : image) : Prop :=
  i_current img = None /\ i_wals img = [] /\ i_tables img = [] /\
  (i_manifests img = [] \/ exists x, i_manifests img = [(1, x)]) /\
  (i_temps img = [] \/ exists x, i_temps img = [(1, x)]).

Definition Crashed (img : image) (bs : list batch) : Prop :=
  (NoCur img /\ bs = []) \/ CSE img bs.

Lemma Crashed_crash_ok img bs : Crashed img bs -> crash_ok img bs.
Proof. intros [[H ->]|H]; [left; split; [apply H|reflexivity]|right; apply CSE_good; exact H]. Qed.

Lemma Closed_Crashed img bs : Closed img bs -> Crashed img bs.
Proof.
  intros [[-> ->]|(d & <- & IE)].
  - left. split; [|reflexivity]. repeat split; auto.
  - right. apply InvE_CSE. exact IE.
Qed.

Lemma InvE_Crashed d bs : InvE d bs -> Crashed (pd_img d) bs.
Proof. intros H. right. apply InvE_CSE. exact H. Qed.

Ltac nocur_cases H :=
  let Hc := fresh in let Hw := fresh in let Ht := fresh in let Hm := fresh in let Htm := fresh in
  destruct H as (Hc & Hw & Ht & Hm & Htm);
  match goal with img : image |- _ => destruct img as [c m w t tm] end;
  cbn [i_current i_manifests i_wals i_tables i_temps] in *; subst;
  destruct Hm as [->|[? ->]]; destruct Htm as [->|[? ->]].

Lemma NoCur_init img : NoCur img -> apply_fsops img init_ops = img_init.
Proof. intros H. nocur_cases H; reflexivity. Qed.

Lemma NoCur_step img o :
  NoCur img ->
  (exists d, o = FsAppend (FManifest 1) d) \/ (exists d, o = FsAppend (FTemp 1) d) \/
  o = FsCreate (FManifest 1) \/ o = FsCreate (FTemp 1) ->
  NoCur (apply_fsop img o).
Proof.
  intros H Ho. nocur_cases H; destruct Ho as [[d ->]|[[d ->]|[->| ->]]];
    (split; [reflexivity|split; [reflexivity|split; [reflexivity|split]]]);
    first [ left; reflexivity | right; eexists; reflexivity ].
Qed.

Lemma init_crash_c img : NoCur img -> all_crash (fun i => Crashed i []) img init_ops.
Proof.
  intros H0.
  assert (G : Crashed img_init []).
  { right. exists dv_init, [], 0. split; [apply CS_init|reflexivity]. }
  pose proof (NoCur_init img H0) as Einit.
  unfold init_ops, set_current_ops in *. cbn [app] in *.
  set (o1 := FsCreate (FManifest 1)) in *.
  set (o2 := FsAppend (FManifest 1) (fst (log_append 0 (vchange_encode new_db_change)))) in *.
  set (o3 := FsCreate (FTemp 1)) in *.
  set (o4 := FsAppend (FTemp 1) (current_contents 1)) in *.
  assert (H1 : NoCur (apply_fsop img o1)) by (apply NoCur_step; [exact H0|auto]).
  assert (H2 : NoCur (apply_fsop (apply_fsop img o1) o2)) by (apply NoCur_step; [exact H1|left; eexists; reflexivity]).
  assert (H3 : NoCur (apply_fsop (apply_fsop (apply_fsop img o1) o2) o3)) by (apply NoCur_step; [exact H2|auto]).
  assert (H4 : NoCur (apply_fsop (apply_fsop (apply_fsop (apply_fsop img o1) o2) o3) o4))
    by (apply NoCur_step; [exact H3|right; left; eexists; reflexivity]).
  cbn [apply_fsops fold_left] in Einit.
  apply all_crash_cons; [left; auto|intros k; left; split; [exact H1|reflexivity]|].
  apply all_crash_cons; [left; auto| |].
  { intros k. left. split; [|reflexivity]. cbn [torn_fsop o2 apply_fsops fold_left].
    apply NoCur_step; [exact H1|left; eexists; reflexivity]. }
  apply all_crash_cons; [left; auto|intros k; left; split; [exact H3|reflexivity]|].
  apply all_crash_cons; [left; auto| |].
  { intros k. left. split; [|reflexivity]. cbn [torn_fsop o4 apply_fsops fold_left].
    apply NoCur_step; [exact H3|right; left; eexists; reflexivity]. }
  apply all_crash_cons; [left; auto| |].
  { intros k. cbn [torn_fsop apply_fsops fold_left]. rewrite Einit. exact G. }
  apply all_crash_nil. rewrite Einit. exact G.
Qed.

(** * Opening a crashed directory *)
Theorem open_step_c : forall o img bs d' ops,
  Crashed img bs -> open_okb o img = true ->
  p_open o img = Some (d', ops) ->
  pd_img d' = apply_fsops img ops /\
  InvE d' bs /\
  all_crash (fun i => Crashed i bs) img ops.
Proof.
  intros o img bs d' ops Hc Hok Hop.
  unfold open_okb in Hok. rewrite Hop in Hok. apply andb_true_iff in Hok. destruct Hok as [Hsz Hnx].
  apply N.ltb_lt in Hnx.
  assert (Hs : forall p, In p (oo_sizes o) -> snd p < two64).
  { intros p Hp. rewrite forallb_forall in Hsz. apply N.ltb_lt. apply Hsz. exact Hp. }
  rewrite p_open_unfold in Hop. cbv zeta in Hop.
  destruct Hc as [[Hn ->]|(dv & bsF & Q & C & ->)].
  - (* no CURRENT yet: creation *)
    rewrite (proj1 Hn) in Hop.
    assert (C1 : CS (apply_fsops img init_ops) dv_init [] 0) by (rewrite (NoCur_init _ Hn); apply CS_init).
    rewrite (recover_durable _ _ (rec_dur _ _ _ _ (cs_rec _ _ _ _ C1))) in Hop.
    destruct (open_core o img init_ops dv_init [] 0 d' ops C1 Hs Hop Hnx) as (opsR & -> & Himg & IE & Hcr).
    split; [rewrite apply_fsops_app; exact Himg|]. split; [exact IE|].
    apply all_crash_app; [apply init_crash_c; exact Hn|].
    intros n torn Hn'. right. apply (Hcr n torn Hn').
  - (* recovery *)
    destruct (rec_dur _ _ _ _ (cs_rec _ _ _ _ C)) as ((Hcur & _) & _).
    rewrite Hcur in Hop. cbn [apply_fsops fold_left] in Hop.
    rewrite (recover_durable _ _ (rec_dur _ _ _ _ (cs_rec _ _ _ _ C))) in Hop.
    destruct (open_core o img [] dv bsF Q d' ops C Hs Hop Hnx) as (opsR & -> & Himg & IE & Hcr).
    cbn [app apply_fsops fold_left] in *. split; [exact Himg|]. split; [exact IE|].
    intros n torn Hn. right. apply (Hcr n torn Hn).
Qed.

(** * The other steps: their crash images are [Crashed] *)
Theorem write_step_crashed : forall d acked b,
  InvE d acked -> write_okb d b = true ->
  let batch := (pd_seq d + 1, b) in
  Crashed (pd_img d) acked /\
  forall t, Crashed (apply_fsop (pd_img d) (FsAppend (FWal (pd_wal d)) (firstn t (fst (log_append (pd_wal_boff d) (batch_bytes batch))))))
                    (if (length (fst (log_append (pd_wal_boff d) (batch_bytes batch))) <=? t)%nat then acked ++ [batch] else acked).
Proof.
  intros d acked b IE Hok. destruct (write_step_c d acked b IE Hok) as [H1 H2].
  split; [right; exact H1|intros t; right; apply H2].
Qed.

Theorem rotate_step_crashed : forall d acked,
  InvE d acked -> (pd_imm d <> None \/ rotate_okb d = true) ->
  all_crash (fun i => Crashed i acked) (pd_img d) (snd (p_rotate d)).
Proof.
  intros d acked IE Hok. apply (all_crash_impl (fun i => CSE i acked)); [intros i H; right; exact H|].
  apply rotate_step_c; assumption.
Qed.

Theorem flush_step_crashed : forall d acked level size seq d' ops,
  InvE d acked -> (pd_imm d = None \/ flush_okb d level size seq = true) ->
  p_flush d level size seq = Some (d', ops) ->
  all_crash (fun i => Crashed i acked) (pd_img d) ops.
Proof.
  intros d acked level size seq d' ops IE Hok Hfl.
  apply (all_crash_impl (fun i => CSE i acked)); [intros i H; right; exact H|].
  apply (flush_step_c d acked level size seq d' ops IE Hok Hfl).
Qed.

Theorem install_step_crashed : forall d acked deleted added pointers seq d' ops,
  InvE d acked ->
  install_okb d deleted added pointers seq = true ->
  install_preserves d deleted added pointers seq ->
  p_install d deleted added pointers seq = Some (d', ops) ->
  all_crash (fun i => Crashed i acked) (pd_img d) ops.
Proof.
  intros d acked deleted added pointers seq d' ops IE Hok HP Hin.
  apply (all_crash_impl (fun i => CSE i acked)); [intros i H; right; exact H|].
  apply (install_step_c d acked deleted added pointers seq d' ops IE Hok HP Hin).
Qed.

(** * Histories: sessions that end in a crash or cleanly; the next session opens what is left *)
Definition session := (list pop * option (nat * option nat))%type.

Definition session_start (img : image) : prun := mkPR img None false.

(** the directory after the session: [None] = clean shutdown, [Some (n, torn)] = crash point *)
Definition session_end (img : image) (s : session) : image :=
  let r := p_run (session_start img) (fst s) in
  match snd s with
  | None => pr_img (fst r)
  | Some (n, torn) => crash_image img (snd r) n torn
  end.

(** the batches of the session that its end preserves; [seq] = the last sequence number before it *)
Definition session_keeps (img : image) (seq : N) (s : session) : list batch :=
  match snd s with
  | None => acked_batches seq (fst s)
  | Some (n, torn) => firstn (crash_k (session_start img) (fst s) n torn) (acked_batches seq (fst s))
  end.

Fixpoint hist_end (img : image) (bs : list batch) (h : list session) : image * list batch :=
  match h with
  | [] => (img, bs)
  | s :: r => hist_end (session_end img s) (bs ++ session_keeps img (nops bs) s) r
  end.

(** side conditions: every session satisfies [run_ok] / [run_okP], does not fail, and its crash point
    lies within its effects *)
Definition session_okP (img : image) (s : session) : Prop :=
  run_okP (session_start img) (fst s) /\
  pr_failed (fst (p_run (session_start img) (fst s))) = false /\
  match snd s with
  | None => True
  | Some (n, _) => (n <= length (snd (p_run (session_start img) (fst s))))%nat
  end.

Fixpoint hist_okP (img : image) (h : list session) : Prop :=
  match h with
  | [] => True
  | s :: r => session_okP img s /\ hist_okP (session_end img s) r
  end.

Definition session_ok (img : image) (s : session) : bool :=
  run_ok (session_start img) (fst s)
  && negb (pr_failed (fst (p_run (session_start img) (fst s))))
  && match snd s with
     | None => true
     | Some (n, _) => (n <=? length (snd (p_run (session_start img) (fst s))))%nat
     end.

Fixpoint hist_ok (img : image) (h : list session) : bool :=
  match h with
  | [] => true
  | s :: r => session_ok img s && hist_ok (session_end img s) r
  end.

Lemma session_ok_okP img s : session_ok img s = true -> session_okP img s.
Proof.
  unfold session_ok, session_okP. intros H. apply andb_true_iff in H. destruct H as [H H3].
  apply andb_true_iff in H. destruct H as [H1 H2]. apply negb_true_iff in H2.
  split; [apply run_ok_okP; exact H1|]. split; [exact H2|].
  destruct (snd s) as [[n t]|]; [apply Nat.leb_le; exact H3|exact I].
Qed.

Lemma hist_ok_okP : forall h img, hist_ok img h = true -> hist_okP img h.
Proof.
  induction h as [|s r IH]; intros img H; [exact I|]. cbn [hist_ok] in H.
  apply andb_true_iff in H. destruct H as [H1 H2]. split; [apply session_ok_okP; exact H1|apply IH; exact H2].
Qed.
