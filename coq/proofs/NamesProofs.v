(** File names: [file_name] / [parse_name] round trips ([model/Names.v]). *)
From Coq Require Import Lia Arith Ascii String.
From RainVerif.model Require Import Bytes Names.
Open Scope N_scope.

Lemma two64 : 2 ^ 64 = 18446744073709551616.
Proof. reflexivity. Qed.

(** ** vocabulary used by the statements *)

(** an ASCII decimal digit *)
Definition is_digit (c : N) : Prop := 48 <= c /\ c <= 57.

(** the value of a digit string read left to right starting from [acc] *)
Definition dec_val (l : bytes) (acc : N) : N := fold_left (fun a c => a * 10 + (c - 48)) l acc.

(** the number carried by a kind fits [u64] *)
Definition kind_ok (k : fkind) : Prop :=
  match k with
  | KManifest n | KWal n | KTable n | KTemp n => n < 2 ^ 64
  | KCurrent | KLock => True
  end.

(** ASCII bytes of a Coq string literal (for readable examples) *)
Definition str (s : string) : bytes := map N_of_ascii (list_ascii_of_string s).

(** ** [bytes_eqb] decides equality *)

Lemma bytes_cmp_eq : forall a b, bytes_cmp a b = Eq <-> a = b.
Proof.
  induction a as [|x a IH]; destruct b as [|y b]; cbn [bytes_cmp]; try (split; congruence).
  destruct (N.compare_spec x y) as [E|L|L].
  - subst. rewrite IH. split; congruence.
  - split; [discriminate|]. intros H; inversion H; lia.
  - split; [discriminate|]. intros H; inversion H; lia.
Qed.

Lemma bytes_eqb_eq : forall a b, bytes_eqb a b = true <-> a = b.
Proof.
  intros a b. unfold bytes_eqb. rewrite <- bytes_cmp_eq.
  destruct (bytes_cmp a b); split; congruence.
Qed.

(** ** [parse_digits] *)

Lemma dec_val_cons : forall c r acc, dec_val (c :: r) acc = dec_val r (acc * 10 + (c - 48)).
Proof. reflexivity. Qed.

Lemma dec_val_mono : forall l acc, acc <= dec_val l acc.
Proof.
  induction l as [|c r IH]; intros acc.
  - cbn. lia.
  - rewrite dec_val_cons. eapply N.le_trans; [|apply IH]. lia.
Qed.

Lemma parse_digits_app : forall l1 l2 acc,
  parse_digits (l1 ++ l2) acc =
  match parse_digits l1 acc with Some v => parse_digits l2 v | None => None end.
Proof.
  induction l1 as [|c r IH]; intros l2 acc; cbn [app parse_digits]; [reflexivity|].
  destruct ((48 <=? c) && (c <=? 57)); [|reflexivity].
  cbv zeta. destruct (18446744073709551615 <? acc * 10 + (c - 48)); [reflexivity|apply IH].
Qed.

Lemma parse_digits_one : forall c acc, is_digit c -> acc * 10 + (c - 48) < 2 ^ 64 ->
  parse_digits [c] acc = Some (acc * 10 + (c - 48)).
Proof.
  intros c acc [H1 H2] H. rewrite two64 in H. cbn [parse_digits]. cbv zeta.
  destruct (N.leb_spec 48 c); [|lia]. destruct (N.leb_spec c 57); [|lia]. cbn [andb].
  destruct (N.ltb_spec 18446744073709551615 (acc * 10 + (c - 48))); [lia|reflexivity].
Qed.

(** [parse_digits] succeeds exactly on digit strings whose value stays below 2^64 *)
Lemma parse_digits_some_iff : forall l acc v, acc < 2 ^ 64 ->
  (parse_digits l acc = Some v <-> Forall is_digit l /\ dec_val l acc = v /\ v < 2 ^ 64).
Proof.
  rewrite two64. induction l as [|c r IH]; intros acc v Hacc.
  - cbn. split.
    + intros H; inversion H; subst; auto.
    + intros (_ & <- & _); reflexivity.
  - rewrite dec_val_cons. cbn [parse_digits]. cbv zeta.
    destruct (N.leb_spec 48 c) as [L1|L1]; destruct (N.leb_spec c 57) as [L2|L2]; cbn [andb];
      try (split; [discriminate|]; intros (F & _); inversion F as [|? ? [? ?] ?]; lia).
    destruct (N.ltb_spec 18446744073709551615 (acc * 10 + (c - 48))) as [L3|L3].
    + split; [discriminate|]. intros (_ & E & Hv).
      pose proof (dec_val_mono r (acc * 10 + (c - 48))). lia.
    + rewrite IH by lia. split; intros (F & E & Hv); repeat split; auto.
      * constructor; [split|]; auto.
      * inversion F; auto.
Qed.

(** ** [parse_u64] *)

Lemma parse_u64_cons : forall c r,
  parse_u64 (c :: r) =
  if c =? 43 then match r with [] => None | _ => parse_digits r 0 end else parse_digits (c :: r) 0.
Proof.
  intros c r. destruct (N.eqb_spec c 43) as [->|Hc]; [destruct r; reflexivity|].
  unfold parse_u64. destruct c as [|p]; [reflexivity|].
  repeat (destruct p as [p|p|]; try reflexivity; try (exfalso; apply Hc; reflexivity)).
Qed.

(** how a number may be spelled: an optional '+', then at least one digit, value below 2^64 *)
Definition spells (ds : bytes) (n : N) : Prop :=
  exists body, (ds = body \/ ds = 43 :: body) /\ body <> [] /\ Forall is_digit body /\
               dec_val body 0 = n /\ n < 2 ^ 64.

Lemma parse_u64_some_iff : forall ds n, parse_u64 ds = Some n <-> spells ds n.
Proof.
  intros ds n. unfold spells. destruct ds as [|c r].
  - cbn. split; [discriminate|]. intros (b & [E|E] & Hb & _); [subst; congruence|discriminate].
  - rewrite parse_u64_cons. destruct (N.eqb_spec c 43) as [->|Hc].
    + destruct r as [|c' r'].
      * split; [discriminate|]. intros (b & [E|E] & Hb & F & _).
        -- subst b. inversion F as [|? ? [? ?] ?]; lia.
        -- inversion E; subst; congruence.
      * rewrite parse_digits_some_iff by (rewrite two64; lia). split.
        -- intros (F & E & Hv). exists (c' :: r'). split; [right; reflexivity|].
           split; [discriminate|]. auto.
        -- intros (b & [E|E] & Hb & F & Ev & Hv).
           ++ subst b. inversion F as [|? ? [? ?] ?]; lia.
           ++ inversion E; subst b. auto.
    + rewrite parse_digits_some_iff by (rewrite two64; lia). split.
      * intros (F & E & Hv). exists (c :: r). split; [left; reflexivity|].
        split; [discriminate|]. auto.
      * intros (b & [E|E] & Hb & F & Ev & Hv).
        -- subst b; auto.
        -- inversion E; congruence.
Qed.

Lemma parse_u64_bound : forall ds n, parse_u64 ds = Some n -> n < 2 ^ 64.
Proof. intros ds n H. apply parse_u64_some_iff in H. destruct H as (b & _ & _ & _ & _ & H). exact H. Qed.

Lemma parse_u64_nonempty : forall ds n, parse_u64 ds = Some n -> ds <> [].
Proof. intros ds n H E. subst. discriminate. Qed.

(** a digit string worth 2^64 or more is rejected, with or without a '+' *)
Lemma parse_u64_overflow : forall ds, Forall is_digit ds -> 2 ^ 64 <= dec_val ds 0 ->
  parse_u64 ds = None /\ parse_u64 (43 :: ds) = None.
Proof.
  intros ds F Hv. split.
  - destruct (parse_u64 ds) as [n|] eqn:P; [|reflexivity]. exfalso.
    apply parse_u64_some_iff in P. destruct P as (b & [E|E] & _ & _ & Ev & Hn).
    + subst b. lia.
    + subst ds. inversion F as [|? ? [? ?] ?]; lia.
  - destruct (parse_u64 (43 :: ds)) as [n|] eqn:P; [|reflexivity]. exfalso.
    apply parse_u64_some_iff in P. destruct P as (b & [E|E] & _ & Fb & Ev & Hn).
    + subst b. inversion Fb as [|? ? [? ?] ?]; lia.
    + inversion E; subst b. lia.
Qed.

(** ** [digits] *)

Lemma digits_fuel_acc : forall f n acc, digits_fuel f n acc = digits_fuel f n [] ++ acc.
Proof.
  induction f as [|f IH]; intros n acc; cbn [digits_fuel]; [reflexivity|].
  destruct (n <? 10); [reflexivity|].
  rewrite IH, (IH _ [_]), <- app_assoc. reflexivity.
Qed.

Lemma digits_fuel_S : forall f n,
  digits_fuel (S f) n [] =
  if n <? 10 then [48 + n] else digits_fuel f (n / 10) [] ++ [48 + n mod 10].
Proof.
  intros f n. cbn [digits_fuel]. destruct (n <? 10); [reflexivity|apply digits_fuel_acc].
Qed.

Definition digits_ok (n : N) (l : bytes) : Prop :=
  l <> [] /\ Forall is_digit l /\ (n <> 0 -> exists d r, l = d :: r /\ 49 <= d) /\
  (n < 2 ^ 64 -> parse_digits l 0 = Some n).

Lemma digits_ok_small : forall n, n < 10 -> digits_ok n [48 + n].
Proof.
  intros n Hn. split; [discriminate|]. split.
  - constructor; [unfold is_digit; lia|constructor].
  - split.
    + intros Hz. exists (48 + n), []. split; [reflexivity|lia].
    + intros Hb. rewrite parse_digits_one.
      * f_equal. lia.
      * unfold is_digit; lia.
      * rewrite two64. lia.
Qed.

Lemma digits_ok_step : forall n l, 10 <= n -> digits_ok (n / 10) l ->
  digits_ok n (l ++ [48 + n mod 10]).
Proof.
  intros n l Hn (H1 & H2 & H3 & H4).
  assert (Hdm := N.div_mod n 10). assert (Hr := N.mod_lt n 10).
  set (q := n / 10) in *. set (r := n mod 10) in *.
  assert (Hq : n = 10 * q + r) by (apply Hdm; lia). assert (Hr' : r < 10) by (apply Hr; lia).
  clear Hdm Hr. rewrite two64 in *.
  split; [intros E; apply app_eq_nil in E; destruct E; discriminate|]. split.
  - apply Forall_app. split; [exact H2|]. constructor; [unfold is_digit; lia|constructor].
  - split.
    + intros _. destruct H3 as (d & r' & -> & Hd); [lia|].
      exists d, (r' ++ [48 + r]). split; [reflexivity|exact Hd].
    + intros Hb. rewrite parse_digits_app, H4 by lia. rewrite parse_digits_one.
      * f_equal. lia.
      * unfold is_digit; lia.
      * rewrite two64. lia.
Qed.

Lemma digits_fuel_ok : forall f n, n < 10 ^ N.of_nat (S f) -> digits_ok n (digits_fuel (S f) n []).
Proof.
  induction f as [|f IH]; intros n Hn; rewrite digits_fuel_S; destruct (N.ltb_spec n 10) as [L|L].
  - apply digits_ok_small; exact L.
  - exfalso. change (10 ^ N.of_nat 1) with 10 in Hn. lia.
  - apply digits_ok_small; exact L.
  - apply digits_ok_step; [exact L|]. apply IH.
    rewrite Nat2N.inj_succ, N.pow_succ_r' in Hn. apply N.div_lt_upper_bound; [lia|exact Hn].
Qed.

Lemma digits_is_ok : forall n, n < 2 ^ 64 -> digits_ok n (digits n).
Proof.
  intros n Hn. unfold digits. apply (digits_fuel_ok 24).
  eapply N.lt_trans; [exact Hn|reflexivity].
Qed.

Lemma parse_u64_digits : forall n, n < 2 ^ 64 -> parse_u64 (digits n) = Some n.
Proof.
  intros n Hn. destruct (digits_is_ok n Hn) as (H1 & H2 & _ & H4).
  destruct (digits n) as [|c r] eqn:E; [congruence|].
  rewrite parse_u64_cons. inversion H2 as [|? ? [? ?] ?]; subst.
  destruct (N.eqb_spec c 43); [lia|]. apply H4; exact Hn.
Qed.

(** T1 *)
Lemma digits_props : forall n, n < 2 ^ 64 ->
  digits n <> [] /\ Forall is_digit (digits n) /\
  (forall r, digits n = 48 :: r -> n = 0) /\
  parse_digits (digits n) 0 = Some n /\ parse_u64 (digits n) = Some n /\ dec_val (digits n) 0 = n.
Proof.
  intros n Hn. destruct (digits_is_ok n Hn) as (H1 & H2 & H3 & H4).
  split; [exact H1|]. split; [exact H2|]. split.
  - intros r E. destruct (N.eq_dec n 0) as [Z|Z]; [exact Z|].
    destruct (H3 Z) as (d & r' & E' & Hd). rewrite E in E'. inversion E'; subst. lia.
  - split; [apply H4; exact Hn|]. split; [apply parse_u64_digits; exact Hn|].
    specialize (H4 Hn). apply parse_digits_some_iff in H4; [|rewrite two64; lia].
    destruct H4 as (_ & E & _). exact E.
Qed.

Lemma digits_zero : digits 0 = [48].
Proof. reflexivity. Qed.

(** ** stems and extensions *)

Lemma last_dot_nodot : forall l i found, ~ In DOT l -> last_dot l i found = found.
Proof.
  induction l as [|a l IH]; intros i found H; cbn [last_dot]; [reflexivity|].
  destruct (N.eqb_spec a DOT) as [E|E].
  - exfalso. apply H. left. exact E.
  - apply IH. intros HI. apply H. right. exact HI.
Qed.

Lemma last_dot_app_dot : forall a b i found, ~ In DOT b ->
  last_dot (a ++ DOT :: b) i found = Some (i + length a)%nat.
Proof.
  induction a as [|x a IH]; intros b i found H; cbn [app last_dot length].
  - rewrite N.eqb_refl, last_dot_nodot by exact H. f_equal. lia.
  - rewrite IH by exact H. f_equal. lia.
Qed.

Lemma last_dot_inv : forall l i found j, last_dot l i found = Some j ->
  (found = Some j /\ ~ In DOT l) \/
  (exists a b, l = a ++ DOT :: b /\ ~ In DOT b /\ j = (i + length a)%nat).
Proof.
  induction l as [|x l IH]; intros i found j H; cbn [last_dot] in H.
  - left. split; [exact H|intros []].
  - apply IH in H. destruct H as [[H1 H2]|(a' & b & -> & Hb & ->)].
    + destruct (N.eqb_spec x DOT) as [E|E].
      * right. exists [], l. subst x. cbn [app length]. split; [reflexivity|]. split; [exact H2|].
        inversion H1. lia.
      * left. split; [exact H1|]. intros [HI|HI]; [apply E; exact HI|apply H2; exact HI].
    + right. exists (x :: a'), b. cbn [app length]. split; [reflexivity|]. split; [exact Hb|lia].
Qed.

Lemma firstn_length_app : forall (a b : bytes), firstn (length a) (a ++ b) = a.
Proof. induction a as [|x a IH]; intros b; cbn; [reflexivity|rewrite IH; reflexivity]. Qed.

Lemma skipn_S_length_app : forall (a : bytes) x b, skipn (S (length a)) (a ++ x :: b) = b.
Proof. induction a as [|y a IH]; intros x b; cbn; [reflexivity|apply IH]. Qed.

Lemma split_ext_app : forall stem ext, stem <> [] -> ~ In DOT ext ->
  split_ext (stem ++ DOT :: ext) = Some (stem, ext).
Proof.
  intros stem ext Hs He. unfold split_ext. rewrite last_dot_app_dot by exact He.
  destruct stem as [|x stem]; [congruence|]. cbn [Nat.add length].
  change (S (length stem)) with (length (x :: stem)).
  rewrite firstn_length_app, skipn_S_length_app. reflexivity.
Qed.

Lemma split_ext_leading_dot : forall ext, ~ In DOT ext -> split_ext (DOT :: ext) = None.
Proof.
  intros ext He. unfold split_ext. rewrite (last_dot_app_dot [] ext) by exact He. reflexivity.
Qed.

Lemma split_ext_nodot : forall s, ~ In DOT s -> split_ext s = None.
Proof. intros s H. unfold split_ext. rewrite last_dot_nodot by exact H. reflexivity. Qed.

Lemma split_ext_inv : forall s stem ext, split_ext s = Some (stem, ext) ->
  s = stem ++ DOT :: ext /\ stem <> [] /\ ~ In DOT ext.
Proof.
  intros s stem ext H. unfold split_ext in H.
  destruct (last_dot s 0 None) as [j|] eqn:E; [|discriminate].
  destruct j as [|j]; [discriminate|].
  assert (H1 : stem = firstn (S j) s /\ ext = skipn (S (S j)) s) by (split; congruence).
  destruct H1 as [-> ->]. clear H.
  apply last_dot_inv in E. destruct E as [[E _]|(a & b & -> & Hb & Hj)]; [discriminate|].
  cbn [Nat.add] in Hj. rewrite Hj, firstn_length_app, skipn_S_length_app.
  split; [reflexivity|]. split; [|exact Hb]. intros ->. discriminate.
Qed.

Lemma strip_prefix_app : forall p l, strip_prefix p (p ++ l) = Some l.
Proof.
  induction p as [|x p IH]; intros l; cbn [app strip_prefix]; [reflexivity|].
  rewrite N.eqb_refl. apply IH.
Qed.

Lemma strip_prefix_inv : forall p s r, strip_prefix p s = Some r -> s = p ++ r.
Proof.
  induction p as [|x p IH]; intros s r H.
  - cbn in H. inversion H. reflexivity.
  - destruct s as [|y s]; cbn [strip_prefix] in H; [discriminate|].
    destruct (N.eqb_spec x y) as [->|]; [|discriminate]. apply IH in H. subst. reflexivity.
Qed.

Lemma parse_number_app : forall pre ds, parse_number (pre ++ ds) pre = parse_u64 ds.
Proof. intros. unfold parse_number. rewrite strip_prefix_app. reflexivity. Qed.

Lemma parse_number_inv : forall (K : N -> fkind) stem pre k,
  option_map K (parse_number stem pre) = Some k ->
  exists ds n, k = K n /\ parse_u64 ds = Some n /\ stem = pre ++ ds.
Proof.
  intros K stem pre k H. unfold parse_number in H.
  destruct (strip_prefix pre stem) as [l|] eqn:E; [|discriminate]. apply strip_prefix_inv in E.
  destruct (parse_u64 l) as [n|] eqn:P; [|discriminate]. cbn in H. inversion H.
  exists l, n. auto.
Qed.

(** ** no dots where none are expected *)

Ltac nodot := vm_compute; intuition discriminate.
Lemma no_dot_CURRENT : ~ In DOT ascii_CURRENT. Proof. nodot. Qed.
Lemma no_dot_LOCK : ~ In DOT ascii_LOCK. Proof. nodot. Qed.
Lemma no_dot_manifest : ~ In DOT ext_manifest. Proof. nodot. Qed.
Lemma no_dot_log : ~ In DOT ext_log. Proof. nodot. Qed.
Lemma no_dot_rdb : ~ In DOT ext_rdb. Proof. nodot. Qed.
Lemma no_dot_dbtemp : ~ In DOT ext_dbtemp. Proof. nodot. Qed.

(** ** [parse_name] on a name with a non-empty stem and a dot-free extension *)

Lemma parse_name_dotted : forall stem ext, stem <> [] -> ~ In DOT ext ->
  parse_name (stem ++ DOT :: ext) =
    if bytes_eqb ext ext_manifest then option_map KManifest (parse_number stem ascii_MANIFEST_dash)
    else if bytes_eqb ext ext_log then option_map KWal (parse_number stem ascii_wal_dash)
    else if bytes_eqb ext ext_rdb then option_map KTable (parse_number stem [])
    else if bytes_eqb ext ext_dbtemp then option_map KTemp (parse_number stem [])
    else None.
Proof.
  intros stem ext Hs He. unfold parse_name.
  assert (HI : In DOT (stem ++ DOT :: ext)) by (apply in_or_app; right; left; reflexivity).
  destruct (bytes_eqb (stem ++ DOT :: ext) ascii_CURRENT) eqn:E1.
  { apply bytes_eqb_eq in E1. rewrite E1 in HI. destruct (no_dot_CURRENT HI). }
  destruct (bytes_eqb (stem ++ DOT :: ext) ascii_LOCK) eqn:E2.
  { apply bytes_eqb_eq in E2. rewrite E2 in HI. destruct (no_dot_LOCK HI). }
  rewrite split_ext_app by assumption. reflexivity.
Qed.

Lemma parse_name_leading_dot : forall ext, ~ In DOT ext -> parse_name (DOT :: ext) = None.
Proof.
  intros ext He. unfold parse_name.
  assert (HI : In DOT (DOT :: ext)) by (left; reflexivity).
  destruct (bytes_eqb (DOT :: ext) ascii_CURRENT) eqn:E1.
  { apply bytes_eqb_eq in E1. rewrite E1 in HI. destruct (no_dot_CURRENT HI). }
  destruct (bytes_eqb (DOT :: ext) ascii_LOCK) eqn:E2.
  { apply bytes_eqb_eq in E2. rewrite E2 in HI. destruct (no_dot_LOCK HI). }
  rewrite split_ext_leading_dot by exact He. reflexivity.
Qed.

(** ** the four numbered shapes: the result is exactly what [parse_u64] says of the number part,
    whatever that part is *)

Lemma parse_name_manifest : forall ds,
  parse_name (ascii_MANIFEST_dash ++ ds ++ [DOT] ++ ext_manifest) = option_map KManifest (parse_u64 ds).
Proof.
  intros ds. rewrite (app_assoc ascii_MANIFEST_dash ds). cbn [app].
  change (77 :: 65 :: 78 :: 73 :: 70 :: 69 :: 83 :: 84 :: 45 :: ds)
    with (ascii_MANIFEST_dash ++ ds).
  rewrite parse_name_dotted; [|discriminate|exact no_dot_manifest].
  rewrite parse_number_app. reflexivity.
Qed.

Lemma parse_name_wal : forall ds,
  parse_name (ascii_wal_dash ++ ds ++ [DOT] ++ ext_log) = option_map KWal (parse_u64 ds).
Proof.
  intros ds. rewrite (app_assoc ascii_wal_dash ds). cbn [app].
  change (119 :: 97 :: 108 :: 45 :: ds) with (ascii_wal_dash ++ ds).
  rewrite parse_name_dotted; [|discriminate|exact no_dot_log].
  rewrite (parse_number_app ascii_wal_dash). reflexivity.
Qed.

Lemma parse_name_table : forall ds,
  parse_name (ds ++ [DOT] ++ ext_rdb) = option_map KTable (parse_u64 ds).
Proof.
  intros ds. cbn [app]. destruct ds as [|c r].
  - cbn [app]. rewrite parse_name_leading_dot by exact no_dot_rdb. reflexivity.
  - rewrite parse_name_dotted; [|discriminate|exact no_dot_rdb]. reflexivity.
Qed.

Lemma parse_name_temp : forall ds,
  parse_name (ds ++ [DOT] ++ ext_dbtemp) = option_map KTemp (parse_u64 ds).
Proof.
  intros ds. cbn [app]. destruct ds as [|c r].
  - cbn [app]. rewrite parse_name_leading_dot by exact no_dot_dbtemp. reflexivity.
  - rewrite parse_name_dotted; [|discriminate|exact no_dot_dbtemp]. reflexivity.
Qed.

Lemma parse_name_numbered : forall ds,
  parse_name (ascii_MANIFEST_dash ++ ds ++ [DOT] ++ ext_manifest) = option_map KManifest (parse_u64 ds) /\
  parse_name (ascii_wal_dash ++ ds ++ [DOT] ++ ext_log) = option_map KWal (parse_u64 ds) /\
  parse_name (ds ++ [DOT] ++ ext_rdb) = option_map KTable (parse_u64 ds) /\
  parse_name (ds ++ [DOT] ++ ext_dbtemp) = option_map KTemp (parse_u64 ds).
Proof.
  intros ds. split; [apply parse_name_manifest|]. split; [apply parse_name_wal|].
  split; [apply parse_name_table|apply parse_name_temp].
Qed.

(** ** T2: round trip *)

Theorem parse_file_name : forall k, kind_ok k -> parse_name (file_name k) = Some k.
Proof.
  intros k Hk. destruct k as [| |n|n|n|n]; cbn [file_name kind_ok] in *;
    try reflexivity.
  - rewrite parse_name_manifest, parse_u64_digits by exact Hk. reflexivity.
  - rewrite parse_name_wal, parse_u64_digits by exact Hk. reflexivity.
  - rewrite parse_name_table, parse_u64_digits by exact Hk. reflexivity.
  - rewrite parse_name_temp, parse_u64_digits by exact Hk. reflexivity.
Qed.

(** ** T3: injectivity *)

Theorem file_name_injective : forall k1 k2, kind_ok k1 -> kind_ok k2 ->
  file_name k1 = file_name k2 -> k1 = k2.
Proof.
  intros k1 k2 H1 H2 E. apply parse_file_name in H1. apply parse_file_name in H2.
  rewrite E in H1. rewrite H1 in H2. inversion H2. reflexivity.
Qed.

Corollary file_name_kinds_differ : forall n m, n < 2 ^ 64 -> m < 2 ^ 64 ->
  file_name (KTable n) <> file_name (KTemp m) /\
  file_name (KManifest n) <> file_name (KWal m) /\
  file_name (KTable n) <> file_name (KWal m) /\
  file_name (KTable n) <> file_name (KManifest m) /\
  file_name (KTemp n) <> file_name (KWal m) /\
  file_name (KTemp n) <> file_name (KManifest m).
Proof.
  intros n m Hn Hm.
  repeat split; intros E; apply file_name_injective in E; try discriminate; assumption.
Qed.

(** ** T4: what is recognised *)

Definition recognised (s : bytes) (k : fkind) : Prop :=
  match k with
  | KCurrent => s = ascii_CURRENT
  | KLock => s = ascii_LOCK
  | KManifest n =>
      exists ds, parse_u64 ds = Some n /\ s = ascii_MANIFEST_dash ++ ds ++ [DOT] ++ ext_manifest
  | KWal n => exists ds, parse_u64 ds = Some n /\ s = ascii_wal_dash ++ ds ++ [DOT] ++ ext_log
  | KTable n => exists ds, parse_u64 ds = Some n /\ s = ds ++ [DOT] ++ ext_rdb
  | KTemp n => exists ds, parse_u64 ds = Some n /\ s = ds ++ [DOT] ++ ext_dbtemp
  end.

Lemma parse_name_inv : forall s k, parse_name s = Some k -> recognised s k.
Proof.
  unfold parse_name. intros s k H.
  destruct (bytes_eqb s ascii_CURRENT) eqn:E1.
  { apply bytes_eqb_eq in E1. inversion H; subst k. exact E1. }
  destruct (bytes_eqb s ascii_LOCK) eqn:E2.
  { apply bytes_eqb_eq in E2. inversion H; subst k. exact E2. }
  destruct (split_ext s) as [[stem ext]|] eqn:Es; [|discriminate].
  apply split_ext_inv in Es. destruct Es as (Hs & _ & _). subst s.
  destruct (bytes_eqb ext ext_manifest) eqn:X1.
  { apply bytes_eqb_eq in X1; subst ext. apply parse_number_inv in H.
    destruct H as (ds & n & -> & P & ->). exists ds. split; [exact P|].
    rewrite <- app_assoc. reflexivity. }
  destruct (bytes_eqb ext ext_log) eqn:X2.
  { apply bytes_eqb_eq in X2; subst ext. apply parse_number_inv in H.
    destruct H as (ds & n & -> & P & ->). exists ds. split; [exact P|].
    rewrite <- app_assoc. reflexivity. }
  destruct (bytes_eqb ext ext_rdb) eqn:X3.
  { apply bytes_eqb_eq in X3; subst ext. apply parse_number_inv in H.
    destruct H as (ds & n & -> & P & ->). exists ds. split; [exact P|reflexivity]. }
  destruct (bytes_eqb ext ext_dbtemp) eqn:X4; [|discriminate].
  apply bytes_eqb_eq in X4; subst ext. apply parse_number_inv in H.
  destruct H as (ds & n & -> & P & ->). exists ds. split; [exact P|reflexivity].
Qed.

Theorem parse_name_iff : forall s k, parse_name s = Some k <-> recognised s k.
Proof.
  intros s k. split; [apply parse_name_inv|].
  destruct k as [| |n|n|n|n]; cbn [recognised].
  - intros ->. reflexivity.
  - intros ->. reflexivity.
  - intros (ds & P & ->). rewrite parse_name_manifest, P. reflexivity.
  - intros (ds & P & ->). rewrite parse_name_wal, P. reflexivity.
  - intros (ds & P & ->). rewrite parse_name_table, P. reflexivity.
  - intros (ds & P & ->). rewrite parse_name_temp, P. reflexivity.
Qed.

(** whatever is recognised carries a number that fits [u64] *)
Lemma parse_name_kind_ok : forall s k, parse_name s = Some k -> kind_ok k.
Proof.
  intros s k H. apply parse_name_inv in H.
  destruct k as [| |n|n|n|n]; cbn [recognised kind_ok] in *; try exact I;
    destruct H as (ds & P & _); exact (parse_u64_bound _ _ P).
Qed.

(** a recognised name and the canonical name of its kind are recognised alike (aliases) *)
Lemma parse_name_canonical : forall s k, parse_name s = Some k -> parse_name (file_name k) = Some k.
Proof. intros s k H. apply parse_file_name. exact (parse_name_kind_ok _ _ H). Qed.

(** ** T5: what is rejected *)

Lemma parse_name_empty : parse_name [] = None.
Proof. reflexivity. Qed.

Lemma parse_name_nodot : forall s, ~ In DOT s -> s <> ascii_CURRENT -> s <> ascii_LOCK ->
  parse_name s = None.
Proof.
  intros s Hd Hc Hl. unfold parse_name.
  destruct (bytes_eqb s ascii_CURRENT) eqn:E1. { apply bytes_eqb_eq in E1. contradiction. }
  destruct (bytes_eqb s ascii_LOCK) eqn:E2. { apply bytes_eqb_eq in E2. contradiction. }
  rewrite split_ext_nodot by exact Hd. reflexivity.
Qed.

(** a number worth 2^64 or more is rejected in all four shapes, with or without '+' *)
Lemma parse_name_overflow : forall ds, Forall is_digit ds -> 2 ^ 64 <= dec_val ds 0 ->
  forall ds', ds' = ds \/ ds' = 43 :: ds ->
  parse_name (ascii_MANIFEST_dash ++ ds' ++ [DOT] ++ ext_manifest) = None /\
  parse_name (ascii_wal_dash ++ ds' ++ [DOT] ++ ext_log) = None /\
  parse_name (ds' ++ [DOT] ++ ext_rdb) = None /\
  parse_name (ds' ++ [DOT] ++ ext_dbtemp) = None.
Proof.
  intros ds F Hv ds' Hds'. destruct (parse_u64_overflow ds F Hv) as [P1 P2].
  assert (P : parse_u64 ds' = None) by (destruct Hds' as [->| ->]; assumption).
  rewrite parse_name_manifest, parse_name_wal, parse_name_table, parse_name_temp, P.
  repeat split; reflexivity.
Qed.

(** an empty number is rejected in all four shapes *)
Lemma parse_name_empty_number :
  parse_name (ascii_MANIFEST_dash ++ [DOT] ++ ext_manifest) = None /\
  parse_name (ascii_wal_dash ++ [DOT] ++ ext_log) = None /\
  parse_name ([DOT] ++ ext_rdb) = None /\
  parse_name ([DOT] ++ ext_dbtemp) = None.
Proof. repeat split; reflexivity. Qed.

(** all names are 7-bit ASCII *)
Lemma file_name_ascii : forall k, kind_ok k -> Forall (fun b => b < 128) (file_name k).
Proof.
  assert (D : forall n, n < 2 ^ 64 -> Forall (fun b => b < 128) (digits n)).
  { intros n Hn. destruct (digits_is_ok n Hn) as (_ & F & _).
    eapply Forall_impl; [|exact F]. intros a [? ?]. lia. }
  assert (C : forall l, forallb (fun b => b <? 128) l = true -> Forall (fun b => b < 128) l).
  { intros l H. apply Forall_forall. intros x Hx. rewrite forallb_forall in H.
    apply N.ltb_lt. apply H. exact Hx. }
  intros k Hk. destruct k as [| |n|n|n|n]; cbn [file_name kind_ok] in *;
    repeat (apply Forall_app; split); try (apply D; exact Hk); apply C; reflexivity.
Qed.
