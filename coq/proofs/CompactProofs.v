(** Proofs for C07 (part a): the merge of a compaction ([compact_entries] = sort + the drop rule
    of [compact_tables]) is invisible to every reader at or above the smallest snapshot.
    No axioms. *)
From Coq Require Import Lia ZArith ZifyN ZifyBool ZifyNat Permutation Sorted.
From RainVerif Require Import Params.
From RainVerif.model Require Import Bytes Key Block Table TableSpec Version Lsm LsmSpec.
From RainVerif.proofs Require Import KeyProofs.
Open Scope N_scope.
Arguments N.add : simpl never.
Arguments N.sub : simpl never.
Arguments N.mul : simpl never.
Arguments N.div : simpl never.
Arguments N.modulo : simpl never.
Arguments N.eqb : simpl never.
Arguments N.ltb : simpl never.
Arguments N.leb : simpl never.
Arguments N.min : simpl never.
Arguments N.compare : simpl never.

Local Notation usr e := (ik_user (fst e)) (only parsing).
Local Notation sq e := (ik_seq (fst e)) (only parsing).

(** the identity of an entry: user key and sequence number *)
Definition key_of (e : entry) : bytes * N := (ik_user (fst e), ik_seq (fst e)).

(** entries are determined by their identity *)
Definition key_inj (es : list entry) : Prop :=
  forall e e', In e es -> In e' es -> key_of e = key_of e' -> e = e'.

(** * Generic facts *)

Lemma NoDup_map_inj {A B} (f : A -> B) (l : list A) :
  NoDup (map f l) -> forall a b, In a l -> In b l -> f a = f b -> a = b.
Proof.
  induction l as [|x r IH]; intros Hnd a b Ha Hb Hf; [destruct Ha|].
  cbn [map] in Hnd. apply NoDup_cons_iff in Hnd. destruct Hnd as [Hni Hnd].
  destruct Ha as [Ha|Ha], Hb as [Hb|Hb].
  - congruence.
  - subst a. exfalso. apply Hni. rewrite Hf. apply in_map. exact Hb.
  - subst b. exfalso. apply Hni. rewrite <- Hf. apply in_map. exact Ha.
  - apply IH; assumption.
Qed.

Lemma NoDup_key_inj es : NoDup (map key_of es) -> key_inj es.
Proof. intros H e e'. apply NoDup_map_inj. exact H. Qed.

Lemma NoDup_map_app_l {A B} (f : A -> B) (a b : list A) :
  NoDup (map f (a ++ b)) -> NoDup (map f a).
Proof.
  rewrite map_app. induction (map f a) as [|x r IH]; cbn [app]; intros H; [constructor|].
  apply NoDup_cons_iff in H. destruct H as [H1 H2]. constructor; [|apply IH; exact H2].
  intros Hx. apply H1. apply in_or_app. left; exact Hx.
Qed.

Lemma NoDup_map_app_r {A B} (f : A -> B) (a b : list A) :
  NoDup (map f (a ++ b)) -> NoDup (map f b).
Proof.
  rewrite map_app. induction (map f a) as [|x r IH]; cbn [app]; intros H; [exact H|].
  apply NoDup_cons_iff in H. apply IH. tauto.
Qed.

Lemma key_of_eq_iff a b : key_of a = key_of b <-> ikey_cmp (fst a) (fst b) = Eq.
Proof.
  unfold key_of. rewrite ikey_cmp_eq_iff. split.
  - intros H. injection H. auto.
  - intros [-> ->]. reflexivity.
Qed.

Lemma key_of_eq a b : usr a = usr b -> sq a = sq b -> key_of a = key_of b.
Proof. unfold key_of. intros -> ->. reflexivity. Qed.

(** a decidable form of [NoDup (map key_of _)] for the non-vacuity examples and the harness *)
Fixpoint keys_nodupb (l : list (bytes * N)) : bool :=
  match l with
  | [] => true
  | x :: r =>
      negb (existsb (fun y => bytes_eqb (fst x) (fst y) && (snd x =? snd y)) r) && keys_nodupb r
  end.

Lemma keys_nodupb_sound l : keys_nodupb l = true -> NoDup l.
Proof.
  induction l as [|x r IH]; cbn [keys_nodupb]; intros H; [constructor|].
  apply andb_true_iff in H. destruct H as [H1 H2]. constructor; [|apply IH; exact H2].
  intros Hx. apply negb_true_iff in H1.
  assert (E : existsb (fun y => bytes_eqb (fst x) (fst y) && (snd x =? snd y)) r = true).
  { apply existsb_exists. exists x. split; [exact Hx|].
    apply andb_true_iff. split; [apply bytes_eqb_iff; reflexivity | apply N.eqb_refl]. }
  congruence.
Qed.

(** * The internal key order on entries *)

Definition elt (a b : entry) : Prop := ikey_lt (fst a) (fst b).

Lemma ikey_lt_cases a b :
  ikey_lt a b <->
  bytes_cmp (ik_user a) (ik_user b) = Lt \/ (ik_user a = ik_user b /\ ik_seq b < ik_seq a).
Proof.
  unfold ikey_lt, ikey_cmp. destruct (bytes_cmp (ik_user a) (ik_user b)) eqn:E.
  - apply bytes_cmp_eq in E. split.
    + intros H. right. split; [exact E|]. apply N.compare_lt_iff. exact H.
    + intros [H|[_ H]]; [discriminate|]. apply N.compare_lt_iff. exact H.
  - split; auto.
  - split; [discriminate|]. intros [H|[H _]]; [discriminate|].
    rewrite H, bytes_cmp_refl in E. discriminate.
Qed.

Lemma ikey_lt_same_user a b : ikey_lt a b -> ik_user a = ik_user b -> ik_seq b < ik_seq a.
Proof.
  intros H Hu. apply ikey_lt_cases in H. destruct H as [H|[_ H]]; [|exact H].
  rewrite Hu, bytes_cmp_refl in H. discriminate.
Qed.

Lemma ikey_lt_sandwich a b c :
  ikey_lt a b -> ikey_lt b c -> ik_user a = ik_user c -> ik_user b = ik_user a.
Proof.
  intros H1 H2 Hu. apply ikey_lt_cases in H1. apply ikey_lt_cases in H2.
  destruct H1 as [H1|[H1 _]]; [|symmetry; exact H1]. exfalso.
  destruct H2 as [H2|[H2 _]].
  - pose proof (bytes_cmp_lt_trans _ _ _ H1 H2) as H. rewrite Hu, bytes_cmp_refl in H.
    discriminate.
  - rewrite H2, <- Hu, bytes_cmp_refl in H1. discriminate.
Qed.

Lemma sorted_entries_SS l : sorted_entries l = true <-> StronglySorted elt l.
Proof.
  induction l as [|e r IH].
  - split; [constructor | reflexivity].
  - destruct r as [|e' r'].
    + split; [intros _; constructor; constructor | reflexivity].
    + change (sorted_entries (e :: e' :: r'))
        with (ikey_ltb (fst e) (fst e') && sorted_entries (e' :: r')).
      rewrite andb_true_iff, ikey_ltb_iff, IH. split.
      * intros [H1 H2]. constructor; [exact H2|]. constructor; [exact H1|].
        apply StronglySorted_inv in H2. destruct H2 as [_ H2].
        eapply Forall_impl; [|exact H2]. intros a Ha. unfold elt in *.
        eapply ikey_lt_trans; eassumption.
      * intros H. apply StronglySorted_inv in H. destruct H as [H1 H2]. split; [|exact H1].
        apply Forall_inv in H2. exact H2.
Qed.

(** * [sort_entries] *)

Lemma insert_entry_perm e l : Permutation (insert_entry e l) (e :: l).
Proof.
  induction l as [|x r IH]; cbn [insert_entry]; [reflexivity|].
  destruct (ikey_ltb (fst x) (fst e)); [|reflexivity].
  rewrite IH. apply perm_swap.
Qed.

Theorem sort_entries_perm l : Permutation (sort_entries l) l.
Proof.
  unfold sort_entries. induction l as [|e l IH]; cbn [fold_right]; [constructor|].
  rewrite insert_entry_perm. constructor. exact IH.
Qed.

Lemma sort_entries_In l e : In e (sort_entries l) <-> In e l.
Proof.
  split; apply Permutation_in; [|symmetry]; apply sort_entries_perm.
Qed.

Lemma insert_entry_SS e l :
  StronglySorted elt l ->
  (forall x, In x l -> ikey_cmp (fst e) (fst x) <> Eq) ->
  StronglySorted elt (insert_entry e l).
Proof.
  induction l as [|x r IH]; intros Hs Hne; cbn [insert_entry].
  - constructor; constructor.
  - apply StronglySorted_inv in Hs. destruct Hs as [Hr Hx].
    destruct (ikey_ltb (fst x) (fst e)) eqn:E.
    + constructor.
      * apply IH; [exact Hr|]. intros y Hy. apply Hne. right; exact Hy.
      * apply Forall_forall. intros y Hy.
        apply (Permutation_in _ (insert_entry_perm e r)) in Hy. destruct Hy as [<-|Hy].
        -- apply ikey_ltb_iff. exact E.
        -- rewrite Forall_forall in Hx. apply Hx. exact Hy.
    + assert (L : elt e x).
      { apply ikey_ltb_false_iff in E. apply ikey_le_iff in E. destruct E as [E|E]; [exact E|].
        exfalso. apply (Hne x); [left; reflexivity | exact E]. }
      constructor; [constructor; assumption|].
      constructor; [exact L|]. eapply Forall_impl; [|exact Hx].
      intros a Ha. unfold elt in *. eapply ikey_lt_trans; eassumption.
Qed.

Lemma sort_entries_SS l : NoDup (map key_of l) -> StronglySorted elt (sort_entries l).
Proof.
  induction l as [|e l IH]; intros Hnd.
  - constructor.
  - cbn [map] in Hnd. apply NoDup_cons_iff in Hnd. destruct Hnd as [Hni Hnd].
    change (sort_entries (e :: l)) with (insert_entry e (sort_entries l)).
    apply insert_entry_SS; [apply IH; exact Hnd|].
    intros x Hx E. apply Hni. apply key_of_eq_iff in E. rewrite E.
    apply in_map. apply sort_entries_In. exact Hx.
Qed.

Theorem sort_entries_sorted l :
  NoDup (map key_of l) -> sorted_entries (sort_entries l) = true.
Proof. intros H. apply sorted_entries_SS. apply sort_entries_SS. exact H. Qed.

(** * The drop rule *)

(** [e] is shadowed: a newer entry of its user key is visible to every live reader *)
Definition hidden_in (ss : N) (es : list entry) (e : entry) : Prop :=
  exists p, In p es /\ usr p = usr e /\ sq e < sq p /\ sq p <= ss.

(** [e] is an obsolete deletion marker *)
Definition tombb (ss : N) (base : bytes -> bool) (e : entry) : bool :=
  (ik_op (fst e) =? OP_DELETE) && (sq e <=? ss) && base (usr e).

Definition dropb (ss : N) (base : bytes -> bool) (cur : option bytes) (last : N) (e : entry)
  : bool :=
  let fresh := match cur with
               | Some u => negb (bytes_eqb u (usr e))
               | None => true
               end in
  ((if fresh then MAX_SEQ else last) <=? ss) || tombb ss base e.

Lemma drop_loop_cons ss base x r cur last :
  drop_loop ss base (x :: r) cur last =
  if dropb ss base cur last x
  then drop_loop ss base r (Some (usr x)) (sq x)
  else x :: drop_loop ss base r (Some (usr x)) (sq x).
Proof. destruct x as [k v]. reflexivity. Qed.

Lemma drop_loop_incl ss base es : forall cur last e,
  In e (drop_loop ss base es cur last) -> In e es.
Proof.
  induction es as [|x r IH]; intros cur last e H; [exact H|].
  rewrite drop_loop_cons in H. destruct (dropb ss base cur last x).
  - right. eapply IH; exact H.
  - destruct H as [H|H]; [left; exact H | right; eapply IH; exact H].
Qed.

Lemma drop_loop_SS ss base es : forall cur last,
  StronglySorted elt es -> StronglySorted elt (drop_loop ss base es cur last).
Proof.
  induction es as [|x r IH]; intros cur last Hs; [constructor|].
  apply StronglySorted_inv in Hs. destruct Hs as [Hr Hx].
  rewrite drop_loop_cons. destruct (dropb ss base cur last x).
  - apply IH. exact Hr.
  - constructor; [apply IH; exact Hr|].
    apply Forall_forall. intros y Hy. apply drop_loop_incl in Hy.
    rewrite Forall_forall in Hx. apply Hx. exact Hy.
Qed.

Lemma dropb_some ss base up sp x :
  ss < MAX_SEQ ->
  (dropb ss base (Some up) sp x = true <-> (up = usr x /\ sp <= ss) \/ tombb ss base x = true).
Proof.
  intros Hss. unfold dropb. destruct (bytes_eqb up (usr x)) eqn:E; cbn [negb].
  - apply bytes_eqb_iff in E. rewrite orb_true_iff, N.leb_le. tauto.
  - assert (L : (MAX_SEQ <=? ss) = false) by (apply N.leb_gt; exact Hss).
    rewrite L. cbn [orb]. split; [auto|]. intros [[H _]|H]; [|exact H].
    apply bytes_eqb_iff in H. congruence.
Qed.

Lemma dropb_none ss base last x :
  ss < MAX_SEQ -> dropb ss base None last x = tombb ss base x.
Proof.
  intros Hss. unfold dropb.
  assert (L : (MAX_SEQ <=? ss) = false) by (apply N.leb_gt; exact Hss).
  rewrite L. reflexivity.
Qed.

Lemma hidden_in_incl ss es es' e :
  (forall x, In x es -> In x es') -> hidden_in ss es e -> hidden_in ss es' e.
Proof. intros Hi (p & Hp & H). exists p. split; [apply Hi; exact Hp | exact H]. Qed.

Lemma not_hidden_head ss x r : StronglySorted elt (x :: r) -> ~ hidden_in ss (x :: r) x.
Proof.
  intros Hs (p & Hp & Hu & Hlt & _). apply StronglySorted_inv in Hs. destruct Hs as [_ Hx].
  destruct Hp as [<-|Hp]; [lia|].
  rewrite Forall_forall in Hx. specialize (Hx p Hp). unfold elt in Hx.
  apply ikey_lt_same_user in Hx; [lia | symmetry; exact Hu].
Qed.

(** the loop started after a previous entry [p]: an entry survives iff it is neither shadowed
    (by [p] or by an entry of the rest) nor an obsolete deletion marker *)
Lemma drop_loop_In_some ss base (Hss : ss < MAX_SEQ) : forall es p e,
  StronglySorted elt (p :: es) ->
  (In e (drop_loop ss base es (Some (usr p)) (sq p)) <->
   In e es /\ ~ hidden_in ss (p :: es) e /\ tombb ss base e = false).
Proof.
  induction es as [|x r IH]; intros p e Hs.
  - cbn [drop_loop In]. tauto.
  - rewrite drop_loop_cons.
    pose proof Hs as Hs0.
    apply StronglySorted_inv in Hs0. destruct Hs0 as [Hs1 Hp].
    specialize (IH x e Hs1).
    pose proof Hs1 as Hs2. apply StronglySorted_inv in Hs2. destruct Hs2 as [_ Hx].
    rewrite Forall_forall in Hx.
    assert (Hpx : elt p x) by (apply Forall_inv in Hp; exact Hp).
    pose proof (dropb_some ss base (usr p) (sq p) x Hss) as HD.
    split.
    + intros H.
      assert (H' : (dropb ss base (Some (usr p)) (sq p) x = false /\ e = x)
                   \/ In e (drop_loop ss base r (Some (usr x)) (sq x))).
      { destruct (dropb ss base (Some (usr p)) (sq p) x); [right; exact H|].
        destruct H as [H|H]; [left; split; [reflexivity|symmetry; exact H] | right; exact H]. }
      clear H. destruct H' as [[Hd ->]|H].
      * split; [left; reflexivity|]. split.
        -- intros (p' & Hp' & Hu & Hlt & Hle).
           destruct Hp' as [<-|Hp'].
           ++ assert (dropb ss base (Some (usr p)) (sq p) x = true)
                by (apply HD; left; split; assumption).
              congruence.
           ++ apply (not_hidden_head ss x r Hs1). exists p'. repeat split; assumption.
        -- destruct (tombb ss base x) eqn:T; [|reflexivity].
           assert (dropb ss base (Some (usr p)) (sq p) x = true) by (apply HD; right; reflexivity).
           congruence.
      * apply IH in H. destruct H as (Hin & Hnh & Ht).
        split; [right; exact Hin|]. split; [|exact Ht].
        intros (p' & Hp' & Hu & Hlt & Hle). apply Hnh.
        destruct Hp' as [<-|Hp'].
        -- (* [p] shadows [e]: then so does [x], which lies between them *)
           specialize (Hx e Hin). unfold elt in Hpx, Hx.
           pose proof (ikey_lt_sandwich _ _ _ Hpx Hx Hu) as Hux.
           pose proof (ikey_lt_same_user _ _ Hpx (eq_sym Hux)) as L1.
           assert (Hxe : usr x = usr e) by congruence.
           pose proof (ikey_lt_same_user _ _ Hx Hxe) as L2.
           exists x. split; [left; reflexivity|]. split; [exact Hxe|]. lia.
        -- exists p'. repeat split; assumption.
    + intros (Hin & Hnh & Ht).
      destruct Hin as [<-|Hin].
      * assert (Hd : dropb ss base (Some (usr p)) (sq p) x = false).
        { destruct (dropb ss base (Some (usr p)) (sq p) x) eqn:D; [|reflexivity].
          apply (proj1 (dropb_some ss base (usr p) (sq p) x Hss)) in D.
          destruct D as [[Hu Hle]|D]; [|congruence].
          exfalso. apply Hnh. exists p. split; [left; reflexivity|]. split; [exact Hu|].
          split; [|exact Hle]. unfold elt in Hpx. apply ikey_lt_same_user; assumption. }
        rewrite Hd. left; reflexivity.
      * assert (H : In e (drop_loop ss base r (Some (usr x)) (sq x))).
        { apply IH. split; [exact Hin|]. split; [|exact Ht].
          intros Hh. apply Hnh. eapply hidden_in_incl; [|exact Hh].
          intros y Hy. right; exact Hy. }
        destruct (dropb ss base (Some (usr p)) (sq p) x); [exact H | right; exact H].
Qed.

(** the loop from its initial state *)
Lemma drop_loop_In ss base (Hss : ss < MAX_SEQ) es e :
  StronglySorted elt es ->
  (In e (drop_loop ss base es None MAX_SEQ) <->
   In e es /\ ~ hidden_in ss es e /\ tombb ss base e = false).
Proof.
  intros Hs. destruct es as [|x r].
  - cbn [drop_loop In]. tauto.
  - rewrite drop_loop_cons, (dropb_none ss base MAX_SEQ x Hss).
    pose proof (drop_loop_In_some ss base Hss r x e Hs) as HL.
    split.
    + intros H.
      assert (H' : (tombb ss base x = false /\ e = x)
                   \/ In e (drop_loop ss base r (Some (usr x)) (sq x))).
      { destruct (tombb ss base x); [right; exact H|].
        destruct H as [H|H]; [left; split; [reflexivity|symmetry; exact H] | right; exact H]. }
      clear H. destruct H' as [[Ht ->]|H].
      * split; [left; reflexivity|]. split; [|exact Ht]. apply not_hidden_head. exact Hs.
      * apply HL in H. destruct H as (Hin & Hnh & Ht). split; [right; exact Hin|]. tauto.
    + intros (Hin & Hnh & Ht). destruct Hin as [<-|Hin].
      * rewrite Ht. left; reflexivity.
      * assert (H : In e (drop_loop ss base r (Some (usr x)) (sq x))) by (apply HL; tauto).
        destruct (tombb ss base x); [exact H | right; exact H].
Qed.

(** * [compact_entries] *)

Theorem compact_entries_incl ss base inputs e :
  In e (compact_entries ss base inputs) -> In e (concat inputs).
Proof.
  unfold compact_entries. intros H. apply drop_loop_incl in H. apply sort_entries_In. exact H.
Qed.

Theorem compact_entries_sorted ss base inputs :
  NoDup (map key_of (concat inputs)) ->
  sorted_entries (compact_entries ss base inputs) = true.
Proof.
  intros H. apply sorted_entries_SS. unfold compact_entries. apply drop_loop_SS.
  apply sort_entries_SS. exact H.
Qed.

(** exactly which entries survive the merge *)
Theorem compact_entries_In ss base inputs e :
  ss < MAX_SEQ ->
  NoDup (map key_of (concat inputs)) ->
  (In e (compact_entries ss base inputs) <->
   In e (concat inputs) /\ ~ hidden_in ss (concat inputs) e /\ tombb ss base e = false).
Proof.
  intros Hss Hnd. unfold compact_entries.
  rewrite (drop_loop_In ss base Hss _ e (sort_entries_SS _ Hnd)).
  rewrite sort_entries_In.
  assert (Hh : hidden_in ss (sort_entries (concat inputs)) e <-> hidden_in ss (concat inputs) e).
  { split; apply hidden_in_incl; intros x; apply sort_entries_In. }
  rewrite Hh. reflexivity.
Qed.

(** the output has no duplicate identities either *)
Lemma SS_elt_NoDup_keys l : StronglySorted elt l -> NoDup (map key_of l).
Proof.
  induction 1 as [|x r Hr IH Hx]; cbn [map]; constructor; [|exact IH].
  intros Hin. apply in_map_iff in Hin. destruct Hin as (y & Hk & Hy).
  rewrite Forall_forall in Hx. specialize (Hx y Hy). unfold elt, ikey_lt in Hx.
  apply key_of_eq_iff in Hk. rewrite ikey_cmp_opp, Hk in Hx. discriminate.
Qed.

Theorem compact_entries_NoDup ss base inputs :
  NoDup (map key_of (concat inputs)) ->
  NoDup (map key_of (compact_entries ss base inputs)).
Proof.
  intros H. apply SS_elt_NoDup_keys. unfold compact_entries. apply drop_loop_SS.
  apply sort_entries_SS. exact H.
Qed.

(** * [newest_le] / [visible]: characterisation, never unfold the fold again *)

Definition nl_step (k : bytes) (q : N) (best : option entry) (e : entry) : option entry :=
  if bytes_eqb (usr e) k && (sq e <=? q) then
    match best with
    | Some b => if sq b <? sq e then Some e else best
    | None => Some e
    end
  else best.

Lemma newest_le_snoc es x k q : newest_le (es ++ [x]) k q = nl_step k q (newest_le es k q) x.
Proof. unfold newest_le. rewrite fold_left_app. reflexivity. Qed.

(** [e] is an entry of user key [k] with the greatest sequence number at most [q] *)
Definition is_newest (es : list entry) (k : bytes) (q : N) (e : entry) : Prop :=
  In e es /\ usr e = k /\ sq e <= q /\
  forall e', In e' es -> usr e' = k -> sq e' <= q -> sq e' <= sq e.

Lemma newest_le_spec es k q :
  match newest_le es k q with
  | Some e => is_newest es k q e
  | None => forall e', In e' es -> usr e' = k -> sq e' <= q -> False
  end.
Proof.
  induction es as [|x es IH] using rev_ind.
  - cbn. intros e' [].
  - rewrite newest_le_snoc. unfold nl_step.
    destruct (bytes_eqb (usr x) k && (sq x <=? q)) eqn:C.
    + apply andb_true_iff in C. destruct C as [Cu Cq].
      apply bytes_eqb_iff in Cu. apply N.leb_le in Cq.
      destruct (newest_le es k q) as [b|].
      * destruct IH as (Hb1 & Hb2 & Hb3 & Hb4).
        destruct (sq b <? sq x) eqn:L.
        -- apply N.ltb_lt in L. split; [apply in_or_app; right; left; reflexivity|].
           split; [exact Cu|]. split; [exact Cq|].
           intros e' He' Hu Hq. apply in_app_or in He'. destruct He' as [He'|[<-|[]]]; [|lia].
           specialize (Hb4 e' He' Hu Hq). lia.
        -- apply N.ltb_ge in L. split; [apply in_or_app; left; exact Hb1|].
           split; [exact Hb2|]. split; [exact Hb3|].
           intros e' He' Hu Hq. apply in_app_or in He'. destruct He' as [He'|[<-|[]]]; [|lia].
           apply Hb4; assumption.
      * split; [apply in_or_app; right; left; reflexivity|].
        split; [exact Cu|]. split; [exact Cq|].
        intros e' He' Hu Hq. apply in_app_or in He'. destruct He' as [He'|[<-|[]]]; [|lia].
        exfalso. eapply IH; eassumption.
    + assert (Hx : usr x = k -> sq x <= q -> False).
      { intros Hu Hq. apply (proj2 (bytes_eqb_iff _ _)) in Hu. apply N.leb_le in Hq.
        rewrite Hu, Hq in C. discriminate. }
      destruct (newest_le es k q) as [b|].
      * destruct IH as (Hb1 & Hb2 & Hb3 & Hb4).
        split; [apply in_or_app; left; exact Hb1|].
        split; [exact Hb2|]. split; [exact Hb3|].
        intros e' He' Hu Hq. apply in_app_or in He'. destruct He' as [He'|[<-|[]]].
        -- apply Hb4; assumption.
        -- exfalso. apply Hx; assumption.
      * intros e' He' Hu Hq. apply in_app_or in He'. destruct He' as [He'|[<-|[]]].
        -- eapply IH; eassumption.
        -- apply Hx; assumption.
Qed.

Lemma newest_le_sound es k q e : newest_le es k q = Some e -> is_newest es k q e.
Proof. intros H. pose proof (newest_le_spec es k q) as S. rewrite H in S. exact S. Qed.

Lemma newest_le_none es k q :
  newest_le es k q = None -> forall e', In e' es -> usr e' = k -> sq e' <= q -> False.
Proof. intros H. pose proof (newest_le_spec es k q) as S. rewrite H in S. exact S. Qed.

Lemma is_newest_unique es k q e e' :
  key_inj es -> is_newest es k q e -> is_newest es k q e' -> e = e'.
Proof.
  intros Hinj (H1 & H2 & H3 & H4) (H1' & H2' & H3' & H4').
  apply Hinj; [assumption..|]. apply key_of_eq; [congruence|].
  specialize (H4 e' H1' H2' H3'). specialize (H4' e H1 H2 H3). lia.
Qed.

(** the characterisation *)
Theorem newest_le_iff es k q e :
  key_inj es -> (newest_le es k q = Some e <-> is_newest es k q e).
Proof.
  intros Hinj. split; [apply newest_le_sound|].
  intros H. destruct (newest_le es k q) as [e'|] eqn:N.
  - apply newest_le_sound in N. f_equal. eapply is_newest_unique; eassumption.
  - exfalso. destruct H as (H1 & H2 & H3 & _). eapply newest_le_none; eassumption.
Qed.

Theorem newest_le_iff_nodup es k q e :
  NoDup (map key_of es) ->
  (newest_le es k q = Some e <->
   In e es /\ ik_user (fst e) = k /\ ik_seq (fst e) <= q /\
   forall e', In e' es -> ik_user (fst e') = k -> ik_seq (fst e') <= q ->
              ik_seq (fst e') <= ik_seq (fst e)).
Proof. intros H. apply newest_le_iff. apply NoDup_key_inj. exact H. Qed.

Lemma newest_le_none_iff es k q :
  newest_le es k q = None <-> (forall e', In e' es -> usr e' = k -> sq e' <= q -> False).
Proof.
  split; [apply newest_le_none|]. intros H.
  destruct (newest_le es k q) as [e|] eqn:N; [|reflexivity].
  apply newest_le_sound in N. destruct N as (H1 & H2 & H3 & _). exfalso. eapply H; eassumption.
Qed.

(** [newest_le] and [visible] depend only on the set of entries *)
Theorem newest_le_ext es es' k q :
  key_inj es -> (forall e, In e es <-> In e es') -> newest_le es k q = newest_le es' k q.
Proof.
  intros Hinj Hs.
  assert (Hinj' : key_inj es').
  { intros a b Ha Hb. apply Hinj; apply Hs; assumption. }
  destruct (newest_le es' k q) as [e|] eqn:N.
  - apply newest_le_iff; [exact Hinj|]. apply newest_le_sound in N.
    destruct N as (H1 & H2 & H3 & H4). split; [apply Hs; exact H1|]. split; [exact H2|].
    split; [exact H3|]. intros e' He'. apply H4. apply Hs. exact He'.
  - apply newest_le_none_iff. intros e' He'. eapply newest_le_none; [exact N|].
    apply Hs. exact He'.
Qed.

Theorem newest_le_perm es es' k q :
  NoDup (map key_of es) -> Permutation es es' -> newest_le es k q = newest_le es' k q.
Proof.
  intros Hnd Hp. apply newest_le_ext; [apply NoDup_key_inj; exact Hnd|].
  intros e. split; apply Permutation_in; [|symmetry]; exact Hp.
Qed.

Theorem visible_perm es es' q k :
  NoDup (map key_of es) -> Permutation es es' -> visible es q k = visible es' q k.
Proof. intros Hnd Hp. unfold visible. rewrite (newest_le_perm es es' k q Hnd Hp). reflexivity. Qed.

Theorem visible_ext es es' q k :
  key_inj es -> (forall e, In e es <-> In e es') -> visible es q k = visible es' q k.
Proof. intros Hi Hs. unfold visible. rewrite (newest_le_ext es es' k q Hi Hs). reflexivity. Qed.

(** * Compaction is invisible to readers at or above the smallest snapshot *)

Lemma newer_than_spec a b :
  newer_than a b = true ->
  forall x y, In x a -> In y b -> usr x = usr y -> sq y < sq x.
Proof.
  unfold newer_than. rewrite forallb_forall. intros H x y Hx Hy Hu.
  specialize (H x Hx). rewrite forallb_forall in H. specialize (H y Hy).
  apply orb_true_iff in H. destruct H as [H|H].
  - apply negb_true_iff in H. rewrite Hu in H.
    rewrite (proj2 (bytes_eqb_iff _ _) eq_refl) in H. discriminate.
  - apply N.ltb_lt. exact H.
Qed.

Lemma tombb_true ss base e :
  tombb ss base e = true -> ik_op (fst e) = OP_DELETE /\ sq e <= ss /\ base (usr e) = true.
Proof.
  unfold tombb. rewrite !andb_true_iff, N.eqb_eq, N.leb_le. tauto.
Qed.

Section MAIN.
Variables (ss : N) (base : bytes -> bool) (inputs : list (list entry)) (above below : list entry).
Variables (q : N) (k : bytes).
Let E1 := above ++ concat inputs ++ below.
Let E2 := above ++ compact_entries ss base inputs ++ below.

Hypothesis Hnd : NoDup (map key_of (concat inputs)).
Hypothesis Hinj : key_inj E1.
Hypothesis Hnew : newer_than above (concat inputs) = true.
Hypothesis Hbase : base k = true -> forall e, In e below -> usr e <> k.
Hypothesis Hss : ss < MAX_SEQ.
Hypothesis Hq : ss <= q.

Lemma E2_sub_E1 e : In e E2 -> In e E1.
Proof.
  unfold E1, E2. rewrite !in_app_iff. intros [H|[H|H]]; auto.
  right; left. eapply compact_entries_incl; exact H.
Qed.

(** no live key disappears: the newest entry survives unless it is an obsolete deletion marker *)
Lemma newest_kept_or_tomb e1 :
  is_newest E1 k q e1 ->
  In e1 E2 \/ (In e1 (concat inputs) /\ tombb ss base e1 = true).
Proof.
  intros (H1 & H2 & H3 & H4). unfold E1 in H1. apply in_app_or in H1.
  destruct H1 as [H1|H1]; [left; unfold E2; apply in_or_app; left; exact H1|].
  apply in_app_or in H1.
  destruct H1 as [H1|H1];
    [|left; unfold E2; apply in_or_app; right; apply in_or_app; right; exact H1].
  destruct (tombb ss base e1) eqn:T; [right; split; [exact H1|reflexivity]|].
  left. unfold E2. apply in_or_app; right; apply in_or_app; left.
  apply compact_entries_In; [exact Hss | exact Hnd|]. split; [exact H1|]. split; [|exact T].
  intros (p & Hp & Hu & Hlt & Hle).
  assert (Hp1 : In p E1) by (unfold E1; apply in_or_app; right; apply in_or_app; left; exact Hp).
  specialize (H4 p Hp1). assert (sq p <= sq e1) by (apply H4; [congruence | lia]). lia.
Qed.

(** overwritten values never resurface, deleted keys never reappear: the newest entry after the
    merge is the newest entry before it *)
Lemma newest_same e1 e2 : is_newest E1 k q e1 -> is_newest E2 k q e2 -> e2 = e1.
Proof.
  intros N1 N2. pose proof (newest_kept_or_tomb e1 N1) as D.
  destruct N1 as (H1 & H2 & H3 & H4). destruct N2 as (G1 & G2 & G3 & G4).
  pose proof (E2_sub_E1 e2 G1) as G1'.
  assert (L1 : sq e2 <= sq e1) by (apply H4; assumption).
  apply Hinj; [assumption..|]. apply key_of_eq; [congruence|].
  assert (L2 : sq e1 <= sq e2); [|lia].
  destruct D as [D|[D T]]; [apply G4; assumption|].
  apply tombb_true in T. destruct T as (_ & T2 & T3).
  unfold E2 in G1. apply in_app_or in G1. destruct G1 as [G1|G1].
  - assert (sq e1 < sq e2); [|lia].
    apply (newer_than_spec _ _ Hnew e2 e1 G1 D). congruence.
  - apply in_app_or in G1. destruct G1 as [G1|G1].
    + apply compact_entries_In in G1; [|exact Hss|exact Hnd]. destruct G1 as (_ & Gh & _).
      destruct (N.lt_ge_cases (sq e2) (sq e1)) as [L|L]; [|exact L].
      exfalso. apply Gh. exists e1. split; [exact D|]. split; [congruence|]. lia.
    + exfalso. rewrite H2 in T3. apply (Hbase T3 e2 G1). exact G2.
Qed.

Theorem compact_preserves_visible_gen : visible E2 q k = visible E1 q k.
Proof.
  unfold visible.
  destruct (newest_le E1 k q) as [e1|] eqn:N1; destruct (newest_le E2 k q) as [e2|] eqn:N2.
  - apply newest_le_sound in N1. apply newest_le_sound in N2.
    rewrite (newest_same e1 e2 N1 N2). reflexivity.
  - apply newest_le_sound in N1. destruct (newest_kept_or_tomb e1 N1) as [D|[D T]].
    + exfalso. destruct N1 as (_ & H2 & H3 & _). eapply newest_le_none; eassumption.
    + apply tombb_true in T. destruct T as (T1 & _). destruct e1 as [key v].
      cbn [fst] in T1. rewrite T1. reflexivity.
  - exfalso. apply newest_le_sound in N2. destruct N2 as (G1 & G2 & G3 & _).
    apply E2_sub_E1 in G1. eapply newest_le_none; eassumption.
  - reflexivity.
Qed.

End MAIN.

(** the statement with [NoDup] over everything and the full recency chain (the shape in which the
    LSM invariant provides the hypotheses); [newer_than inputs below], [newer_than above below]
    and the bound on the input sequence numbers are not needed *)
Theorem compact_preserves_visible :
  forall (ss : N) (base : bytes -> bool) (inputs : list (list entry))
         (above below : list entry) (q : N) (k : bytes),
    NoDup (map key_of (above ++ concat inputs ++ below)) ->
    newer_than above (concat inputs) = true ->
    (forall u, base u = true -> forall e, In e below -> ik_user (fst e) <> u) ->
    ss < MAX_SEQ ->
    ss <= q ->
    visible (above ++ compact_entries ss base inputs ++ below) q k
    = visible (above ++ concat inputs ++ below) q k.
Proof.
  intros ss base inputs above below q k Hnd Hnew Hbase Hss Hq.
  apply compact_preserves_visible_gen; try assumption.
  - apply NoDup_map_app_r in Hnd. apply NoDup_map_app_l in Hnd. exact Hnd.
  - apply NoDup_key_inj. exact Hnd.
  - apply Hbase.
Qed.

(** exactly the requested statement (with the superfluous hypotheses) *)
Theorem compact_preserves_visible_full :
  forall (ss : N) (base : bytes -> bool) (inputs : list (list entry))
         (above below : list entry) (q : N) (k : bytes),
    NoDup (map key_of (above ++ concat inputs ++ below)) ->
    newer_than above (concat inputs) = true ->
    newer_than (concat inputs) below = true ->
    newer_than above below = true ->
    (forall u, base u = true -> forall e, In e below -> ik_user (fst e) <> u) ->
    Forall (fun e => ik_seq (fst e) < MAX_SEQ) (concat inputs) ->
    ss < MAX_SEQ ->
    ss <= q ->
    visible (above ++ compact_entries ss base inputs ++ below) q k
    = visible (above ++ concat inputs ++ below) q k.
Proof.
  intros ss base inputs above below q k Hnd Hnew _ _ Hbase _ Hss Hq.
  apply compact_preserves_visible; assumption.
Qed.

(** the hypotheses as decidable checks *)
Lemma base_ok_b (base : bytes -> bool) (below : list entry) :
  forallb (fun e => negb (base (usr e))) below = true ->
  forall u, base u = true -> forall e, In e below -> usr e <> u.
Proof.
  rewrite forallb_forall. intros H u Hu e He Heq. specialize (H e He).
  rewrite Heq, Hu in H. discriminate.
Qed.

Theorem compact_preserves_visible_b :
  forall (ss : N) (base : bytes -> bool) (inputs : list (list entry))
         (above below : list entry) (q : N) (k : bytes),
    keys_nodupb (map key_of (above ++ concat inputs ++ below)) = true ->
    newer_than above (concat inputs) = true ->
    forallb (fun e => negb (base (ik_user (fst e)))) below = true ->
    (ss <? MAX_SEQ) = true ->
    (ss <=? q) = true ->
    visible (above ++ compact_entries ss base inputs ++ below) q k
    = visible (above ++ concat inputs ++ below) q k.
Proof.
  intros ss base inputs above below q k Hnd Hnew Hbase Hss Hq.
  apply compact_preserves_visible.
  - apply keys_nodupb_sound. exact Hnd.
  - exact Hnew.
  - apply base_ok_b. exact Hbase.
  - apply N.ltb_lt. exact Hss.
  - apply N.leb_le. exact Hq.
Qed.

(** * Sensitivity: the hypotheses that cannot be dropped *)

(** without the base-level guarantee a dropped deletion marker uncovers an older value *)
Theorem drop_without_base_refuted :
  exists (ss : N) (inputs : list (list entry)) (above below : list entry) (q : N) (k : bytes),
    let base := fun _ : bytes => true in
    NoDup (map key_of (above ++ concat inputs ++ below)) /\
    newer_than above (concat inputs) = true /\
    newer_than (concat inputs) below = true /\
    newer_than above below = true /\
    Forall (fun e => ik_seq (fst e) < MAX_SEQ) (concat inputs) /\
    ss < MAX_SEQ /\ ss <= q /\
    visible (above ++ concat inputs ++ below) q k = None /\
    visible (above ++ compact_entries ss base inputs ++ below) q k = Some [118].
Proof.
  exists 10, [[(mkIKey [1] 5 OP_DELETE, [])]], [(mkIKey [1] 12 OP_DELETE, [])],
         [(mkIKey [1] 2 OP_PUT, [118])], 10, [1].
  cbv zeta. split; [apply keys_nodupb_sound; vm_compute; reflexivity|].
  split; [vm_compute; reflexivity|]. split; [vm_compute; reflexivity|].
  split; [vm_compute; reflexivity|].
  split; [repeat constructor|].
  split; [reflexivity|]. split; [discriminate|].
  split; vm_compute; reflexivity.
Qed.

(** a reader below the smallest snapshot loses its version *)
Theorem snapshot_bound_refuted :
  exists (ss : N) (base : bytes -> bool) (inputs : list (list entry)) (above below : list entry)
         (q : N) (k : bytes),
    NoDup (map key_of (above ++ concat inputs ++ below)) /\
    newer_than above (concat inputs) = true /\
    newer_than (concat inputs) below = true /\
    newer_than above below = true /\
    (forall u, base u = true -> forall e, In e below -> ik_user (fst e) <> u) /\
    Forall (fun e => ik_seq (fst e) < MAX_SEQ) (concat inputs) /\
    ss < MAX_SEQ /\ q < ss /\
    visible (above ++ concat inputs ++ below) q k = Some [111] /\
    visible (above ++ compact_entries ss base inputs ++ below) q k = None.
Proof.
  exists 10, (fun _ => false),
         [[(mkIKey [1] 8 OP_PUT, [110])]; [(mkIKey [1] 3 OP_PUT, [111])]],
         [(mkIKey [1] 12 OP_PUT, [112])], [(mkIKey [2] 1 OP_PUT, [113])], 5, [1].
  split; [apply keys_nodupb_sound; vm_compute; reflexivity|].
  split; [vm_compute; reflexivity|]. split; [vm_compute; reflexivity|].
  split; [vm_compute; reflexivity|].
  split; [intros u Hu; discriminate|].
  split; [repeat constructor|].
  split; [reflexivity|]. split; [reflexivity|].
  split; vm_compute; reflexivity.
Qed.

(** if the sources above the inputs are not younger than the inputs, a dropped deletion marker
    uncovers a value held above *)
Theorem recency_refuted :
  exists (ss : N) (base : bytes -> bool) (inputs : list (list entry)) (above below : list entry)
         (q : N) (k : bytes),
    NoDup (map key_of (above ++ concat inputs ++ below)) /\
    newer_than (concat inputs) below = true /\
    newer_than above below = true /\
    (forall u, base u = true -> forall e, In e below -> ik_user (fst e) <> u) /\
    Forall (fun e => ik_seq (fst e) < MAX_SEQ) (concat inputs) /\
    ss < MAX_SEQ /\ ss <= q /\
    visible (above ++ concat inputs ++ below) q k = None /\
    visible (above ++ compact_entries ss base inputs ++ below) q k = Some [118].
Proof.
  exists 10, (fun _ => true), [[(mkIKey [1] 5 OP_DELETE, [])]],
         [(mkIKey [1] 2 OP_PUT, [118])], [], 10, [1].
  split; [apply keys_nodupb_sound; vm_compute; reflexivity|].
  split; [vm_compute; reflexivity|]. split; [vm_compute; reflexivity|].
  split; [intros u _ e []|].
  split; [repeat constructor|].
  split; [reflexivity|]. split; [discriminate|].
  split; vm_compute; reflexivity.
Qed.

(** the smallest snapshot must be a real sequence number: with the sentinel every entry is
    dropped *)
Theorem sentinel_snapshot_refuted :
  exists (base : bytes -> bool) (inputs : list (list entry)) (q : N) (k : bytes),
    NoDup (map key_of (concat inputs)) /\
    Forall (fun e => ik_seq (fst e) < MAX_SEQ) (concat inputs) /\
    MAX_SEQ <= q /\
    visible ([] ++ concat inputs ++ []) q k = Some [118] /\
    visible ([] ++ compact_entries MAX_SEQ base inputs ++ []) q k = None.
Proof.
  exists (fun _ => false), [[(mkIKey [1] 5 OP_PUT, [118])]], MAX_SEQ, [1].
  split; [apply keys_nodupb_sound; vm_compute; reflexivity|].
  split; [repeat constructor|].
  split; [discriminate|].
  split; vm_compute; reflexivity.
Qed.
