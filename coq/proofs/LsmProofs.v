(** Proofs about the LSM state machine of [model/Lsm.v] for the current code
    ([d1fix = true], [d14fix = true]):
    T1 [step_preserves_wf]: every admissible step keeps the executable invariant [lsm_wf_b]
       (in particular the worker never panics: [finalize_inputs] and [apply_edit] never fail);
    T2 [reachable_wf] / [reachable_shape_ok]: every reachable state satisfies it (property C10);
    T3 [internal_step_invisible] / [C07_db_get_unchanged]: rotation, flush, compaction and
       trivial move do not change any view at or above the smallest snapshot (property C07);
    T4 [snapshot_stable]: a live snapshot keeps its view along any admissible run (property C03);
    T5 examples: a non-vacuity run and the sensitivity witness for D1.
    The file is organised in parts 1-6. No axioms. *)
From Coq Require Import Lia ZArith ZifyN ZifyBool ZifyNat Arith Permutation Sorted.
From RainVerif Require Import Params.
From RainVerif.model Require Import Bytes Key Block Table TableSpec Version Lsm LsmSpec DbSpec.
From RainVerif.proofs Require Import KeyProofs CompactProofs GetProofs SelectProofs.
Open Scope N_scope.
Arguments N.add : simpl never.
Arguments N.sub : simpl never.
Arguments N.mul : simpl never.
Arguments N.div : simpl never.
Arguments N.modulo : simpl never.
Arguments N.eqb : simpl never.
Arguments N.ltb : simpl never.
Arguments N.leb : simpl never.
Arguments N.min : simpl never.
Arguments N.of_nat : simpl never.
Arguments N.to_nat : simpl never.
Arguments N.compare : simpl never.


(* ========================================================================================== *)
(** LSM state machine proofs, part 1: the invariant [lsm_wf_b] as a proposition [WF] that is
    insensitive to the order of the level-0 list. No axioms. *)

Notation usr e := (ik_user (fst e)) (only parsing).
Notation sq e := (ik_seq (fst e)) (only parsing).

(** * Recency as a proposition *)

Definition nt (a b : list entry) : Prop :=
  forall x y, In x a -> In y b -> usr x = usr y -> sq y < sq x.

Lemma nt_iff a b : newer_than a b = true <-> nt a b.
Proof.
  split.
  - intros H x y. apply (GetProofs.newer_than_spec _ _ H).
  - intros H. apply newer_than_intro. exact H.
Qed.

Lemma nt_nil_l b : nt [] b.
Proof. intros x y []. Qed.
Lemma nt_nil_r a : nt a [].
Proof. intros x y _ []. Qed.

Lemma nt_incl a a' b b' :
  (forall x, In x a' -> In x a) -> (forall y, In y b' -> In y b) -> nt a b -> nt a' b'.
Proof. intros Ha Hb H x y Hx Hy. apply H; auto. Qed.

Lemma recency_app a b :
  recency_ok (a ++ b) = true <->
  recency_ok a = true /\ recency_ok b = true /\ (forall x y, In x a -> In y b -> nt x y).
Proof.
  induction a as [|x a IH]; cbn [app recency_ok].
  - split; [intros H; split; [reflexivity|split; [exact H|intros ? ? []]]|tauto].
  - rewrite !andb_true_iff, forallb_app, andb_true_iff, IH, !forallb_forall. split.
    + intros ((H1 & H2) & H3 & H4 & H5). split; [split; assumption|]. split; [assumption|].
      intros x' y [<-|Hx] Hy; [apply nt_iff; apply H2; exact Hy|apply H5; assumption].
    + intros ((H1 & H3) & H4 & H5). split; [split; [exact H1|]|].
      * intros y Hy. apply nt_iff. apply H5; [left; reflexivity|exact Hy].
      * split; [exact H3|]. split; [exact H4|]. intros x' y Hx Hy. apply H5; [right; exact Hx|exact Hy].
Qed.

Lemma recency_single x : recency_ok [x] = true.
Proof. reflexivity. Qed.

(** * Levels *)

Lemma level_files_cons a v i : level_files (a :: v) (S i) = level_files v i.
Proof. reflexivity. Qed.

Lemma level_files_overflow v i : (length v <= i)%nat -> level_files v i = [].
Proof. intros H. unfold level_files. apply nth_overflow. exact H. Qed.

Lemma in_levels v f : In f (concat v) <-> exists i, In f (level_files v i).
Proof.
  split.
  - intros H. apply in_concat in H. destruct H as (fs & Hfs & Hf).
    apply (In_nth _ _ []) in Hfs. destruct Hfs as (i & _ & E). exists i.
    unfold level_files. rewrite E. exact Hf.
  - intros (i & H). apply in_concat. exists (level_files v i).
    split; [eapply level_files_in; exact H|exact H].
Qed.

Lemma in_levels_lt v i f : In f (level_files v i) -> (i < length v)%nat.
Proof.
  intros H. destruct (Nat.lt_ge_cases i (length v)) as [L|L]; [exact L|].
  rewrite level_files_overflow in H by exact L. destruct H.
Qed.

Lemma In_level v fs : In fs v -> exists i, (i < length v)%nat /\ level_files v i = fs.
Proof. intros H. apply (In_nth _ _ []) in H. exact H. Qed.

(** unique numbers, level by level *)
Lemma nodup_levels v :
  NoDup (map fm_num (concat v)) <->
  (forall i, NoDup (map fm_num (level_files v i))) /\
  (forall i j f g, i <> j -> In f (level_files v i) -> In g (level_files v j) ->
                   fm_num f <> fm_num g).
Proof.
  induction v as [|a v IH].
  - cbn [concat map]. split; [intros _|intros _; constructor]. split.
    + intros i. unfold level_files. destruct i; cbn [nth map]; constructor.
    + intros i j f g _ H. unfold level_files in H. destruct i; destruct H.
  - cbn [concat]. rewrite map_app. split.
    + intros H. pose proof (NoDup_app_l _ _ H) as Ha. pose proof (NoDup_app_r _ _ H) as Hv.
      apply IH in Hv. destruct Hv as [V1 V2]. split.
      * intros [|i]; [exact Ha|rewrite level_files_cons; apply V1].
      * intros i j f g Nij Hf Hg E.
        destruct i as [|i], j as [|j]; try congruence; rewrite ?level_files_cons in *.
        -- change (level_files (a :: v) 0) with a in Hf.
           apply (NoDup_app_disj _ _ (fm_num f) H); [apply in_map; exact Hf|].
           rewrite E. apply in_map. apply in_levels. exists j. exact Hg.
        -- change (level_files (a :: v) 0) with a in Hg.
           apply (NoDup_app_disj _ _ (fm_num g) H); [apply in_map; exact Hg|].
           rewrite <- E. apply in_map. apply in_levels. exists i. exact Hf.
        -- apply (V2 i j f g); auto.
    + intros [H1 H2]. apply NoDup_app_intro.
      * apply (H1 O).
      * apply IH. split.
        -- intros i. apply (H1 (S i)).
        -- intros i j f g Nij Hf Hg. apply (H2 (S i) (S j) f g); auto.
      * intros x Hx Hv. apply in_map_iff in Hx. destruct Hx as (f & <- & Hf).
        apply in_map_iff in Hv. destruct Hv as (g & E & Hg). apply in_levels in Hg.
        destruct Hg as (j & Hg). apply (H2 O (S j) f g); auto.
Qed.

Lemma nodup_N_eq l : nodup_N l = nodup_nums l.
Proof. induction l as [|x l IH]; cbn [nodup_N nodup_nums]; [reflexivity|rewrite IH; reflexivity]. Qed.

(** same number, same file *)
Lemma wf_same_num v i j f g :
  version_wf v = true -> In f (level_files v i) -> In g (level_files v j) ->
  fm_num f = fm_num g -> i = j /\ f = g.
Proof.
  intros WF Hf Hg E. apply wf_nodup in WF. apply nodup_levels in WF. destruct WF as [V1 V2].
  destruct (Nat.eq_dec i j) as [<-|N]; [|exfalso; exact (V2 i j f g N Hf Hg E)].
  split; [reflexivity|]. specialize (V1 i). revert V1 Hf Hg.
  induction (level_files v i) as [|a l IH]; [intros _ []|].
  cbn [map]. intros ND. apply NoDup_cons_iff in ND. destruct ND as [Na ND].
  intros [->|Hf] [->|Hg]; auto.
  - exfalso. apply Na. rewrite E. apply in_map. exact Hg.
  - exfalso. apply Na. rewrite <- E. apply in_map. exact Hf.
Qed.

(** * Sorted runs *)

Lemma SS_app {A} (R : A -> A -> Prop) a b :
  StronglySorted R a -> StronglySorted R b -> (forall x y, In x a -> In y b -> R x y) ->
  StronglySorted R (a ++ b).
Proof.
  induction a as [|x a IH]; intros Ha Hb H; cbn [app]; [exact Hb|].
  apply StronglySorted_inv in Ha. destruct Ha as [Ha Hx]. constructor.
  - apply IH; auto. intros; apply H; [right|]; assumption.
  - apply Forall_app. split; [exact Hx|]. apply Forall_forall. intros y Hy. apply H; [left; reflexivity|exact Hy].
Qed.

Lemma SS_app_inv {A} (R : A -> A -> Prop) a b :
  StronglySorted R (a ++ b) ->
  StronglySorted R a /\ StronglySorted R b /\ (forall x y, In x a -> In y b -> R x y).
Proof.
  induction a as [|x a IH]; cbn [app]; intros H.
  - split; [constructor|]. split; [exact H|intros ? ? []].
  - apply StronglySorted_inv in H. destruct H as [H Hx]. apply IH in H. destruct H as (H1 & H2 & H3).
    apply Forall_app in Hx. destruct Hx as [Hx1 Hx2]. split; [constructor; assumption|].
    split; [exact H2|]. intros x' y [<-|Hx'] Hy; [|apply H3; assumption].
    rewrite Forall_forall in Hx2. apply Hx2. exact Hy.
Qed.

Section RUN.
Variable fe : fmeta -> list entry.

Lemma entry_in_file f e :
  file_bounds_ok (fe f) f = true -> In e (fe f) ->
  ikey_le (fm_small f) (fst e) /\ ikey_le (fst e) (fm_large f).
Proof. apply file_entry_between. Qed.

Lemma lt_files_entries f g x y :
  file_bounds_ok (fe f) f = true -> file_bounds_ok (fe g) g = true ->
  lt_files f g -> In x (fe f) -> In y (fe g) -> ikey_lt (fst x) (fst y).
Proof.
  intros Bf Bg L Hx Hy. destruct (entry_in_file f x Bf Hx) as [_ X].
  destruct (entry_in_file g y Bg Hy) as [Y _]. unfold lt_files in L. korder.
Qed.

Lemma run_sorted fs :
  StronglySorted lt_files fs ->
  (forall f, In f fs -> file_bounds_ok (fe f) f = true) ->
  sorted_entries (flat_map fe fs) = true.
Proof.
  intros SS B. apply sorted_entries_SS. induction fs as [|f fs IH]; cbn [flat_map]; [constructor|].
  apply StronglySorted_inv in SS. destruct SS as [SS Hf]. apply SS_app.
  - apply sorted_entries_SS. pose proof (B f (or_introl eq_refl)) as Bf.
    apply file_bounds_inv in Bf. destruct Bf as (a & b & _ & _ & _ & _ & S). exact S.
  - apply IH; [exact SS|]. intros g Hg. apply B. right. exact Hg.
  - intros x y Hx Hy. apply in_flat_map in Hy. destruct Hy as (g & Hg & Hy).
    rewrite Forall_forall in Hf. unfold elt.
    apply (lt_files_entries f g x y); auto.
    + apply B. left. reflexivity.
    + apply B. right. exact Hg.
Qed.
End RUN.

Lemma file_sorted es f : file_bounds_ok es f = true -> sorted_entries es = true.
Proof. intros B. apply file_bounds_inv in B. destruct B as (a & b & _ & _ & _ & _ & S). exact S. Qed.

Lemma file_ordered es f : file_bounds_ok es f = true -> ordered f.
Proof.
  unfold file_bounds_ok. destruct (first_key es); [|discriminate]. destruct (last_key es); [|discriminate].
  rewrite !andb_true_iff. intros [[_ H] _]. apply kleb_t. exact H.
Qed.

(** * The invariant as a proposition *)

Definition fe (s : lsm) (f : fmeta) : list entry := file_entries s (fm_num f).
Definition lfs (s : lsm) (i : nat) : list fmeta := level_files (l_ver s) i.
Definition imm_l (s : lsm) : list entry := match l_imm s with Some i => i | None => [] end.

Record WF (s : lsm) : Prop := mkWF {
  wf_panic : l_panic s = false;
  wf_len : length (l_ver s) = 7%nat;
  wf_ver : version_wf (l_ver s) = true;
  wf_bounds : forall i f, In f (lfs s i) -> file_bounds_ok (fe s f) f = true;
  wf_mem_sorted : sorted_entries (l_mem s) = true;
  wf_imm_sorted : sorted_entries (imm_l s) = true;
  wf_r_mi : nt (l_mem s) (imm_l s);
  wf_r_mf : forall i f, In f (lfs s i) -> nt (l_mem s) (fe s f);
  wf_r_if : forall i f, In f (lfs s i) -> nt (imm_l s) (fe s f);
  wf_r_l0 : forall f g, In f (lfs s 0) -> In g (lfs s 0) -> fm_num g < fm_num f ->
                        nt (fe s f) (fe s g);
  wf_r_lev : forall i j f g, (i < j)%nat -> In f (lfs s i) -> In g (lfs s j) ->
                             nt (fe s f) (fe s g);
  wf_eok_m : forall e, In e (l_mem s) -> entry_ok (l_seq s) e = true;
  wf_eok_i : forall e, In e (imm_l s) -> entry_ok (l_seq s) e = true;
  wf_eok_f : forall i f e, In f (lfs s i) -> In e (fe s f) -> entry_ok (l_seq s) e = true;
  wf_nums : forall i f, In f (lfs s i) -> fm_num f <= l_next s;
  wf_snaps : forall q, In q (l_snaps s) -> q <= l_seq s
}.

Lemma level_run_fe s fs : level_run s fs = flat_map (fe s) fs.
Proof. reflexivity. Qed.

Lemma nt_runs s a b :
  nt (level_run s a) (level_run s b) <-> (forall f g, In f a -> In g b -> nt (fe s f) (fe s g)).
Proof.
  rewrite !level_run_fe. split.
  - intros H f g Hf Hg x y Hx Hy. apply H; apply in_flat_map; eauto.
  - intros H x y Hx Hy. apply in_flat_map in Hx. apply in_flat_map in Hy.
    destruct Hx as (f & Hf & Hx). destruct Hy as (g & Hg & Hy). apply (H f g Hf Hg); assumption.
Qed.

Lemma recency_l0_intro (s : lsm) l :
  num_desc l -> NoDup (map fm_num l) ->
  (forall f g, In f l -> In g l -> fm_num g < fm_num f -> nt (fe s f) (fe s g)) ->
  recency_ok (map (fun f => file_entries s (fm_num f)) l) = true.
Proof.
  induction l as [|g r IH]; intros D ND H; cbn [map recency_ok]; [reflexivity|].
  cbn [num_desc] in D. destruct D as [D1 D2]. cbn [map] in ND. apply NoDup_cons_iff in ND.
  destruct ND as [Ng ND]. apply andb_true_iff. split.
  - apply forallb_forall. intros y Hy. apply in_map_iff in Hy. destruct Hy as (h & <- & Hh).
    apply nt_iff. apply (H g h); [left; reflexivity|right; exact Hh|].
    rewrite Forall_forall in D1. specialize (D1 h Hh).
    assert (fm_num h <> fm_num g); [|lia]. intros E. apply Ng. rewrite <- E. apply in_map. exact Hh.
  - apply IH; auto. intros f h Hf Hh. apply H; right; assumption.
Qed.

Lemma recency_l0_elim (s : lsm) l :
  num_desc l ->
  recency_ok (map (fun f => file_entries s (fm_num f)) l) = true ->
  forall f g, In f l -> In g l -> fm_num g < fm_num f -> nt (fe s f) (fe s g).
Proof.
  induction l as [|g0 r IH]; intros D R f g Hf Hg L; [destruct Hf|].
  cbn [num_desc] in D. destruct D as [D1 D2]. cbn [map recency_ok] in R.
  apply andb_true_iff in R. destruct R as [R1 R2]. rewrite forallb_forall in R1.
  rewrite Forall_forall in D1.
  destruct Hf as [<-|Hf], Hg as [<-|Hg].
  - lia.
  - apply nt_iff. apply R1. apply in_map_iff. exists g. auto.
  - specialize (D1 f Hf). lia.
  - apply IH; auto.
Qed.

Lemma recency_runs s ls :
  recency_ok (map (level_run s) ls) = true <->
  (forall i j, (i < j)%nat -> forall f g, In f (nth i ls []) -> In g (nth j ls []) ->
                                          nt (fe s f) (fe s g)).
Proof.
  induction ls as [|a r IH]; cbn [map recency_ok].
  - split; [|reflexivity]. intros _ i j _ f g H. destruct i; destruct H.
  - rewrite andb_true_iff, IH, forallb_forall. split.
    + intros [H1 H2] i j L f g Hf Hg. destruct j as [|j]; [lia|]. destruct i as [|i].
      * cbn [nth] in Hf, Hg. destruct (Nat.lt_ge_cases j (length r)) as [Lj|Lj].
        -- assert (Hn : In (level_run s (nth j r [])) (map (level_run s) r)).
           { apply in_map. apply nth_In. exact Lj. }
           apply H1 in Hn. apply nt_iff in Hn. rewrite nt_runs in Hn. apply Hn; assumption.
        -- rewrite nth_overflow in Hg by exact Lj. destruct Hg.
      * cbn [nth] in Hf, Hg. apply (H2 i j); [lia|assumption|assumption].
    + intros H. split.
      * intros y Hy. apply in_map_iff in Hy. destruct Hy as (gs & <- & Hgs).
        apply nt_iff. apply nt_runs. intros f g Hf Hg.
        apply (In_nth _ _ []) in Hgs. destruct Hgs as (j & Lj & E).
        apply (H O (S j)); [lia|exact Hf|]. cbn [nth]. rewrite E. exact Hg.
      * intros i j L f g Hf Hg. apply (H (S i) (S j)); [lia|exact Hf|exact Hg].
Qed.

Lemma forallb_app_iff {A} (p : A -> bool) a b :
  forallb p (a ++ b) = true <-> forallb p a = true /\ forallb p b = true.
Proof. rewrite forallb_app, andb_true_iff. tauto. Qed.

Lemma sources_unfold s :
  sources s =
  [l_mem s] ++ (match l_imm s with Some i => [i] | None => [] end)
  ++ map (fun f => file_entries s (fm_num f)) (sort_by_num_desc (lfs s 0))
  ++ map (level_run s) (tl (l_ver s)).
Proof. reflexivity. Qed.

Lemma imm_src_forall (P : list entry -> Prop) s :
  (forall x, In x (match l_imm s with Some i => [i] | None => [] end) -> P x) <->
  (l_imm s = None \/ P (imm_l s)).
Proof.
  unfold imm_l. destruct (l_imm s) as [i|]; split.
  - intros H. right. apply H. left. reflexivity.
  - intros [H|H] x [<-|[]]; [discriminate|exact H].
  - intros _. left. reflexivity.
  - intros _ x [].
Qed.

Lemma tl_levels v fs : In fs (tl v) -> exists i, fs = level_files v (S i) /\ (S i < length v)%nat.
Proof.
  destruct v as [|a v]; [intros []|]. cbn [tl]. intros H. apply (In_nth _ _ []) in H.
  destruct H as (i & L & E). exists i. rewrite level_files_cons. unfold level_files.
  split; [symmetry; exact E|cbn [length]; lia].
Qed.

Lemma levels_tl v i : (S i < length v)%nat -> In (level_files v (S i)) (tl v).
Proof.
  destruct v as [|a v]; cbn [length tl]; [lia|]. intros L. rewrite level_files_cons.
  unfold level_files. apply nth_In. lia.
Qed.

Lemma nth_tl v i : nth i (tl v) [] = level_files v (S i).
Proof. destruct v as [|a v]; [destruct i; reflexivity|reflexivity]. Qed.

Theorem WF_of_b s : lsm_wf_b s = true -> WF s.
Proof.
  intros W. apply lsm_wf_b_iff in W.
  destruct W as (Hp & Hl & Hsh & Hso & Hre & Heo & Hnu & Hsn).
  apply Nat.eqb_eq in Hl. change (N.to_nat MAX_NUM_LEVELS) with 7%nat in Hl.
  unfold shape_ok in Hsh. rewrite !andb_true_iff in Hsh. destruct Hsh as [[Sh1 Sh2] Sh3].
  assert (B : forall i f, In f (lfs s i) -> file_bounds_ok (fe s f) f = true).
  { intros i f Hf. rewrite forallb_forall in Sh2.
    specialize (Sh2 _ (level_files_in _ _ _ Hf)). rewrite forallb_forall in Sh2. apply Sh2. exact Hf. }
  rewrite sources_unfold in Hso, Hre, Heo.
  rewrite !forallb_app_iff in Hso. destruct Hso as (So1 & So2 & So3 & So4).
  rewrite !forallb_app_iff in Heo. destruct Heo as (Eo1 & Eo2 & Eo3 & Eo4).
  apply recency_app in Hre. destruct Hre as (_ & Hre & R1).
  apply recency_app in Hre. destruct Hre as (_ & Hre & R2).
  apply recency_app in Hre. destruct Hre as (R3 & R4 & R5).
  assert (InL0 : forall f, In f (lfs s 0) ->
            In (fe s f) (map (fun f => file_entries s (fm_num f)) (sort_by_num_desc (lfs s 0)))).
  { intros f Hf. apply in_map_iff. exists f. split; [reflexivity|]. apply sort_num_in. exact Hf. }
  assert (InRun : forall i, (S i < length (l_ver s))%nat ->
            In (level_run s (lfs s (S i))) (map (level_run s) (tl (l_ver s)))).
  { intros i L. apply in_map. apply levels_tl. exact L. }
  assert (InImm : l_imm s <> None -> In (imm_l s) (match l_imm s with Some i => [i] | None => [] end)).
  { unfold imm_l. destruct (l_imm s); [left; reflexivity|congruence]. }
  (* every file's entries belong to some source after the first two groups *)
  assert (FileSrc : forall i f, In f (lfs s i) ->
            exists src, In src (map (fun f => file_entries s (fm_num f)) (sort_by_num_desc (lfs s 0))
                                ++ map (level_run s) (tl (l_ver s)))
                        /\ forall e, In e (fe s f) -> In e src).
  { intros i f Hf. pose proof (in_levels_lt _ _ _ Hf) as Li. destruct i as [|i].
    - exists (fe s f). split; [apply in_or_app; left; apply InL0; exact Hf|auto].
    - exists (level_run s (lfs s (S i))). split; [apply in_or_app; right; apply InRun; exact Li|].
      intros e He. rewrite level_run_fe. apply in_flat_map. eauto. }
  constructor.
  - exact Hp.
  - exact Hl.
  - unfold version_wf. rewrite !andb_true_iff. split; [split|].
    + exact Sh1.
    + apply forallb_forall. intros fs Hfs. apply forallb_forall. intros f Hf.
      apply In_level in Hfs. destruct Hfs as (i & _ & <-). apply kleb_t.
      apply (file_ordered (fe s f)). apply (B i). exact Hf.
    + rewrite <- nodup_N_eq. exact Sh3.
  - exact B.
  - cbn [forallb] in So1. apply andb_true_iff in So1. tauto.
  - unfold imm_l. destruct (l_imm s); [|reflexivity]. cbn [forallb] in So2.
    apply andb_true_iff in So2. tauto.
  - destruct (l_imm s) as [i|] eqn:E; [|unfold imm_l; rewrite E; apply nt_nil_r].
    apply R1; [left; reflexivity|]. apply in_or_app. left. unfold imm_l. rewrite E. left. reflexivity.
  - intros i f Hf. destruct (FileSrc i f Hf) as (src & Hs & Hin).
    eapply nt_incl; [intros x Hx; exact Hx|exact Hin|].
    apply R1; [left; reflexivity|]. apply in_or_app. right. exact Hs.
  - intros i f Hf. destruct (l_imm s) as [im|] eqn:E; [|unfold imm_l; rewrite E; apply nt_nil_l].
    destruct (FileSrc i f Hf) as (src & Hs & Hin).
    eapply nt_incl; [intros x Hx; exact Hx|exact Hin|].
    assert (EI : imm_l s = im) by (unfold imm_l; rewrite E; reflexivity). rewrite EI.
    apply R2; [left; reflexivity|exact Hs].
  - intros f g Hf Hg. apply (recency_l0_elim s (sort_by_num_desc (lfs s 0)));
      [apply sort_num_desc|exact R3|apply sort_num_in; exact Hf|apply sort_num_in; exact Hg].
  - intros i j f g L Hf Hg. pose proof (in_levels_lt _ _ _ Hg) as Lj.
    destruct j as [|j]; [lia|]. destruct i as [|i].
    + assert (H : nt (fe s f) (level_run s (lfs s (S j)))).
      { apply R5; [apply InL0; exact Hf|apply InRun; exact Lj]. }
      eapply nt_incl; [intros x Hx; exact Hx| |exact H].
      intros e He. rewrite level_run_fe. apply in_flat_map. eauto.
    + rewrite recency_runs in R4. apply (R4 i j); [lia| |]; rewrite nth_tl; assumption.
  - intros e He. cbn [forallb] in Eo1. apply andb_true_iff in Eo1. destruct Eo1 as [Eo1 _].
    rewrite forallb_forall in Eo1. apply Eo1. exact He.
  - unfold imm_l. destruct (l_imm s); [|intros e []]. cbn [forallb] in Eo2.
    apply andb_true_iff in Eo2. destruct Eo2 as [Eo2 _]. rewrite forallb_forall in Eo2. exact Eo2.
  - intros i f e Hf He. destruct (FileSrc i f Hf) as (src & Hs & Hin).
    assert (Hall : forallb (entry_ok (l_seq s)) src = true).
    { apply in_app_or in Hs. destruct Hs as [Hs|Hs].
      - rewrite forallb_forall in Eo3. apply Eo3. exact Hs.
      - rewrite forallb_forall in Eo4. apply Eo4. exact Hs. }
    rewrite forallb_forall in Hall. apply Hall. apply Hin. exact He.
  - intros i f Hf. rewrite forallb_forall in Hnu. apply N.leb_le. apply Hnu.
    apply in_levels. exists i. exact Hf.
  - intros q Hq. rewrite forallb_forall in Hsn. apply N.leb_le. apply Hsn. exact Hq.
Qed.

Theorem WF_to_b s : WF s -> lsm_wf_b s = true.
Proof.
  intros W. destruct W. apply lsm_wf_b_iff.
  assert (Ord : forall i f, In f (lfs s i) -> ordered f).
  { intros i f Hf. apply (wf_ordered (l_ver s) i); assumption. }
  assert (RunS : forall i, sorted_entries (level_run s (lfs s (S i))) = true).
  { intros i. rewrite level_run_fe. apply run_sorted.
    - apply wf_level_sorted; [assumption|congruence].
    - intros f Hf. apply (wf_bounds0 (S i)). exact Hf. }
  split; [assumption|]. split; [rewrite wf_len0; reflexivity|]. split; [|split; [|split; [|split; [|split]]]].
  - unfold shape_ok. rewrite !andb_true_iff. unfold version_wf in wf_ver0.
    rewrite !andb_true_iff in wf_ver0. destruct wf_ver0 as [[V1 V2] V3]. split; [split|].
    + exact V1.
    + apply forallb_forall. intros fs Hfs. apply forallb_forall. intros f Hf.
      apply In_level in Hfs. destruct Hfs as (i & _ & <-). apply (wf_bounds0 i). exact Hf.
    + rewrite nodup_N_eq. exact V3.
  - rewrite sources_unfold. rewrite !forallb_app_iff. split; [|split; [|split]].
    + cbn [forallb]. rewrite wf_mem_sorted0. reflexivity.
    + unfold imm_l in wf_imm_sorted0. destruct (l_imm s); [|reflexivity]. cbn [forallb].
      rewrite wf_imm_sorted0. reflexivity.
    + apply forallb_forall. intros x Hx. apply in_map_iff in Hx. destruct Hx as (f & <- & Hf).
      apply -> sort_num_in in Hf. apply (file_sorted _ f). apply (wf_bounds0 O). exact Hf.
    + apply forallb_forall. intros x Hx. apply in_map_iff in Hx. destruct Hx as (fs & <- & Hfs).
      apply tl_levels in Hfs. destruct Hfs as (i & -> & _). apply RunS.
  - rewrite sources_unfold.
    assert (L0src : forall y, In y (map (fun f => file_entries s (fm_num f)) (sort_by_num_desc (lfs s 0))) ->
                      exists f, In f (lfs s 0) /\ y = fe s f).
    { intros y Hy. apply in_map_iff in Hy. destruct Hy as (f & <- & Hf). apply -> sort_num_in in Hf. eauto. }
    assert (Runsrc : forall y, In y (map (level_run s) (tl (l_ver s))) ->
                      exists i, y = level_run s (lfs s (S i))).
    { intros y Hy. apply in_map_iff in Hy. destruct Hy as (fs & <- & Hfs).
      apply tl_levels in Hfs. destruct Hfs as (i & -> & _). exists i. reflexivity. }
    assert (NtRun : forall a i, (forall f, In f (lfs s (S i)) -> nt a (fe s f)) ->
                                nt a (level_run s (lfs s (S i)))).
    { intros a i H x y Hx Hy. rewrite level_run_fe in Hy. apply in_flat_map in Hy.
      destruct Hy as (g & Hg & Hy). apply (H g Hg x y); assumption. }
    apply recency_app. split; [reflexivity|]. split.
    + apply recency_app. split; [destruct (l_imm s); reflexivity|]. split.
      * apply recency_app. split; [|split].
        -- apply recency_l0_intro; [apply sort_num_desc| |].
           ++ apply (Permutation_NoDup (l := map fm_num (lfs s 0))).
              ** apply Permutation_map. clear. induction (lfs s 0) as [|f l IH]; cbn [sort_by_num_desc fold_right]; [constructor|].
                 fold (sort_by_num_desc l). etransitivity; [apply perm_skip; exact IH|].
                 clear IH. generalize (sort_by_num_desc l) as m. intros m.
                 induction m as [|g m IH]; cbn [insert_by_num_desc]; [reflexivity|].
                 destruct (fm_num g <? fm_num f); [reflexivity|].
                 etransitivity; [apply perm_swap|]. apply perm_skip. exact IH.
              ** apply wf_level_nodup. assumption.
           ++ intros f g Hf Hg. apply -> sort_num_in in Hf. apply -> sort_num_in in Hg. apply wf_r_l1; assumption.
        -- apply recency_runs. intros i j L f g Hf Hg. rewrite nth_tl in Hf, Hg.
           apply (wf_r_lev0 (S i) (S j)); [lia|assumption|assumption].
        -- intros x y Hx Hy. destruct (L0src x Hx) as (f & Hf & ->).
           destruct (Runsrc y Hy) as (i & ->). apply NtRun. intros g Hg.
           apply (wf_r_lev0 O (S i)); [lia|assumption|assumption].
      * intros x y Hx Hy. assert (x = imm_l s) as ->.
        { unfold imm_l. destruct (l_imm s); [destruct Hx as [<-|[]]; reflexivity|destruct Hx]. }
        apply in_app_or in Hy. destruct Hy as [Hy|Hy].
        -- destruct (L0src y Hy) as (f & Hf & ->). apply (wf_r_if0 O). exact Hf.
        -- destruct (Runsrc y Hy) as (i & ->). apply NtRun. intros g Hg. apply (wf_r_if0 (S i)). exact Hg.
    + intros x y [<-|[]] Hy. apply in_app_or in Hy. destruct Hy as [Hy|Hy].
      * assert (y = imm_l s) as ->.
        { unfold imm_l. destruct (l_imm s); [destruct Hy as [<-|[]]; reflexivity|destruct Hy]. }
        assumption.
      * apply in_app_or in Hy. destruct Hy as [Hy|Hy].
        -- destruct (L0src y Hy) as (f & Hf & ->). apply (wf_r_mf0 O). exact Hf.
        -- destruct (Runsrc y Hy) as (i & ->). apply NtRun. intros g Hg. apply (wf_r_mf0 (S i)). exact Hg.
  - rewrite sources_unfold. rewrite !forallb_app_iff. split; [|split; [|split]].
    + cbn [forallb]. apply andb_true_iff. split; [|reflexivity]. apply forallb_forall. assumption.
    + unfold imm_l in wf_eok_i0. destruct (l_imm s); [|reflexivity]. cbn [forallb].
      apply andb_true_iff. split; [|reflexivity]. apply forallb_forall. assumption.
    + apply forallb_forall. intros x Hx. apply in_map_iff in Hx. destruct Hx as (f & <- & Hf).
      apply -> sort_num_in in Hf. apply forallb_forall. intros e He. apply (wf_eok_f0 O f); assumption.
    + apply forallb_forall. intros x Hx. apply in_map_iff in Hx. destruct Hx as (fs & <- & Hfs).
      apply tl_levels in Hfs. destruct Hfs as (i & -> & _). apply forallb_forall. intros e He.
      rewrite level_run_fe in He. apply in_flat_map in He. destruct He as (f & Hf & He).
      apply (wf_eok_f0 (S i) f); assumption.
  - apply forallb_forall. intros f Hf. apply in_levels in Hf. destruct Hf as (i & Hf).
    apply N.leb_le. apply (wf_nums0 i). exact Hf.
  - apply forallb_forall. intros q Hq. apply N.leb_le. apply wf_snaps0. exact Hq.
Qed.

Theorem WF_iff s : lsm_wf_b s = true <-> WF s.
Proof. split; [apply WF_of_b|apply WF_to_b]. Qed.


(* ========================================================================================== *)
(** LSM state machine proofs, part 2: version edits level by level, the table store, the entries
    of a state as a set, views depend only on the candidate entries. No axioms. *)

(** * Version edits *)

Lemma ael_char e : forall v k v', apply_edit_levels v e k = Some v' ->
  length v' = length v /\
  forall i, (i < length v)%nat ->
    apply_level (k + i) (nth i v []) (ae_del e (k + i)) (ae_add e (k + i)) = Some (nth i v' []).
Proof.
  induction v as [|B rest IH]; intros k v' H.
  - cbn in H. injection H as <-. split; [reflexivity|]. intros i L. cbn in L. lia.
  - rewrite ael_cons in H. destruct (apply_level k B _ _) as [l|] eqn:E1; [|discriminate].
    destruct (apply_edit_levels rest e (S k)) as [r|] eqn:E2; [|discriminate]. injection H as <-.
    destruct (IH _ _ E2) as [L1 L2]. split; [cbn [length]; lia|].
    intros [|i] L.
    + rewrite Nat.add_0_r. exact E1.
    + cbn [nth]. replace (k + S i)%nat with (S k + i)%nat by lia. apply L2. cbn [length] in L. lia.
Qed.

Lemma ae_add_In e i f : In f (ae_add e i) <-> In (i, f) (ve_added e).
Proof.
  unfold ae_add. rewrite in_map_iff. split.
  - intros ([j g] & E & H). cbn [snd] in E. subst g. apply filter_In in H. destruct H as [H E].
    cbn [fst] in E. apply Nat.eqb_eq in E. subst j. exact H.
  - intros H. exists (i, f). split; [reflexivity|]. apply filter_In. split; [exact H|].
    cbn [fst]. apply Nat.eqb_refl.
Qed.

Lemma existsb_num_In (l : list fmeta) n :
  existsb (fun a => N.eqb (fm_num a) n) l = true <-> In n (map fm_num l).
Proof.
  rewrite existsb_exists, in_map_iff. split.
  - intros (a & Ha & E). apply N.eqb_eq in E. eauto.
  - intros (a & E & Ha). exists a. split; [exact Ha|apply N.eqb_eq; exact E].
Qed.

Lemma existsb_eqb_In (l : list N) n : existsb (N.eqb n) l = true <-> In n l.
Proof.
  rewrite existsb_exists. split.
  - intros (a & Ha & E). apply N.eqb_eq in E. subst. exact Ha.
  - intros H. exists n. split; [exact H|apply N.eqb_refl].
Qed.

Lemma ae_del_In e i n :
  In n (ae_del e i) <-> In (i, n) (ve_deleted e) /\ ~ In n (map fm_num (ae_add e i)).
Proof.
  unfold ae_del. rewrite filter_In, negb_true_iff, <- not_true_iff_false, existsb_num_In.
  rewrite in_map_iff. split.
  - intros [([j m] & E & H) Hn]. cbn [snd] in E. subst m. apply filter_In in H. destruct H as [H E].
    cbn [fst] in E. apply Nat.eqb_eq in E. subst j. auto.
  - intros [H Hn]. split; [|exact Hn]. exists (i, n). split; [reflexivity|]. apply filter_In.
    split; [exact H|]. cbn [fst]. apply Nat.eqb_refl.
Qed.

Lemma perm_filter {A} (p : A -> bool) l l' :
  Permutation l l' -> Permutation (filter p l) (filter p l').
Proof.
  induction 1 as [|x l l' H IH|x y l|l l' l'' H1 IH1 H2 IH2]; cbn [filter].
  - constructor.
  - destruct (p x); [apply perm_skip|]; exact IH.
  - destruct (p x), (p y); try reflexivity. apply perm_swap.
  - etransitivity; eassumption.
Qed.

Definition keepb (del : list N) (f : fmeta) : bool := negb (existsb (N.eqb (fm_num f)) del).

Lemma apply_level_char i B del A res :
  apply_level i B del A = Some res ->
  Permutation res (filter (keepb del) (B ++ A)) /\ (i <> O -> check_disjoint res = true).
Proof.
  intros H. split; [|apply (apply_level_facts _ _ _ _ _ H)].
  unfold apply_level in H.
  assert (P : Permutation (filter (keepb del)
                (merge_files (S (length B + length A)) (sort_fmeta B) (sort_fmeta A)))
              (filter (keepb del) (B ++ A))).
  { apply perm_filter. etransitivity.
    - apply merge_perm. rewrite (Permutation_length (sort_perm B)), (Permutation_length (sort_perm A)). lia.
    - apply Permutation_app; apply sort_perm. }
  fold (keepb del) in H.
  destruct (Nat.eqb i 0); [injection H as <-; exact P|].
  destruct (check_disjoint _); [injection H as <-; exact P|discriminate].
Qed.

Section EDIT.
Variables (v : version) (e : vedit) (v' : version).
Hypothesis HE : apply_edit v e = Some v'.

Lemma apply_edit_len : length v' = length v.
Proof. apply (ael_char e v O v' HE). Qed.

Lemma apply_edit_level i : (i < length v)%nat ->
  apply_level i (level_files v i) (ae_del e i) (ae_add e i) = Some (level_files v' i).
Proof. intros L. apply (proj2 (ael_char e v O v' HE) i L). Qed.

Lemma apply_edit_perm i : (i < length v)%nat ->
  Permutation (level_files v' i) (filter (keepb (ae_del e i)) (level_files v i ++ ae_add e i)).
Proof. intros L. apply (apply_level_char _ _ _ _ _ (apply_edit_level i L)). Qed.

Lemma apply_edit_cd i : i <> O -> check_disjoint (level_files v' i) = true.
Proof.
  intros N. destruct (Nat.lt_ge_cases i (length v)) as [L|L].
  - apply (apply_level_char _ _ _ _ _ (apply_edit_level i L)). exact N.
  - rewrite level_files_overflow; [reflexivity|]. rewrite apply_edit_len. exact L.
Qed.

Lemma apply_edit_In i f : (i < length v)%nat ->
  (In f (level_files v' i) <->
   (In f (level_files v i) \/ In (i, f) (ve_added e)) /\
   ~ (In (i, fm_num f) (ve_deleted e) /\ ~ In (fm_num f) (map fm_num (ae_add e i)))).
Proof.
  intros L. pose proof (apply_edit_perm i L) as P.
  assert (K : In f (filter (keepb (ae_del e i)) (level_files v i ++ ae_add e i)) <->
              (In f (level_files v i) \/ In (i, f) (ve_added e)) /\
              ~ (In (i, fm_num f) (ve_deleted e) /\ ~ In (fm_num f) (map fm_num (ae_add e i)))).
  { rewrite filter_In, in_app_iff, ae_add_In. unfold keepb.
    rewrite negb_true_iff, <- not_true_iff_false, existsb_eqb_In, ae_del_In. tauto. }
  rewrite <- K. split; apply Permutation_in; [exact P|symmetry; exact P].
Qed.

Lemma apply_edit_overflow i : (length v <= i)%nat -> level_files v' i = [].
Proof. intros L. apply level_files_overflow. rewrite apply_edit_len. exact L. Qed.

(** a level without added or deleted files keeps its files *)
Lemma apply_edit_same i f :
  (forall g, ~ In (i, g) (ve_added e)) -> (forall n, ~ In (i, n) (ve_deleted e)) ->
  (In f (level_files v' i) <-> In f (level_files v i)).
Proof.
  intros Ha Hd. destruct (Nat.lt_ge_cases i (length v)) as [L|L].
  - rewrite (apply_edit_In i f L). split.
    + intros [[H|H] _]; [exact H|exfalso; exact (Ha _ H)].
    + intros H. split; [left; exact H|]. intros [H1 _]. exact (Hd _ H1).
  - rewrite (apply_edit_overflow i L), (level_files_overflow v i L). tauto.
Qed.
End EDIT.

Lemma NoDup_map_filter {A B} (g : A -> B) (p : A -> bool) l :
  NoDup (map g l) -> NoDup (map g (filter p l)).
Proof.
  induction l as [|x l IH]; cbn [map filter]; [auto|]. intros H. apply NoDup_cons_iff in H.
  destruct H as [Hx H]. destruct (p x); [|apply IH; exact H]. cbn [map]. constructor; [|apply IH; exact H].
  intros Hi. apply Hx. apply in_map_iff in Hi. destruct Hi as (y & E & Hy). apply filter_In in Hy.
  rewrite <- E. apply in_map. tauto.
Qed.

Lemma version_wf_intro v :
  (forall i, i <> O -> check_disjoint (level_files v i) = true) ->
  (forall i f, In f (level_files v i) -> ordered f) ->
  (forall i, NoDup (map fm_num (level_files v i))) ->
  (forall i j f g, i <> j -> In f (level_files v i) -> In g (level_files v j) ->
                   fm_num f <> fm_num g) ->
  version_wf v = true.
Proof.
  intros H1 H2 H3 H4. unfold version_wf. rewrite !andb_true_iff. split; [split|].
  - apply forallb_forall. intros fs Hfs. apply tl_levels in Hfs. destruct Hfs as (i & -> & _).
    apply H1. congruence.
  - apply forallb_forall. intros fs Hfs. apply In_level in Hfs. destruct Hfs as (i & _ & <-).
    apply forallb_forall. intros f Hf. apply kleb_t. apply (H2 i f Hf).
  - apply nodup_nums_iff. apply nodup_levels. split; assumption.
Qed.

(** * The table store *)

Definition lookup (st : list (N * list entry)) (n : N) : list entry :=
  match find (fun p => fst p =? n) st with Some p => snd p | None => [] end.

Lemma file_entries_lookup s n : file_entries s n = lookup (l_store s) n.
Proof. reflexivity. Qed.

Lemma lookup_app_notin a b n : ~ In n (map fst a) -> lookup (a ++ b) n = lookup b n.
Proof.
  unfold lookup. induction a as [|[m es] a IH]; cbn [app map find fst]; [reflexivity|].
  intros H. destruct (N.eqb_spec m n) as [E|E]; [exfalso; apply H; left; exact E|].
  apply IH. intros Hi. apply H. right. exact Hi.
Qed.

Lemma lookup_app_in a b n es :
  NoDup (map fst a) -> In (n, es) a -> lookup (a ++ b) n = es.
Proof.
  unfold lookup. induction a as [|[m es'] a IH]; cbn [app map find fst]; [intros _ []|].
  intros ND H. apply NoDup_cons_iff in ND. destruct ND as [Nm ND].
  destruct (N.eqb_spec m n) as [E|E].
  - destruct H as [H|H]; [injection H as _ <-; reflexivity|].
    exfalso. apply Nm. rewrite E. apply (in_map fst _ _ H).
  - destruct H as [H|H]; [congruence|]. apply IH; assumption.
Qed.

(** * The entries of a state as a set *)

Lemma all_entries_In s e :
  In e (all_entries s) <->
  In e (l_mem s) \/ In e (imm_l s) \/ exists i f, In f (lfs s i) /\ In e (fe s f).
Proof.
  unfold all_entries, version_entries. rewrite !in_app_iff. fold (imm_l s).
  rewrite in_flat_map. split.
  - intros [H|[H|(fs & Hfs & H)]]; auto. right. right. apply in_flat_map in H.
    destruct H as (f & Hf & He). apply In_level in Hfs. destruct Hfs as (i & _ & <-).
    exists i, f. split; assumption.
  - intros [H|[H|(i & f & Hf & He)]]; auto. right. right. exists (lfs s i).
    split; [eapply level_files_in; exact Hf|]. apply in_flat_map. exists f. split; assumption.
Qed.

Lemma uniq_key_inj es : uniq_entries es <-> key_inj es.
Proof.
  unfold uniq_entries, key_inj, key_of. split.
  - intros H a b Ha Hb E. injection E as E1 E2. apply H; assumption.
  - intros H a b Ha Hb E1 E2. apply H; [assumption..|]. rewrite E1, E2. reflexivity.
Qed.

Lemma WF_key_inj s : WF s -> key_inj (all_entries s).
Proof. intros W. apply uniq_key_inj. apply all_entries_uniq. apply WF_to_b. exact W. Qed.

(** a view depends only on the candidate entries (user key [k], sequence at most [q]) *)
Lemma newest_le_ext_cand es es' k q :
  key_inj es ->
  (forall e, usr e = k -> sq e <= q -> (In e es <-> In e es')) ->
  newest_le es k q = newest_le es' k q.
Proof.
  intros Hinj Hs. destruct (newest_le es' k q) as [e|] eqn:N.
  - apply newest_le_iff; [exact Hinj|]. apply newest_le_sound in N.
    destruct N as (H1 & H2 & H3 & H4). split; [apply Hs; assumption|]. split; [exact H2|].
    split; [exact H3|]. intros e' He' Hu Hq. apply H4; [apply Hs; assumption|assumption|assumption].
  - apply newest_le_none_iff. intros e' He' Hu Hq. eapply newest_le_none; [exact N| |exact Hu|exact Hq].
    apply Hs; assumption.
Qed.

Lemma visible_ext_cand es es' q k :
  key_inj es ->
  (forall e, usr e = k -> sq e <= q -> (In e es <-> In e es')) ->
  visible es q k = visible es' q k.
Proof. intros Hi Hs. unfold visible. rewrite (newest_le_ext_cand es es' k q Hi Hs). reflexivity. Qed.

(** * Entries of a file and its user-key range *)

Lemma entry_user_range (fe0 : fmeta -> list entry) f e :
  file_bounds_ok (fe0 f) f = true -> In e (fe0 f) ->
  ule (usmall f) (usr e) /\ ule (usr e) (ularge f).
Proof.
  intros B H. destruct (file_entry_between _ _ _ B H) as [H1 H2].
  split; [apply (kle_ule _ _ H1)|apply (kle_ule _ _ H2)].
Qed.

(** entries of one file ordered before another are newer on common user keys *)
Lemma nt_lt_files (fe0 : fmeta -> list entry) f g :
  file_bounds_ok (fe0 f) f = true -> file_bounds_ok (fe0 g) g = true ->
  lt_files f g -> nt (fe0 f) (fe0 g).
Proof.
  intros Bf Bg L x y Hx Hy U.
  pose proof (lt_files_entries fe0 f g x y Bf Bg L Hx Hy) as Lt.
  apply (ikey_lt_same_user _ _ Lt U).
Qed.

(** a common user key of two files in the order [h < f] sits on the boundary *)
Lemma lt_files_common_user (fe0 : fmeta -> list entry) h f x y :
  file_bounds_ok (fe0 f) f = true -> file_bounds_ok (fe0 h) h = true ->
  lt_files h f -> In x (fe0 f) -> In y (fe0 h) -> usr x = usr y ->
  usmall f = ularge h /\ ularge h = usr y.
Proof.
  intros Bf Bh L Hx Hy U.
  destruct (entry_user_range fe0 f x Bf Hx) as [X1 _].
  destruct (entry_user_range fe0 h y Bh Hy) as [_ Y2].
  pose proof (klt_ule _ _ L) as L'. rewrite U in X1. split; uorder.
Qed.

(** files with disjoint user-key ranges share no user key *)
Lemma nt_user_disjoint (fe0 : fmeta -> list entry) f g :
  file_bounds_ok (fe0 f) f = true -> file_bounds_ok (fe0 g) g = true ->
  (ult (ularge f) (usmall g) \/ ult (ularge g) (usmall f)) ->
  forall x y, In x (fe0 f) -> In y (fe0 g) -> usr x <> usr y.
Proof.
  intros Bf Bg D x y Hx Hy U.
  destruct (entry_user_range fe0 f x Bf Hx) as [X1 X2].
  destruct (entry_user_range fe0 g y Bg Hy) as [Y1 Y2].
  rewrite U in X1, X2. destruct D as [D|D]; uorder.
Qed.


(* ========================================================================================== *)
(** LSM state machine proofs, part 3: rotation, memtable flush (placement by
    [pick_level_for_memtable_output]), snapshots. No axioms. *)

(** * Rotation *)

Lemma rotate_ok d d14 mfs s :
  WF s ->
  WF (lsm_step d d14 mfs s SRotate)
  /\ forall e, In e (all_entries (lsm_step d d14 mfs s SRotate)) <-> In e (all_entries s).
Proof.
  intros W. unfold lsm_step. rewrite (wf_panic s W).
  destruct (l_imm s) as [im|] eqn:E; [split; [exact W|tauto]|].
  assert (EI : imm_l s = []) by (unfold imm_l; rewrite E; reflexivity).
  split.
  - constructor.
    + reflexivity.
    + apply (wf_len s W).
    + apply (wf_ver s W).
    + exact (wf_bounds s W).
    + reflexivity.
    + exact (wf_mem_sorted s W).
    + apply nt_nil_l.
    + intros i f _. apply nt_nil_l.
    + exact (wf_r_mf s W).
    + exact (wf_r_l0 s W).
    + exact (wf_r_lev s W).
    + intros e [].
    + exact (wf_eok_m s W).
    + exact (wf_eok_f s W).
    + intros i f Hf. pose proof (wf_nums s W i f Hf) as H. cbn [l_next]. lia.
    + exact (wf_snaps s W).
  - intros e. rewrite !all_entries_In. rewrite EI.
    cbn [l_mem]. unfold imm_l at 1. cbn [l_imm].
    change (lfs (mkLsm [] (Some (l_mem s)) (l_ver s) (l_store s) (l_seq s) (l_snaps s) (l_next s + 1) (l_panic s)))
      with (lfs s).
    change (fe (mkLsm [] (Some (l_mem s)) (l_ver s) (l_store s) (l_seq s) (l_snaps s) (l_next s + 1) (l_panic s)))
      with (fe s).
    cbn [In]. tauto.
Qed.

(** * Snapshots *)

Lemma snapshot_ok d d14 mfs s :
  WF s -> WF (lsm_step d d14 mfs s SSnapshot).
Proof.
  intros W. unfold lsm_step. rewrite (wf_panic s W).
  constructor; try (first [exact (wf_panic s W)|exact (wf_len s W)|exact (wf_ver s W)|exact (wf_bounds s W)
    |exact (wf_mem_sorted s W)|exact (wf_imm_sorted s W)|exact (wf_r_mi s W)|exact (wf_r_mf s W)
    |exact (wf_r_if s W)|exact (wf_r_l0 s W)|exact (wf_r_lev s W)|exact (wf_eok_m s W)
    |exact (wf_eok_i s W)|exact (wf_eok_f s W)|exact (wf_nums s W)|reflexivity]).
  cbn [l_snaps l_seq]. intros q [<-|Hq]; [lia|apply (wf_snaps s W); exact Hq].
Qed.

Definition remove1 (q : N) : list N -> list N :=
  fix remove1 (l : list N) : list N :=
    match l with [] => [] | x :: r => if x =? q then r else x :: remove1 r end.

Lemma remove1_cons q x r : remove1 q (x :: r) = if x =? q then r else x :: remove1 q r.
Proof. reflexivity. Qed.

Lemma step_release d d14 mfs s q :
  l_panic s = false ->
  lsm_step d d14 mfs s (SRelease q) =
  mkLsm (l_mem s) (l_imm s) (l_ver s) (l_store s) (l_seq s) (remove1 q (l_snaps s)) (l_next s) (l_panic s).
Proof. intros P. unfold lsm_step. rewrite P. reflexivity. Qed.

Lemma remove1_In q l x : In x (remove1 q l) -> In x l.
Proof.
  induction l as [|y l IH]; [auto|]. rewrite remove1_cons. destruct (y =? q); [right; assumption|].
  intros [<-|H]; [left; reflexivity|right; auto].
Qed.

Lemma remove1_keep q l x : x <> q -> In x l -> In x (remove1 q l).
Proof.
  intros N. induction l as [|y l IH]; [auto|]. rewrite remove1_cons. intros [<-|H].
  - destruct (N.eqb_spec y q); [congruence|left; reflexivity].
  - destruct (y =? q); [exact H|right; auto].
Qed.

Lemma release_ok d d14 mfs s q :
  WF s -> WF (lsm_step d d14 mfs s (SRelease q)).
Proof.
  intros W. rewrite step_release by apply (wf_panic s W).
  constructor; try (first [exact (wf_panic s W)|exact (wf_len s W)|exact (wf_ver s W)|exact (wf_bounds s W)
    |exact (wf_mem_sorted s W)|exact (wf_imm_sorted s W)|exact (wf_r_mi s W)|exact (wf_r_mf s W)
    |exact (wf_r_if s W)|exact (wf_r_l0 s W)|exact (wf_r_lev s W)|exact (wf_eok_m s W)
    |exact (wf_eok_i s W)|exact (wf_eok_f s W)|exact (wf_nums s W)|reflexivity]).
  cbn [l_snaps l_seq]. intros x Hx. apply (wf_snaps s W). eapply remove1_In; exact Hx.
Qed.

(** * Overlap tests *)

Definition no_overlap (v : version) (i : nat) (lo hi : bytes) : Prop :=
  forall f, In f (level_files v i) -> ult (ularge f) lo \/ ult hi (usmall f).

Lemma SS_nth {A} (R : A -> A -> Prop) l : StronglySorted R l ->
  forall i j a b, (i < j)%nat -> nth_error l i = Some a -> nth_error l j = Some b -> R a b.
Proof.
  induction 1 as [|x l SS IH Hx]; intros i j a b L Ha Hb; [destruct i; discriminate|].
  destruct j as [|j]; [lia|]. cbn [nth_error] in Hb. destruct i as [|i].
  - cbn [nth_error] in Ha. injection Ha as <-. rewrite Forall_forall in Hx. apply Hx.
    eapply nth_error_In; exact Hb.
  - cbn [nth_error] in Ha. apply (IH i j); [lia|assumption|assumption].
Qed.

Lemma ltb_target_user (k : ikey) lo :
  ik_seq k <= MAX_SEQ -> ikey_ltb k (mkIKey lo MAX_SEQ OP_PUT) = true -> ult (ik_user k) lo.
Proof.
  intros B H. apply kltb_t in H. apply ikey_lt_cases in H. cbn [ik_user ik_seq] in H.
  destruct H as [H|[_ H]]; [exact H|lia].
Qed.

Lemma some_file_overlaps_false fs lo hi :
  StronglySorted lt_files fs -> (forall f, In f fs -> ordered f) ->
  (forall f, In f fs -> ik_seq (fm_large f) <= MAX_SEQ) ->
  some_file_overlaps_range true fs (Some lo) (Some hi) = false ->
  forall f, In f fs -> ult (ularge f) lo \/ ult hi (usmall f).
Proof.
  intros SS Ord Bd H. unfold some_file_overlaps_range in H. destruct fs as [|f0 fs0] eqn:Efs; [intros f []|].
  rewrite <- Efs in *. clear Efs f0 fs0. cbn [negb] in H.
  assert (mono : forall i j fi fj, (i < j)%nat -> nth_error fs i = Some fi -> nth_error fs j = Some fj ->
                                   ikey_lt (fm_large fi) (fm_large fj)).
  { intros i j fi fj L Hi Hj. pose proof (SS_nth _ _ SS i j fi fj L Hi Hj) as Lt.
    pose proof (Ord fj (nth_error_In _ _ Hj)) as Oj. unfold lt_files, ordered in *. korder. }
  pose proof (find_file_upper_bound_spec fs (mkIKey lo MAX_SEQ OP_PUT) mono) as S.
  destruct (find_file_upper_bound fs (mkIKey lo MAX_SEQ OP_PUT)) as [i|].
  - destruct S as (pre & f & post & E & Li & Hpre & Hf).
    assert (Hn : nth_error fs i = Some f).
    { rewrite E, <- Li, nth_error_app2, Nat.sub_diag by lia. reflexivity. }
    rewrite Hn in H. apply bleb_f in H.
    rewrite E in SS. apply SS_app_inv in SS. destruct SS as (_ & SS2 & _).
    apply StronglySorted_inv in SS2. destruct SS2 as [_ Hpost]. rewrite Forall_forall in Hpost.
    intros g Hg. rewrite E in Hg. apply in_app_or in Hg. destruct Hg as [Hg|[<-|Hg]].
    + left. apply ltb_target_user; [apply Bd; rewrite E; apply in_or_app; left; exact Hg|apply Hpre; exact Hg].
    + right. exact H.
    + right. specialize (Hpost g Hg). pose proof (klt_ule _ _ Hpost) as U.
      assert (Of : ordered f) by (apply Ord; rewrite E; apply in_or_app; right; left; reflexivity).
      apply ordered_user in Of. uorder.
  - intros g Hg. left. apply ltb_target_user; [apply Bd; exact Hg|apply S; exact Hg].
Qed.

Lemma has_overlap_false v i lo hi :
  version_wf v = true ->
  (forall f, In f (level_files v i) -> ik_seq (fm_large f) <= MAX_SEQ) ->
  has_overlap_in_level v i (Some lo) (Some hi) = false -> no_overlap v i lo hi.
Proof.
  intros WF Bd H. unfold has_overlap_in_level in H. destruct i as [|i].
  - cbn [Nat.eqb negb] in H. unfold some_file_overlaps_range in H.
    destruct (level_files v 0) as [|f0 fs0] eqn:Efs; [intros f Hf; rewrite Efs in Hf; destruct Hf|].
    rewrite <- Efs in *. cbn [negb] in H. intros f Hf.
    assert (Hx : negb (after_file (Some lo) f || before_file (Some hi) f) = false).
    { destruct (negb (after_file (Some lo) f || before_file (Some hi) f)) eqn:X; [|reflexivity].
      rewrite <- H. symmetry. apply existsb_exists. exists f. auto. }
    apply negb_false_iff in Hx. apply orb_true_iff in Hx. unfold after_file, before_file in Hx.
    destruct Hx as [Hx|Hx]; [left|right]; apply bltb_t; exact Hx.
  - cbn [Nat.eqb negb] in H. unfold no_overlap.
    apply (some_file_overlaps_false (level_files v (S i)) lo hi); auto.
    + apply wf_level_sorted; [exact WF|congruence].
    + intros f. apply wf_ordered. exact WF.
Qed.

Lemma plmo_spec v mfs lo hi : forall fuel level,
  let r := plmo_loop fuel v mfs lo hi level in
  (level <= r)%nat /\ (r <= Nat.max level 2)%nat /\
  forall i, (level < i <= r)%nat -> has_overlap_in_level v i (Some lo) (Some hi) = false.
Proof.
  induction fuel as [|fuel IH]; intros level; cbn [plmo_loop]; cbv zeta.
  - split; [lia|]. split; [lia|]. intros i L. lia.
  - destruct (N.ltb_spec (N.of_nat level) MAX_MEM_COMPACT_LEVEL) as [L2|L2]; cbn [negb].
    2:{ split; [lia|]. split; [lia|]. intros i L. lia. }
    unfold MAX_MEM_COMPACT_LEVEL in L2.
    destruct (has_overlap_in_level v (S level) (Some lo) (Some hi)) eqn:Ho.
    { split; [lia|]. split; [lia|]. intros i L. lia. }
    destruct (_ && _).
    { split; [lia|]. split; [lia|]. intros i L. lia. }
    specialize (IH (S level)). cbv zeta in IH. destruct IH as (I1 & I2 & I3).
    split; [lia|]. split; [lia|]. intros i L.
    destruct (Nat.eq_dec i (S level)) as [->|N]; [exact Ho|]. apply I3. lia.
Qed.

Lemma pick_level_spec v mfs lo hi :
  let L := pick_level_for_memtable_output v mfs lo hi in
  (L <= 2)%nat /\
  (L <> O -> forall i, (i <= L)%nat -> has_overlap_in_level v i (Some lo) (Some hi) = false).
Proof.
  cbv zeta. unfold pick_level_for_memtable_output.
  destruct (has_overlap_in_level v 0 (Some lo) (Some hi)) eqn:H0.
  - split; [lia|]. congruence.
  - pose proof (plmo_spec v mfs lo hi (N.to_nat MAX_NUM_LEVELS) O) as S. cbv zeta in S.
    destruct S as (S1 & S2 & S3). split; [cbn [Nat.max] in S2; exact S2|].
    intros _ i Li. destruct i as [|i]; [exact H0|]. apply S3. lia.
Qed.

(** * Memtable flush *)

Lemma ae_add_single L fm i : ae_add (mkVE [] [(L, fm)]) i = if Nat.eqb L i then [fm] else [].
Proof. unfold ae_add. cbn [ve_added filter fst]. destruct (Nat.eqb L i); reflexivity. Qed.

Lemma ae_del_none adds i : ae_del (mkVE [] adds) i = [].
Proof. reflexivity. Qed.

Lemma file_large_seq s i f :
  WF s -> In f (lfs s i) -> ik_seq (fm_large f) <= l_seq s.
Proof.
  intros W Hf. pose proof (wf_bounds s W i f Hf) as B.
  destruct (file_last_entry _ _ B) as (e & He & E). apply ikey_cmp_eq_iff in E. destruct E as [_ E].
  rewrite E. pose proof (wf_eok_f s W i f e Hf He) as Ok. apply entry_ok_iff in Ok. lia.
Qed.

Lemma imm_file_bounds es e0 r lk n sz :
  es = e0 :: r -> sorted_entries es = true -> last_key es = Some lk ->
  file_bounds_ok es (mkFM n sz (fst e0) lk) = true.
Proof.
  intros E S LK. unfold file_bounds_ok. rewrite LK. rewrite E at 1. cbn [first_key fm_small fm_large].
  rewrite !ikey_cmp_refl. rewrite S. rewrite !andb_true_r. cbn [andb]. apply kleb_t.
  destruct (last_key_in _ _ LK) as (e & He & <-).
  apply (sorted_first_le es (fst e0) e S); [rewrite E; reflexivity|exact He].
Qed.

Lemma perm_nodup_map {A B} (g : A -> B) l l' :
  Permutation l l' -> NoDup (map g l') -> NoDup (map g l).
Proof.
  intros P H. eapply Permutation_NoDup; [|exact H]. apply Permutation_map. symmetry. exact P.
Qed.

Lemma flush_ok mfs s :
  WF s -> l_seq s <= MAX_SEQ ->
  WF (do_flush mfs s) /\ forall e, In e (all_entries (do_flush mfs s)) <-> In e (all_entries s).
Proof.
  intros W Bseq. unfold do_flush.
  destruct (l_imm s) as [[|e0 r]|] eqn:EI; [| |split; [exact W|tauto]].
  { (* empty immutable memtable *)
    assert (EIL : imm_l s = []) by (unfold imm_l; rewrite EI; reflexivity).
    split.
    - pose proof (wf_r_mi s W) as Rmi. pose proof (wf_r_if s W) as Rif. pose proof (wf_eok_i s W) as Ei.
      constructor; try (first [exact (wf_panic s W)|exact (wf_len s W)|exact (wf_ver s W)|exact (wf_bounds s W)
        |exact (wf_mem_sorted s W)|exact (wf_r_mf s W)
        |exact (wf_r_l0 s W)|exact (wf_r_lev s W)|exact (wf_eok_m s W)
        |exact (wf_eok_f s W)|exact (wf_snaps s W)]).
      + reflexivity.
      + apply nt_nil_r.
      + intros i f _. apply nt_nil_l.
      + intros e [].
      + intros i f Hf. pose proof (wf_nums s W i f Hf) as H. cbn [l_next]. lia.
    - intros e. rewrite !all_entries_In, EIL. unfold imm_l at 1. cbn [l_imm l_mem].
      change (lfs (mkLsm (l_mem s) None (l_ver s) (l_store s) (l_seq s) (l_snaps s) (l_next s + 1) (l_panic s)))
        with (lfs s).
      change (fe (mkLsm (l_mem s) None (l_ver s) (l_store s) (l_seq s) (l_snaps s) (l_next s + 1) (l_panic s)))
        with (fe s).
      tauto. }
  set (es := e0 :: r) in *.
  assert (EIL : imm_l s = es) by (unfold imm_l; rewrite EI; reflexivity).
  destruct (last_key es) as [lk|] eqn:ELK; [|split; [exact W|tauto]].
  set (num := l_next s + 1).
  set (sz := blen (concat (map (fun e => ikey_encode (fst e) ++ snd e) es))).
  set (fm := mkFM num sz (fst e0) lk).
  set (lo := ik_user (fst e0)). set (hi := ik_user lk).
  set (L := pick_level_for_memtable_output (l_ver s) mfs lo hi).
  pose proof (pick_level_spec (l_ver s) mfs lo hi) as PL. cbv zeta in PL. fold L in PL.
  destruct PL as [PL1 PL2].
  pose proof (wf_imm_sorted s W) as Ses. rewrite EIL in Ses.
  assert (Bfm : file_bounds_ok es fm = true) by (apply (imm_file_bounds es e0 r); auto).
  assert (Ofm : ordered fm) by (apply (file_ordered es); exact Bfm).
  assert (Ues : forall x, In x es -> ule lo (usr x) /\ ule (usr x) hi).
  { intros x Hx. apply (entry_user_range (fun _ => es) fm x Bfm Hx). }
  assert (NoOv : L <> O -> forall i, (i <= L)%nat -> no_overlap (l_ver s) i lo hi).
  { intros NL i Li. apply has_overlap_false; [apply (wf_ver s W)| |apply PL2; assumption].
    intros f Hf. pose proof (file_large_seq s i f W Hf). lia. }
  assert (Fresh : forall i f, In f (lfs s i) -> fm_num f <> num).
  { intros i f Hf. pose proof (wf_nums s W i f Hf). unfold num. lia. }
  assert (Llt : (L < length (l_ver s))%nat) by (rewrite (wf_len s W); lia).
  set (ed := mkVE [] [(L, fm)]).
  destruct (apply_edit (l_ver s) ed) as [v'|] eqn:EA.
  2:{ exfalso. revert EA. apply ael_some. intros i B Hn. cbn [Nat.add].
      pose proof (nth_error_level _ _ _ Hn) as HB.
      destruct i as [|j]; [unfold apply_level; cbn [Nat.eqb]; discriminate|].
      assert (OB : forall f, In f B -> ordered f).
      { intros f Hf. apply (wf_ordered (l_ver s) (S j)); [apply (wf_ver s W)|]. rewrite HB. exact Hf. }
      assert (SB : StronglySorted lt_files B).
      { rewrite <- HB. apply wf_level_sorted; [apply (wf_ver s W)|congruence]. }
      unfold ed. rewrite ae_add_single, ae_del_none.
      destruct (Nat.eqb L (S j)) eqn:Ej.
      - apply Nat.eqb_eq in Ej. apply apply_level_some; auto.
        + intros f [<-|[]]. exact Ofm.
        + constructor; constructor.
        + rewrite map_app. apply NoDup_app_intro.
          * rewrite <- HB. apply wf_level_nodup. apply (wf_ver s W).
          * constructor; [intros []|constructor].
          * intros x Hx [<-|[]]. apply in_map_iff in Hx. destruct Hx as (f & E & Hf).
            apply (Fresh (S j) f); [unfold lfs; rewrite HB; exact Hf|exact E].
        + intros f o Hf [<-|[]] _.
          assert (NO : no_overlap (l_ver s) (S j) lo hi) by (apply NoOv; lia).
          destruct (NO f) as [D|D]; [rewrite HB; exact Hf| |].
          * left. apply ult_klt. exact D.
          * right. apply ult_klt. exact D.
      - apply apply_level_some; auto.
        + intros f [].
        + constructor.
        + rewrite app_nil_r. rewrite <- HB. apply wf_level_nodup. apply (wf_ver s W).
        + intros f o _ []. }
  set (s' := mkLsm (l_mem s) None v' ((num, es) :: l_store s) (l_seq s) (l_snaps s) num (l_panic s)).
  assert (Len' : length v' = length (l_ver s)) by (apply (apply_edit_len _ _ _ EA)).
  assert (Files : forall i f, In f (lfs s' i) <-> In f (lfs s i) \/ (i = L /\ f = fm)).
  { intros i f. unfold lfs. cbn [l_ver s'].
    destruct (Nat.lt_ge_cases i (length (l_ver s))) as [Li|Li].
    - rewrite (apply_edit_In _ _ _ EA i f Li). unfold ed. cbn [ve_added ve_deleted In]. split.
      + intros [[H|[H|[]]] _]; [left; exact H|right]. injection H as -> ->. auto.
      + intros [H|[-> ->]]; (split; [|intros [[] _]]); [left; exact H|right; left; reflexivity].
    - rewrite (apply_edit_overflow _ _ _ EA i Li), (level_files_overflow _ i Li). split; [intros []|].
      intros [[]|[-> _]]. lia. }
  assert (FeOld : forall i f, In f (lfs s i) -> fe s' f = fe s f).
  { intros i f Hf. unfold fe. rewrite !file_entries_lookup. cbn [l_store s'].
    apply (lookup_app_notin [(num, es)]). cbn [map fst]. intros [E|[]]. apply (Fresh i f Hf). symmetry. exact E. }
  assert (FeNew : fe s' fm = es).
  { unfold fe. rewrite file_entries_lookup. cbn [l_store s' fm_num fm].
    apply (lookup_app_in [(num, es)]); [constructor; [intros []|constructor]|left; reflexivity]. }
  (* a file of a level above the new file shares no user key with it *)
  assert (Above : forall i f, (i < L)%nat -> In f (lfs s i) -> nt (fe s f) es).
  { intros i f Li Hf x y Hx Hy U. exfalso.
    assert (NO : no_overlap (l_ver s) i lo hi) by (apply NoOv; lia).
    destruct (entry_user_range (fe s) f x (wf_bounds s W i f Hf) Hx) as [X1 X2].
    destruct (Ues y Hy) as [Y1 Y2]. rewrite U in X1, X2.
    destruct (NO f Hf) as [D|D]; uorder. }
  split.
  - constructor; cbn [l_mem l_imm l_ver l_store l_seq l_snaps l_next l_panic s'].
    + apply (wf_panic s W).
    + rewrite Len'. apply (wf_len s W).
    + (* version_wf *)
      apply version_wf_intro.
      * intros i Ni. apply (apply_edit_cd _ _ _ EA i Ni).
      * intros i f Hf. apply (Files i f) in Hf. destruct Hf as [Hf|[_ ->]]; [|exact Ofm].
        apply (wf_ordered (l_ver s) i); [apply (wf_ver s W)|exact Hf].
      * intros i. destruct (Nat.lt_ge_cases i (length (l_ver s))) as [Li|Li].
        -- eapply perm_nodup_map; [apply (apply_edit_perm _ _ _ EA i Li)|].
           apply NoDup_map_filter. rewrite map_app. apply NoDup_app_intro.
           ++ apply wf_level_nodup. apply (wf_ver s W).
           ++ unfold ed. rewrite ae_add_single. destruct (Nat.eqb L i); [|constructor].
              constructor; [intros []|constructor].
           ++ unfold ed. rewrite ae_add_single. intros x Hx Ha.
              destruct (Nat.eqb L i); [|destruct Ha]. destruct Ha as [<-|[]].
              apply in_map_iff in Hx. destruct Hx as (f & E & Hf). apply (Fresh i f Hf E).
        -- rewrite (apply_edit_overflow _ _ _ EA i Li). constructor.
      * intros i j f g Nij Hf Hg E. apply (Files i f) in Hf. apply (Files j g) in Hg.
        destruct Hf as [Hf|[-> ->]], Hg as [Hg|[-> ->]].
        -- destruct (wf_same_num _ _ _ _ _ (wf_ver s W) Hf Hg E). contradiction.
        -- apply (Fresh i f Hf). exact E.
        -- apply (Fresh j g Hg). symmetry. exact E.
        -- contradiction.
    + intros i f Hf. apply Files in Hf. destruct Hf as [Hf|[_ ->]].
      * rewrite (FeOld i f Hf). apply (wf_bounds s W i f Hf).
      * rewrite FeNew. exact Bfm.
    + apply (wf_mem_sorted s W).
    + reflexivity.
    + apply nt_nil_r.
    + intros i f Hf. apply Files in Hf. destruct Hf as [Hf|[_ ->]].
      * rewrite (FeOld i f Hf). apply (wf_r_mf s W i f Hf).
      * rewrite FeNew. rewrite <- EIL. apply (wf_r_mi s W).
    + intros i f _. apply nt_nil_l.
    + intros f g Hf Hg Lt. apply Files in Hf. apply Files in Hg.
      destruct Hf as [Hf|[EL ->]], Hg as [Hg|[EL' ->]].
      * rewrite (FeOld O f Hf), (FeOld O g Hg). apply (wf_r_l0 s W); assumption.
      * exfalso. pose proof (wf_nums s W O f Hf). cbn [fm_num fm] in Lt. unfold num in Lt. lia.
      * rewrite FeNew, (FeOld O g Hg). rewrite <- EIL. apply (wf_r_if s W O g Hg).
      * lia.
    + intros i j f g Lij Hf Hg. apply Files in Hf. apply Files in Hg.
      destruct Hf as [Hf|[EL ->]], Hg as [Hg|[EL' ->]].
      * rewrite (FeOld i f Hf), (FeOld j g Hg). apply (wf_r_lev s W i j); assumption.
      * rewrite (FeOld i f Hf), FeNew. apply (Above i f); [lia|exact Hf].
      * rewrite FeNew, (FeOld j g Hg). rewrite <- EIL. apply (wf_r_if s W j g Hg).
      * lia.
    + apply (wf_eok_m s W).
    + intros e [].
    + intros i f e Hf He. apply Files in Hf. destruct Hf as [Hf|[_ ->]].
      * rewrite (FeOld i f Hf) in He. apply (wf_eok_f s W i f e Hf He).
      * rewrite FeNew in He. apply (wf_eok_i s W). rewrite EIL. exact He.
    + intros i f Hf. apply Files in Hf. destruct Hf as [Hf|[_ ->]].
      * pose proof (wf_nums s W i f Hf). unfold num. lia.
      * cbn [fm_num fm]. lia.
    + apply (wf_snaps s W).
  - intros e. rewrite !all_entries_In, EIL. unfold imm_l at 1. cbn [l_imm l_mem s']. split.
    + intros [H|[[]|(i & f & Hf & He)]]; [auto|]. apply Files in Hf. destruct Hf as [Hf|[_ ->]].
      * rewrite (FeOld i f Hf) in He. right. right. eauto.
      * rewrite FeNew in He. auto.
    + intros [H|[H|(i & f & Hf & He)]]; [auto| |].
      * right. right. exists L, fm. split; [apply Files; right; auto|rewrite FeNew; exact H].
      * right. right. exists i, f. split; [apply Files; left; exact Hf|rewrite (FeOld i f Hf); exact He].
Qed.


(* ========================================================================================== *)
(** LSM state machine proofs, part 4a: what [finalize_inputs] guarantees about the chosen inputs,
    as propositions: no duplicates, separation, hull closure, boundary closure of both input
    lists. No axioms. *)

(** * [add_boundary_inputs] adds no file twice *)

Lemma abi_loop_nodup lf :
  (forall f, In f lf -> ordered f) ->
  forall fuel k acc, NoDup acc -> (forall f, In f acc -> ikey_le (fm_large f) k) ->
  NoDup (abi_loop fuel lf k acc).
Proof.
  intros Ord. induction fuel as [|fuel IH]; intros k acc ND Hle; cbn [abi_loop]; [exact ND|].
  pose proof (fsb_spec lf k) as S. destruct (find_smallest_boundary_file lf k) as [b|]; [|exact ND].
  destruct S as (Hb & [C1 C2] & _). pose proof (Ord b Hb) as Ob. unfold ordered in Ob.
  apply IH.
  - apply NoDup_app_intro; [exact ND|constructor; [intros []|constructor]|].
    intros x Hx [E|[]]. subst x. specialize (Hle b Hx). korder.
  - intros f Hf. apply in_app_or in Hf. destruct Hf as [Hf|[<-|[]]]; [|korder].
    specialize (Hle f Hf). korder.
Qed.

Lemma abi_nodup lf fs :
  (forall f, In f lf -> ordered f) -> NoDup fs -> NoDup (add_boundary_inputs lf fs).
Proof.
  intros Ord ND. unfold add_boundary_inputs. destruct fs as [|f0 fs'] eqn:E; [exact ND|].
  rewrite <- E in *. assert (N : fs <> []) by (rewrite E; discriminate).
  destruct (flk_spec fs N) as (k0 & -> & K1 & _). apply abi_loop_nodup; auto.
Qed.

(** * Boundary closure of [add_boundary_inputs] on a seed whose only open end is its top *)

Definition seed_top_closed (lf seed : list fmeta) : Prop :=
  forall h b, In h seed -> In b lf -> ~ In b seed ->
    ikey_lt (fm_large h) (fm_small b) -> usmall b = ularge h ->
    exists t, In t seed /\ (forall g, In g seed -> ikey_le (fm_large g) (fm_large t))
              /\ ikey_lt (fm_large t) (fm_small b) /\ usmall b = ularge t.

Section ABI_CLOSED.
Variable lf : list fmeta.
Hypothesis lf_sorted : StronglySorted lt_files lf.
Hypothesis lf_ordered : forall f, In f lf -> ordered f.

Lemma cntgt_decr k b :
  In b lf -> cand k b -> (cntgt lf (fm_large b) < cntgt lf k)%nat.
Proof.
  intros Hb [C1 C2]. pose proof (lf_ordered b Hb) as Ob. unfold ordered in Ob. unfold cntgt.
  apply filter_length_lt with (x := b); auto.
  - intros y _ Hy. breflect. korder.
  - breflect. exact C1.
  - breflect. exact Ob.
Qed.

Lemma abi_loop_cand_in : forall fuel k acc b,
  (cntgt lf k < fuel)%nat -> In b lf -> cand k b -> In b (abi_loop fuel lf k acc).
Proof.
  induction fuel as [|fuel IH]; intros k acc b Lf Hb Cb; [lia|]. cbn [abi_loop].
  pose proof (fsb_spec lf k) as S. destruct (find_smallest_boundary_file lf k) as [b1|].
  2:{ exfalso. exact (S b Hb Cb). }
  destruct S as (Hb1 & Cb1 & Cmin).
  destruct (sorted_trich lf b1 b lf_sorted Hb1 Hb) as [E|[L|L]].
  - subst b1. destruct (abi_loop_app fuel lf (fm_large b) (acc ++ [b])) as (extra & -> & _).
    apply in_or_app. left. apply in_or_app. right. left. reflexivity.
  - apply IH; [|exact Hb|].
    + pose proof (cntgt_decr k b1 Hb1 Cb1). lia.
    + destruct Cb1 as [C1 C2]. destruct Cb as [D1 D2]. split; [exact L|].
      pose proof (ordered_user _ (lf_ordered b1 Hb1)) as O1. pose proof (klt_ule _ _ L) as U.
      rewrite D2. rewrite C2 in O1. rewrite D2 in U. uorder.
  - exfalso. specialize (Cmin b Hb Cb). pose proof (lf_ordered b Hb) as Ob.
    unfold lt_files, ordered in *. korder.
Qed.

Lemma abi_loop_closed : forall fuel k acc,
  (cntgt lf k < fuel)%nat ->
  forall f, In f (abi_loop fuel lf k acc) ->
  In f acc \/ (forall b, In b lf -> cand (fm_large f) b -> In b (abi_loop fuel lf k acc)).
Proof.
  induction fuel as [|fuel IH]; intros k acc Lf f Hf; [lia|]. cbn [abi_loop] in *.
  pose proof (fsb_spec lf k) as S. destruct (find_smallest_boundary_file lf k) as [b1|]; [|left; exact Hf].
  destruct S as (Hb1 & Cb1 & _).
  assert (Lf' : (cntgt lf (fm_large b1) < fuel)%nat) by (pose proof (cntgt_decr k b1 Hb1 Cb1); lia).
  destruct (IH (fm_large b1) (acc ++ [b1]) Lf' f Hf) as [Ha|Hc]; [|right; exact Hc].
  apply in_app_or in Ha. destruct Ha as [Ha|[<-|[]]]; [left; exact Ha|right].
  intros b Hb Cb. apply abi_loop_cand_in; assumption.
Qed.

Lemma abi_boundary_closed seed :
  (forall f, In f seed -> In f lf) -> seed_top_closed lf seed ->
  boundary_closed lf (add_boundary_inputs lf seed).
Proof.
  intros Sub Top f b Hf Hb Nb [Lt U]. unfold add_boundary_inputs in *.
  destruct seed as [|s0 seed'] eqn:E; [destruct Hf|]. rewrite <- E in *.
  assert (N : seed <> []) by (rewrite E; discriminate).
  destruct (flk_spec seed N) as (k0 & Ek & K1 & (fk & K2 & K3)). rewrite Ek in *.
  assert (Lf : (cntgt lf k0 < S (length lf))%nat).
  { unfold cntgt. pose proof (filter_length_le (fun f => ikey_ltb k0 (fm_small f)) lf). lia. }
  destruct (abi_loop_closed _ _ _ Lf f Hf) as [Hs|Hc].
  - assert (Nbs : ~ In b seed).
    { intros Hi. apply Nb. destruct (abi_loop_app (S (length lf)) lf k0 seed) as (extra & -> & _).
      apply in_or_app. left. exact Hi. }
    destruct (Top f b Hs Hb Nbs Lt U) as (t & Ht & Tmax & Tlt & Tu).
    pose proof (Tmax fk K2) as T. rewrite K3 in T. specialize (K1 t Ht).
    apply Nb. apply abi_loop_cand_in; [exact Lf|exact Hb|]. split; [korder|].
    rewrite Tu. apply ikey_cmp_eq_user. apply ikey_le_antisym; assumption.
  - apply Nb. apply Hc; [exact Hb|]. split; assumption.
Qed.
End ABI_CLOSED.

(** * The guarantees of [finalize_inputs] *)

Record cfacts (v : version) (L : nat) (c : cinputs) : Prop := {
  cf_level : ci_level c = L;
  cf_ne : ci_in0 c <> [];
  cf_sub0 : forall f, In f (ci_in0 c) -> In f (level_files v L);
  cf_sub1 : forall f, In f (ci_in1 c) -> In f (level_files v (S L));
  cf_nd0 : NoDup (ci_in0 c);
  cf_nd1 : NoDup (ci_in1 c);
  cf_sep : separated v c;
  cf_parent_hull : forall lo hi f, hull (ci_in0 c) = Some (lo, hi) ->
      In f (level_files v (S L)) -> file_meets lo hi f = true -> In f (ci_in1 c);
  cf_l0 : L = O -> hull_closed (level_files v O) (ci_in0 c);
  cf_bnd0 : L <> O -> boundary_closed (level_files v L) (ci_in0 c);
  cf_bnd1 : boundary_closed (level_files v (S L)) (ci_in1 c)
}.

Lemma level_nodup v i : version_wf v = true -> NoDup (level_files v i).
Proof. intros WF. eapply NoDup_map_inv. apply wf_level_nodup. exact WF. Qed.

Lemma overlapping_inputs_nodup v l lo hi :
  version_wf v = true -> NoDup (overlapping_inputs v l lo hi).
Proof.
  intros WF. destruct l as [|l].
  - destruct (overlapping_inputs_l0_closed v lo hi) as [(lo' & hi' & _ & _ & E & _) _].
    cbv zeta in E. rewrite E. apply NoDup_filter. apply level_nodup. exact WF.
  - rewrite overlapping_inputs_eq by congruence. apply NoDup_filter. apply level_nodup. exact WF.
Qed.

Theorem finalize_cfacts mfs v level seed c :
  version_wf v = true ->
  seed <> [] -> NoDup seed ->
  (forall f, In f seed -> In f (level_files v level)) ->
  (level = O -> hull_closed (level_files v O) seed) ->
  (level <> O -> seed_top_closed (level_files v level) seed) ->
  finalize_inputs true true mfs v level seed = Some c ->
  cfacts v level c.
Proof.
  intros WF N NDs Sub Cl0 Top H.
  destruct (finalize_inputs_separated _ _ _ _ _ _ WF H) as [Sep Sub1].
  pose proof (finalize_inputs_parent_boundary_closed _ _ _ _ _ WF H) as B1.
  pose proof (finalize_inputs_level _ _ _ _ _ _ H) as EL.
  rewrite EL in Sub1, B1.
  destruct c as [clevel ci0 ci1 grand ptr]. cbn [ci_level ci_in0 ci_in1] in *.
  apply finalize_inputs_cases in H. cbv zeta in H. cbn [ci_level ci_in0 ci_in1] in H.
  destruct H as (r0 & E0 & _ & H).
  set (lf := level_files v level) in *. set (lf1 := level_files v (S level)) in *.
  set (in0 := add_boundary_inputs lf seed) in *.
  set (M := overlapping_inputs v (S level) (Some (fst r0)) (Some (snd r0))) in *.
  set (in1 := add_boundary_inputs lf1 M) in *.
  assert (Ord : forall l f, In f (level_files v l) -> ordered f) by (intros; eapply wf_ordered; eauto).
  assert (N0 : in0 <> []) by (apply abi_nonempty; exact N).
  assert (L0 : forall f, In f in0 -> In f lf) by (intros f; apply abi_sub; exact Sub).
  assert (MS : forall f, In f M -> In f lf1) by (intros f; apply overlapping_inputs_sub).
  assert (SSl : level <> O -> StronglySorted lt_files lf) by (intros; apply wf_level_sorted; auto).
  destruct H as [[-> ->]|(rall & rnew & E1 & E2 & Hlen & -> & Hexp1)].
  - (* the base selection *)
    constructor; cbn [ci_level ci_in0 ci_in1]; auto.
    + apply abi_nodup; [apply Ord|exact NDs].
    + apply abi_nodup; [apply Ord|]. apply overlapping_inputs_nodup. exact WF.
    + intros lo hi f Hh Hf Mt. apply abi_incl. eapply parent_selection_covers; eauto.
    + intros ->. unfold in0. rewrite abi_closed; auto. intros f. apply Ord.
    + intros NL. apply abi_boundary_closed; auto. apply Ord.
  - (* the expanded selection *)
    set (R := overlapping_inputs v level (Some (fst rall)) (Some (snd rall))) in *.
    set (exp0 := add_boundary_inputs lf R) in *.
    assert (RS : forall f, In f R -> In f lf) by (intros f; apply overlapping_inputs_sub).
    assert (Ne : exp0 <> []) by (intros E; rewrite E in Hlen; cbn [length] in Hlen; lia).
    set (E := overlapping_inputs v (S level) (Some (fst rnew)) (Some (snd rnew))) in *.
    assert (X2 : forall f, In f E -> In f ci1).
    { rewrite Hexp1. intros f. apply abi_incl. }
    constructor; cbn [ci_level ci_in0 ci_in1]; auto.
    + intros f. apply abi_sub. exact RS.
    + apply abi_nodup; [apply Ord|]. apply overlapping_inputs_nodup. exact WF.
    + rewrite Hexp1. apply abi_nodup; [apply Ord|]. apply overlapping_inputs_nodup. exact WF.
    + intros lo hi f Hh Hf Mt. apply X2. eapply parent_selection_covers; eauto.
    + intros ->. unfold exp0. rewrite abi_closed; auto.
      * apply overlapping_inputs_l0_hull_closed.
      * intros f. apply Ord.
      * apply overlapping_inputs_l0_hull_closed.
    + intros NL. destruct level as [|l]; [congruence|].
      apply parent_inputs_boundary_closed. exact WF.
Qed.

(** [files_of] *)
Lemma files_of_sub v level seed f : In f (files_of v level seed) -> In f (level_files v level).
Proof. unfold files_of. intros H. apply filter_In in H. tauto. Qed.

Lemma files_of_nodup v level seed : version_wf v = true -> NoDup (files_of v level seed).
Proof. intros WF. unfold files_of. apply NoDup_filter. apply level_nodup. exact WF. Qed.

(** * Consequences on user keys *)

Section CF.
Variables (v : version) (L : nat) (c : cinputs).
Hypothesis WFv : version_wf v = true.
Hypothesis CF : cfacts v L c.

Lemma in0_hull : exists lo hi, hull (ci_in0 c) = Some (lo, hi) /\ is_hull (ci_in0 c) lo hi.
Proof. apply hull_is_hull. apply (cf_ne _ _ _ CF). Qed.

(** a parent file that is not an input has a user range disjoint from every level input *)
Lemma parent_disjoint_in0 r h :
  In r (level_files v (S L)) -> ~ In r (ci_in1 c) -> In h (ci_in0 c) ->
  ult (ularge h) (usmall r) \/ ult (ularge r) (usmall h).
Proof.
  intros Hr Nr Hh. destruct in0_hull as (lo & hi & Hh0 & (A1 & _ & A2 & _)).
  destruct (file_meets lo hi r) eqn:M.
  - exfalso. apply Nr. eapply (cf_parent_hull _ _ _ CF); eauto.
  - unfold file_meets in M. apply andb_false_iff in M. specialize (A1 h Hh). specialize (A2 h Hh).
    destruct M as [M|M]; breflect; [left|right]; uorder.
Qed.

(** a level-0 file that is not an input has a user range disjoint from every level-0 input *)
Lemma l0_disjoint_in0 f h :
  L = O -> In f (level_files v O) -> ~ In f (ci_in0 c) -> In h (ci_in0 c) ->
  ult (ularge h) (usmall f) \/ ult (ularge f) (usmall h).
Proof.
  intros EL Hf Nf Hh. destruct in0_hull as (lo & hi & Hh0 & (A1 & _ & A2 & _)).
  destruct (file_meets lo hi f) eqn:M.
  - exfalso. apply Nf. eapply (cf_l0 _ _ _ CF EL); eauto.
  - unfold file_meets in M. apply andb_false_iff in M. specialize (A1 h Hh). specialize (A2 h Hh).
    destruct M as [M|M]; breflect; [left|right]; uorder.
Qed.
End CF.


(* ========================================================================================== *)
(** LSM state machine proofs, part 4b: recency of the non-input files over the compaction inputs,
    distinct files hold distinct keys, the output files of a compaction. No axioms. *)

(** * Everything that stays above the inputs is newer than the inputs *)

Section KL.
Variables (s : lsm) (L : nat) (c : cinputs).
Hypothesis W : WF s.
Hypothesis CF : cfacts (l_ver s) L c.

Let WFv := wf_ver s W.

Lemma in0_lfs h : In h (ci_in0 c) -> In h (lfs s L).
Proof. apply (cf_sub0 _ _ _ CF). Qed.
Lemma in1_lfs h : In h (ci_in1 c) -> In h (lfs s (S L)).
Proof. apply (cf_sub1 _ _ _ CF). Qed.

Lemma input_cases h : In h (ci_in0 c ++ ci_in1 c) ->
  (In h (ci_in0 c) /\ In h (lfs s L)) \/ (In h (ci_in1 c) /\ In h (lfs s (S L))).
Proof.
  intros H. apply in_app_or in H. destruct H as [H|H]; [left|right]; split; auto using in0_lfs, in1_lfs.
Qed.

(** files of the compacted level that are not inputs *)
Lemma KL_level f h :
  In f (lfs s L) -> ~ In f (ci_in0 c) -> In h (ci_in0 c ++ ci_in1 c) -> nt (fe s f) (fe s h).
Proof.
  intros Hf Nf Hh. destruct (input_cases h Hh) as [[H0 Hl]|[H1 Hl]].
  2:{ apply (wf_r_lev s W L (S L)); [lia|exact Hf|exact Hl]. }
  pose proof (wf_bounds s W L f Hf) as Bf. pose proof (wf_bounds s W L h Hl) as Bh.
  destruct (Nat.eq_dec L O) as [EL|NL].
  - intros x y Hx Hy U. exfalso. subst L.
    pose proof (l0_disjoint_in0 _ _ _ CF f h eq_refl Hf Nf H0) as D.
    apply (nt_user_disjoint (fe s) f h Bf Bh) with (x := x) (y := y); auto.
    destruct D as [D|D]; [right|left]; exact D.
  - assert (SS : StronglySorted lt_files (lfs s L)) by (apply wf_level_sorted; auto).
    destruct (sorted_trich _ f h SS Hf Hl) as [E|[Lt|Lt]].
    + subst h. contradiction.
    + apply nt_lt_files; assumption.
    + intros x y Hx Hy U. exfalso.
      destruct (lt_files_common_user (fe s) h f x y Bf Bh Lt Hx Hy U) as [E1 _].
      apply (cf_bnd0 _ _ _ CF NL h f H0 Hf Nf). split; [exact Lt|exact E1].
Qed.

(** files of the parent level that are not inputs *)
Lemma KL_parent r h :
  In r (lfs s (S L)) -> ~ In r (ci_in1 c) -> In h (ci_in0 c ++ ci_in1 c) -> nt (fe s r) (fe s h).
Proof.
  intros Hr Nr Hh. pose proof (wf_bounds s W (S L) r Hr) as Br.
  assert (Bh : file_bounds_ok (fe s h) h = true).
  { destruct (input_cases h Hh) as [[_ Hl]|[_ Hl]]; eapply (wf_bounds s W); exact Hl. }
  pose proof (cf_sep _ _ _ CF) as Sep. unfold separated in Sep. rewrite (cf_level _ _ _ CF) in Sep.
  destruct (Sep r Hr Nr) as [S|S].
  - apply nt_lt_files; auto.
  - specialize (S h Hh). intros x y Hx Hy U. exfalso.
    destruct (lt_files_common_user (fe s) h r x y Br Bh S Hx Hy U) as [E1 _].
    destruct (input_cases h Hh) as [[H0 Hl]|[H1 Hl]].
    + pose proof (parent_disjoint_in0 _ _ _ CF r h Hr Nr H0) as D.
      pose proof (ordered_user _ (file_ordered _ _ Br)) as Or.
      pose proof (ordered_user _ (file_ordered _ _ Bh)) as Oh.
      rewrite E1 in *. destruct D as [D|D]; uorder.
    + apply (cf_bnd1 _ _ _ CF h r H1 Hr Nr). split; [exact S|exact E1].
Qed.

(** files of the levels above *)
Lemma KL_upper i f h :
  (i < L)%nat -> In f (lfs s i) -> In h (ci_in0 c ++ ci_in1 c) -> nt (fe s f) (fe s h).
Proof.
  intros Li Hf Hh. destruct (input_cases h Hh) as [[_ Hl]|[_ Hl]].
  - apply (wf_r_lev s W i L); auto.
  - apply (wf_r_lev s W i (S L)); auto.
Qed.

Lemma KL_mem h : In h (ci_in0 c ++ ci_in1 c) -> nt (l_mem s) (fe s h).
Proof. intros Hh. destruct (input_cases h Hh) as [[_ Hl]|[_ Hl]]; eapply (wf_r_mf s W); exact Hl. Qed.

Lemma KL_imm h : In h (ci_in0 c ++ ci_in1 c) -> nt (imm_l s) (fe s h).
Proof. intros Hh. destruct (input_cases h Hh) as [[_ Hl]|[_ Hl]]; eapply (wf_r_if s W); exact Hl. Qed.

(** the inputs are newer than every deeper level *)
Lemma KL_below j g h :
  (S L < j)%nat -> In g (lfs s j) -> In h (ci_in0 c ++ ci_in1 c) -> nt (fe s h) (fe s g).
Proof.
  intros Lj Hg Hh. destruct (input_cases h Hh) as [[_ Hl]|[_ Hl]].
  - apply (wf_r_lev s W L j); auto. lia.
  - apply (wf_r_lev s W (S L) j); auto.
Qed.

Lemma inputs_nodup : NoDup (ci_in0 c ++ ci_in1 c).
Proof.
  apply NoDup_app_intro; [apply (cf_nd0 _ _ _ CF)|apply (cf_nd1 _ _ _ CF)|].
  intros x H0 H1. apply in0_lfs in H0. apply in1_lfs in H1.
  destruct (wf_same_num _ _ _ _ _ WFv H0 H1 eq_refl) as [E _]. lia.
Qed.
End KL.

(** * Distinct files hold distinct keys *)

Lemma files_keys_disjoint s i j f g x y :
  WF s -> In f (lfs s i) -> In g (lfs s j) -> f <> g ->
  In x (fe s f) -> In y (fe s g) -> key_of x <> key_of y.
Proof.
  intros W Hf Hg Nfg Hx Hy E. unfold key_of in E. injection E as EU ES.
  assert (Hlt : forall a b, nt a b -> In x a -> In y b -> False).
  { intros a b H Ha Hb. specialize (H x y Ha Hb EU). lia. }
  assert (Hgt : forall a b, nt b a -> In x a -> In y b -> False).
  { intros a b H Ha Hb. symmetry in EU. specialize (H y x Hb Ha EU). lia. }
  destruct (lt_eq_lt_dec i j) as [[Lt|Eq]|Gt].
  - apply (Hlt _ _ (wf_r_lev s W i j f g Lt Hf Hg) Hx Hy).
  - subst j. destruct i as [|i].
    + assert (Nn : fm_num f <> fm_num g).
      { intros En. destruct (wf_same_num _ _ _ _ _ (wf_ver s W) Hf Hg En). contradiction. }
      destruct (N.lt_total (fm_num f) (fm_num g)) as [Ln|[En|Ln]]; [|contradiction|].
      * apply (Hgt _ _ (wf_r_l0 s W g f Hg Hf Ln) Hx Hy).
      * apply (Hlt _ _ (wf_r_l0 s W f g Hf Hg Ln) Hx Hy).
    + assert (SS : StronglySorted lt_files (lfs s (S i))).
      { apply wf_level_sorted; [apply (wf_ver s W)|congruence]. }
      pose proof (wf_bounds s W _ f Hf) as Bf. pose proof (wf_bounds s W _ g Hg) as Bg.
      destruct (sorted_trich _ f g SS Hf Hg) as [E|[Lt|Lt]]; [contradiction| |].
      * apply (Hlt _ _ (nt_lt_files (fe s) f g Bf Bg Lt) Hx Hy).
      * apply (Hgt _ _ (nt_lt_files (fe s) g f Bg Bf Lt) Hx Hy).
  - apply (Hgt _ _ (wf_r_lev s W j i g f Gt Hg Hf) Hx Hy).
Qed.

Lemma files_keys_nodup s fs :
  WF s -> NoDup fs -> (forall f, In f fs -> exists i, In f (lfs s i)) ->
  NoDup (map key_of (concat (map (fe s) fs))).
Proof.
  intros W. induction fs as [|f fs IH]; intros ND Hin; cbn [map concat]; [constructor|].
  apply NoDup_cons_iff in ND. destruct ND as [Nf ND]. rewrite map_app.
  destruct (Hin f (or_introl eq_refl)) as (i & Hf).
  apply NoDup_app_intro.
  - apply SS_elt_NoDup_keys. apply sorted_entries_SS. apply (file_sorted _ f).
    apply (wf_bounds s W i f Hf).
  - apply IH; [exact ND|]. intros g Hg. apply Hin. right. exact Hg.
  - intros k Hk1 Hk2. apply in_map_iff in Hk1. destruct Hk1 as (x & Ex & Hx).
    apply in_map_iff in Hk2. destruct Hk2 as (y & Ey & Hy). apply in_concat in Hy.
    destruct Hy as (l & Hl & Hy). apply in_map_iff in Hl. destruct Hl as (g & <- & Hg).
    destruct (Hin g (or_intror Hg)) as (j & Hgj).
    apply (files_keys_disjoint s i j f g x y W Hf Hgj); [intros ->; contradiction|exact Hx|exact Hy|congruence].
Qed.

(** * The output files *)

Lemma bounds_intro es f :
  first_key es = Some (fm_small f) -> last_key es = Some (fm_large f) ->
  sorted_entries es = true -> file_bounds_ok es f = true.
Proof.
  intros F Lk S. unfold file_bounds_ok. rewrite F, Lk, !ikey_cmp_refl, S, !andb_true_r. cbn [andb].
  apply kleb_t. destruct (last_key_in _ _ Lk) as (e & He & <-).
  apply (sorted_first_le es _ e S F He).
Qed.

Definition onum (o : fmeta * list entry) : N := fm_num (fst o).

Lemma number_outputs_cons r rest next a b :
  first_key r = Some a -> last_key r = Some b ->
  number_outputs (r :: rest) next =
  (mkFM (next + 1) (blen (concat (map (fun e => ikey_encode (fst e) ++ snd e) r))) a b, r)
    :: number_outputs rest (next + 1).
Proof. intros F Lk. cbn [number_outputs]. rewrite F, Lk. reflexivity. Qed.

Lemma number_outputs_spec : forall runs next,
  Forall (fun b => b <> []) runs ->
  map snd (number_outputs runs next) = runs /\
  (forall o, In o (number_outputs runs next) ->
     first_key (snd o) = Some (fm_small (fst o)) /\ last_key (snd o) = Some (fm_large (fst o)) /\
     next < onum o <= next + N.of_nat (length runs)) /\
  NoDup (map onum (number_outputs runs next)).
Proof.
  induction runs as [|r rest IH]; intros next Hne.
  - cbn [number_outputs map]. split; [reflexivity|]. split; [intros o []|constructor].
  - inversion Hne as [|? ? Hr Hrest]; subst.
    destruct (first_key_some r Hr) as (e1 & b1 & Er & Fk).
    destruct (last_key_some r Hr) as (b0 & e2 & Er2 & Lk).
    rewrite (number_outputs_cons r rest next _ _ Fk Lk).
    destruct (IH (next + 1) Hrest) as (I1 & I2 & I3). cbn [map snd length]. split; [rewrite I1; reflexivity|].
    split.
    + intros o [<-|Ho].
      * cbn [fst snd fm_small fm_large]. unfold onum. cbn [fst fm_num]. repeat split; auto; lia.
      * destruct (I2 o Ho) as (A & B & C). repeat split; auto; lia.
    + constructor; [|exact I3]. unfold onum at 1. cbn [fst fm_num]. intros Hi.
      apply in_map_iff in Hi. destruct Hi as (o & E & Ho). destruct (I2 o Ho) as (_ & _ & C). lia.
Qed.

Lemma number_outputs_disjoint : forall runs next,
  Forall (fun b => b <> []) runs -> sorted_entries (concat runs) = true ->
  check_disjoint (map fst (number_outputs runs next)) = true.
Proof.
  induction runs as [|r rest IH]; intros next Hne S; [reflexivity|].
  inversion Hne as [|? ? Hr Hrest]; subst.
  destruct (first_key_some r Hr) as (e1 & b1 & Er & Fk).
  destruct (last_key_some r Hr) as (b0 & e2 & Er2 & Lk).
  rewrite (number_outputs_cons r rest next _ _ Fk Lk). cbn [map fst].
  assert (S' : sorted_entries (concat rest) = true).
  { cbn [concat] in S. eapply sorted_entries_app_r; exact S. }
  specialize (IH (next + 1) Hrest S').
  destruct rest as [|r' rest']; [reflexivity|].
  inversion Hrest as [|? ? Hr' Hrest']; subst.
  destruct (first_key_some r' Hr') as (e1' & b1' & Er' & Fk').
  destruct (last_key_some r' Hr') as (b0' & e2' & Er2' & Lk').
  rewrite (number_outputs_cons r' rest' (next + 1) _ _ Fk' Lk') in *. cbn [map fst] in *.
  cbn [check_disjoint]. cbn [check_disjoint] in IH. rewrite IH, andb_true_r.
  cbn [fm_large fm_small]. apply kltb_t.
  cbn [concat] in S. rewrite Er2 in S. rewrite Er' in S. rewrite <- !app_assoc in S. cbn [app] in S.
  eapply sorted_entries_adjacent. exact S.
Qed.

Lemma concat_run_sorted runs r :
  sorted_entries (concat runs) = true -> In r runs -> sorted_entries r = true.
Proof.
  intros S Hr. apply in_split in Hr. destruct Hr as (l1 & l2 & ->).
  rewrite concat_app in S. cbn [concat] in S.
  apply sorted_entries_app_r in S. apply sorted_app_inv in S. tauto.
Qed.


(* ========================================================================================== *)
(** LSM state machine proofs, part 4c: admissible compactions, the trivial move. No axioms. *)

(** how the implementation chooses the seed of a compaction *)
Definition compact_adm (s : lsm) (level : nat) (seed : list N) : Prop :=
  (S level < length (l_ver s))%nat /\
  files_of (l_ver s) level seed <> [] /\
  (level = O -> hull_closed (level_files (l_ver s) O) (files_of (l_ver s) level seed)) /\
  (level <> O -> seed_top_closed (level_files (l_ver s) level) (files_of (l_ver s) level seed)).

Lemma compact_cfacts mfs s level seed :
  WF s -> compact_adm s level seed ->
  exists c, finalize_inputs true true mfs (l_ver s) level (files_of (l_ver s) level seed) = Some c
            /\ cfacts (l_ver s) level c.
Proof.
  intros W (A1 & A2 & A3 & A4).
  destruct (finalize_inputs true true mfs (l_ver s) level (files_of (l_ver s) level seed)) as [c|] eqn:E.
  - exists c. split; [reflexivity|]. eapply finalize_cfacts; eauto.
    + apply (wf_ver s W).
    + apply files_of_nodup. apply (wf_ver s W).
    + intros f. apply files_of_sub.
  - exfalso. revert E. apply finalize_inputs_no_panic. exact A2.
Qed.

Lemma ae_add_one dels L fm i : ae_add (mkVE dels [(L, fm)]) i = if Nat.eqb L i then [fm] else [].
Proof. unfold ae_add. cbn [ve_added filter fst]. destruct (Nat.eqb L i); reflexivity. Qed.

(** * The trivial move *)

Lemma trivial_move_ok mfs s level seed :
  WF s -> compact_adm s level seed ->
  WF (do_trivial_move true true mfs s level seed)
  /\ forall e, In e (all_entries (do_trivial_move true true mfs s level seed)) <-> In e (all_entries s).
Proof.
  intros W Adm. destruct (compact_cfacts mfs s level seed W Adm) as (c & Ec & CF).
  destruct Adm as (Alen & _). unfold do_trivial_move. rewrite Ec.
  destruct (ci_in0 c) as [|f [|f' rest]] eqn:E0; try (split; [exact W|tauto]).
  destruct (negb (is_trivial_move mfs c)) eqn:TM; [split; [exact W|tauto]|].
  apply negb_false_iff in TM. unfold is_trivial_move in TM. rewrite !andb_true_iff in TM.
  destruct TM as [[_ TM] _]. apply Nat.eqb_eq in TM. apply length_zero_iff_nil in TM.
  pose proof (wf_ver s W) as WFv.
  assert (Hf : In f (lfs s level)).
  { apply (cf_sub0 _ _ _ CF). rewrite E0. left. reflexivity. }
  assert (Hin : In f (ci_in0 c ++ ci_in1 c)) by (rewrite E0; left; reflexivity).
  set (ed := mkVE [(level, fm_num f)] [(S level, f)]).
  destruct (apply_edit (l_ver s) ed) as [v'|] eqn:EA.
  2:{ exfalso. revert EA. apply ael_some. intros i B Hn. cbn [Nat.add].
      pose proof (nth_error_level _ _ _ Hn) as HB.
      destruct i as [|j]; [unfold apply_level; cbn [Nat.eqb]; discriminate|].
      assert (OB : forall g, In g B -> ordered g).
      { intros g Hg. apply (wf_ordered (l_ver s) (S j)); [exact WFv|]. rewrite HB. exact Hg. }
      assert (SB : StronglySorted lt_files B).
      { rewrite <- HB. apply wf_level_sorted; [exact WFv|congruence]. }
      unfold ed. rewrite ae_add_one.
      destruct (Nat.eqb (S level) (S j)) eqn:Ej.
      - apply Nat.eqb_eq in Ej. injection Ej as Ej. subst j. apply apply_level_some; auto.
        + intros g [<-|[]]. apply (wf_ordered (l_ver s) level); assumption.
        + constructor; constructor.
        + rewrite map_app. apply NoDup_app_intro.
          * rewrite <- HB. apply wf_level_nodup. exact WFv.
          * constructor; [intros []|constructor].
          * intros x Hx [<-|[]]. apply in_map_iff in Hx. destruct Hx as (g & E & Hg).
            rewrite <- HB in Hg. destruct (wf_same_num _ _ _ _ _ WFv Hg Hf E). lia.
        + intros r o Hr [<-|[]] _. rewrite <- HB in Hr.
          pose proof (cf_sep _ _ _ CF) as Sep. unfold separated in Sep. rewrite (cf_level _ _ _ CF) in Sep.
          destruct (Sep r Hr) as [S|S]; [rewrite TM; intros []|left|right]; apply S; exact Hin.
      - apply apply_level_some; auto.
        + intros g [].
        + constructor.
        + rewrite app_nil_r. rewrite <- HB. apply wf_level_nodup. exact WFv.
        + intros g o _ []. }
  set (s' := mkLsm (l_mem s) (l_imm s) v' (l_store s) (l_seq s) (l_snaps s) (l_next s) (l_panic s)).
  assert (Len' : length v' = length (l_ver s)) by (apply (apply_edit_len _ _ _ EA)).
  assert (Files : forall i g, In g (lfs s' i) <->
            (i = S level /\ g = f) \/ (In g (lfs s i) /\ ~ (i = level /\ g = f))).
  { intros i g. unfold lfs. cbn [l_ver s'].
    destruct (Nat.lt_ge_cases i (length (l_ver s))) as [Li|Li].
    - rewrite (apply_edit_In _ _ _ EA i g Li). unfold ed. cbn [ve_added ve_deleted In].
      rewrite ae_add_one. split.
      + intros [[H|[H|[]]] Hn].
        * right. split; [exact H|]. intros [-> ->]. apply Hn. split; [left; reflexivity|].
          replace (Nat.eqb (S level) level) with false by (symmetry; apply Nat.eqb_neq; lia).
          intros [].
        * injection H as <- <-. left. auto.
      + intros [[-> ->]|[H Hn]].
        * split; [right; left; reflexivity|]. intros [[E|[]] _]. apply (f_equal fst) in E. cbn [fst] in E. lia.
        * split; [left; exact H|]. intros [[E|[]] _]. injection E as E1 E2. subst i.
          apply Hn. split; [reflexivity|]. destruct (wf_same_num _ _ _ _ _ WFv H Hf (eq_sym E2)) as [_ E3].
          exact E3.
    - rewrite (apply_edit_overflow _ _ _ EA i Li), (level_files_overflow _ i Li). split; [intros []|].
      intros [[-> _]|[[] _]]. lia. }
  assert (Fe : forall g, fe s' g = fe s g) by reflexivity.
  assert (Old : forall i g, In g (lfs s' i) -> In g (lfs s i) \/ (i = S level /\ g = f)).
  { intros i g H. apply Files in H. tauto. }
  split.
  - constructor; cbn [l_mem l_imm l_ver l_store l_seq l_snaps l_next l_panic s'].
    + apply (wf_panic s W).
    + rewrite Len'. apply (wf_len s W).
    + apply version_wf_intro.
      * intros i Ni. apply (apply_edit_cd _ _ _ EA i Ni).
      * intros i g Hg. apply (Old i g) in Hg. destruct Hg as [Hg|[_ ->]].
        -- apply (wf_ordered (l_ver s) i); assumption.
        -- apply (wf_ordered (l_ver s) level); assumption.
      * intros i. destruct (Nat.lt_ge_cases i (length (l_ver s))) as [Li|Li].
        -- eapply perm_nodup_map; [apply (apply_edit_perm _ _ _ EA i Li)|].
           apply NoDup_map_filter. rewrite map_app. unfold ed. rewrite ae_add_one.
           apply NoDup_app_intro.
           ++ apply wf_level_nodup. exact WFv.
           ++ destruct (Nat.eqb (S level) i); [|constructor]. constructor; [intros []|constructor].
           ++ intros x Hx Ha. destruct (Nat.eqb (S level) i) eqn:Ei; [|destruct Ha].
              apply Nat.eqb_eq in Ei. subst i. destruct Ha as [<-|[]].
              apply in_map_iff in Hx. destruct Hx as (g & E & Hg).
              destruct (wf_same_num _ _ _ _ _ WFv Hg Hf E). lia.
        -- rewrite (apply_edit_overflow _ _ _ EA i Li). constructor.
      * intros i j g1 g2 Nij H1 H2 E. apply (Files i g1) in H1. apply (Files j g2) in H2.
        destruct H1 as [[-> ->]|[H1 N1]], H2 as [[-> ->]|[H2 N2]].
        -- contradiction.
        -- destruct (wf_same_num _ _ _ _ _ WFv Hf H2 E) as [E1 E2]. apply N2. auto.
        -- destruct (wf_same_num _ _ _ _ _ WFv H1 Hf E) as [E1 E2]. apply N1. auto.
        -- destruct (wf_same_num _ _ _ _ _ WFv H1 H2 E). contradiction.
    + intros i g Hg. apply Old in Hg. destruct Hg as [Hg|[_ ->]]; eapply (wf_bounds s W); eassumption.
    + apply (wf_mem_sorted s W).
    + apply (wf_imm_sorted s W).
    + apply (wf_r_mi s W).
    + intros i g Hg. apply Old in Hg. destruct Hg as [Hg|[_ ->]]; eapply (wf_r_mf s W); eassumption.
    + intros i g Hg. apply Old in Hg. destruct Hg as [Hg|[_ ->]]; eapply (wf_r_if s W); eassumption.
    + intros g1 g2 H1 H2. apply Old in H1. apply Old in H2.
      destruct H1 as [H1|[? _]]; [|lia]. destruct H2 as [H2|[? _]]; [|lia].
      apply (wf_r_l0 s W); assumption.
    + intros i j g1 g2 Lij H1 H2. apply Files in H1. apply Files in H2.
      destruct H1 as [[-> ->]|[H1 N1]], H2 as [[-> ->]|[H2 N2]].
      * lia.
      * apply (wf_r_lev s W level j); [lia|assumption|assumption].
      * destruct (Nat.eq_dec i level) as [->|Ni].
        -- apply (KL_level s level c W CF g1 f H1); [|exact Hin].
           rewrite E0. intros [<-|[]]. apply N1. auto.
        -- apply (wf_r_lev s W i level); [lia|assumption|assumption].
      * apply (wf_r_lev s W i j); assumption.
    + apply (wf_eok_m s W).
    + apply (wf_eok_i s W).
    + intros i g e Hg. apply Old in Hg. destruct Hg as [Hg|[_ ->]]; eapply (wf_eok_f s W); eassumption.
    + intros i g Hg. apply Old in Hg. destruct Hg as [Hg|[_ ->]]; eapply (wf_nums s W); eassumption.
    + apply (wf_snaps s W).
  - intros e. rewrite !all_entries_In. change (l_mem s') with (l_mem s). change (imm_l s') with (imm_l s).
    split.
    + intros [H|[H|(i & g & Hg & He)]]; auto. right. right. apply Old in Hg.
      destruct Hg as [Hg|[_ ->]]; eauto.
    + intros [H|[H|(i & g & Hg & He)]]; auto. right. right.
      destruct (N.eq_dec (fm_num g) (fm_num f)) as [E|N].
      * destruct (wf_same_num _ _ _ _ _ WFv Hg Hf E) as [-> ->].
        exists (S level), f. split; [apply Files; left; auto|exact He].
      * exists i, g. split; [|exact He]. apply Files. right. split; [exact Hg|].
        intros [_ ->]. apply N. reflexivity.
Qed.


(* ========================================================================================== *)
(** LSM state machine proofs, part 4d: a compaction with merge keeps the invariant and every
    view at or above the smallest snapshot. No axioms. *)

Section COMPACT.
Variables (s : lsm) (L : nat) (c : cinputs) (cuts : list nat).
Hypothesis W : WF s.
Hypothesis CF : cfacts (l_ver s) L c.
Hypothesis Alen : (S L < length (l_ver s))%nat.
Hypothesis Hss : smallest_snapshot s < MAX_SEQ.

Definition c_inp := ci_in0 c ++ ci_in1 c.
Definition c_inputs := map (fe s) c_inp.
Definition c_base := is_base_level_for_key (l_ver s) L.
Definition c_kept := compact_entries (smallest_snapshot s) c_base c_inputs.
Definition c_runs := cut_blocks c_kept cuts.
Definition c_outs := number_outputs c_runs (l_next s).
Definition c_outsf := map fst c_outs.
Definition c_edit := compaction_edit c c_outsf.

Lemma inp_level h : In h c_inp -> exists i, In h (lfs s i).
Proof.
  intros H. destruct (input_cases s L c CF h H) as [[_ Hl]|[_ Hl]]; eauto.
Qed.

Lemma inp_bounds h : In h c_inp -> file_bounds_ok (fe s h) h = true.
Proof. intros H. destruct (inp_level h H) as (i & Hi). apply (wf_bounds s W i h Hi). Qed.

Lemma c_nd : NoDup (map key_of (concat c_inputs)).
Proof.
  apply files_keys_nodup; [exact W|apply (inputs_nodup s L c W CF)|apply inp_level].
Qed.

Lemma c_inputs_In e : In e (concat c_inputs) <-> exists h, In h c_inp /\ In e (fe s h).
Proof.
  unfold c_inputs. rewrite in_concat. split.
  - intros (l & Hl & He). apply in_map_iff in Hl. destruct Hl as (h & <- & Hh). eauto.
  - intros (h & Hh & He). exists (fe s h). split; [apply in_map; exact Hh|exact He].
Qed.

Lemma kept_sorted : sorted_entries c_kept = true.
Proof. apply compact_entries_sorted. exact c_nd. Qed.

Lemma kept_sub e : In e c_kept -> exists h, In h c_inp /\ In e (fe s h).
Proof. intros H. apply c_inputs_In. eapply compact_entries_incl. exact H. Qed.

Lemma runs_ne : Forall (fun b => b <> []) c_runs.
Proof. apply cut_blocks_nonempty. Qed.

Lemma runs_concat : concat c_runs = c_kept.
Proof. apply cut_blocks_concat. Qed.

Lemma outs_snd : map snd c_outs = c_runs.
Proof. apply (number_outputs_spec c_runs (l_next s) runs_ne). Qed.

Lemma outs_keys o : In o c_outs ->
  first_key (snd o) = Some (fm_small (fst o)) /\ last_key (snd o) = Some (fm_large (fst o)) /\
  l_next s < onum o <= l_next s + N.of_nat (length c_outs).
Proof.
  intros H. destruct (number_outputs_spec c_runs (l_next s) runs_ne) as (S1 & S2 & _).
  fold c_outs in S1, S2. destruct (S2 o H) as (A & B & C). repeat split; auto; try lia.
  rewrite <- (map_length snd c_outs), S1. lia.
Qed.

Lemma outs_nodup : NoDup (map onum c_outs).
Proof. apply (number_outputs_spec c_runs (l_next s) runs_ne). Qed.

Lemma out_run o : In o c_outs -> In (snd o) c_runs.
Proof. intros H. rewrite <- outs_snd. apply in_map. exact H. Qed.

Lemma out_kept o e : In o c_outs -> In e (snd o) -> In e c_kept.
Proof.
  intros Ho He. rewrite <- runs_concat. apply in_concat. exists (snd o). split; [apply out_run; exact Ho|exact He].
Qed.

Lemma kept_out e : In e c_kept -> exists o, In o c_outs /\ In e (snd o).
Proof.
  rewrite <- runs_concat. intros H. apply in_concat in H. destruct H as (r & Hr & He).
  rewrite <- outs_snd in Hr. apply in_map_iff in Hr. destruct Hr as (o & <- & Ho). eauto.
Qed.

Lemma out_sorted o : In o c_outs -> sorted_entries (snd o) = true.
Proof.
  intros Ho. apply (concat_run_sorted c_runs); [rewrite runs_concat; apply kept_sorted|apply out_run; exact Ho].
Qed.

Lemma out_bounds o : In o c_outs -> file_bounds_ok (snd o) (fst o) = true.
Proof.
  intros Ho. destruct (outs_keys o Ho) as (A & B & _). apply bounds_intro; auto. apply out_sorted. exact Ho.
Qed.

Lemma out_sub o e : In o c_outs -> In e (snd o) -> exists h, In h c_inp /\ In e (fe s h).
Proof. intros Ho He. apply kept_sub. eapply out_kept; eauto. Qed.

Lemma old_num i f : In f (lfs s i) -> fm_num f <= l_next s.
Proof. apply (wf_nums s W). Qed.

Lemma outs_ok_c : outs_ok (l_ver s) c c_outsf.
Proof.
  constructor.
  - unfold c_outsf, c_outs. apply number_outputs_disjoint; [apply runs_ne|].
    rewrite runs_concat. apply kept_sorted.
  - intros o Ho. apply in_map_iff in Ho. destruct Ho as (o' & <- & Ho).
    apply (file_ordered (snd o')). apply out_bounds. exact Ho.
  - intros o Ho. apply in_map_iff in Ho. destruct Ho as (o' & <- & Ho).
    destruct (outs_keys o' Ho) as (A & B & _).
    assert (Hne : snd o' <> []) by (pose proof runs_ne as R; rewrite Forall_forall in R; apply R; apply out_run; exact Ho).
    destruct (snd o') as [|e1 r1] eqn:Es; [congruence|]. cbn [first_key] in A. injection A as A.
    destruct (last_key_in _ _ B) as (e2 & He2 & E2).
    destruct (out_sub o' e1 Ho) as (h1 & Hh1 & Hi1); [rewrite Es; left; reflexivity|].
    destruct (out_sub o' e2 Ho) as (h2 & Hh2 & Hi2); [rewrite Es; exact He2|].
    exists h1, h2. split; [exact Hh1|]. split; [exact Hh2|].
    destruct (file_entry_between _ _ _ (inp_bounds h1 Hh1) Hi1) as [X _].
    destruct (file_entry_between _ _ _ (inp_bounds h2 Hh2) Hi2) as [_ Y].
    rewrite <- A, <- E2. split; assumption.
  - intros o Ho Hi. apply in_map_iff in Ho. destruct Ho as (o' & <- & Ho).
    apply in_map_iff in Hi. destruct Hi as (f & E & Hf). apply in_levels in Hf. destruct Hf as (i & Hf).
    pose proof (old_num i f Hf). destruct (outs_keys o' Ho) as (_ & _ & C). unfold onum in C. lia.
  - unfold c_outsf. rewrite map_map. exact outs_nodup.
Qed.

Lemma c_edit_eq :
  mkVE (map (fun f => (L, fm_num f)) (ci_in0 c) ++ map (fun f => (S L, fm_num f)) (ci_in1 c))
       (map (fun o => (S L, fst o)) c_outs) = c_edit.
Proof.
  unfold c_edit, compaction_edit, c_outsf. rewrite (cf_level _ _ _ CF), map_map. reflexivity.
Qed.

Lemma c_edit_some :
  exists v', apply_edit (l_ver s) c_edit = Some v' /\ version_wf v' = true.
Proof.
  apply apply_edit_compaction_wf_gen.
  - apply (wf_ver s W).
  - rewrite (cf_level _ _ _ CF). apply (cf_sub1 _ _ _ CF).
  - apply (cf_sep _ _ _ CF).
  - apply outs_ok_c.
Qed.

End COMPACT.


(* ========================================================================================== *)
(** LSM state machine proofs, part 4e: the state after a compaction with merge is well formed.
    No axioms. *)

Section POST.
Variables (s : lsm) (L : nat) (c : cinputs) (cuts : list nat) (v' : version).
Hypothesis W : WF s.
Hypothesis CF : cfacts (l_ver s) L c.
Hypothesis Alen : (S L < length (l_ver s))%nat.
Hypothesis Hss : smallest_snapshot s < MAX_SEQ.
Hypothesis EA : apply_edit (l_ver s) (c_edit s L c cuts) = Some v'.
Hypothesis WFv' : version_wf v' = true.

Let outs := c_outs s L c cuts.
Let outsf := c_outsf s L c cuts.
Let inp := c_inp c.

Definition c_post : lsm :=
  mkLsm (l_mem s) (l_imm s) v'
        (map (fun o => (fm_num (fst o), snd o)) (c_outs s L c cuts) ++ l_store s)
        (l_seq s) (l_snaps s) (l_next s + N.of_nat (length (c_outs s L c cuts))) (l_panic s).

Let WFv := wf_ver s W.
Let EL := cf_level _ _ _ CF.

Lemma out_num_fresh o i f : In o outs -> In f (lfs s i) -> fm_num f <> fm_num (fst o).
Proof.
  intros Ho Hf E. pose proof (wf_nums s W i f Hf) as H1.
  destruct (outs_keys s L c cuts Alen Hss o Ho) as (_ & _ & H2 & _). unfold onum in H2. lia.
Qed.

Lemma new_files i f :
  In f (lfs c_post i) <->
  (i = S L /\ In f outsf) \/
  (In f (lfs s i) /\ ~ (i = L /\ In f (ci_in0 c)) /\ ~ (i = S L /\ In f (ci_in1 c))).
Proof.
  unfold lfs. cbn [l_ver c_post].
  destruct (Nat.lt_ge_cases i (length (l_ver s))) as [Li|Li].
  2:{ rewrite (apply_edit_overflow _ _ _ EA i Li), (level_files_overflow _ i Li). split; [intros []|].
      intros [[-> _]|[[] _]]. lia. }
  rewrite (apply_edit_In _ _ _ EA i f Li). unfold c_edit. rewrite ae_add_compaction.
  unfold compaction_edit. cbn [ve_added ve_deleted]. rewrite EL. fold outsf.
  assert (Add : In (i, f) (map (fun o => (S L, o)) outsf) <-> i = S L /\ In f outsf).
  { rewrite in_map_iff. split.
    - intros (o & E & Ho). injection E as <- <-. auto.
    - intros [-> Ho]. exists f. auto. }
  rewrite Add. split.
  - intros [[H|H] Hn]; [|left; exact H]. right. split; [exact H|]. split; intros [-> Hi]; apply Hn; split.
    + apply in_or_app. left. apply in_map_iff. exists f. auto.
    + replace (Nat.eqb (S L) L) with false by (symmetry; apply Nat.eqb_neq; lia). intros [].
    + apply in_or_app. right. apply in_map_iff. exists f. auto.
    + rewrite Nat.eqb_refl. intros Hm. apply in_map_iff in Hm. destruct Hm as (o & E & Ho).
      unfold outsf, c_outsf in Ho. apply in_map_iff in Ho. destruct Ho as (o' & <- & Ho').
      apply (out_num_fresh o' (S L) f Ho' H). symmetry. exact E.
  - intros [[-> Ho]|(H & N0 & N1)].
    + split; [right; auto|]. intros [_ Hn]. apply Hn. rewrite Nat.eqb_refl. apply in_map. exact Ho.
    + split; [left; exact H|]. intros [Hd _]. apply in_app_or in Hd.
      destruct Hd as [Hd|Hd]; apply in_map_iff in Hd; destruct Hd as (h & E & Hh); injection E as E1 E2.
      * subst i. apply N0. split; [reflexivity|].
        pose proof (cf_sub0 _ _ _ CF h Hh) as Hl. destruct (wf_same_num _ _ _ _ _ WFv Hl H E2) as [_ <-]. exact Hh.
      * subst i. apply N1. split; [reflexivity|].
        pose proof (cf_sub1 _ _ _ CF h Hh) as Hl. destruct (wf_same_num _ _ _ _ _ WFv Hl H E2) as [_ <-]. exact Hh.
Qed.

(** a file of the new version is an output or an old file that was not an input *)
Lemma new_files_cases i f : In f (lfs c_post i) ->
  (exists o, In o outs /\ i = S L /\ f = fst o) \/
  (In f (lfs s i) /\ ~ (i = L /\ In f (ci_in0 c)) /\ ~ (i = S L /\ In f (ci_in1 c))).
Proof.
  intros H. apply new_files in H. destruct H as [[-> H]|H]; [left|right; exact H].
  unfold outsf, c_outsf in H. apply in_map_iff in H. destruct H as (o & <- & Ho). exists o. auto.
Qed.

Lemma fe_old i f : In f (lfs s i) -> fe c_post f = fe s f.
Proof.
  intros Hf. unfold fe. rewrite !file_entries_lookup. cbn [l_store c_post].
  apply lookup_app_notin. rewrite map_map. cbn [fst]. intros Hi. apply in_map_iff in Hi.
  destruct Hi as (o & E & Ho). apply (out_num_fresh o i f Ho Hf). symmetry. exact E.
Qed.

Lemma fe_new o : In o outs -> fe c_post (fst o) = snd o.
Proof.
  intros Ho. unfold fe. rewrite file_entries_lookup. cbn [l_store c_post].
  apply lookup_app_in.
  - rewrite map_map. cbn [fst]. apply (outs_nodup s L c cuts).
  - apply in_map_iff. exists o. auto.
Qed.

Lemma nt_to_out a o : In o outs -> (forall h, In h inp -> nt a (fe s h)) -> nt a (snd o).
Proof.
  intros Ho H x y Hx Hy. destruct (out_sub s L c cuts o y Ho Hy) as (h & Hh & Hi).
  apply (H h Hh x y Hx Hi).
Qed.

Lemma nt_from_out o b : In o outs -> (forall h, In h inp -> nt (fe s h) b) -> nt (snd o) b.
Proof.
  intros Ho H x y Hx Hy. destruct (out_sub s L c cuts o x Ho Hx) as (h & Hh & Hi).
  apply (H h Hh x y Hi Hy).
Qed.

Theorem c_post_WF : WF c_post.
Proof.
  constructor.
  - apply (wf_panic s W).
  - cbn [l_ver c_post]. rewrite (apply_edit_len _ _ _ EA). apply (wf_len s W).
  - exact WFv'.
  - intros i f Hf. apply new_files_cases in Hf. destruct Hf as [(o & Ho & -> & ->)|(Hf & _)].
    + rewrite (fe_new o Ho). apply (out_bounds s L c cuts W CF Alen Hss o Ho).
    + rewrite (fe_old i f Hf). apply (wf_bounds s W i f Hf).
  - apply (wf_mem_sorted s W).
  - apply (wf_imm_sorted s W).
  - apply (wf_r_mi s W).
  - intros i f Hf. apply new_files_cases in Hf. destruct Hf as [(o & Ho & -> & ->)|(Hf & _)].
    + rewrite (fe_new o Ho). apply nt_to_out; [exact Ho|]. apply (KL_mem s L c W CF).
    + rewrite (fe_old i f Hf). apply (wf_r_mf s W i f Hf).
  - intros i f Hf. apply new_files_cases in Hf. destruct Hf as [(o & Ho & -> & ->)|(Hf & _)].
    + rewrite (fe_new o Ho). apply nt_to_out; [exact Ho|]. apply (KL_imm s L c W CF).
    + rewrite (fe_old i f Hf). apply (wf_r_if s W i f Hf).
  - intros f g Hf Hg Lt. apply new_files_cases in Hf. apply new_files_cases in Hg.
    destruct Hf as [(o & _ & E & _)|(Hf & _)]; [discriminate|].
    destruct Hg as [(o & _ & E & _)|(Hg & _)]; [discriminate|].
    rewrite (fe_old O f Hf), (fe_old O g Hg). apply (wf_r_l0 s W); assumption.
  - intros i j f g Lij Hf Hg. apply new_files_cases in Hf. apply new_files_cases in Hg.
    destruct Hf as [(o1 & Ho1 & -> & ->)|(Hf & Nf0 & Nf1)], Hg as [(o2 & Ho2 & -> & ->)|(Hg & Ng0 & Ng1)].
    + lia.
    + rewrite (fe_new o1 Ho1), (fe_old j g Hg). apply nt_from_out; [exact Ho1|].
      intros h Hh. apply (KL_below s L c W CF j g h Lij Hg Hh).
    + rewrite (fe_new o2 Ho2), (fe_old i f Hf). apply nt_to_out; [exact Ho2|].
      intros h Hh. destruct (Nat.eq_dec i L) as [->|Ni].
      * apply (KL_level s L c W CF f h Hf); [|exact Hh]. intros Hi. apply Nf0. auto.
      * apply (KL_upper s L c W CF i f h); [lia|exact Hf|exact Hh].
    + rewrite (fe_old i f Hf), (fe_old j g Hg). apply (wf_r_lev s W i j); assumption.
  - apply (wf_eok_m s W).
  - apply (wf_eok_i s W).
  - intros i f e Hf He. apply new_files_cases in Hf. destruct Hf as [(o & Ho & -> & ->)|(Hf & _)].
    + rewrite (fe_new o Ho) in He. destruct (out_sub s L c cuts o e Ho He) as (h & Hh & Hi).
      destruct (inp_level s L c CF h Hh) as (j & Hj). apply (wf_eok_f s W j h e Hj Hi).
    + rewrite (fe_old i f Hf) in He. apply (wf_eok_f s W i f e Hf He).
  - intros i f Hf. cbn [l_next c_post]. apply new_files_cases in Hf.
    destruct Hf as [(o & Ho & -> & ->)|(Hf & _)].
    + destruct (outs_keys s L c cuts Alen Hss o Ho) as (_ & _ & _ & H2). unfold onum in H2. exact H2.
    + pose proof (wf_nums s W i f Hf). lia.
  - apply (wf_snaps s W).
Qed.

End POST.


(* ========================================================================================== *)
(** LSM state machine proofs, part 4f: a compaction with merge is invisible at every sequence
    number at or above the smallest snapshot. No axioms. *)

Lemma level_files_nil i : level_files [] i = [].
Proof. unfold level_files. destruct i; reflexivity. Qed.

Lemma in_firstn_levels : forall n v f,
  In f (concat (firstn n v)) <-> exists i, (i < n)%nat /\ In f (level_files v i).
Proof.
  induction n as [|n IH]; intros v f.
  - cbn [firstn concat]. split; [intros []|intros (i & Li & _); lia].
  - destruct v as [|a v].
    + cbn [firstn concat]. split; [intros []|]. intros (i & _ & H). rewrite level_files_nil in H. destruct H.
    + cbn [firstn concat]. rewrite in_app_iff, IH. split.
      * intros [H|(i & Li & H)]; [exists O; split; [lia|exact H]|exists (S i); split; [lia|exact H]].
      * intros ([|i] & Li & H); [left; exact H|right]. exists i. split; [lia|exact H].
Qed.

Lemma in_skipn_levels : forall n v f,
  In f (concat (skipn n v)) <-> exists i, (n <= i)%nat /\ In f (level_files v i).
Proof.
  induction n as [|n IH]; intros v f.
  - cbn [skipn]. rewrite in_levels. split; [intros (i & H); exists i; split; [lia|exact H]|intros (i & _ & H); eauto].
  - destruct v as [|a v].
    + cbn [skipn concat]. split; [intros []|]. intros (i & _ & H). rewrite level_files_nil in H. destruct H.
    + cbn [skipn]. rewrite IH. split.
      * intros (i & Li & H). exists (S i). split; [lia|exact H].
      * intros ([|i] & Li & H); [lia|]. exists i. split; [lia|exact H].
Qed.

Section VIS.
Variables (s : lsm) (L : nat) (c : cinputs) (cuts : list nat) (v' : version).
Hypothesis W : WF s.
Hypothesis CF : cfacts (l_ver s) L c.
Hypothesis Alen : (S L < length (l_ver s))%nat.
Hypothesis Hss : smallest_snapshot s < MAX_SEQ.
Hypothesis EA : apply_edit (l_ver s) (c_edit s L c cuts) = Some v'.
Hypothesis WFv' : version_wf v' = true.

Let inp := c_inp c.
Let post := c_post s L c cuts v'.
Let WFv := wf_ver s W.

Definition c_above : list entry :=
  l_mem s ++ imm_l s
  ++ flat_map (fe s) (filter (fun f => negb (mem_file f (c_inp c))) (concat (firstn (S (S L)) (l_ver s)))).
Definition c_below : list entry :=
  flat_map (fe s) (concat (skipn (S (S L)) (l_ver s))).

Lemma mem_file_inp i f : In f (lfs s i) -> (mem_file f inp = true <-> In f inp).
Proof.
  intros Hf. split; [|apply In_mem_file]. unfold mem_file. intros H. apply existsb_exists in H.
  destruct H as (g & Hg & E). apply N.eqb_eq in E.
  destruct (inp_level s L c CF g Hg) as (j & Hj).
  destruct (wf_same_num _ _ _ _ _ WFv Hj Hf E) as [_ <-]. exact Hg.
Qed.

Lemma inp_in_levels f : In f inp -> (In f (ci_in0 c) /\ In f (lfs s L)) \/ (In f (ci_in1 c) /\ In f (lfs s (S L))).
Proof. apply (input_cases s L c CF). Qed.

Lemma above_In e :
  In e c_above <->
  In e (l_mem s) \/ In e (imm_l s) \/
  exists i f, (i <= S L)%nat /\ In f (lfs s i) /\ ~ In f inp /\ In e (fe s f).
Proof.
  unfold c_above. rewrite !in_app_iff, in_flat_map. split.
  - intros [H|[H|(f & Hf & He)]]; auto. right. right. apply filter_In in Hf. destruct Hf as [Hf Hm].
    apply in_firstn_levels in Hf. destruct Hf as (i & Li & Hf). exists i, f. split; [lia|]. split; [exact Hf|].
    split; [|exact He]. intros Hi. apply (mem_file_inp i f Hf) in Hi. fold inp in Hm. rewrite Hi in Hm. discriminate.
  - intros [H|[H|(i & f & Li & Hf & Ni & He)]]; auto. right. right. exists f. split; [|exact He].
    apply filter_In. split; [apply in_firstn_levels; exists i; split; [lia|exact Hf]|].
    fold inp. destruct (mem_file f inp) eqn:M; [|reflexivity]. exfalso. apply Ni. apply (mem_file_inp i f Hf). exact M.
Qed.

Lemma below_In e :
  In e c_below <-> exists i f, (S (S L) <= i)%nat /\ In f (lfs s i) /\ In e (fe s f).
Proof.
  unfold c_below. rewrite in_flat_map. split.
  - intros (f & Hf & He). apply in_skipn_levels in Hf. destruct Hf as (i & Li & Hf). eauto.
  - intros (i & f & Li & Hf & He). exists f. split; [|exact He]. apply in_skipn_levels. eauto.
Qed.

Lemma E1_In e :
  In e (c_above ++ concat (c_inputs s c) ++ c_below) <-> In e (all_entries s).
Proof.
  rewrite !in_app_iff, above_In, below_In, c_inputs_In, all_entries_In. split.
  - intros [[H|[H|(i & f & _ & Hf & _ & He)]]|[(h & Hh & He)|(i & f & _ & Hf & He)]].
    + left. exact H.
    + right. left. exact H.
    + right. right. exists i, f. auto.
    + destruct (inp_level s L c CF h Hh) as (j & Hj). right. right. exists j, h. auto.
    + right. right. exists i, f. auto.
  - intros [H|[H|(i & f & Hf & He)]]; auto.
    destruct (mem_file f inp) eqn:M.
    + right. left. exists f. split; [apply (mem_file_inp i f Hf); exact M|exact He].
    + assert (Ni : ~ In f inp) by (intros Hi; apply (mem_file_inp i f Hf) in Hi; congruence).
      destruct (Nat.le_gt_cases i (S L)) as [Li|Li].
      * left. right. right. exists i, f. auto.
      * right. right. exists i, f. split; [lia|auto].
Qed.

Lemma not_inp_old i f : In f (lfs s i) ->
  (~ In f inp <-> ~ (i = L /\ In f (ci_in0 c)) /\ ~ (i = S L /\ In f (ci_in1 c))).
Proof.
  intros Hf. split.
  - intros Ni. split; intros [_ H]; apply Ni; unfold inp, c_inp; apply in_or_app; auto.
  - intros [N0 N1] Hi. destruct (inp_in_levels f Hi) as [[H0 Hl]|[H1 Hl]].
    + destruct (wf_same_num _ _ _ _ _ WFv Hf Hl eq_refl) as [-> _]. apply N0. auto.
    + destruct (wf_same_num _ _ _ _ _ WFv Hf Hl eq_refl) as [-> _]. apply N1. auto.
Qed.

Lemma E2_In e :
  In e (c_above ++ c_kept s L c ++ c_below) <-> In e (all_entries post).
Proof.
  rewrite !in_app_iff, above_In, below_In, all_entries_In.
  change (l_mem post) with (l_mem s). change (imm_l post) with (imm_l s). split.
  - intros [[H|[H|(i & f & Li & Hf & Ni & He)]]|[H|(i & f & Li & Hf & He)]]; auto.
    + right. right. exists i, f. split.
      * apply (new_files s L c cuts v' W CF Alen Hss EA). right. split; [exact Hf|].
        apply (not_inp_old i f Hf). exact Ni.
      * unfold post. rewrite (fe_old s L c cuts v' W CF Alen Hss i f Hf). exact He.
    + destruct (kept_out s L c cuts e H) as (o & Ho & He). right. right. exists (S L), (fst o). split.
      * apply (new_files s L c cuts v' W CF Alen Hss EA). left. split; [reflexivity|].
        unfold c_outsf. apply in_map. exact Ho.
      * unfold post. rewrite (fe_new s L c cuts v' o Ho). exact He.
    + right. right. exists i, f. split.
      * apply (new_files s L c cuts v' W CF Alen Hss EA). right. split; [exact Hf|]. split; intros [E _]; lia.
      * unfold post. rewrite (fe_old s L c cuts v' W CF Alen Hss i f Hf). exact He.
  - intros [H|[H|(i & f & Hf & He)]]; auto.
    apply (new_files_cases s L c cuts v' W CF Alen Hss EA) in Hf.
    destruct Hf as [(o & Ho & -> & ->)|(Hf & N01)].
    + unfold post in He. rewrite (fe_new s L c cuts v' o Ho) in He. right. left.
      apply (out_kept s L c cuts o e Ho He).
    + unfold post in He. rewrite (fe_old s L c cuts v' W CF Alen Hss i f Hf) in He.
      apply (not_inp_old i f Hf) in N01.
      destruct (Nat.le_gt_cases i (S L)) as [Li|Li].
      * left. right. right. exists i, f. auto.
      * right. right. exists i, f. split; [lia|auto].
Qed.

Lemma above_newer : newer_than c_above (concat (c_inputs s c)) = true.
Proof.
  apply nt_iff. intros x y Hx Hy. apply above_In in Hx. apply c_inputs_In in Hy.
  destruct Hy as (h & Hh & Hy).
  destruct Hx as [Hx|[Hx|(i & f & Li & Hf & Ni & Hx)]].
  - apply (KL_mem s L c W CF h Hh x y Hx Hy).
  - apply (KL_imm s L c W CF h Hh x y Hx Hy).
  - apply (not_inp_old i f Hf) in Ni. destruct Ni as [N0 N1].
    destruct (lt_eq_lt_dec i L) as [[Lt| ->]|Gt].
    + apply (KL_upper s L c W CF i f h Lt Hf Hh x y Hx Hy).
    + apply (KL_level s L c W CF f h Hf); auto.
    + assert (i = S L) as -> by lia. apply (KL_parent s L c W CF f h Hf); auto.
Qed.

Lemma base_below k :
  c_base s L k = true -> forall e, In e c_below -> ik_user (fst e) <> k.
Proof.
  intros Hb e He. apply below_In in He. destruct He as (i & f & Li & Hf & He).
  unfold c_base, is_base_level_for_key in Hb. rewrite forallb_forall in Hb.
  assert (Hfs : In (lfs s i) (skipn (S (S L)) (l_ver s))).
  { pose proof (in_levels_lt _ _ _ Hf) as Llen. unfold lfs, level_files.
    rewrite <- (firstn_skipn (S (S L)) (l_ver s)) at 1.
    rewrite app_nth2; rewrite firstn_length; [|lia].
    apply nth_In. rewrite skipn_length. lia. }
  specialize (Hb _ Hfs). rewrite forallb_forall in Hb. specialize (Hb f Hf).
  apply negb_true_iff in Hb.
  apply (file_outside_no_user (fe s f) f k (wf_bounds s W i f Hf) Hb e He).
Qed.

Theorem c_post_visible q k :
  smallest_snapshot s <= q ->
  visible (all_entries post) q k = visible (all_entries s) q k.
Proof.
  intros Hq.
  assert (Inj1 : key_inj (c_above ++ concat (c_inputs s c) ++ c_below)).
  { intros a b Ha Hb. apply (WF_key_inj s W); apply E1_In; assumption. }
  transitivity (visible (c_above ++ c_kept s L c ++ c_below) q k).
  - apply visible_ext.
    + apply WF_key_inj. apply (c_post_WF s L c cuts v' W CF Alen Hss EA WFv').
    + intros e. symmetry. apply E2_In.
  - transitivity (visible (c_above ++ concat (c_inputs s c) ++ c_below) q k).
    + unfold c_kept. apply compact_preserves_visible_gen.
      * apply (c_nd s L c W CF).
      * exact Inj1.
      * exact above_newer.
      * apply base_below.
      * exact Hss.
      * exact Hq.
    + apply visible_ext; [exact Inj1|]. apply E1_In.
Qed.

End VIS.


(* ========================================================================================== *)
(** LSM state machine proofs, part 5: the main theorems. Every admissible step keeps the invariant
    (T1), every reachable state satisfies it (T2), internal steps are invisible (T3), a live
    snapshot keeps its view (T4). No axioms. *)

(** * Compaction with merge, assembled *)

Lemma do_compact_eq mfs s level seed cuts c :
  finalize_inputs true true mfs (l_ver s) level (files_of (l_ver s) level seed) = Some c ->
  do_compact true true mfs s level seed cuts =
  match apply_edit (l_ver s)
          (mkVE (map (fun f => (level, fm_num f)) (ci_in0 c) ++ map (fun f => (S level, fm_num f)) (ci_in1 c))
                (map (fun o => (S level, fst o)) (c_outs s level c cuts))) with
  | None => set_panic s
  | Some v' => c_post s level c cuts v'
  end.
Proof. intros E. unfold do_compact. rewrite E. reflexivity. Qed.

Lemma compact_ok mfs s level seed cuts :
  WF s -> compact_adm s level seed -> smallest_snapshot s < MAX_SEQ ->
  WF (do_compact true true mfs s level seed cuts)
  /\ forall q k, smallest_snapshot s <= q ->
       visible (all_entries (do_compact true true mfs s level seed cuts)) q k
       = visible (all_entries s) q k.
Proof.
  intros W Adm Hss. destruct (compact_cfacts mfs s level seed W Adm) as (c & Ec & CF).
  destruct Adm as (Alen & _).
  rewrite (do_compact_eq mfs s level seed cuts c Ec), (c_edit_eq s level c cuts CF).
  destruct (c_edit_some s level c cuts W CF Alen Hss) as (v' & EA & WFv'). rewrite EA. split.
  - apply c_post_WF; assumption.
  - intros q k Hq. apply c_post_visible; assumption.
Qed.

(** * Admissible steps *)

(** How the implementation issues steps (each clause is needed, see the [clause_*_needed]
    witnesses at the end):
    - [SFlush]: [l_seq <= MAX_SEQ] — sequence numbers are [u64]s; the overlap search of
      [pick_level_for_memtable_output] uses [MAX_SEQ] as a sentinel;
    - [SCompact] / [STrivialMove]: the level has a parent level (pick_compaction asserts
      [level + 1 < MAX_NUM_LEVELS]); the seed is a non-empty set of files of the level
      (compact_range returns early on an empty list); for level 0 it is closed under overlap
      (pick_compaction re-selects with [get_overlapping_compaction_inputs], whose level-0 search
      widens the range; compact_range starts from that search); for a deeper level it is one file
      (size / seek compaction) or a contiguous run of files (the files overlapping a range,
      truncated to a prefix), captured by [seed_top_closed];
    - [SCompact]: [smallest_snapshot < MAX_SEQ], the "no previous key" sentinel of the drop rule.
    [SWrite], [SRotate], [SSnapshot], [SRelease]: nothing. *)
Definition step_admissible (s : lsm) (st : step) : Prop :=
  match st with
  | SFlush => l_seq s <= MAX_SEQ
  | SCompact level seed _ => compact_adm s level seed /\ smallest_snapshot s < MAX_SEQ
  | STrivialMove level seed => compact_adm s level seed
  | _ => True
  end.

Lemma step_unfold d d14 mfs s st :
  l_panic s = false ->
  lsm_step d d14 mfs s st =
  match st with
  | SWrite b => lsm_step d d14 mfs s (SWrite b)
  | SRotate => lsm_step d d14 mfs s SRotate
  | SFlush => do_flush mfs s
  | SCompact level seed cuts => do_compact d d14 mfs s level seed cuts
  | STrivialMove level seed => do_trivial_move d d14 mfs s level seed
  | SSnapshot => lsm_step d d14 mfs s SSnapshot
  | SRelease q => lsm_step d d14 mfs s (SRelease q)
  end.
Proof. intros P. destruct st; try reflexivity; unfold lsm_step; rewrite P; reflexivity. Qed.

Theorem step_preserves_WF mfs s st :
  WF s -> step_admissible s st -> WF (lsm_step true true mfs s st).
Proof.
  intros W A. rewrite (step_unfold _ _ _ _ _ (wf_panic s W)). destruct st; cbn [step_admissible] in A.
  - apply WF_of_b. apply write_wf. apply WF_to_b. exact W.
  - apply rotate_ok. exact W.
  - apply flush_ok; assumption.
  - destruct A as [A1 A2]. apply compact_ok; assumption.
  - apply trivial_move_ok; assumption.
  - apply snapshot_ok. exact W.
  - apply release_ok. exact W.
Qed.

(** T1 *)
Theorem step_preserves_wf :
  forall mfs s st, lsm_wf_b s = true -> step_admissible s st ->
                   lsm_wf_b (lsm_step true true mfs s st) = true.
Proof. intros mfs s st H A. apply WF_to_b. apply step_preserves_WF; [apply WF_of_b; exact H|exact A]. Qed.

(** in particular the worker never panics *)
Theorem step_no_panic :
  forall mfs s st, lsm_wf_b s = true -> step_admissible s st ->
                   l_panic (lsm_step true true mfs s st) = false.
Proof.
  intros mfs s st H A. pose proof (step_preserves_wf mfs s st H A) as H'. apply WF_of_b in H'.
  apply (wf_panic _ H').
Qed.

(** * T2: reachable states *)

Fixpoint run_adm (mfs : N) (s : lsm) (steps : list step) : Prop :=
  match steps with
  | [] => True
  | st :: r => step_admissible s st /\ run_adm mfs (lsm_step true true mfs s st) r
  end.

Theorem run_wf mfs steps : forall s,
  lsm_wf_b s = true -> run_adm mfs s steps ->
  lsm_wf_b (fold_left (lsm_step true true mfs) steps s) = true.
Proof.
  induction steps as [|st r IH]; intros s H A; cbn [fold_left]; [exact H|].
  destruct A as [A1 A2]. apply IH; [apply step_preserves_wf; assumption|exact A2].
Qed.

Lemma init_wf : lsm_wf_b lsm_init = true.
Proof. vm_compute. reflexivity. Qed.

Theorem reachable_wf :
  forall mfs steps, run_adm mfs lsm_init steps ->
                    lsm_wf_b (fold_left (lsm_step true true mfs) steps lsm_init) = true.
Proof. intros mfs steps A. apply run_wf; [exact init_wf|exact A]. Qed.

Theorem reachable_shape_ok :
  forall mfs steps, run_adm mfs lsm_init steps ->
    let s := lsm_run true true mfs steps in
    shape_ok (l_ver s) (file_entries s) = true /\ l_panic s = false.
Proof.
  intros mfs steps A. cbv zeta. pose proof (reachable_wf mfs steps A) as H.
  apply lsm_wf_b_iff in H. unfold lsm_run. tauto.
Qed.

(** * T3: internal steps are invisible *)

Definition internal (st : step) : Prop :=
  match st with
  | SRotate | SFlush | SCompact _ _ _ | STrivialMove _ _ => True
  | _ => False
  end.

Definition internal_nomerge (st : step) : Prop :=
  match st with
  | SRotate | SFlush | STrivialMove _ _ => True
  | _ => False
  end.

Lemma same_entries_visible s s' q k :
  WF s -> (forall e, In e (all_entries s') <-> In e (all_entries s)) ->
  visible (all_entries s') q k = visible (all_entries s) q k.
Proof.
  intros W H. symmetry. apply visible_ext; [apply WF_key_inj; exact W|]. intros e. symmetry. apply H.
Qed.

Theorem internal_step_invisible_all :
  forall mfs s st, lsm_wf_b s = true -> step_admissible s st -> internal_nomerge st ->
    forall q k, visible (all_entries (lsm_step true true mfs s st)) q k = visible (all_entries s) q k.
Proof.
  intros mfs s st H A I q k. apply WF_of_b in H. rewrite (step_unfold _ _ _ _ _ (wf_panic s H)).
  destruct st; try destruct I; cbn [step_admissible] in A; apply same_entries_visible; try exact H.
  - apply rotate_ok. exact H.
  - apply flush_ok; assumption.
  - apply trivial_move_ok; assumption.
Qed.

Theorem internal_step_invisible :
  forall mfs s st, lsm_wf_b s = true -> step_admissible s st -> internal st ->
    forall q k, smallest_snapshot s <= q ->
      visible (all_entries (lsm_step true true mfs s st)) q k = visible (all_entries s) q k.
Proof.
  intros mfs s st H A I q k Hq. destruct st; try destruct I.
  - apply internal_step_invisible_all; auto; try exact Logic.I.
  - apply internal_step_invisible_all; auto; try exact Logic.I.
  - apply WF_of_b in H. rewrite (step_unfold _ _ _ _ _ (wf_panic s H)). destruct A as [A1 A2].
    apply compact_ok; assumption.
  - apply internal_step_invisible_all; auto; try exact Logic.I.
Qed.

Theorem C07_db_get_unchanged :
  forall mfs s st, lsm_wf_b s = true -> step_admissible s st -> internal st ->
    forall q k, smallest_snapshot s <= q ->
      db_get_at (lsm_step true true mfs s st) k q = db_get_at s k q.
Proof.
  intros mfs s st H A I q k Hq.
  rewrite (db_get_correct _ k q (step_preserves_wf mfs s st H A)), (db_get_correct s k q H).
  apply internal_step_invisible; assumption.
Qed.

(** * T4: a live snapshot keeps its view *)

Lemma fold_min_le l : forall a, fold_left N.min l a <= a /\ forall x, In x l -> fold_left N.min l a <= x.
Proof.
  induction l as [|y l IH]; intros a; cbn [fold_left]; [split; [lia|intros x []]|].
  destruct (IH (N.min a y)) as [I1 I2]. split; [lia|]. intros x [<-|Hx]; [lia|apply I2; exact Hx].
Qed.

Lemma smallest_le_snap s q : In q (l_snaps s) -> smallest_snapshot s <= q.
Proof. intros H. unfold smallest_snapshot. apply fold_min_le. exact H. Qed.

Lemma write1_view s o q k :
  lsm_wf_b s = true -> q <= l_seq s ->
  visible (all_entries (write1 s o)) q k = visible (all_entries s) q k.
Proof.
  intros H Hq. symmetry. apply visible_ext_cand.
  - apply WF_key_inj. apply WF_of_b. exact H.
  - intros e Hu Hs. rewrite all_entries_write1. split; [auto|]. intros [->|He]; [|exact He].
    rewrite wop_entry_seq in Hs. lia.
Qed.

Lemma write_view d d14 mfs b : forall s q k,
  lsm_wf_b s = true -> q <= l_seq s ->
  visible (all_entries (lsm_step d d14 mfs s (SWrite b))) q k = visible (all_entries s) q k.
Proof.
  induction b as [|o r IH]; intros s q k H Hq.
  - rewrite step_write_nil by exact H. reflexivity.
  - pose proof (proj1 (lsm_wf_b_iff s) H) as (P & _).
    rewrite step_write_cons by exact P. rewrite IH.
    + apply write1_view; assumption.
    + apply write1_wf. exact H.
    + cbn [write1 l_seq]. lia.
Qed.

Lemma step_snaps d d14 mfs s st :
  match st with SSnapshot | SRelease _ => True | _ => l_snaps (lsm_step d d14 mfs s st) = l_snaps s end.
Proof.
  destruct st; try exact Logic.I; unfold lsm_step; destruct (l_panic s); try reflexivity.
  - destruct (l_imm s); reflexivity.
  - unfold do_flush. destruct (l_imm s) as [[|e0 r]|]; try reflexivity.
    destruct (last_key (e0 :: r)); [|reflexivity]. destruct (apply_edit _ _); reflexivity.
  - unfold do_compact. destruct (finalize_inputs _ _ _ _ _ _); [|reflexivity].
    destruct (apply_edit _ _); reflexivity.
  - unfold do_trivial_move. destruct (finalize_inputs _ _ _ _ _ _); [|reflexivity].
    destruct (ci_in0 c) as [|f [|f' r]]; try reflexivity.
    destruct (negb _); [reflexivity|]. destruct (apply_edit _ _); reflexivity.
Qed.

(** one step: the view at a live snapshot [q] is kept, and [q] stays live unless released *)
Lemma step_keeps_view mfs s st q :
  lsm_wf_b s = true -> step_admissible s st -> In q (l_snaps s) -> st <> SRelease q ->
  In q (l_snaps (lsm_step true true mfs s st))
  /\ forall k, visible (all_entries (lsm_step true true mfs s st)) q k = visible (all_entries s) q k.
Proof.
  intros H A Hq Nr. pose proof (WF_of_b s H) as W.
  pose proof (smallest_le_snap s q Hq) as Hss. pose proof (wf_snaps s W q Hq) as Hle.
  pose proof (step_snaps true true mfs s st) as Sn.
  destruct st.
  - rewrite Sn. split; [exact Hq|]. intros k. apply write_view; assumption.
  - rewrite Sn. split; [exact Hq|]. intros k. apply internal_step_invisible_all; auto; try exact Logic.I.
  - rewrite Sn. split; [exact Hq|]. intros k. apply internal_step_invisible_all; auto; try exact Logic.I.
  - rewrite Sn. split; [exact Hq|]. intros k. apply internal_step_invisible; auto; try exact Logic.I.
  - rewrite Sn. split; [exact Hq|]. intros k. apply internal_step_invisible_all; auto; try exact Logic.I.
  - unfold lsm_step. rewrite (wf_panic s W). cbn [l_snaps]. split; [right; exact Hq|]. intros k. reflexivity.
  - rewrite step_release by apply (wf_panic s W). cbn [l_snaps]. split.
    + apply remove1_keep; [|exact Hq]. intros E. apply Nr. rewrite E. reflexivity.
    + intros k. reflexivity.
Qed.

Theorem snapshot_stable_gen mfs steps : forall s q,
  lsm_wf_b s = true -> In q (l_snaps s) -> run_adm mfs s steps -> ~ In (SRelease q) steps ->
  let s' := fold_left (lsm_step true true mfs) steps s in
  lsm_wf_b s' = true /\ In q (l_snaps s') /\
  forall k, visible (all_entries s') q k = visible (all_entries s) q k.
Proof.
  induction steps as [|st r IH]; intros s q H Hq A Nr; cbv zeta; cbn [fold_left].
  - split; [exact H|]. split; [exact Hq|reflexivity].
  - destruct A as [A1 A2].
    assert (Nst : st <> SRelease q) by (intros E; apply Nr; left; exact E).
    destruct (step_keeps_view mfs s st q H A1 Hq Nst) as [Hq' Hv].
    pose proof (step_preserves_wf mfs s st H A1) as H'.
    destruct (IH _ q H' Hq' A2) as (I1 & I2 & I3); [intros Hi; apply Nr; right; exact Hi|].
    split; [exact I1|]. split; [exact I2|]. intros k. rewrite I3. apply Hv.
Qed.

(** T4 *)
Theorem snapshot_stable :
  forall mfs steps s q, lsm_wf_b s = true -> In q (l_snaps s) -> run_adm mfs s steps ->
    ~ In (SRelease q) steps ->
    let s' := fold_left (lsm_step true true mfs) steps s in
    forall k, visible (all_entries s') q k = visible (all_entries s) q k
              /\ db_get_at s' k q = db_get_at s k q.
Proof.
  intros mfs steps s q H Hq A Nr s' k.
  destruct (snapshot_stable_gen mfs steps s q H Hq A Nr) as (I1 & _ & I3). fold s' in I1, I3.
  split; [apply I3|]. rewrite (db_get_correct s' k q I1), (db_get_correct s k q H). apply I3.
Qed.




Lemma step_eq_release st q : st = SRelease q \/ st <> SRelease q.
Proof.
  destruct st; try (right; discriminate). destruct (N.eq_dec q0 q) as [->|N]; [left; reflexivity|].
  right. intros E. injection E as E. contradiction.
Qed.

(** ** T4 with duplicates: [l_snaps] is a multiset; [q] stays live as long as it is released
    fewer times than it is held *)

Fixpoint releases (q : N) (steps : list step) : nat :=
  match steps with
  | [] => O
  | SRelease q' :: r => ((if N.eqb q' q then 1 else 0) + releases q r)%nat
  | _ :: r => releases q r
  end.

Lemma remove1_count q' l q :
  count_occ N.eq_dec (remove1 q' l) q =
  if q' =? q then Nat.pred (count_occ N.eq_dec l q) else count_occ N.eq_dec l q.
Proof.
  induction l as [|x l IH]; [destruct (q' =? q); reflexivity|]. rewrite remove1_cons.
  destruct (N.eqb_spec x q') as [E|E].
  - subst x. destruct (N.eqb_spec q' q) as [E2|E2].
    + subst q'. rewrite count_occ_cons_eq by reflexivity. reflexivity.
    + rewrite count_occ_cons_neq by exact E2. reflexivity.
  - destruct (N.eq_dec x q) as [E3|E3].
    + subst x. rewrite !count_occ_cons_eq by reflexivity. rewrite IH.
      destruct (N.eqb_spec q' q) as [E2|E2]; [congruence|reflexivity].
    + rewrite !count_occ_cons_neq by exact E3. exact IH.
Qed.

Lemma step_snap_count mfs s st q :
  l_panic s = false ->
  (count_occ N.eq_dec (l_snaps s) q
   <= count_occ N.eq_dec (l_snaps (lsm_step true true mfs s st)) q + releases q [st])%nat.
Proof.
  intros P. pose proof (step_snaps true true mfs s st) as Sn.
  destruct st; cbn [releases]; try (rewrite Sn; lia).
  - unfold lsm_step. rewrite P. cbn [l_snaps]. destruct (N.eq_dec (l_seq s) q) as [E|E].
    + rewrite count_occ_cons_eq by exact E. lia.
    + rewrite count_occ_cons_neq by exact E. lia.
  - rewrite step_release by exact P. cbn [l_snaps]. rewrite remove1_count.
    destruct (q0 =? q); lia.
Qed.

Lemma step_keeps_view_multi mfs s st q :
  lsm_wf_b s = true -> step_admissible s st ->
  (releases q [st] < count_occ N.eq_dec (l_snaps s) q)%nat ->
  forall k, visible (all_entries (lsm_step true true mfs s st)) q k = visible (all_entries s) q k.
Proof.
  intros H A C.
  assert (Hq : In q (l_snaps s)) by (apply (count_occ_In N.eq_dec); lia).
  destruct (step_eq_release st q) as [E|E].
  - subst st. pose proof (WF_of_b s H) as W. rewrite step_release by apply (wf_panic s W).
    intros k. reflexivity.
  - apply (step_keeps_view mfs s st q H A Hq E).
Qed.

Theorem snapshot_stable_multiset :
  forall mfs steps s q, lsm_wf_b s = true -> run_adm mfs s steps ->
    (releases q steps < count_occ N.eq_dec (l_snaps s) q)%nat ->
    let s' := fold_left (lsm_step true true mfs) steps s in
    forall k, visible (all_entries s') q k = visible (all_entries s) q k
              /\ db_get_at s' k q = db_get_at s k q.
Proof.
  intros mfs steps. induction steps as [|st r IH]; intros s q H A C; cbv zeta; cbn [fold_left].
  - intros k. split; reflexivity.
  - destruct A as [A1 A2]. pose proof (step_preserves_wf mfs s st H A1) as H'.
    pose proof (step_snap_count mfs s st q (wf_panic s (WF_of_b s H))) as Cn.
    assert (Rs : releases q (st :: r) = (releases q [st] + releases q r)%nat).
    { destruct st; cbn [releases]; lia. }
    assert (C1 : (releases q [st] < count_occ N.eq_dec (l_snaps s) q)%nat) by lia.
    assert (C2 : (releases q r < count_occ N.eq_dec (l_snaps (lsm_step true true mfs s st)) q)%nat) by lia.
    specialize (IH _ q H' A2 C2). cbv zeta in IH. intros k. destruct (IH k) as [I1 I2].
    pose proof (step_keeps_view_multi mfs s st q H A1 C1 k) as V. split.
    + rewrite I1. exact V.
    + rewrite I2, (db_get_correct _ k q H'), (db_get_correct s k q H). exact V.
Qed.

(* ========================================================================================== *)
(** LSM state machine proofs, part 6: admissibility as a decidable check, a non-vacuity run and
    the sensitivity witness for D1. No axioms. *)

(** * Admissibility, decidably *)

Definition in_seed_b (nums : list N) (f : fmeta) : bool := existsb (N.eqb (fm_num f)) nums.

Lemma files_of_In v l nums f :
  In f (files_of v l nums) <-> In f (level_files v l) /\ in_seed_b nums f = true.
Proof. unfold files_of. apply filter_In. Qed.

Definition hull_closed_b (v : version) (nums : list N) : bool :=
  match hull (files_of v O nums) with
  | None => true
  | Some (lo, hi) =>
      forallb (fun f => negb (file_meets lo hi f) || in_seed_b nums f) (level_files v O)
  end.

Definition top_closed_b (v : version) (level : nat) (nums : list N) : bool :=
  let seed := files_of v level nums in
  forallb (fun h =>
    forallb (fun b =>
      in_seed_b nums b
      || negb (ikey_ltb (fm_large h) (fm_small b)
               && bytes_eqb (ik_user (fm_small b)) (ik_user (fm_large h)))
      || existsb (fun t => forallb (fun g => ikey_leb (fm_large g) (fm_large t)) seed
                           && ikey_ltb (fm_large t) (fm_small b)
                           && bytes_eqb (ik_user (fm_small b)) (ik_user (fm_large t))) seed)
      (level_files v level)) seed.

Definition compact_adm_b (s : lsm) (level : nat) (nums : list N) : bool :=
  Nat.ltb (S level) (length (l_ver s))
  && negb (match files_of (l_ver s) level nums with [] => true | _ => false end)
  && (if Nat.eqb level 0 then hull_closed_b (l_ver s) nums else top_closed_b (l_ver s) level nums).

Lemma hull_closed_b_sound v nums :
  hull_closed_b v nums = true -> hull_closed (level_files v O) (files_of v O nums).
Proof.
  unfold hull_closed_b. intros H lo hi f Hh Hf Hm. rewrite Hh in H. rewrite forallb_forall in H.
  specialize (H f Hf). rewrite Hm in H. cbn [negb orb] in H. apply files_of_In. auto.
Qed.

Lemma top_closed_b_sound v level nums :
  top_closed_b v level nums = true ->
  seed_top_closed (level_files v level) (files_of v level nums).
Proof.
  unfold top_closed_b. cbv zeta. intros H h b Hh Hb Nb Lt U.
  rewrite forallb_forall in H. specialize (H h Hh). rewrite forallb_forall in H. specialize (H b Hb).
  rewrite !orb_true_iff in H. destruct H as [[H|H]|H].
  - exfalso. apply Nb. apply files_of_In. auto.
  - exfalso. apply negb_true_iff in H. apply andb_false_iff in H. destruct H as [H|H].
    + apply kltb_f in H. unfold ikey_le, ikey_lt in *. rewrite ikey_cmp_opp, Lt in H. apply H. reflexivity.
    + apply beqb_f in H. contradiction.
  - apply existsb_exists in H. destruct H as (t & Ht & H). rewrite !andb_true_iff in H.
    destruct H as [[H1 H2] H3]. exists t. split; [exact Ht|]. split; [|split].
    + intros g Hg. rewrite forallb_forall in H1. apply kleb_t. apply H1. exact Hg.
    + apply kltb_t. exact H2.
    + apply beqb_t. exact H3.
Qed.

Lemma compact_adm_b_sound s level nums :
  compact_adm_b s level nums = true -> compact_adm s level nums.
Proof.
  unfold compact_adm_b. rewrite !andb_true_iff. intros [[H1 H2] H3]. apply Nat.ltb_lt in H1.
  split; [exact H1|]. split; [|split].
  - intros E. rewrite E in H2. discriminate.
  - intros ->. cbn [Nat.eqb] in H3. apply hull_closed_b_sound. exact H3.
  - intros N. destruct level as [|l]; [congruence|]. cbn [Nat.eqb] in H3. apply top_closed_b_sound. exact H3.
Qed.

Definition step_admissible_b (s : lsm) (st : step) : bool :=
  match st with
  | SFlush => l_seq s <=? MAX_SEQ
  | SCompact level seed _ => compact_adm_b s level seed && (smallest_snapshot s <? MAX_SEQ)
  | STrivialMove level seed => compact_adm_b s level seed
  | _ => true
  end.

Lemma step_admissible_b_sound s st : step_admissible_b s st = true -> step_admissible s st.
Proof.
  destruct st; cbn [step_admissible_b step_admissible]; auto.
  - apply N.leb_le.
  - rewrite andb_true_iff, N.ltb_lt. intros [H1 H2]. split; [apply compact_adm_b_sound; exact H1|exact H2].
  - apply compact_adm_b_sound.
Qed.

(** admissibility along a run of the step function with the given repair flags *)
Fixpoint run_adm_b (d1 d14 : bool) (mfs : N) (s : lsm) (steps : list step) : bool :=
  match steps with
  | [] => true
  | st :: r => step_admissible_b s st && run_adm_b d1 d14 mfs (lsm_step d1 d14 mfs s st) r
  end.

Lemma run_adm_b_sound mfs steps : forall s, run_adm_b true true mfs s steps = true -> run_adm mfs s steps.
Proof.
  induction steps as [|st r IH]; intros s H; cbn [run_adm_b run_adm] in *; [exact Logic.I|].
  apply andb_true_iff in H. destruct H as [H1 H2]. split; [apply step_admissible_b_sound; exact H1|].
  apply IH. exact H2.
Qed.

(** * A run that reaches three levels and compacts twice under a live snapshot *)

Definition xa : bytes := [97].
Definition xb : bytes := [98].
Definition xc : bytes := [99].
Definition xd : bytes := [100].
Definition ex_mfs : N := 1000000.

(** up to the snapshot at sequence 5: one file in level 2, one in level 1 *)
Definition ex_prefix : list step :=
  [ SWrite [WPut xa [1]; WPut xb [2]; WPut xc [3]]; SRotate; SFlush;
    SWrite [WPut xa [4]; WDel xb]; SRotate; SFlush;
    SSnapshot ].

(** two more flushes into level 0, a level-0 compaction, a level-1 compaction *)
Definition ex_suffix : list step :=
  [ SWrite [WPut xb [6]; WPut xc [7]]; SRotate; SFlush;
    SWrite [WPut xa [8]]; SRotate; SFlush;
    SCompact 0 [7] [0%nat; 1%nat];
    SCompact 1 [11] [1%nat] ].

Definition ex_mid : lsm := lsm_run true true ex_mfs ex_prefix.
Definition ex_before_compactions : lsm := fold_left (lsm_step true true ex_mfs) (firstn 6 ex_suffix) ex_mid.
Definition ex_end : lsm := fold_left (lsm_step true true ex_mfs) ex_suffix ex_mid.

Lemma ex_run_admissible : run_adm ex_mfs lsm_init (ex_prefix ++ ex_suffix).
Proof. apply run_adm_b_sound. vm_compute. reflexivity. Qed.

Lemma ex_three_levels :
  map (@length fmeta) (l_ver ex_before_compactions) = [2; 1; 1; 0; 0; 0; 0]%nat
  /\ l_snaps ex_before_compactions = [5].
Proof. vm_compute. split; reflexivity. Qed.

Lemma ex_end_shape :
  map (@length fmeta) (l_ver ex_end) = [0; 0; 2; 0; 0; 0; 0]%nat
  /\ lsm_wf_b ex_end = true /\ l_panic ex_end = false /\ l_snaps ex_end = [5].
Proof. vm_compute. repeat split; reflexivity. Qed.

(** the view of the snapshot taken at sequence 5 before and after the flushes and compactions,
    and the current view at the end *)
Lemma ex_views :
  map (fun k => visible (all_entries ex_mid) 5 k) [xa; xb; xc; xd] = [Some [4]; None; Some [3]; None]
  /\ map (fun k => visible (all_entries ex_end) 5 k) [xa; xb; xc; xd] = [Some [4]; None; Some [3]; None]
  /\ map (fun k => db_get_at ex_end k 5) [xa; xb; xc; xd] = [Some [4]; None; Some [3]; None]
  /\ map (fun k => db_get ex_end k) [xa; xb; xc; xd] = [Some [8]; Some [6]; Some [7]; None].
Proof. vm_compute. repeat split; reflexivity. Qed.

(** the theorems apply to this run *)
Lemma ex_theorem_applies :
  forall k, visible (all_entries ex_end) 5 k = visible (all_entries ex_mid) 5 k
            /\ db_get_at ex_end k 5 = db_get_at ex_mid k 5.
Proof.
  apply (snapshot_stable ex_mfs ex_suffix ex_mid 5).
  - vm_compute. reflexivity.
  - vm_compute. left. reflexivity.
  - apply run_adm_b_sound. vm_compute. reflexivity.
  - intros H. repeat (destruct H as [H|H]; [discriminate|]). exact H.
Qed.

(** * Sensitivity witness for D1: with the pinned comparison in [key_range_for_files] (the
    minimum of the upper bounds) an admissible level-0 compaction of two files [a..b], [b..z] over
    a level-1 file [y..z] misses the parent file and the overlap assertion of [maybe_add_file]
    fails; with the repair the same run keeps the invariant *)

Definition xy : bytes := [121].
Definition xz : bytes := [122].

Definition d1_steps : list step :=
  [ SWrite [WPut xy [1]; WPut xz [2]]; SRotate; SFlush;        (* -> level 2 *)
    SWrite [WPut xy [3]; WPut xz [4]]; SRotate; SFlush;        (* -> level 1 *)
    SWrite [WPut xb [5]; WPut xz [6]]; SRotate; SFlush;        (* -> level 0 *)
    SWrite [WPut xa [7]; WPut xb [8]]; SRotate; SFlush;        (* -> level 0 *)
    SCompact 0 [7; 9] [] ].

Lemma d1_witness :
  run_adm_b false true ex_mfs lsm_init d1_steps = true
  /\ l_panic (lsm_run false true ex_mfs d1_steps) = true
  /\ run_adm_b true true ex_mfs lsm_init d1_steps = true
  /\ lsm_wf_b (lsm_run true true ex_mfs d1_steps) = true.
Proof. vm_compute. repeat split; reflexivity. Qed.

(** * The clauses of [step_admissible] are needed: well-formed states in which a step violating
    exactly one clause breaks the invariant or a view (the decidable check rejects the step) *)

Definition kk (u : bytes) (n : N) : ikey := mkIKey u n OP_PUT.
Definition nl5 : version := [[]; []; []; []; []].

(** a deeper-level seed {1, 3} that skips file 2, which continues the user key on which file 1
    ends: the newer version of [b] sinks below the older one *)
Definition w_top : lsm :=
  mkLsm [] None
    ([[]; [mkFM 1 100 (kk xa 9) (kk xb 8); mkFM 2 100 (kk xb 5) (kk xc 7); mkFM 3 100 (kk xd 6) (kk xd 6)]] ++ nl5)
    [(1, [(kk xa 9, [1]); (kk xb 8, [2])]); (2, [(kk xb 5, [3]); (kk xc 7, [4])]); (3, [(kk xd 6, [5])])]
    9 [] 3 false.

Lemma clause_top_closed_needed :
  let st := SCompact 1 [1; 3] [] in
  let w' := lsm_step true true ex_mfs w_top st in
  lsm_wf_b w_top = true /\ step_admissible_b w_top st = false /\ l_panic w' = false
  /\ lsm_wf_b w' = false /\ db_get_at w_top xb 9 = Some [2] /\ db_get_at w' xb 9 = Some [3]
  /\ step_admissible_b w_top (SCompact 1 [1] []) = true.
Proof. vm_compute. repeat split; reflexivity. Qed.

(** a level-0 seed that is not closed under overlap *)
Definition w_hull : lsm :=
  mkLsm [] None
    ([[mkFM 1 100 (kk xa 3) (kk xb 4); mkFM 2 100 (kk xb 9) (kk xb 9)]; []] ++ nl5)
    [(1, [(kk xa 3, [0]); (kk xb 4, [1])]); (2, [(kk xb 9, [2])])] 9 [] 2 false.

Lemma clause_hull_closed_needed :
  let st := SCompact 0 [2] [] in
  let w' := lsm_step true true ex_mfs w_hull st in
  lsm_wf_b w_hull = true /\ step_admissible_b w_hull st = false /\ l_panic w' = false
  /\ lsm_wf_b w' = false /\ db_get_at w_hull xb 9 = Some [2] /\ db_get_at w' xb 9 = Some [1].
Proof. vm_compute. repeat split; reflexivity. Qed.

(** sequence numbers beyond [u64::MAX] defeat the [MAX_SEQ] sentinel of the overlap search *)
Definition w_seq : lsm :=
  mkLsm [] (Some [(kk xa 18446744073709551617, [2])])
    ([[]; [mkFM 1 100 (kk xa 18446744073709551616) (kk xa 18446744073709551616)]] ++ nl5)
    [(1, [(kk xa 18446744073709551616, [1])])] 18446744073709551617 [] 1 false.

Lemma clause_seq_bound_needed :
  let w' := lsm_step true true ex_mfs w_seq SFlush in
  lsm_wf_b w_seq = true /\ step_admissible_b w_seq SFlush = false /\ l_panic w' = false
  /\ lsm_wf_b w' = false
  /\ db_get_at w_seq xa 18446744073709551617 = Some [2]
  /\ db_get_at w' xa 18446744073709551617 = Some [1].
Proof. vm_compute. repeat split; reflexivity. Qed.

(** [smallest_snapshot = MAX_SEQ] collides with the "no previous key" sentinel of the drop rule *)
Definition w_ss : lsm :=
  mkLsm [] None
    ([[mkFM 1 100 (kk xa 5) (kk xa 5)]; []] ++ nl5)
    [(1, [(kk xa 5, [1])])] MAX_SEQ [] 1 false.

Lemma clause_snapshot_bound_needed :
  let st := SCompact 0 [1] [] in
  let w' := lsm_step true true ex_mfs w_ss st in
  lsm_wf_b w_ss = true /\ step_admissible_b w_ss st = false
  /\ visible (all_entries w_ss) MAX_SEQ xa = Some [1] /\ visible (all_entries w') MAX_SEQ xa = None.
Proof. vm_compute. repeat split; reflexivity. Qed.
