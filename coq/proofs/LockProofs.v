(** Proofs about the ownership model (C17). *)
From Coq Require Import Lia.
From RainVerif.model Require Import LockOwner.
Open Scope N_scope.

Lemma single_owner_init : single_owner world_init.
Proof. reflexivity. Qed.

Lemma step_single_owner w a : single_owner w -> single_owner (fst (step w a)).
Proof.
  unfold single_owner. intros Hs. destruct a as [h | h | ]; cbn [step].
  - destruct (w_lock w) as [o|] eqn:El; cbn [fst w_lock w_open].
    + rewrite El. exact Hs.
    + rewrite Hs. reflexivity.
  - destruct (existsb (N.eqb h) (w_open w)) eqn:Ee; cbn [fst w_lock w_open].
    + destruct (w_lock w) as [o|] eqn:El.
      * rewrite Hs in *. cbn [existsb] in Ee. rewrite Bool.orb_false_r in Ee.
        apply N.eqb_eq in Ee. subst o. rewrite N.eqb_refl.
        unfold remove_h. cbn [filter]. rewrite N.eqb_refl. reflexivity.
      * rewrite Hs in Ee. discriminate.
    + exact Hs.
  - destruct (negb (w_exists w)); [exact Hs|].
    destruct (w_lock w) as [o|] eqn:El; cbn [fst w_lock w_open].
    + rewrite El. exact Hs.
    + exact Hs.
Qed.

Theorem run_single_owner acts : forall w, single_owner w -> single_owner (fst (run w acts)).
Proof.
  induction acts as [|a r IH]; intros w Hs; cbn [run fst].
  - exact Hs.
  - apply IH. apply step_single_owner. exact Hs.
Qed.

(** at most one handle is open in every reachable state *)
Theorem at_most_one_open acts :
  (length (w_open (fst (run world_init acts))) <= 1)%nat.
Proof.
  pose proof (run_single_owner acts world_init single_owner_init) as Hs.
  unfold single_owner in Hs. destruct (w_lock (fst (run world_init acts))); rewrite Hs; cbn; lia.
Qed.

(** a failed open or destroy changes nothing *)
Theorem failed_action_no_effect w a : snd (step w a) <> OOk -> fst (step w a) = w.
Proof.
  destruct a as [h | h | ]; cbn [step]; intros Hf.
  - destruct (w_lock w); cbn in *; [reflexivity | congruence].
  - destruct (existsb (N.eqb h) (w_open w)); cbn in *; [congruence | reflexivity].
  - destruct (negb (w_exists w)); [reflexivity|].
    destruct (w_lock w); cbn in *; [reflexivity | congruence].
Qed.

(** while a handle is open every further open and every destroy fails *)
Theorem open_excludes w h a :
  single_owner w -> In h (w_open w) ->
  (match a with AClose _ => False | _ => True end) ->
  snd (step w a) = OErr.
Proof.
  unfold single_owner. intros Hs Hin Ha.
  destruct (w_lock w) as [o|] eqn:El.
  - destruct a; cbn [step]; try contradiction; [rewrite El; reflexivity|].
    destruct (negb (w_exists w)); [reflexivity|]. rewrite El. reflexivity.
  - rewrite Hs in Hin. destruct Hin.
Qed.

(** after the owner closes, of any sequence of racing opens exactly the first succeeds *)
Fixpoint count_ok (l : list outcome) : nat :=
  match l with
  | [] => O
  | OOk :: r => S (count_ok r)
  | _ :: r => count_ok r
  end.

Lemma opens_locked hs : forall w o, w_lock w = Some o ->
  count_ok (snd (run w (map AOpen hs))) = O /\ w_lock (fst (run w (map AOpen hs))) = Some o.
Proof.
  induction hs as [|h r IH]; intros w o Hl; cbn [map run fst snd count_ok].
  - split; [reflexivity | exact Hl].
  - cbn [step]. rewrite Hl. cbn [fst snd count_ok]. apply IH. exact Hl.
Qed.

Theorem racing_opens_exactly_one w hs :
  w_lock w = None -> hs <> [] ->
  count_ok (snd (run w (map AOpen hs))) = 1%nat.
Proof.
  intros Hl Hne. destruct hs as [|h r]; [congruence|].
  cbn [map run fst snd]. cbn [step]. rewrite Hl. cbn [fst snd count_ok].
  destruct (opens_locked r (mkWorld (Some h) (h :: w_open w) true (w_gen w)) h eq_refl) as [Hc _].
  rewrite Hc. reflexivity.
Qed.
