(** The extended log reader [read_all_x] of [model/Recover.v] (the reader of [model/Log.v] that also
    counts skipped records and reports whether the whole file was read), and the invariant
    [logfile] of files produced by the log writer. *)
From Coq Require Import Lia ZArith ZifyN ZifyBool ZifyNat Arith List NArith Bool.
From RainVerif Require Import Params.
From RainVerif.model Require Import Bytes Crc Log LogScript Key Block Table TableSpec Version Lsm DbSpec Codec WalModel Recover.
From RainVerif.proofs Require Import CrcProofs LogProofs.
Import ListNotations.
Open Scope N_scope.
Ltac Zify.zify_post_hook ::= Z.div_mod_to_equations.
Arguments N.add : simpl never.
Arguments N.sub : simpl never.
Arguments N.mul : simpl never.
Arguments N.div : simpl never.
Arguments N.modulo : simpl never.
Arguments N.eqb : simpl never.
Arguments N.ltb : simpl never.
Arguments N.leb : simpl never.
Arguments N.min : simpl never.
Arguments N.of_nat : simpl never.
Arguments N.to_nat : simpl never.

(** * Fragments dropped by the sequencing rules

    [read_record_loop_x] counts, besides the fragments with a wrong checksum, the fragments the
    sequencing rules throw away: a Full or First fragment that arrives inside a fragmented record
    (the partial record is cut short), a Middle or Last fragment that arrives outside one (orphan). *)

(** is the fragment of type [t] arriving in state [i] (inside a fragmented record?) a drop *)
Definition drop1 (i : bool) (t : N) : N :=
  if (t =? 0) || (t =? 1) then (if i then 1 else 0) else (if i then 0 else 1).

(** the sequencing state after a fragment (does not depend on the buffer) *)
Definition fstate (i : bool) (t : N) (d : bytes) : bool := snd (fst (fstep i [] t d)).

(** the drops of a whole fragment sequence *)
Fixpoint drops (i : bool) (its : list item) : N :=
  match its with
  | [] => 0
  | It n t d :: r => drop1 i t + drops (fstate i t d) r
  end.

(** the drops among the fragments consumed up to and including the one that completes the first
    record (all of them when no record is completed): the companion of [next] *)
Fixpoint ndrops (i : bool) (its : list item) : N :=
  match its with
  | [] => 0
  | It n t d :: r =>
      match fstep i [] t d with
      | (Some _, _, _) => drop1 i t
      | (None, i', _) => drop1 i t + ndrops i' r
      end
  end.

Ltac type_cases t :=
  destruct (t =? 0) eqn:?E0; destruct (t =? 1) eqn:?E1; destruct (t =? 2) eqn:?E2;
  destruct (t =? 3) eqn:?E3; try (exfalso; lia).

Lemma fstate_fstep i b t d : snd (fst (fstep i b t d)) = fstate i t d.
Proof.
  unfold fstate, fstep.
  destruct (t =? 0); [reflexivity|]. destruct (t =? 1); [reflexivity|].
  destruct (t =? 2); destruct i; reflexivity.
Qed.

Lemma fin_state_indep its : forall i b b', fst (fin i b its) = fst (fin i b' its).
Proof.
  induction its as [|[n t d] its IH]; intros i b b'; cbn [fin fst]; [reflexivity|].
  pose proof (fstate_fstep i b t d) as E1. pose proof (fstate_fstep i b' t d) as E2.
  destruct (fstep i b t d) as [[o1 i1] b1]. destruct (fstep i b' t d) as [[o2 i2] b2].
  cbn [fst snd] in E1, E2. subst i1 i2. apply IH.
Qed.

Lemma fin_app x : forall i b y,
  fin i b (x ++ y) = fin (fst (fin i b x)) (snd (fin i b x)) y.
Proof.
  induction x as [|[n t d] x IH]; intros i b y; cbn [fin app fst snd]; [reflexivity|].
  destruct (fstep i b t d) as [[o1 i1] b1]. apply IH.
Qed.

Lemma drops_app x : forall i b y,
  drops i (x ++ y) = drops i x + drops (fst (fin i b x)) y.
Proof.
  induction x as [|[n t d] x IH]; intros i b y; cbn [drops fin app fst].
  - lia.
  - pose proof (fstate_fstep i b t d) as E1.
    destruct (fstep i b t d) as [[o1 i1] b1]. cbn [fst snd] in E1. subst i1.
    rewrite (IH _ b1). lia.
Qed.

Lemma drops_prefix x y i : drops i (x ++ y) = 0 -> drops i x = 0.
Proof. rewrite (drops_app x i []). lia. Qed.

Section DROPS_NEXT.
Variable H : N.

(** [drops] splits along [next] the way [asm] does ([asm_next]) *)
Lemma drops_next its : forall pos i b,
  drops i its =
  match next H pos i b its with
  | None => ndrops i its
  | Some (_, _, r) => ndrops i its + drops false r
  end.
Proof.
  induction its as [|[n t d] its IH]; intros pos i b; cbn [drops ndrops next]; [reflexivity|].
  unfold fstate, fstep.
  destruct (t =? 0); cbn [fst snd]; [reflexivity|].
  destruct (t =? 1); cbn [fst snd].
  { rewrite (IH (pos + isize H (It n t d)) true d).
    destruct (next H (pos + isize H (It n t d)) true d its) as [[[x e] r]|]; lia. }
  destruct (t =? 2); destruct i; cbn [fst snd]; try reflexivity.
  - rewrite (IH (pos + isize H (It n t d)) true (b ++ d)).
    destruct (next H (pos + isize H (It n t d)) true (b ++ d) its) as [[[x e] r]|]; lia.
  - rewrite (IH (pos + isize H (It n t d)) false []).
    destruct (next H (pos + isize H (It n t d)) false [] its) as [[[x e] r]|]; lia.
  - rewrite (IH (pos + isize H (It n t d)) false []).
    destruct (next H (pos + isize H (It n t d)) false [] its) as [[[x e] r]|]; lia.
Qed.
(** so does the final sequencing state *)
Lemma fin_next its : forall pos i b,
  fst (fin i b its) =
  match next H pos i b its with
  | None => fst (fin i b its)
  | Some (_, _, r) => fst (fin false [] r)
  end.
Proof.
  induction its as [|[n t d] its IH]; intros pos i b; cbn [fin next]; [reflexivity|].
  unfold fstep.
  destruct (t =? 0); [reflexivity|].
  destruct (t =? 1); [apply IH|].
  destruct (t =? 2); destruct i; try apply IH. reflexivity.
Qed.
End DROPS_NEXT.

Section LOGX.
Variable B H : N.
Variable crc : bytes -> N.

(** * [read_all_x] returns the records and the panic flag of [read_all .. true] *)

Lemma rrl_x_sim : forall fuel r buf infrag sk,
  match read_record_loop_x B H crc fuel r buf infrag sk with
  | XEof _ _ _ => read_record_loop B H crc true fuel r buf infrag = REof
  | XPanic => read_record_loop B H crc true fuel r buf infrag = RPanic
  | XRec d r' _ => read_record_loop B H crc true fuel r buf infrag = RRec d r'
  end.
Proof.
  induction fuel as [|fuel IH]; intros r buf infrag sk;
    cbn [read_record_loop_x read_record_loop negb]; [reflexivity|].
  destruct (read_physical B H crc r) as [| |r'|t d r']; try reflexivity.
  - apply IH.
  - destruct (t =? T_FULL); [reflexivity|].
    destruct (t =? T_FIRST); [apply IH|].
    destruct (t =? T_MIDDLE); destruct infrag; try apply IH; reflexivity.
Qed.

Lemma rr_x_sim r sk :
  match read_record_x B H crc r sk with
  | XEof _ _ _ => read_record B H crc true r = REof
  | XPanic => read_record B H crc true r = RPanic
  | XRec d r' _ => read_record B H crc true r = RRec d r'
  end.
Proof.
  unfold read_record_x, read_record.
  destruct ((0 <? r_cpos r) && (r_flen r <=? r_cpos r)); [reflexivity|apply rrl_x_sim].
Qed.

Lemma ral_x_sim : forall fuel r sk,
  rx_records (read_all_loop_x B H crc fuel r sk) = fst (read_all_loop B H crc true fuel r) /\
  rx_panic (read_all_loop_x B H crc fuel r sk) = snd (read_all_loop B H crc true fuel r).
Proof.
  induction fuel as [|fuel IH]; intros r sk; cbn [read_all_loop_x read_all_loop];
    [split; reflexivity|].
  pose proof (rr_x_sim r sk) as Hs.
  destruct (read_record_x B H crc r sk) as [r' sk' p| |d r' sk']; rewrite Hs;
    cbn [rx_records rx_panic fst snd]; try (split; reflexivity).
  destruct (IH r' sk') as [E1 E2]. rewrite E1, E2. split; reflexivity.
Qed.

Lemma read_all_x_records : forall f, rx_records (read_all_x B H crc f) = fst (read_all B H crc true f).
Proof. intros f. unfold read_all_x, read_all. apply ral_x_sim. Qed.

Lemma read_all_x_panic : forall f, rx_panic (read_all_x B H crc f) = snd (read_all B H crc true f).
Proof. intros f. unfold read_all_x, read_all. apply ral_x_sim. Qed.

Hypothesis H_is_7 : H = 7.
Hypothesis B_big : H < B.
Hypothesis B_small : B - H < 65536.
Hypothesis crc_bound : forall d, crc d < two32.

Local Notation a4 L := (L B H crc H_is_7 B_big B_small crc_bound) (only parsing).
Local Notation a3 L := (L B H H_is_7 B_big B_small) (only parsing).

(** * [read_all_x] on a well laid out file: the skipped counter grows by exactly the drops *)

Lemma rrl_x_correct its : forall fuel pos buf infrag junk sk,
  layout_ok B H pos its -> eof_at B H crc (pos + size H its) junk -> (length its < fuel)%nat ->
  read_record_loop_x B H crc fuel (rd B pos (bytes_of crc its ++ junk)) buf infrag sk =
  match next H pos infrag buf its with
  | None => XEof (rd B (pos + size H its) junk) (sk + ndrops infrag its) (fst (fin infrag buf its))
  | Some (d, e, r) => XRec d (rd B e (bytes_of crc r ++ junk)) (sk + ndrops infrag its)
  end.
Proof using H_is_7 B_big B_small crc_bound.
  induction its as [|[n t d] its IH]; intros fuel pos buf infrag junk sk Hl He Hf;
    (destruct fuel as [|fuel]; [cbn [length] in Hf; lia|]).
  - cbn [size] in *. rewrite N.add_0_r in *. cbn [bytes_of app next ndrops fin fst read_record_loop_x].
    unfold eof_at in He. rewrite He, N.add_0_r. reflexivity.
  - cbn [layout_ok] in Hl. destruct Hl as [Hok Hl].
    cbn [size] in *. rewrite N.add_assoc in *. cbn [length] in Hf.
    cbn [bytes_of next ndrops fin read_record_loop_x]. rewrite <- app_assoc, (a4 rp_item) by assumption.
    unfold fstep, drop1, T_FULL, T_FIRST, T_MIDDLE, T_LAST.
    assert (Hf' : (length its < fuel)%nat) by lia.
    destruct (t =? 0); cbn [orb].
    { destruct infrag; f_equal; lia. }
    destruct (t =? 1).
    { rewrite IH by assumption.
      destruct (next H (pos + isize H (It n t d)) true d its) as [[[x e] r]|];
        destruct infrag; f_equal; lia. }
    destruct (t =? 2); destruct infrag; try rewrite IH by assumption.
    + destruct (next H (pos + isize H (It n t d)) true (buf ++ d) its) as [[[x e] r]|]; f_equal; lia.
    + destruct (next H (pos + isize H (It n t d)) false [] its) as [[[x e] r]|]; f_equal; lia.
    + f_equal. lia.
    + destruct (next H (pos + isize H (It n t d)) false [] its) as [[[x e] r]|]; f_equal; lia.
Qed.

Lemma ral_x_correct : forall fuel its pos junk sk,
  layout_ok B H pos its -> eof_at B H crc (pos + size H its) junk -> (length its < fuel)%nat ->
  read_all_loop_x B H crc fuel (rd B pos (bytes_of crc its ++ junk)) sk
  = mkRX (map fst (asm H pos false [] its)) false (sk + drops false its)
         ((blen junk =? 0) && negb (fst (fin false [] its))).
Proof using H_is_7 B_big B_small crc_bound.
  induction fuel as [|fuel IH]; intros its pos junk sk Hl He Hf; [lia|].
  cbn [read_all_loop_x]. unfold read_record_x.
  destruct ((0 <? r_cpos (rd B pos (bytes_of crc its ++ junk))) &&
            (r_flen (rd B pos (bytes_of crc its ++ junk)) <=? r_cpos (rd B pos (bytes_of crc its ++ junk))))
    eqn:E.
  - cbn [rd r_cpos r_flen] in E.
    assert (E' : blen (bytes_of crc its ++ junk) = 0) by lia.
    apply blen_0_nil in E'. apply app_eq_nil in E'. destruct E' as [E1 E2].
    apply (a4 bytes_of_nil) in E1. subst its junk.
    cbn [bytes_of app asm map drops fin fst negb rd r_cpos r_flen]. rewrite blen_nil.
    rewrite !N.add_0_r. rewrite !N.eqb_refl. reflexivity.
  - clear E. rewrite rrl_x_correct; try assumption.
    2:{ cbn [rd r_rest]. rewrite app_length.
        pose proof (a4 size_length its) as Hs. rewrite <- (a4 blen_bytes_of) in Hs.
        unfold blen in Hs. lia. }
    rewrite asm_next, (drops_next H its pos false []), (fin_next H its pos false []).
    destruct (next H pos false [] its) as [[[d e] r]|] eqn:En.
    + destruct (a4 next_props _ _ _ _ _ _ _ Hl En) as [Hl' [Hlen Hsz]].
      rewrite IH; [|assumption| |lia].
      * cbn [map fst rx_records rx_panic rx_skipped rx_intact]. f_equal. lia.
      * rewrite Hsz. assumption.
    + cbn [map rd r_cpos r_flen]. f_equal. f_equal.
      destruct (blen junk =? 0) eqn:Ej; lia.
Qed.

Lemma read_all_x_layout : forall its junk,
  layout_ok B H 0 its -> eof_at B H crc (size H its) junk ->
  read_all_x B H crc (bytes_of crc its ++ junk)
  = mkRX (map fst (asm H 0 false [] its)) false (drops false its)
         ((blen junk =? 0) && negb (fst (fin false [] its))).
Proof using H_is_7 B_big B_small crc_bound.
  intros its junk Hl He. unfold read_all_x. rewrite (a3 reader_open_rd).
  rewrite (ral_x_correct _ its 0 junk 0); [rewrite N.add_0_l; reflexivity|assumption| |].
  - rewrite N.add_0_l. assumption.
  - rewrite app_length.
    pose proof (a4 size_length its) as Hs. rewrite <- (a4 blen_bytes_of) in Hs.
    unfold blen in Hs. lia.
Qed.
End LOGX.

(** * The invariant of files produced by the log writer, generic in the parameters *)
Section LOGFILE.
Variable B H : N.
Variable crc : bytes -> N.
Hypothesis H_is_7 : H = 7.
Hypothesis B_big : H < B.
Hypothesis B_small : B - H < 65536.
Hypothesis crc_bound : forall d, crc d < two32.

Local Notation a4 L := (L B H crc H_is_7 B_big B_small crc_bound) (only parsing).
Local Notation a3 L := (L B H H_is_7 B_big B_small) (only parsing).

(** a file the writer has produced: besides the layout and the records, no fragment of it is
    dropped by the sequencing rules and it does not end inside a fragmented record *)
Definition lf (f : bytes) (recs : list bytes) (boff : N) : Prop :=
  exists its, f = bytes_of crc its /\ layout_ok B H 0 its /\
    wst B (size H its) boff /\
    map fst (asm H 0 false [] its) = recs /\
    drops false its = 0 /\ fst (fin false [] its) = false.

(** the writer's fragments of one record: no drops, and the record is closed at the end *)
Lemma append_items_drops : forall fuel boff data first,
  drops (negb first) (append_items B H fuel boff data first) = 0.
Proof using H_is_7 B_big B_small crc_bound.
  induction fuel as [|fuel IH]; intros boff data first; cbn [append_items]; [reflexivity|].
  destruct (dropN (w_n B H boff data) data) as [|x l] eqn:E.
  - pose proof (a4 drop_nil _ _ E) as En. unfold w_item. rewrite En, N.eqb_refl.
    destruct first; reflexivity.
  - pose proof (a4 drop_cons _ _ _ _ E) as En. rewrite <- E in *. clear E.
    unfold w_item at 1.
    destruct (blen data =? w_n B H boff data) eqn:E2; [lia|].
    cbn [drops].
    replace (fstate (negb first) (frag_type first false) (takeN (w_n B H boff data) data))
      with (negb false) by (destruct first; reflexivity).
    rewrite IH. destruct first; reflexivity.
Qed.

Lemma append_items_closed : forall fuel boff data first b,
  completes B H fuel boff data = true ->
  fst (fin (negb first) b (append_items B H fuel boff data first)) = false.
Proof using H_is_7 B_big B_small crc_bound.
  induction fuel as [|fuel IH]; intros boff data first b Hc; cbn [completes] in Hc;
    [discriminate|].
  cbn [append_items].
  destruct (dropN (w_n B H boff data) data) as [|x l] eqn:E.
  - pose proof (a4 drop_nil _ _ E) as En. unfold w_item. rewrite En, N.eqb_refl.
    destruct first; reflexivity.
  - pose proof (a4 drop_cons _ _ _ _ E) as En. rewrite <- E in *. clear E.
    unfold w_item at 1.
    destruct (blen data =? w_n B H boff data) eqn:E2; [lia|].
    cbn [fin].
    destruct first; cbn [negb].
    + rewrite fstep_first. apply (IH _ _ false _ Hc).
    + rewrite fstep_middle. apply (IH _ _ false _ Hc).
Qed.

Lemma lf_nil : lf [] [] 0.
Proof using H_is_7 B_big B_small crc_bound.
  exists []. cbn [bytes_of layout_ok size asm map drops fin fst]. unfold wst.
  repeat split; try reflexivity. lia.
Qed.

Lemma lf_append f recs boff r : lf f recs boff ->
  lf (f ++ fst (append B H crc boff r)) (recs ++ [r]) (snd (append B H crc boff r)).
Proof using H_is_7 B_big B_small crc_bound.
  intros [its [Hf [Hl [Hw [Ha [Hd Hc]]]]]]. unfold append. rewrite append_loop_items. cbn [fst snd].
  destruct (a4 append_items_layout (append_fuel r) boff r true (size H its) Hw) as [Hl2 Hw2].
  pose proof (append_items_drops (append_fuel r) boff r true) as Hd2.
  pose proof (fun b => append_items_closed (append_fuel r) boff r true b (a4 completes_append boff r))
    as Hc2.
  cbn [negb] in Hd2, Hc2.
  set (ir := append_items B H (append_fuel r) boff r true) in *.
  exists (its ++ ir). split; [rewrite bytes_of_app, Hf; reflexivity|].
  split; [apply (a3 layout_ok_app); rewrite N.add_0_l; auto|].
  split; [rewrite (a3 size_app); assumption|].
  split.
  { rewrite asm_app, map_app, Ha, N.add_0_l. unfold ir.
    rewrite (a4 asm_complete) by (first [apply (a4 completes_append)|discriminate]).
    reflexivity. }
  split.
  - rewrite (drops_app its false []), Hd, Hc, Hd2. reflexivity.
  - rewrite fin_app, Hc. apply Hc2.
Qed.

Lemma lf_reopen f recs boff : lf f recs boff -> lf f recs (blen f mod B).
Proof using H_is_7 B_big B_small crc_bound.
  intros [its [Hf [Hl [Hw Ha]]]]. exists its.
  split; [assumption|]. split; [assumption|]. split; [|assumption].
  rewrite Hf, (a4 blen_bytes_of). apply (a3 wst_open).
Qed.

Lemma lf_read f recs boff : lf f recs boff ->
  read_all_x B H crc f = mkRX recs false 0 true.
Proof using H_is_7 B_big B_small crc_bound.
  intros [its [Hf [Hl [Hw [Ha [Hd Hc]]]]]]. rewrite <- (app_nil_r f), Hf.
  rewrite (a4 read_all_x_layout); [rewrite Ha, Hd, Hc; reflexivity|assumption|].
  apply (LogProofs.eof_nil B H crc H_is_7 B_big B_small).
Qed.

(** the fragments of a strict prefix of one record's emission assemble to nothing *)
Lemma asm_strict_prefix : forall fuel boff data first pos i b its1 it its2,
  (first = false -> i = true) ->
  append_items B H fuel boff data first = its1 ++ it :: its2 ->
  asm H pos i b its1 = [].
Proof using H_is_7 B_big B_small crc_bound.
  induction fuel as [|fuel IH]; intros boff data first pos i b its1 it its2 Hi E;
    cbn [append_items] in E.
  - destruct its1; discriminate.
  - destruct its1 as [|x its1]; [reflexivity|].
    destruct (dropN (w_n B H boff data) data) as [|y l] eqn:Ed.
    + cbn [app] in E. injection E as _ E. destruct its1; discriminate.
    + pose proof (a4 drop_cons _ _ _ _ Ed) as En. rewrite <- Ed in E.
      cbn [app] in E. injection E as <- E.
      unfold w_item. cbn [asm].
      destruct (blen data =? w_n B H boff data) eqn:E2; [lia|].
      destruct first.
      * rewrite fstep_first. eapply IH; [|exact E]. auto.
      * rewrite (Hi eq_refl), fstep_middle. eapply IH; [|exact E]. auto.
Qed.

(** a prefix (at fragment granularity) of one record's emission has no drops *)
Lemma drops_emission_prefix r boff i1 i2 :
  append_items B H (append_fuel r) boff r true = i1 ++ i2 -> drops false i1 = 0.
Proof using H_is_7 B_big B_small crc_bound.
  intros E. apply (drops_prefix i1 i2). rewrite <- E.
  apply (append_items_drops (append_fuel r) boff r true).
Qed.

(** ** a file cut inside the last record: its shape *)
Lemma lf_torn_shape_x f recs boff r t : lf f recs boff ->
  (t < length (fst (append B H crc boff r)))%nat ->
  exists its' i1 junk,
    f ++ firstn t (fst (append B H crc boff r)) = bytes_of crc its' ++ junk /\
    layout_ok B H 0 its' /\ eof_at B H crc (size H its') junk /\
    map fst (asm H 0 false [] its') = recs /\
    drops false its' = 0 /\
    (t = length (bytes_of crc i1) + length junk)%nat /\
    exists it rr, append_items B H (append_fuel r) boff r true = i1 ++ it :: rr.
Proof using H_is_7 B_big B_small crc_bound.
  intros [its [Hf [Hl [Hw [Ha [Hd Hc]]]]]]. unfold append. rewrite append_loop_items. cbn [fst].
  destruct (a4 append_items_layout (append_fuel r) boff r true (size H its) Hw) as [Hl2 _].
  pose proof (drops_emission_prefix r boff) as Hdp.
  set (ir := append_items B H (append_fuel r) boff r true) in *.
  intros Ht.
  destruct (a4 take_items ir t) as [i1 [i2 [junk [E1 [E2 [E3 E4]]]]]].
  destruct E4 as [[-> ->]|[it [rr [s [-> [E5 [E6 E7]]]]]]].
  { rewrite app_nil_r in E1. rewrite <- E1 in E3. lia. }
  pose proof Hl2 as Hl2'.
  rewrite E1 in Hl2. apply (a3 layout_ok_app) in Hl2. destruct Hl2 as [Hl2 Hl3].
  cbn [layout_ok] in Hl3. destruct Hl3 as [Hok _].
  exists (its ++ i1), i1, junk.
  split; [rewrite E2, Hf, app_assoc, <- bytes_of_app; reflexivity|].
  split; [apply (a3 layout_ok_app); rewrite N.add_0_l; auto|].
  split; [rewrite (a3 size_app); apply (a4 eof_prefix _ it junk s); assumption|].
  split.
  { rewrite asm_app, map_app, Ha.
    rewrite (asm_strict_prefix (append_fuel r) boff r true _ _ _ i1 it rr);
      [apply app_nil_r|discriminate|exact E1]. }
  split.
  { rewrite (drops_app its false []), Hd, Hc, (Hdp i1 (it :: rr) E1). reflexivity. }
  split; [|exists it, rr; exact E1].
  apply (f_equal (@length N)) in E2. rewrite firstn_length_le, app_length in E2 by lia. exact E2.
Qed.

Lemma lf_read_torn f recs boff r t : lf f recs boff ->
  (t < length (fst (append B H crc boff r)))%nat ->
  exists i, read_all_x B H crc (f ++ firstn t (fst (append B H crc boff r))) = mkRX recs false 0 i.
Proof using H_is_7 B_big B_small crc_bound.
  intros Hlf Ht.
  destruct (lf_torn_shape_x f recs boff r t Hlf Ht) as [its' [i1 [junk [E [Hl [He [Ha [Hd _]]]]]]]].
  eexists.
  rewrite E, (a4 read_all_x_layout) by assumption. rewrite Ha, Hd. reflexivity.
Qed.

(** a prefix of a written file, cut anywhere *)
Lemma lf_prefix_shape f recs boff n : lf f recs boff ->
  exists i1 junk,
    firstn n f = bytes_of crc i1 ++ junk /\ layout_ok B H 0 i1 /\
    eof_at B H crc (size H i1) junk /\
    map fst (asm H 0 false [] i1) = firstn (length (map fst (asm H 0 false [] i1))) recs /\
    drops false i1 = 0.
Proof using H_is_7 B_big B_small crc_bound.
  intros [its [Hf [Hl [Hw [Ha [Hd Hc]]]]]]. subst f.
  destruct (a4 take_items its n) as [i1 [i2 [junk [E1 [E2 [E3 E4]]]]]].
  subst its. apply (a3 layout_ok_app) in Hl. destruct Hl as [Hl1 Hl2].
  rewrite N.add_0_l in Hl2.
  exists i1, junk. split; [exact E2|]. split; [assumption|]. split.
  { destruct E4 as [[-> ->]|[it [r [s [-> [E5 [E6 E7]]]]]]].
    + apply (LogProofs.eof_nil B H crc H_is_7 B_big B_small).
    + cbn [layout_ok] in Hl2. destruct Hl2 as [Hok _].
      apply (a4 eof_prefix _ it junk s); assumption. }
  split.
  - rewrite <- Ha, asm_app, map_app. symmetry. apply firstn_app_exact.
  - apply (drops_prefix i1 i2). exact Hd.
Qed.

Lemma lf_prefix f recs boff n : lf f recs boff ->
  exists k i, read_all_x B H crc (firstn n f) = mkRX (firstn k recs) false 0 i.
Proof using H_is_7 B_big B_small crc_bound.
  intros Hlf.
  destruct (lf_prefix_shape f recs boff n Hlf) as [i1 [junk [E [Hl [He [Ha Hd]]]]]].
  exists (length (map fst (asm H 0 false [] i1))). eexists.
  rewrite E, (a4 read_all_x_layout) by assumption. rewrite <- Ha, Hd. reflexivity.
Qed.

Lemma lf_append_all : forall s f recs boff, lf f recs boff ->
  lf (f ++ fst (append_all B H crc boff s)) (recs ++ s) (snd (append_all B H crc boff s)).
Proof using H_is_7 B_big B_small crc_bound.
  induction s as [|r rs IH]; intros f recs boff Hlf; cbn [append_all fst snd].
  - rewrite !app_nil_r. assumption.
  - rewrite app_assoc.
    replace (recs ++ r :: rs) with ((recs ++ [r]) ++ rs) by (rewrite <- app_assoc; reflexivity).
    apply IH. apply lf_append. assumption.
Qed.

Lemma lf_sessions_gen : forall ss f recs boff, lf f recs boff ->
  exists boff', lf (write_sessions B H crc f ss) (recs ++ concat ss) boff'.
Proof using H_is_7 B_big B_small crc_bound.
  induction ss as [|s ss IH]; intros f recs boff Hlf; cbn [write_sessions concat].
  - rewrite app_nil_r. exists boff. assumption.
  - rewrite app_assoc. unfold open_boff.
    eapply IH. apply lf_append_all. eapply lf_reopen. exact Hlf.
Qed.

Lemma lf_sessions : forall ss, exists boff, lf (write_sessions B H crc [] ss) (concat ss) boff.
Proof using H_is_7 B_big B_small crc_bound.
  intros ss. apply (lf_sessions_gen ss [] [] 0 lf_nil).
Qed.

Lemma append_nonempty boff r : fst (append B H crc boff r) <> [].
Proof using H_is_7 B_big B_small crc_bound.
  unfold append. rewrite append_loop_items. cbn [fst]. unfold append_fuel.
  replace (2 * length r + 3)%nat with (S (2 * length r + 2)) by lia.
  cbn [append_items]. intros E. apply (a4 bytes_of_nil) in E.
  destruct (dropN (w_n B H boff r) r); discriminate.
Qed.

(** ** cut files and the intact flag *)

Lemma lf_torn_shape f recs boff r t : lf f recs boff ->
  (t < length (fst (append B H crc boff r)))%nat ->
  exists its' i1 junk,
    f ++ firstn t (fst (append B H crc boff r)) = bytes_of crc its' ++ junk /\
    layout_ok B H 0 its' /\ eof_at B H crc (size H its') junk /\
    map fst (asm H 0 false [] its') = recs /\
    (t = length (bytes_of crc i1) + length junk)%nat /\
    exists it rr, append_items B H (append_fuel r) boff r true = i1 ++ it :: rr.
Proof using H_is_7 B_big B_small crc_bound.
  intros Hlf Ht.
  destruct (lf_torn_shape_x f recs boff r t Hlf Ht)
    as [its' [i1 [junk [E [Hl [He [Ha [Hd [Hlen Hex]]]]]]]]].
  exists its', i1, junk. auto 10.
Qed.

(** A cut file the reader reports as read entirely consists of whole fragments and does not end
    inside a fragmented record (a cut at a fragment boundary inside the torn record is reported
    as not intact): it is a writer's file again. *)
Lemma lf_torn_intact f recs boff r t : lf f recs boff ->
  (t < length (fst (append B H crc boff r)))%nat ->
  rx_intact (read_all_x B H crc (f ++ firstn t (fst (append B H crc boff r)))) = true ->
  lf (f ++ firstn t (fst (append B H crc boff r))) recs
     (blen (f ++ firstn t (fst (append B H crc boff r))) mod B).
Proof using H_is_7 B_big B_small crc_bound.
  intros Hlf Ht.
  destruct (lf_torn_shape_x f recs boff r t Hlf Ht) as [its' [i1 [junk [E [Hl [He [Ha [Hd _]]]]]]]].
  rewrite E. rewrite (a4 read_all_x_layout) by assumption. cbn [rx_intact]. intros Hi.
  apply andb_prop in Hi. destruct Hi as [Hj Hc].
  assert (Hj' : junk = []) by (apply blen_0_nil; lia). subst junk. rewrite app_nil_r.
  exists its'. split; [reflexivity|]. split; [assumption|].
  split; [rewrite (a4 blen_bytes_of); apply (a3 wst_open)|].
  split; [assumption|]. split; [assumption|].
  destruct (fst (fin false [] its')); [discriminate Hc|reflexivity].
Qed.

Lemma lf_prefix_intact f recs boff n : lf f recs boff ->
  rx_intact (read_all_x B H crc (firstn n f)) = true ->
  exists k, lf (firstn n f) (firstn k recs) (blen (firstn n f) mod B).
Proof using H_is_7 B_big B_small crc_bound.
  intros Hlf.
  destruct (lf_prefix_shape f recs boff n Hlf) as [i1 [junk [E [Hl [He [Ha Hd]]]]]].
  rewrite E, (a4 read_all_x_layout) by assumption. cbn [rx_intact]. intros Hi.
  apply andb_prop in Hi. destruct Hi as [Hj Hc].
  assert (Hj' : junk = []) by (apply blen_0_nil; lia). subst junk. rewrite app_nil_r.
  exists (length (map fst (asm H 0 false [] i1))), i1.
  split; [reflexivity|]. split; [assumption|].
  split; [rewrite (a4 blen_bytes_of); apply (a3 wst_open)|].
  split; [exact Ha|]. split; [exact Hd|].
  destruct (fst (fin false [] i1)); [discriminate Hc|reflexivity].
Qed.

(** a record that fits into the current block is emitted as one fragment without padding *)
Lemma append_items_single boff r : boff + H + blen r <= B ->
  append_items B H (append_fuel r) boff r true
  = [It 0 (frag_type true true) r].
Proof using H_is_7 B_big B_small crc_bound.
  intros Hfit. unfold append_fuel.
  replace (2 * length r + 3)%nat with (S (2 * length r + 2)) by lia.
  cbn [append_items].
  assert (Hn : w_n B H boff r = blen r).
  { unfold w_n, boff_after_pad. destruct (B - boff <? H) eqn:E; lia. }
  assert (Hd : dropN (w_n B H boff r) r = []).
  { rewrite Hn. unfold dropN. rewrite to_nat_blen. apply skipn_all. }
  rewrite Hd. unfold w_item. rewrite Hn, N.eqb_refl, takeN_all. unfold padn.
  destruct (B - boff <? H) eqn:E; [lia|]. reflexivity.
Qed.

Lemma lf_torn_single_fragment f recs boff r t : lf f recs boff ->
  (0 < t < length (fst (append B H crc boff r)))%nat ->
  boff + H + blen r <= B ->
  read_all_x B H crc (f ++ firstn t (fst (append B H crc boff r))) = mkRX recs false 0 false.
Proof using H_is_7 B_big B_small crc_bound.
  intros Hlf [Ht0 Ht] Hfit.
  destruct (lf_torn_shape_x f recs boff r t Hlf Ht)
    as [its' [i1 [junk [E [Hl [He [Ha [Hd [Hlen [it [rr E1]]]]]]]]]]].
  rewrite (append_items_single boff r Hfit) in E1.
  destruct i1 as [|x i1].
  2:{ cbn [app] in E1. injection E1 as _ E1. destruct i1; discriminate. }
  cbn [bytes_of length] in Hlen.
  rewrite E, (a4 read_all_x_layout) by assumption. rewrite Ha, Hd. f_equal.
  destruct (blen junk =? 0) eqn:Ej; [unfold blen in Ej; lia|reflexivity].
Qed.

End LOGFILE.

(** a record of two fragments cut exactly after its First fragment: the cut file consists of whole
    fragments, but it ends inside a fragmented record and the reader does not report it as read
    entirely (appending to it would make the reader drop the First fragment: [rx_skipped = 1]);
    B = 64 for speed *)
Example cut_at_fragment_boundary_not_intact :
  let r1 := repeat 65 80%nat in
  let f := fst (append 64 7 crc32c 0 r1) in
  read_all_x 64 7 crc32c f = mkRX [r1] false 0 true /\
  read_all_x 64 7 crc32c (firstn 64 f) = mkRX [] false 0 false /\
  read_all_x 64 7 crc32c
    (firstn 64 f ++ fst (append 64 7 crc32c (blen (firstn 64 f) mod 64) [1; 2; 3]))
  = mkRX [[1; 2; 3]] false 1 true.
Proof. vm_compute. repeat split; reflexivity. Qed.

(** * Instance at the parameters of the implementation *)

Definition logfile (f : bytes) (recs : list bytes) (boff : N) : Prop :=
  exists its, f = bytes_of crc32c its /\ layout_ok BLOCK_SIZE_BYTES HEADER_LENGTH_BYTES 0 its /\
    wst BLOCK_SIZE_BYTES (size HEADER_LENGTH_BYTES its) boff /\
    map fst (asm HEADER_LENGTH_BYTES 0 false [] its) = recs /\
    drops false its = 0 /\ fst (fin false [] its) = false.

Local Notation inst L :=
  (L BLOCK_SIZE_BYTES HEADER_LENGTH_BYTES crc32c eq_refl eq_refl eq_refl crc32c_bound) (only parsing).

Lemma logfile_nil : logfile [] [] 0.
Proof. exact (inst lf_nil). Qed.

Lemma logfile_append : forall f recs boff r, logfile f recs boff ->
  logfile (f ++ fst (log_append boff r)) (recs ++ [r]) (snd (log_append boff r)).
Proof. exact (inst lf_append). Qed.

Lemma logfile_reopen : forall f recs boff, logfile f recs boff ->
  logfile f recs (blen f mod BLOCK_SIZE_BYTES).
Proof. exact (inst lf_reopen). Qed.

Lemma logfile_read : forall f recs boff, logfile f recs boff ->
  log_read_all_x f = mkRX recs false 0 true.
Proof. exact (inst lf_read). Qed.

Theorem logfile_read_torn : forall f recs boff r t, logfile f recs boff ->
  (t < length (fst (log_append boff r)))%nat ->
  exists i, log_read_all_x (f ++ firstn t (fst (log_append boff r))) = mkRX recs false 0 i.
Proof. exact (inst lf_read_torn). Qed.

Theorem logfile_prefix : forall f recs boff n, logfile f recs boff ->
  exists k i, log_read_all_x (firstn n f) = mkRX (firstn k recs) false 0 i.
Proof. exact (inst lf_prefix). Qed.

Theorem logfile_sessions : forall sessions,
  exists boff, logfile (log_write_sessions [] sessions) (concat sessions) boff.
Proof. exact (inst lf_sessions). Qed.

Lemma log_append_nonempty : forall boff r, fst (log_append boff r) <> [].
Proof. exact (inst append_nonempty). Qed.

Theorem logfile_torn_intact : forall f recs boff r t, logfile f recs boff ->
  (t < length (fst (log_append boff r)))%nat ->
  rx_intact (log_read_all_x (f ++ firstn t (fst (log_append boff r)))) = true ->
  logfile (f ++ firstn t (fst (log_append boff r))) recs
          (blen (f ++ firstn t (fst (log_append boff r))) mod BLOCK_SIZE_BYTES).
Proof. exact (inst lf_torn_intact). Qed.

Theorem logfile_prefix_intact : forall f recs boff n, logfile f recs boff ->
  rx_intact (log_read_all_x (firstn n f)) = true ->
  exists k, logfile (firstn n f) (firstn k recs) (blen (firstn n f) mod BLOCK_SIZE_BYTES).
Proof. exact (inst lf_prefix_intact). Qed.

(** a record that fits into the current block is one fragment: every cut strictly inside it is detected *)
Theorem logfile_torn_single_fragment : forall f recs boff r t, logfile f recs boff ->
  (0 < t < length (fst (log_append boff r)))%nat ->
  boff + HEADER_LENGTH_BYTES + blen r <= BLOCK_SIZE_BYTES ->
  log_read_all_x (f ++ firstn t (fst (log_append boff r))) = mkRX recs false 0 false.
Proof. exact (inst lf_torn_single_fragment). Qed.

Print Assumptions read_all_x_records.
Print Assumptions read_all_x_panic.
Print Assumptions read_all_x_layout.
Print Assumptions logfile_nil.
Print Assumptions logfile_append.
Print Assumptions logfile_reopen.
Print Assumptions logfile_read.
Print Assumptions logfile_read_torn.
Print Assumptions logfile_prefix.
Print Assumptions logfile_sessions.
Print Assumptions log_append_nonempty.
Print Assumptions logfile_torn_intact.
Print Assumptions logfile_prefix_intact.
Print Assumptions logfile_torn_single_fragment.
