(** Crash safety of the persistence protocol model ([model/Proto.v], [model/Recover.v]).
    Built on [ProtoDurable] (what recovery computes), [LogXProofs] (the log reader with
    skipped / intact), [ImgProofs] (CURRENT, sorting, association lists), [ManifestSem] (manifest
    accumulation = applied edits), [ContentsProofs] (recovered contents = replay). No axioms. *)
From Coq Require Import Lia ZArith ZifyN ZifyBool ZifyNat Arith List NArith Bool Permutation Sorted.
From RainVerif Require Import Params.
From RainVerif.model Require Import Bytes Key Block Crc Log Table TableSpec Version Lsm DbSpec Codec WalModel Gc Recover Proto.
From RainVerif.proofs Require Import LogXProofs ImgProofs ManifestSem ContentsProofs ProtoDurable.
From RainVerif.proofs Require CodecProofs WalProofs GetProofs KeyProofs.
Import ListNotations.
Open Scope N_scope.
Arguments N.add : simpl never.
Arguments N.sub : simpl never.
Arguments N.mul : simpl never.
Arguments N.div : simpl never.
Arguments N.modulo : simpl never.
Arguments N.eqb : simpl never.
Arguments N.ltb : simpl never.
Arguments N.leb : simpl never.
Arguments N.min : simpl never.
Arguments N.max : simpl never.
Arguments N.pow : simpl never.
Arguments N.of_nat : simpl never.
Arguments N.to_nat : simpl never.

(** * Small helpers *)

Definition set_logs (dv : dview) (logs : list (N * list batch)) : dview :=
  mkDV (dv_man dv) (dv_changes dv) (dv_ver dv) (dv_wal dv) (dv_next dv) (dv_seq dv) logs.

Lemma log_batches_app a b : log_batches (a ++ b) = log_batches a ++ log_batches b.
Proof. unfold log_batches. apply flat_map_app. Qed.

Lemma log_batches_single n bs : log_batches [(n, bs)] = bs.
Proof. unfold log_batches. cbn [flat_map snd]. apply app_nil_r. Qed.

Lemma Rec_wals img img' dv logs' bsF Q :
  Rec img dv bsF Q ->
  i_current img' = i_current img -> i_manifests img' = i_manifests img -> i_tables img' = i_tables img ->
  DWal (i_wals img') (dv_wal dv) logs' ->
  batches_chained 0 (bsF ++ log_batches logs') = true ->
  nops (bsF ++ log_batches (dv_logs dv)) <= nops (bsF ++ log_batches logs') ->
  Rec img' (set_logs dv logs') bsF Q.
Proof.
  intros [D Ht Hch HQ Hs] Ec Em Et Hw Hch' Hn.
  destruct D as (Dc & Dm & Ds & Dt & _).
  constructor; cbn [set_logs dv_man dv_changes dv_ver dv_wal dv_next dv_seq dv_logs].
  - unfold Durable. cbn [set_logs dv_man dv_changes dv_ver dv_wal dv_next dv_seq dv_logs].
    rewrite Ec, Em, Et. exact (conj Dc (conj Dm (conj Ds (conj Dt Hw)))).
  - rewrite (tab_entries_ext img img'); [exact Ht|]. intros n _. rewrite Et. reflexivity.
  - exact Hch'.
  - lia.
  - lia.
Qed.

(** the image after an operation on the logs only *)
Lemma apply_wal_create img n :
  apply_fsop img (FsCreate (FWal n))
  = mkImg (i_current img) (i_manifests img) (set_assoc n [] (i_wals img)) (i_tables img) (i_temps img).
Proof. reflexivity. Qed.

Lemma apply_wal_append img n d :
  apply_fsop img (FsAppend (FWal n) d)
  = mkImg (i_current img) (i_manifests img) (app_assoc n d (i_wals img)) (i_tables img) (i_temps img).
Proof. reflexivity. Qed.

Definition ptr_ok (p : N * ikey) : Prop := fst p < MAX_NUM_LEVELS /\ CodecProofs.key_ok (snd p) = true.

(** * The invariant of an open database between two operations *)
Record Inv (d : pdb) (dv : dview) (bsF : list batch) (Q : N)
           (older : list (N * list batch)) (bsM : list batch) : Prop := mkInv {
  iv_rec : Rec (pd_img d) dv bsF Q;
  iv_ver : pd_ver d = dv_ver dv;
  iv_man : pd_manifest d = dv_man dv;
  iv_open : pd_manifest_open d = true;
  iv_vswal : pd_vs_wal d = dv_wal dv;
  iv_prev : pd_prev_wal d = None /\ ma_prev_wal (man_acc (dv_changes dv)) = None;
  iv_next : dv_next dv <= pd_next d /\ dv_man dv <= dv_next dv /\ dv_wal dv <= dv_next dv;
  iv_walnames : forall n, In n (map fst (i_wals (pd_img d))) -> n <= pd_next d;
  iv_manfile : exists file, lookupN (dv_man dv) (i_manifests (pd_img d)) = Some file /\
                            logfile file (map vchange_encode (dv_changes dv)) (pd_manifest_boff d);
  iv_logs : dv_logs dv = older ++ [(pd_wal d, bsM)];
  iv_logfiles : Forall (fun nb => exists f boff, lookupN (fst nb) (i_wals (pd_img d)) = Some f /\
                                                logfile f (map batch_bytes (snd nb)) boff) older;
  iv_walfile : exists f, lookupN (pd_wal d) (i_wals (pd_img d)) = Some f /\
                         logfile f (map batch_bytes bsM) (pd_wal_boff d);
  iv_mem : forall e, In e (pd_mem d) <-> In e (all_entries_of bsM);
  iv_imm : match pd_imm d with
           | None => log_batches older = []
           | Some es => forall e, In e es <-> In e (all_entries_of (log_batches older))
           end;
  iv_seq : pd_seq d = nops (bsF ++ log_batches (dv_logs dv));
  iv_hist : NoDup (lvl_nums (ma_added (man_acc (dv_changes dv)))) /\
            forall l f, In (l, f) (ma_added (man_acc (dv_changes dv))) ->
              fm_num f <= dv_next dv /\ CodecProofs.fmeta_ok f = true /\ (l < NLEVELS)%nat;
  iv_ptr : Forall ptr_ok (pd_pointers d) /\ Forall ptr_ok (ma_pointers (man_acc (dv_changes dv)));
  iv_bounds : pd_next d < two64 /\ pd_seq d < two64
}.

Definition acked_of (dv : dview) (bsF : list batch) : list batch := bsF ++ log_batches (dv_logs dv).

(** * Writing a batch *)
Section WRITE.
Variables (d : pdb) (dv : dview) (bsF : list batch) (Q : N) (older : list (N * list batch)) (bsM : list batch).
Hypothesis I : Inv d dv bsF Q older bsM.
Variable b : list wop.
Let batch : batch := (pd_seq d + 1, b).
Hypothesis Hbok : bok batch.

Let recd := log_append (pd_wal_boff d) (batch_bytes batch).
Let dv' := set_logs dv (older ++ [(pd_wal d, bsM ++ [batch])]).

Lemma write_chain : batches_chained 0 (bsF ++ log_batches (older ++ [(pd_wal d, bsM ++ [batch])])) = true.
Proof.
  pose proof (rec_chain _ _ _ _ (iv_rec _ _ _ _ _ _ I)) as Hch.
  rewrite (iv_logs _ _ _ _ _ _ I) in Hch.
  rewrite !log_batches_app, !log_batches_single in *.
  replace (bsF ++ log_batches older ++ bsM ++ [batch]) with ((bsF ++ log_batches older ++ bsM) ++ [batch])
    by (rewrite <- !List.app_assoc; reflexivity).
  rewrite chained_app. rewrite Hch. cbn [andb].
  cbn [batches_chained]. rewrite andb_true_r. apply N.eqb_eq.
  subst batch. cbn [fst]. rewrite (iv_seq _ _ _ _ _ _ I), (iv_logs _ _ _ _ _ _ I).
  rewrite !log_batches_app, !log_batches_single. rewrite N.add_0_l. reflexivity.
Qed.

Lemma write_dwal t :
  DWal (app_assoc (pd_wal d) (firstn t (fst recd)) (i_wals (pd_img d))) (dv_wal dv)
       (older ++ [(pd_wal d, if (length (fst recd) <=? t)%nat then bsM ++ [batch] else bsM)]).
Proof.
  pose proof (iv_rec _ _ _ _ _ _ I) as R. destruct R as [D _ _ _ _].
  destruct D as (_ & _ & _ & _ & Dw). rewrite (iv_logs _ _ _ _ _ _ I) in Dw.
  destruct (iv_walfile _ _ _ _ _ _ I) as (f & Hl & Hlf).
  apply (DWal_append _ _ older (pd_wal d) bsM []); [exact Dw| |].
  - intros f' Hl'. rewrite Hl in Hl'. injection Hl' as <-.
    destruct (length (fst recd) <=? t)%nat eqn:E.
    + apply Nat.leb_le in E. rewrite firstn_all2 by exact E.
      exists true. rewrite map_app. cbn [map].
      apply (logfile_read _ _ (snd recd)). apply logfile_append. exact Hlf.
    + apply Nat.leb_gt in E. apply (logfile_read_torn _ _ _ _ _ Hlf E).
  - destruct Dw as (_ & _ & Hf). apply Forall_app in Hf. destruct Hf as [_ Hf].
    apply Forall_inv in Hf. destruct Hf as (_ & _ & _ & _ & Hok). cbn [snd] in Hok.
    destruct (length (fst recd) <=? t)%nat; [|exact Hok].
    apply Forall_app. split; [exact Hok|]. constructor; [exact Hbok|constructor].
Qed.

Lemma write_rec_torn t :
  Rec (apply_fsop (pd_img d) (FsAppend (FWal (pd_wal d)) (firstn t (fst recd))))
      (if (length (fst recd) <=? t)%nat then dv' else dv) bsF Q.
Proof.
  pose proof (iv_rec _ _ _ _ _ _ I) as R. pose proof (write_dwal t) as Hw.
  rewrite apply_wal_append.
  destruct (length (fst recd) <=? t)%nat eqn:E.
  - apply (Rec_wals (pd_img d) (mkImg (i_current (pd_img d)) (i_manifests (pd_img d)) (app_assoc (pd_wal d) (firstn t (fst recd)) (i_wals (pd_img d))) (i_tables (pd_img d)) (i_temps (pd_img d))) dv _ bsF Q R eq_refl eq_refl eq_refl Hw).
    + apply write_chain.
    + rewrite (iv_logs _ _ _ _ _ _ I). rewrite !nops_app, !log_batches_app, !log_batches_single, !nops_app. lia.
  - assert (Edv : set_logs dv (older ++ [(pd_wal d, bsM)]) = dv).
    { rewrite <- (iv_logs _ _ _ _ _ _ I). destruct dv; reflexivity. }
    rewrite <- Edv at 1.
    apply (Rec_wals (pd_img d) (mkImg (i_current (pd_img d)) (i_manifests (pd_img d)) (app_assoc (pd_wal d) (firstn t (fst recd)) (i_wals (pd_img d))) (i_tables (pd_img d)) (i_temps (pd_img d))) dv _ bsF Q R eq_refl eq_refl eq_refl Hw).
    + rewrite <- (iv_logs _ _ _ _ _ _ I). apply (rec_chain _ _ _ _ R).
    + rewrite <- (iv_logs _ _ _ _ _ _ I). lia.
Qed.

Lemma write_img : pd_img (fst (p_write d b)) = apply_fsop (pd_img d) (FsAppend (FWal (pd_wal d)) (fst recd)).
Proof. reflexivity. Qed.

Lemma write_ops : snd (p_write d b) = [FsAppend (FWal (pd_wal d)) (fst recd)].
Proof. reflexivity. Qed.

Lemma write_inv : pd_seq d + N.of_nat (length b) < two64 ->
  Inv (fst (p_write d b)) dv' bsF Q older (bsM ++ [batch]).
Proof.
  intros Hlt. pose proof (write_rec_torn (length (fst recd))) as R. rewrite Nat.leb_refl in R.
  rewrite firstn_all in R.
  destruct I as [R0 Hv Hm Ho Hvw Hp Hn Hwn Hmf Hlg Hlfs Hwf Hmem Himm Hseq Hh Hptr Hb].
  assert (Eimg : pd_img (fst (p_write d b))
                 = mkImg (i_current (pd_img d)) (i_manifests (pd_img d))
                         (app_assoc (pd_wal d) (fst recd) (i_wals (pd_img d)))
                         (i_tables (pd_img d)) (i_temps (pd_img d))) by reflexivity.
  refine (mkInv (fst (p_write d b)) dv' bsF Q older (bsM ++ [batch]) R Hv Hm Ho Hvw Hp Hn _ _ eq_refl _ _ _ Himm _ Hh Hptr (conj (proj1 Hb) Hlt));
    change (pd_wal (fst (p_write d b))) with (pd_wal d);
    change (pd_manifest_boff (fst (p_write d b))) with (pd_manifest_boff d);
    change (pd_wal_boff (fst (p_write d b))) with (snd recd);
    change (pd_seq (fst (p_write d b))) with (pd_seq d + N.of_nat (length b));
    change (pd_mem (fst (p_write d b)))
      with (fold_left (fun m e => insert_entry e m) (batch_entries batch) (pd_mem d)).
  - intros n Hin. rewrite Eimg in Hin. cbn [i_wals] in Hin. rewrite map_fst_app_assoc in Hin. apply Hwn. exact Hin.
  - rewrite Eimg. cbn [i_manifests]. exact Hmf.
  - rewrite Eimg. cbn [i_wals]. rewrite Forall_forall in *. intros nb Hnb.
    destruct (Hlfs nb Hnb) as (f & bo & Hl & Hlf). exists f, bo. split; [|exact Hlf].
    rewrite lookupN_app_assoc. destruct (fst nb =? pd_wal d) eqn:E; [|exact Hl].
    apply N.eqb_eq in E. exfalso.
    pose proof (DWal_nodup _ _ _ (proj2 (proj2 (proj2 (proj2 (rec_dur _ _ _ _ R0)))))) as Hnd.
    rewrite Hlg, map_app in Hnd. cbn [map fst] in Hnd.
    apply NoDup_remove_2 in Hnd. apply Hnd. rewrite app_nil_r. rewrite <- E. apply in_map. exact Hnb.
  - rewrite Eimg. cbn [i_wals]. destruct Hwf as (f & Hl & Hlf). exists (f ++ fst recd).
    split; [rewrite lookupN_app_assoc, N.eqb_refl, Hl; reflexivity|].
    rewrite map_app. cbn [map]. apply logfile_append. exact Hlf.
  - intros e. rewrite insert_entries_in, Hmem, all_entries_app, in_app_iff.
    unfold all_entries_of at 3. cbn [flat_map]. rewrite app_nil_r. tauto.
  - unfold dv'. cbn [set_logs dv_logs]. rewrite Hseq, Hlg.
    rewrite !log_batches_app, !log_batches_single, !nops_app.
    assert (E1 : nops [batch] = N.of_nat (length b)) by (rewrite nops_cons, nops_nil; cbn [snd batch]; lia).
    rewrite E1. lia.
Qed.
End WRITE.

(** * Rotating the log *)
Section ROTATE.
Variables (d : pdb) (dv : dview) (bsF : list batch) (Q : N) (older : list (N * list batch)) (bsM : list batch).
Hypothesis I : Inv d dv bsF Q older bsM.
Hypothesis Himm : pd_imm d = None.
Hypothesis Hnx : pd_next d + 1 < two64.
Let n := pd_next d + 1.
Let dv' := set_logs dv (dv_logs dv ++ [(n, [])]).

Lemma rotate_eq :
  p_rotate d =
  (mkPD (apply_fsop (pd_img d) (FsCreate (FWal n))) (pd_ver d) (pd_pointers d) n (pd_manifest d)
        (pd_manifest_open d) (pd_manifest_boff d) (pd_vs_wal d) (pd_prev_wal d) n 0 (pd_seq d)
        [] (Some (pd_mem d)),
   [FsCreate (FWal n)]).
Proof. unfold p_rotate. rewrite Himm. reflexivity. Qed.

Lemma rotate_fresh : ~ In n (map fst (i_wals (pd_img d))).
Proof. intros H. apply (iv_walnames _ _ _ _ _ _ I) in H. unfold n in H. lia. Qed.

Lemma rotate_rec : Rec (apply_fsop (pd_img d) (FsCreate (FWal n))) dv' bsF Q.
Proof.
  pose proof (iv_rec _ _ _ _ _ _ I) as R. rewrite apply_wal_create.
  assert (Hw : DWal (set_assoc n [] (i_wals (pd_img d))) (dv_wal dv) (dv_logs dv ++ [(n, [])])).
  { destruct R as [D _ _ _ _]. destruct D as (_ & _ & _ & _ & Dw).
    apply DWal_create; [exact Dw|apply rotate_fresh| |].
    - intros m Hm. apply (iv_walnames _ _ _ _ _ _ I) in Hm. unfold n. lia.
    - pose proof (iv_next _ _ _ _ _ _ I). unfold n. lia. }
  apply (Rec_wals (pd_img d) (mkImg (i_current (pd_img d)) (i_manifests (pd_img d))
                                    (set_assoc n [] (i_wals (pd_img d))) (i_tables (pd_img d))
                                    (i_temps (pd_img d))) dv _ bsF Q R eq_refl eq_refl eq_refl Hw).
  - rewrite log_batches_app, log_batches_single, app_nil_r. apply (rec_chain _ _ _ _ R).
  - rewrite log_batches_app, log_batches_single, app_nil_r. lia.
Qed.

Lemma rotate_inv : Inv (fst (p_rotate d)) dv' bsF Q (older ++ [(pd_wal d, bsM)]) [].
Proof.
  rewrite rotate_eq. cbn [fst]. pose proof rotate_rec as R. pose proof rotate_fresh as Hfresh.
  destruct I as [R0 Hv Hm Ho Hvw Hp Hn Hwn Hmf Hlg Hlfs Hwf Hmem Himm' Hseq Hh Hptr Hb].
  set (d' := mkPD _ _ _ _ _ _ _ _ _ _ _ _ _ _).
  assert (Eimg : pd_img d' = mkImg (i_current (pd_img d)) (i_manifests (pd_img d))
                                   (set_assoc n [] (i_wals (pd_img d))) (i_tables (pd_img d))
                                   (i_temps (pd_img d))) by reflexivity.
  assert (Keep : forall m, In m (map fst (i_wals (pd_img d))) ->
                           lookupN m (i_wals (pd_img d')) = lookupN m (i_wals (pd_img d))).
  { intros m Hm'. rewrite Eimg. cbn [i_wals]. rewrite lookupN_set_assoc.
    destruct (m =? n) eqn:E; [|reflexivity]. apply N.eqb_eq in E. subst m. contradiction. }
  refine (mkInv d' dv' bsF Q (older ++ [(pd_wal d, bsM)]) [] R Hv Hm Ho Hvw Hp _ _ _ _ _ _ _ _ _ Hh Hptr _).
  - subst d'. cbn [pd_next]. unfold dv'. cbn [set_logs dv_next dv_man dv_wal]. unfold n. lia.
  - intros m Hm'. rewrite Eimg in Hm'. cbn [i_wals] in Hm'. apply map_fst_set_assoc_in in Hm'.
    subst d'. cbn [pd_next]. destruct Hm' as [->|Hm']; [lia|]. apply Hwn in Hm'. unfold n. lia.
  - rewrite Eimg. cbn [i_manifests]. exact Hmf.
  - unfold dv'. cbn [set_logs dv_logs]. rewrite Hlg. reflexivity.
  - apply Forall_app. split.
    + rewrite Forall_forall in *. intros nb Hnb. destruct (Hlfs nb Hnb) as (f & bo & Hl & Hlf).
      exists f, bo. split; [|exact Hlf]. rewrite Keep; [exact Hl|]. apply lookupN_in. rewrite Hl. discriminate.
    + constructor; [|constructor]. destruct Hwf as (f & Hl & Hlf). exists f, (pd_wal_boff d).
      cbn [fst snd]. split; [|exact Hlf]. rewrite Keep; [exact Hl|]. apply lookupN_in. rewrite Hl. discriminate.
  - exists []. split; [|apply logfile_nil]. rewrite Eimg. cbn [i_wals pd_wal d'].
    rewrite lookupN_set_assoc, N.eqb_refl. reflexivity.
  - intros e. subst d'. cbn [pd_mem all_entries_of flat_map]. tauto.
  - subst d'. cbn [pd_imm]. intros e. rewrite Himm in Himm'.
    rewrite log_batches_app, log_batches_single, Himm'. cbn [app]. apply Hmem.
  - subst d'. cbn [pd_seq]. unfold dv'. cbn [set_logs dv_logs].
    rewrite log_batches_app, log_batches_single, app_nil_r. exact Hseq.
  - subst d'. cbn [pd_next pd_seq]. split; [exact Hnx|apply Hb].
Qed.
End ROTATE.

(** * Generic lemmas for commits and invisible operations *)

Lemma Rec_manifests img img' dv bsF Q :
  Rec img dv bsF Q ->
  i_current img' = i_current img -> i_wals img' = i_wals img -> i_tables img' = i_tables img ->
  DMan (i_manifests img') (dv_man dv) (dv_changes dv) ->
  Rec img' dv bsF Q.
Proof.
  intros [D Ht Hch HQ Hs] Ec Ew Et Hm. destruct D as (Dc & _ & Ds & Dt & Dw).
  constructor; try assumption.
  - unfold Durable. rewrite Ec, Ew, Et. exact (conj Dc (conj Hm (conj Ds (conj Dt Dw)))).
  - rewrite (tab_entries_ext img img'); [exact Ht|]. intros n _. rewrite Et. reflexivity.
Qed.

Lemma Rec_commit img img' dv bsF Q man' cs' v' wal' next' seq' moved Q' :
  Rec img dv bsF Q ->
  i_tables img' = i_tables img -> i_wals img' = i_wals img ->
  DCur (i_current img') man' -> DMan (i_manifests img') man' cs' -> DSem cs' v' wal' next' seq' ->
  DTab (i_tables img) v' ->
  dv_wal dv <= wal' ->
  log_batches (dv_logs dv) = moved ++ log_batches (filter (fun nb => wal' <=? fst nb) (dv_logs dv)) ->
  tables_ok (tab_entries img v') (bsF ++ moved) Q' ->
  Q' <= nops (bsF ++ log_batches (dv_logs dv)) ->
  nops (bsF ++ moved) <= seq' -> seq' <= nops (bsF ++ log_batches (dv_logs dv)) ->
  Rec img' (mkDV man' cs' v' wal' next' seq' (filter (fun nb => wal' <=? fst nb) (dv_logs dv)))
      (bsF ++ moved) Q'.
Proof.
  intros [D Ht Hch HQ Hs] Et Ew Hc Hm Hsem Htab Hwal Hsplit Htok HQ' Hs1 Hs2.
  destruct D as (_ & _ & _ & _ & Dw).
  assert (E : (bsF ++ moved) ++ log_batches (filter (fun nb => wal' <=? fst nb) (dv_logs dv))
              = bsF ++ log_batches (dv_logs dv)).
  { rewrite Hsplit, <- List.app_assoc. reflexivity. }
  constructor; cbn [dv_man dv_changes dv_ver dv_wal dv_next dv_seq dv_logs].
  - unfold Durable. cbn [dv_man dv_changes dv_ver dv_wal dv_next dv_seq dv_logs].
    rewrite Et, Ew. refine (conj Hc (conj Hm (conj Hsem (conj Htab _)))).
    apply (DWal_raise _ (dv_wal dv)); assumption.
  - rewrite (tab_entries_ext img img'); [exact Htok|]. intros n _. rewrite Et. reflexivity.
  - rewrite E. exact Hch.
  - rewrite E. exact HQ'.
  - rewrite E. split; assumption.
Qed.

Lemma existsb_eqb_false n l : existsb (N.eqb n) l = false -> ~ In n l.
Proof.
  intros H Hin. assert (existsb (N.eqb n) l = true); [|congruence].
  apply existsb_exists. exists n. split; [exact Hin|apply N.eqb_refl].
Qed.

(** M6 (garbage collection safety): everything [do_gc] removes is invisible to recovery *)
Lemma gc_invisible d dv :
  pd_ver d = dv_ver dv -> pd_vs_wal d = dv_wal dv -> pd_prev_wal d = None -> pd_manifest d = dv_man dv ->
  Forall (invisible dv) (gc_ops d).
Proof.
  intros Hv Hw Hp Hm. unfold gc_ops. apply Forall_forall. intros o Ho.
  apply in_map_iff in Ho. destruct Ho as (f & <- & Hf). apply filter_In in Hf. destruct Hf as [Hf Hk].
  apply negb_true_iff in Hk. unfold image_files in Hf. rewrite !in_app_iff, !in_map_iff in Hf.
  destruct Hf as [(p & <- & _)|[(p & <- & _)|[(p & <- & _)|(p & <- & _)]]];
    cbn [keep gc_view_of g_wal g_prev_wal g_manifest g_inuse g_live app] in Hk; cbn [invisible].
  - rewrite Hp, Hw, orb_false_r in Hk. apply N.leb_gt in Hk. exact Hk.
  - rewrite Hv in Hk. apply existsb_eqb_false in Hk. exact Hk.
  - rewrite Hm in Hk. apply N.leb_gt in Hk. lia.
  - exact I.
Qed.

Lemma Inv_invisible_op d dv bsF Q older bsM o :
  Inv d dv bsF Q older bsM -> invisible dv o ->
  Inv (with_img d (apply_fsop (pd_img d) o)) dv bsF Q older bsM.
Proof.
  intros [R0 Hv Hm Ho Hvw Hp Hn Hwn Hmf Hlg Hlfs Hwf Hmem Himm Hseq Hh Hptr Hb] Hi.
  pose proof (proj2 (proj2 (proj2 (proj2 (rec_dur _ _ _ _ R0))))) as Dw.
  assert (Keep : forall nb, In nb (dv_logs dv) ->
            lookupN (fst nb) (i_wals (apply_fsop (pd_img d) o)) = lookupN (fst nb) (i_wals (pd_img d))).
  { intros nb Hnb. apply (invisible_lookup_wal _ dv); [exact Hi|].
    assert (Hin : In (fst nb) (map fst (dv_logs dv))) by (apply in_map; exact Hnb).
    apply (DWal_names _ _ _ _ Dw) in Hin. tauto. }
  refine (mkInv (with_img d (apply_fsop (pd_img d) o)) dv bsF Q older bsM
                _ Hv Hm Ho Hvw Hp Hn _ _ Hlg _ _ Hmem Himm Hseq Hh Hptr Hb);
    cbn [with_img pd_img pd_next pd_wal pd_manifest_boff pd_wal_boff].
  - apply Rec_invisible; assumption.
  - intros n Hin. apply Hwn. apply (invisible_walnames _ dv o); assumption.
  - rewrite (invisible_lookup_man _ dv o Hi). exact Hmf.
  - rewrite Forall_forall in *. intros nb Hnb. destruct (Hlfs nb Hnb) as (f & bo & Hl & Hlf).
    exists f, bo. split; [|exact Hlf]. rewrite Keep; [exact Hl|]. rewrite Hlg. apply in_or_app. left. exact Hnb.
  - destruct Hwf as (f & Hl & Hlf). exists f. split; [|exact Hlf].
    pose proof (Keep (pd_wal d, bsM)) as K. cbn [fst] in K. rewrite K; [exact Hl|].
    rewrite Hlg. apply in_or_app. right. left. reflexivity.
Qed.

Lemma Inv_invisible_ops ops : forall d dv bsF Q older bsM,
  Inv d dv bsF Q older bsM -> Forall (invisible dv) ops ->
  Inv (with_img d (apply_fsops (pd_img d) ops)) dv bsF Q older bsM.
Proof.
  induction ops as [|o ops IH]; intros d dv bsF Q older bsM I H.
  - cbn [apply_fsops fold_left]. destruct d; exact I.
  - pose proof (Forall_inv H) as Ho. apply Forall_inv_tail in H.
    pose proof (IH _ _ _ _ _ _ (Inv_invisible_op _ _ _ _ _ _ o I Ho) H) as X. exact X.
Qed.

Lemma vok_flush w nx q added :
  w < two64 -> nx < two64 -> q < two64 ->
  Forall (fun n => fst n < MAX_NUM_LEVELS /\ CodecProofs.fmeta_ok (snd n) = true) added ->
  vok (mkVC (Some w) None (Some nx) (Some q) [] [] added).
Proof.
  unfold two64. intros Hw Hn Hq Ha. unfold vok, CodecProofs.vchange_ok.
  cbn [vc_wal vc_prev_wal vc_curr_file vc_prev_seq vc_pointers vc_deleted vc_new CodecProofs.opt_ok
       forallb CodecProofs.nodupb andb].
  apply N.ltb_lt in Hw, Hn, Hq. rewrite Hw, Hn, Hq. cbn [andb].
  apply forallb_forall. intros x Hx. rewrite Forall_forall in Ha. destruct (Ha x Hx) as [H1 H2].
  apply N.ltb_lt in H1. rewrite H1, H2. reflexivity.
Qed.

Lemma table_meta_some num size es :
  es <> [] -> exists e1 e2, In e1 es /\ In e2 es /\ table_meta num size es = Some (mkFM num size (fst e1) (fst e2)).
Proof.
  intros Hne. destruct es as [|e0 r]; [congruence|]. unfold table_meta, first_key, last_key.
  destruct (rev (e0 :: r)) as [|e2 r2] eqn:E.
  - apply (f_equal (@length entry)) in E. rewrite rev_length in E. discriminate.
  - exists e0, e2. split; [left; reflexivity|]. split; [|reflexivity].
    apply in_rev. rewrite E. left. reflexivity.
Qed.

Lemma table_meta_nil num size : table_meta num size [] = None.
Proof. reflexivity. Qed.

Lemma table_ops_tables img num es n :
  lookupN n (i_tables (apply_fsops img (table_ops num es)))
  = match es with
    | [] => lookupN n (i_tables img)
    | _ => if n =? num then Some (Some es) else lookupN n (i_tables img)
    end.
Proof.
  destruct es as [|e r]; [reflexivity|].
  cbn [table_ops apply_fsops fold_left apply_fsop i_tables].
  rewrite !lookupN_set_assoc. destruct (n =? num); reflexivity.
Qed.

Lemma table_ops_other img num es :
  i_current (apply_fsops img (table_ops num es)) = i_current img /\
  i_manifests (apply_fsops img (table_ops num es)) = i_manifests img /\
  i_wals (apply_fsops img (table_ops num es)) = i_wals img.
Proof. destruct es; repeat split; reflexivity. Qed.

Lemma table_ops_invisible dv num es :
  ~ In num (version_numbers (dv_ver dv)) -> Forall (invisible dv) (table_ops num es).
Proof.
  intros H. destruct es; cbn [table_ops]; [constructor|].
  constructor; [exact H|]. constructor; [exact H|constructor].
Qed.

Lemma in_tab_entries img ver e :
  In e (tab_entries img ver) <->
  exists n es, In n (version_numbers ver) /\ lookupN n (i_tables img) = Some (Some es) /\ In e es.
Proof.
  unfold tab_entries. rewrite in_flat_map. split.
  - intros (n & Hn & He). unfold table_entries_of in He.
    destruct (lookupN n (i_tables img)) as [[es|]|] eqn:E; try destruct He. exists n, es. auto.
  - intros (n & es & Hn & Hl & He). exists n. split; [exact Hn|]. unfold table_entries_of. rewrite Hl. exact He.
Qed.


(** * Crash images keep the structure needed to recover again (M7) *)

(** a log file that may end in a torn record: it reads as [recs], and if the reader reports it intact it is a
    well formed log (so that it may be appended to) *)
Definition tlog (file : bytes) (recs : list bytes) : Prop :=
  exists i, log_read_all_x file = mkRX recs false 0 i /\ (i = true -> exists boff, logfile file recs boff).

Lemma tlog_logfile f recs boff : logfile f recs boff -> tlog f recs.
Proof. intros H. exists true. split; [apply (logfile_read _ _ _ H)|]. intros _. exists boff. exact H. Qed.

Lemma tlog_torn f recs boff r t :
  logfile f recs boff -> (t < length (fst (log_append boff r)))%nat ->
  tlog (f ++ firstn t (fst (log_append boff r))) recs.
Proof.
  intros H Ht. destruct (logfile_read_torn _ _ _ r t H Ht) as [i Hr]. exists i. split; [exact Hr|].
  intros ->. eexists. apply (logfile_torn_intact _ _ _ _ _ H Ht). rewrite Hr. reflexivity.
Qed.

(** a directory from which recovery succeeds and re-establishes the invariant: the state of a clean shutdown
    or of a crash *)
Record CS (img : image) (dv : dview) (bsF : list batch) (Q : N) : Prop := mkCS {
  cs_rec : Rec img dv bsF Q;
  cs_manfile : exists file, lookupN (dv_man dv) (i_manifests img) = Some file /\
                            tlog file (map vchange_encode (dv_changes dv));
  cs_logfiles : Forall (fun nb => exists f, lookupN (fst nb) (i_wals img) = Some f /\
                                           tlog f (map batch_bytes (snd nb))) (dv_logs dv);
  cs_prev : ma_prev_wal (man_acc (dv_changes dv)) = None;
  cs_next : dv_man dv <= dv_next dv /\ dv_wal dv <= dv_next dv;
  cs_hist : NoDup (lvl_nums (ma_added (man_acc (dv_changes dv)))) /\
            forall l f, In (l, f) (ma_added (man_acc (dv_changes dv))) ->
              fm_num f <= dv_next dv /\ CodecProofs.fmeta_ok f = true /\ (l < NLEVELS)%nat;
  cs_ptr : Forall ptr_ok (ma_pointers (man_acc (dv_changes dv)));
  cs_seq : nops (bsF ++ log_batches (dv_logs dv)) < two64
}.

Definition CSE (img : image) (bs : list batch) : Prop :=
  exists dv bsF Q, CS img dv bsF Q /\ bs = bsF ++ log_batches (dv_logs dv).

Lemma CSE_good img bs : CSE img bs -> Good img bs.
Proof. intros (dv & bsF & Q & C & ->). apply (Rec_good _ _ _ _ (cs_rec _ _ _ _ C)). Qed.

Lemma Inv_CS d dv bsF Q older bsM : Inv d dv bsF Q older bsM -> CS (pd_img d) dv bsF Q.
Proof.
  intros [R0 Hv Hm Ho Hvw Hp Hn Hwn Hmf Hlg Hlfs Hwf Hmem Himm Hseq Hh Hptr Hb].
  constructor; try assumption.
  - destruct Hmf as (file & Hl & Hlf). exists file. split; [exact Hl|apply (tlog_logfile _ _ _ Hlf)].
  - rewrite Hlg. apply Forall_app. split.
    + eapply Forall_impl; [|exact Hlfs]. intros nb (f & bo & Hl & Hlf). exists f. split; [exact Hl|apply (tlog_logfile _ _ _ Hlf)].
    + constructor; [|constructor]. destruct Hwf as (f & Hl & Hlf). exists f. split; [exact Hl|apply (tlog_logfile _ _ _ Hlf)].
  - apply Hp.
  - tauto.
  - apply Hptr.
  - rewrite <- Hseq. apply Hb.
Qed.

Lemma InvE_CSE d acked : (exists dv bsF Q older bsM, Inv d dv bsF Q older bsM /\ acked = bsF ++ log_batches (dv_logs dv)) ->
  CSE (pd_img d) acked.
Proof. intros (dv & bsF & Q & older & bsM & I & ->). exists dv, bsF, Q. split; [apply (Inv_CS _ _ _ _ _ _ I)|reflexivity]. Qed.

Lemma CS_invisible_op img dv bsF Q o : CS img dv bsF Q -> invisible dv o -> CS (apply_fsop img o) dv bsF Q.
Proof.
  intros [R Hmf Hlf Hp Hn Hh Hptr Hs] Hi.
  pose proof (proj2 (proj2 (proj2 (proj2 (rec_dur _ _ _ _ R))))) as Dw.
  constructor; try assumption.
  - apply Rec_invisible; assumption.
  - rewrite (invisible_lookup_man _ dv o Hi). exact Hmf.
  - rewrite Forall_forall in *. intros nb Hnb. destruct (Hlf nb Hnb) as (f & Hl & Ht). exists f. split; [|exact Ht].
    rewrite (invisible_lookup_wal _ dv o (fst nb) Hi); [exact Hl|].
    assert (Hin : In (fst nb) (map fst (dv_logs dv))) by (apply in_map; exact Hnb).
    apply (DWal_names _ _ _ _ Dw) in Hin. tauto.
Qed.

Lemma CS_invisible_ops ops : forall img dv bsF Q,
  CS img dv bsF Q -> Forall (invisible dv) ops -> CS (apply_fsops img ops) dv bsF Q.
Proof.
  induction ops as [|o ops IH]; intros img dv bsF Q C H; [exact C|].
  cbn [apply_fsops fold_left]. apply IH; [apply CS_invisible_op; [exact C|exact (Forall_inv H)]|exact (Forall_inv_tail H)].
Qed.

Lemma all_crash_invisible_cs img dv bsF Q ops :
  CS img dv bsF Q -> Forall (invisible dv) ops ->
  all_crash (fun i => CSE i (bsF ++ log_batches (dv_logs dv))) img ops.
Proof.
  intros C H. revert img C. induction H as [|o ops Ho _ IH]; intros img C.
  - apply all_crash_nil. exists dv, bsF, Q. auto.
  - apply all_crash_cons.
    + exists dv, bsF, Q. auto.
    + intros k. exists dv, bsF, Q. split; [|reflexivity]. apply CS_invisible_ops; [exact C|apply invisible_torn; exact Ho].
    + apply IH. apply CS_invisible_op; assumption.
Qed.

(** a torn record at the end of the current manifest *)
Lemma CS_torn_manifest img dv bsF Q f boff r t :
  CS img dv bsF Q ->
  lookupN (dv_man dv) (i_manifests img) = Some f ->
  logfile f (map vchange_encode (dv_changes dv)) boff ->
  (t < length (fst (log_append boff r)))%nat ->
  CS (apply_fsop img (FsAppend (FManifest (dv_man dv)) (firstn t (fst (log_append boff r))))) dv bsF Q.
Proof.
  intros [R Hmf Hlf Hp Hn Hh Hptr Hs] Hl Hf Ht.
  constructor; try assumption.
  - apply (Rec_manifests img); try reflexivity; [exact R|].
    cbn [apply_fsop i_manifests]. apply (DMan_app_same _ _ (dv_changes dv)).
    + intros file' Hl'. pose proof (eq_trans (eq_sym Hl') Hl) as E. injection E as ->.
      apply (logfile_read_torn _ _ _ _ _ Hf Ht).
    + destruct R as [D _ _ _ _]. apply D.
  - exists (f ++ firstn t (fst (log_append boff r))). split; [|apply (tlog_torn _ _ _ _ _ Hf Ht)].
    cbn [apply_fsop i_manifests]. rewrite lookupN_app_assoc, N.eqb_refl.
    etransitivity; [apply (f_equal (option_map _)); exact Hl|reflexivity].
Qed.

(** the crash points of one append to the current manifest, given what holds after the complete append *)
Lemma crash_cs_manifest_append img dv bsF Q f boff r bs :
  CS img dv bsF Q -> bs = bsF ++ log_batches (dv_logs dv) ->
  lookupN (dv_man dv) (i_manifests img) = Some f ->
  logfile f (map vchange_encode (dv_changes dv)) boff ->
  CSE (apply_fsop img (FsAppend (FManifest (dv_man dv)) (fst (log_append boff r)))) bs ->
  all_crash (fun i => CSE i bs) img [FsAppend (FManifest (dv_man dv)) (fst (log_append boff r))].
Proof.
  intros C -> Hl Hf Hafter. apply all_crash_cons.
  - exists dv, bsF, Q. auto.
  - intros k. cbn [torn_fsop apply_fsops fold_left].
    destruct (Nat.lt_ge_cases k (length (fst (log_append boff r)))) as [L|L].
    + exists dv, bsF, Q. split; [|reflexivity]. apply (CS_torn_manifest _ _ _ _ _ _ _ _ C Hl Hf L).
    + rewrite firstn_all2 by exact L. exact Hafter.
  - apply all_crash_nil. exact Hafter.
Qed.

Lemma all_crash_impl (P P' : image -> Prop) img ops :
  (forall i, P i -> P' i) -> all_crash P img ops -> all_crash P' img ops.
Proof. intros H Ha n torn Hn. apply H. apply Ha. exact Hn. Qed.

Lemma NoDup_snoc {A} (l : list A) x : NoDup l -> ~ In x l -> NoDup (l ++ [x]).
Proof.
  intros Hl Hx. induction Hl as [|y l Hy Hl IH]; cbn [app]; [constructor; [intros []|constructor]|].
  constructor.
  - rewrite in_app_iff. intros [H|[H|[]]]; [contradiction|]. apply Hx. left. symmetry. exact H.
  - apply IH. intros H. apply Hx. right. exact H.
Qed.

Lemma entries_key_ok bs e :
  Forall bok bs -> In e (all_entries_of bs) -> CodecProofs.key_ok (fst e) = true.
Proof.
  intros H He. unfold all_entries_of in He. apply in_flat_map in He. destruct He as (b & Hb & He).
  rewrite Forall_forall in H. apply (proj2 (H b Hb)). exact He.
Qed.

Lemma ops_entries_last ops : forall n, ops <> [] ->
  exists e, In e (ops_entries n ops) /\ ik_seq (fst e) = n + N.of_nat (length ops) - 1.
Proof.
  induction ops as [|o r IH]; intros n Hne; [congruence|].
  destruct r as [|o2 r].
  - exists (Recover.wop_entry o n). split; [left; reflexivity|]. rewrite rwop_seq. cbn [length]. lia.
  - destruct (IH (n + 1)) as (e & He & Es); [discriminate|].
    exists e. split; [right; exact He|]. rewrite Es. cbn [length]. lia.
Qed.

Lemma nops_le_of_entries bs : forall s q,
  batches_chained s bs = true -> s <= q ->
  (forall e, In e (all_entries_of bs) -> ik_seq (fst e) <= q) -> s + nops bs <= q.
Proof.
  induction bs as [|b bs IH]; intros s q Hc Hs He; [rewrite nops_nil; lia|].
  cbn [batches_chained] in Hc. apply andb_true_iff in Hc. destruct Hc as [H1 H2]. apply N.eqb_eq in H1.
  rewrite nops_cons. rewrite N.add_assoc. apply IH; [exact H2| |].
  - destruct (snd b) as [|o r] eqn:Eb; [cbn [length]; lia|].
    destruct (ops_entries_last (snd b) (fst b)) as (e & Hin & Es); [rewrite Eb; discriminate|].
    assert (Hle : ik_seq (fst e) <= q).
    { apply He. rewrite all_entries_cons. apply in_or_app. left. exact Hin. }
    rewrite <- Eb. lia.
  - intros e Hin. apply He. rewrite all_entries_cons. apply in_or_app. right. exact Hin.
Qed.

(** * Flushing the immutable memtable *)
Section FLUSH.
Variables (d : pdb) (dv : dview) (bsF : list batch) (Q : N) (older : list (N * list batch)) (bsM : list batch).
Hypothesis I : Inv d dv bsF Q older bsM.
Variable es : list entry.
Hypothesis Himm : pd_imm d = Some es.
Variables level size seq : N.
Hypothesis Hlevel : level < MAX_NUM_LEVELS.
Hypothesis Hsize : size < two64.
Hypothesis Hnx : pd_next d + 1 < two64.
Hypothesis Hseq1 : dv_seq dv <= seq.
Hypothesis Hseq2 : forall e, In e es -> ik_seq (fst e) <= seq.
Hypothesis Hseq3 : seq <= pd_seq d.
Let num := pd_next d + 1.
Let added := match table_meta num size es with Some f => [(level, f)] | None => [] end.
Let c := mkVC (Some (pd_wal d)) None None None [] [] added.
Variable v' : version.
Hypothesis Hedit : apply_edit (pd_ver d) (edit_of c) = Some v'.
Let c' := mkVC (Some (pd_wal d)) None (Some num) (Some seq) [] [] added.
Let ops1 := table_ops num es.
Let img1 := apply_fsops (pd_img d) ops1.
Let recd := log_append (pd_manifest_boff d) (vchange_encode c').
Let op2 := FsAppend (FManifest (pd_manifest d)) (fst recd).
Let img2 := apply_fsop img1 op2.
Let dv2 := mkDV (dv_man dv) (dv_changes dv ++ [c']) v' (pd_wal d) num seq [(pd_wal d, bsM)].
Let d3 := mkPD img2 v' (pd_pointers d) num (pd_manifest d) true (snd recd) (pd_wal d) None (pd_wal d)
               (pd_wal_boff d) (pd_seq d) (pd_mem d) None.
Let bsI := log_batches older.

Lemma flush_eq :
  p_flush d level size seq
  = Some (with_img d3 (apply_fsops img2 (gc_ops d3)), ops1 ++ [op2] ++ gc_ops d3).
Proof.
  unfold p_flush. rewrite Himm. fold num. fold added. fold c.
  unfold log_and_apply.
  cbn [pd_ver pd_manifest_open pd_manifest pd_manifest_boff pd_vs_wal pd_prev_wal pd_next pd_img
       pd_pointers pd_wal pd_wal_boff pd_seq pd_mem pd_imm vc_wal vc_prev_wal vc_pointers vc_deleted vc_new c].
  rewrite Hedit, (iv_open _ _ _ _ _ _ I), (proj1 (iv_prev _ _ _ _ _ _ I)).
  reflexivity.
Qed.

Let R0 : Rec (pd_img d) dv bsF Q := iv_rec _ _ _ _ _ _ I.

Lemma flush_ver_bound n : In n (version_numbers (dv_ver dv)) -> n <= dv_next dv.
Proof.
  intros Hn. apply vn_in in Hn. destruct Hn as (i & f & Hf & <-).
  destruct R0 as [D _ _ _ _]. destruct D as (_ & _ & (_ & _ & _ & _ & Hb) & _ & _).
  apply (build_levels_in _ _ _ _ Hb) in Hf. apply (proj2 (iv_hist _ _ _ _ _ _ I)) in Hf. tauto.
Qed.

Lemma flush_num_fresh : ~ In num (version_numbers (dv_ver dv)).
Proof.
  intros H. apply flush_ver_bound in H. pose proof (iv_next _ _ _ _ _ _ I). unfold num in H. lia.
Qed.

Lemma flush_ops1_invisible : Forall (invisible dv) ops1.
Proof. apply table_ops_invisible. apply flush_num_fresh. Qed.

Lemma flush_rec1 : Rec img1 dv bsF Q.
Proof. apply Rec_invisible_list; [exact R0|apply flush_ops1_invisible]. Qed.

Lemma flush_logs_bok : Forall bok bsI.
Proof.
  destruct R0 as [D _ _ _ _]. destruct D as (_ & _ & _ & _ & (_ & _ & Hf)).
  rewrite (iv_logs _ _ _ _ _ _ I) in Hf. apply Forall_app in Hf. destruct Hf as [Hf _].
  unfold bsI, log_batches. apply Forall_forall. intros b Hb. apply in_flat_map in Hb.
  destruct Hb as (nb & Hnb & Hb). rewrite Forall_forall in Hf. destruct (Hf nb Hnb) as (_ & _ & _ & _ & Hok).
  rewrite Forall_forall in Hok. apply Hok. exact Hb.
Qed.

Lemma flush_es_iff e : In e es <-> In e (all_entries_of bsI).
Proof. pose proof (iv_imm _ _ _ _ _ _ I) as H. rewrite Himm in H. apply H. Qed.

Lemma flush_added_cases :
  (es = [] /\ added = []) \/
  (es <> [] /\ exists e1 e2, In e1 es /\ In e2 es /\ added = [(level, mkFM num size (fst e1) (fst e2))]).
Proof.
  unfold added. destruct es as [|e0 r] eqn:E.
  - left. split; reflexivity.
  - right. split; [discriminate|]. rewrite <- E.
    destruct (table_meta_some num size es) as (e1 & e2 & H1 & H2 & Ht); [rewrite E; discriminate|].
    exists e1, e2. rewrite Ht. auto.
Qed.

Lemma flush_added_ok :
  Forall (fun n => fst n < MAX_NUM_LEVELS /\ CodecProofs.fmeta_ok (snd n) = true) added.
Proof.
  destruct flush_added_cases as [[_ ->]|(_ & e1 & e2 & H1 & H2 & ->)]; [constructor|].
  constructor; [|constructor]. cbn [fst snd]. split; [exact Hlevel|].
  unfold CodecProofs.fmeta_ok. cbn [fm_num fm_size fm_small fm_large].
  apply flush_es_iff in H1, H2.
  rewrite (entries_key_ok _ _ flush_logs_bok H1), (entries_key_ok _ _ flush_logs_bok H2).
  assert (Hn : num <? 18446744073709551616 = true) by (apply N.ltb_lt; exact Hnx).
  assert (Hs : size <? 18446744073709551616 = true) by (apply N.ltb_lt; exact Hsize).
  rewrite Hn, Hs. reflexivity.
Qed.

Lemma flush_wal_in : In (pd_wal d) (map fst (i_wals (pd_img d))).
Proof.
  destruct (iv_walfile _ _ _ _ _ _ I) as (f & Hl & _). apply lookupN_in. rewrite Hl. discriminate.
Qed.

Lemma flush_vok : vok c'.
Proof.
  apply vok_flush.
  - pose proof (iv_walnames _ _ _ _ _ _ I _ flush_wal_in). pose proof (proj1 (iv_bounds _ _ _ _ _ _ I)). lia.
  - exact Hnx.
  - pose proof (proj2 (iv_bounds _ _ _ _ _ _ I)). lia.
  - apply flush_added_ok.
Qed.

Lemma flush_news : news_of c' = map (fun p => (N.to_nat (fst p), snd p)) added.
Proof. reflexivity. Qed.

Lemma flush_nodup : NoDup (lvl_nums (ma_added (man_acc (dv_changes dv)) ++ news_of c')).
Proof.
  destruct (iv_hist _ _ _ _ _ _ I) as [Hnd Hb]. rewrite flush_news.
  destruct flush_added_cases as [[_ ->]|(_ & e1 & e2 & _ & _ & ->)].
  - cbn [map]. rewrite app_nil_r. exact Hnd.
  - cbn [map fst snd]. unfold lvl_nums. rewrite map_app. cbn [map fst snd fm_num].
    apply NoDup_snoc; [exact Hnd|]. intros Hin. apply in_map_iff in Hin.
    destruct Hin as ([l f] & E & Hin). cbn [fst snd] in E. injection E as _ E.
    apply Hb in Hin. pose proof (iv_next _ _ _ _ _ _ I). unfold num in E. lia.
Qed.

Lemma flush_sem : DSem (dv_changes dv ++ [c']) v' (pd_wal d) num seq.
Proof.
  destruct R0 as [D _ _ _ _]. destruct D as (_ & _ & (Hok & Hn & Hw & Hq & Hb) & _ & _).
  split; [apply Forall_app; split; [exact Hok|constructor; [apply flush_vok|constructor]]|].
  rewrite man_acc_snoc. split; [reflexivity|]. split; [reflexivity|]. split; [reflexivity|].
  apply (build_levels_step _ _ (dv_ver dv)); [apply flush_nodup|exact Hb|].
  rewrite <- (iv_ver _ _ _ _ _ _ I). exact Hedit.
Qed.

Lemma flush_numbers n :
  In n (version_numbers v') <-> In n (version_numbers (dv_ver dv)) \/ In n (map (fun p => fm_num (snd p)) added).
Proof.
  destruct R0 as [D _ _ _ _]. destruct D as (_ & _ & (_ & _ & _ & _ & Hb) & _ & _).
  apply (apply_edit_numbers_add (dv_ver dv) c v' n).
  - apply (build_levels_length _ _ Hb).
  - reflexivity.
  - intros p Hp. pose proof flush_added_ok as H. rewrite Forall_forall in H. apply (H p Hp).
  - rewrite <- (iv_ver _ _ _ _ _ _ I). exact Hedit.
Qed.

Lemma flush_lookup1 n :
  lookupN n (i_tables img1)
  = match es with [] => lookupN n (i_tables (pd_img d))
    | _ => if n =? num then Some (Some es) else lookupN n (i_tables (pd_img d)) end.
Proof. apply table_ops_tables. Qed.

Lemma flush_lookup_old n : In n (version_numbers (dv_ver dv)) ->
  lookupN n (i_tables img1) = lookupN n (i_tables (pd_img d)).
Proof.
  intros Hn. rewrite flush_lookup1. destruct es; [reflexivity|].
  destruct (n =? num) eqn:E; [|reflexivity]. apply N.eqb_eq in E. subst n.
  exfalso. exact (flush_num_fresh Hn).
Qed.

Lemma flush_DTab : DTab (i_tables img1) v'.
Proof.
  intros n Hn. apply flush_numbers in Hn. destruct Hn as [Hn|Hn].
  - rewrite (flush_lookup_old n Hn). destruct R0 as [D _ _ _ _]. destruct D as (_ & _ & _ & Dt & _).
    apply Dt. exact Hn.
  - destruct flush_added_cases as [[_ E]|(Hne & e1 & e2 & _ & _ & E)]; rewrite E in Hn; [destruct Hn|].
    cbn [map snd fm_num In] in Hn. destruct Hn as [<-|[]]. exists es. rewrite flush_lookup1.
    destruct es; [congruence|]. rewrite N.eqb_refl. reflexivity.
Qed.

Lemma flush_tab e :
  In e (tab_entries img1 v') <-> In e (tab_entries img1 (dv_ver dv)) \/ In e (all_entries_of bsI).
Proof.
  rewrite <- flush_es_iff, !in_tab_entries. split.
  - intros (n & es0 & Hn & Hl & He). apply flush_numbers in Hn. destruct Hn as [Hn|Hn].
    + left. exists n, es0. auto.
    + right. destruct flush_added_cases as [[_ E]|(Hne & e1 & e2 & _ & _ & E)]; rewrite E in Hn; [destruct Hn|].
      cbn [map snd fm_num In] in Hn. destruct Hn as [<-|[]]. rewrite flush_lookup1 in Hl.
      destruct es; [congruence|]. rewrite N.eqb_refl in Hl. injection Hl as <-. exact He.
  - intros [(n & es0 & Hn & Hl & He)|He].
    + exists n, es0. split; [apply flush_numbers; left; exact Hn|]. auto.
    + destruct flush_added_cases as [[E _]|(Hne & e1 & e2 & _ & _ & E)]; [rewrite E in He; destruct He|].
      exists num, es. split; [apply flush_numbers; right; rewrite E; left; reflexivity|].
      split; [|exact He]. rewrite flush_lookup1. destruct es; [congruence|]. rewrite N.eqb_refl. reflexivity.
Qed.

Lemma flush_filter : filter (fun nb => pd_wal d <=? fst nb) (dv_logs dv) = [(pd_wal d, bsM)].
Proof.
  destruct R0 as [D _ _ _ _]. destruct D as (_ & _ & _ & _ & Dw).
  rewrite (iv_logs _ _ _ _ _ _ I) in *. rewrite filter_app. cbn [filter fst].
  assert (E : pd_wal d <=? pd_wal d = true) by (apply N.leb_le; lia). rewrite E.
  rewrite (LogProofs.filter_all_false _ older); [reflexivity|].
  intros nb Hnb. pose proof (DWal_last_max _ _ _ _ _ Dw nb Hnb). apply N.leb_gt. exact H.
Qed.

Lemma flush_chainF : batches_chained 0 (bsF ++ bsI) = true.
Proof.
  pose proof (rec_chain _ _ _ _ R0) as H. rewrite (iv_logs _ _ _ _ _ _ I), log_batches_app in H.
  rewrite List.app_assoc, chained_app in H. apply andb_true_iff in H. apply H.
Qed.

Lemma flush_total : nops (bsF ++ log_batches (dv_logs dv)) = pd_seq d.
Proof. symmetry. apply (iv_seq _ _ _ _ _ _ I). Qed.

Lemma flush_man_eq : pd_manifest d = dv_man dv.
Proof. apply (iv_man _ _ _ _ _ _ I). Qed.

Lemma flush_manfile1 : exists file, lookupN (dv_man dv) (i_manifests img1) = Some file /\
                                   logfile file (map vchange_encode (dv_changes dv)) (pd_manifest_boff d).
Proof.
  destruct (iv_manfile _ _ _ _ _ _ I) as (file & Hl & Hlf). exists file. split; [|exact Hlf].
  unfold img1, ops1. rewrite (proj1 (proj2 (table_ops_other _ _ _))). exact Hl.
Qed.

Lemma flush_rec_torn t : (t < length (fst recd))%nat ->
  Rec (apply_fsop img1 (FsAppend (FManifest (pd_manifest d)) (firstn t (fst recd)))) dv bsF Q.
Proof.
  intros Ht. rewrite flush_man_eq.
  apply (Rec_manifests img1); try reflexivity; [apply flush_rec1|].
  cbn [apply_fsop i_manifests]. destruct flush_manfile1 as (file & Hl & Hlf).
  apply (DMan_app_same _ _ (dv_changes dv)).
  - intros file' Hl'. pose proof (eq_trans (eq_sym Hl') Hl) as E. injection E as ->. apply (logfile_read_torn _ _ _ _ _ Hlf Ht).
  - pose proof flush_rec1 as R1. destruct R1 as [D _ _ _ _]. apply D.
Qed.

Lemma flush_commit : Rec img2 dv2 (bsF ++ bsI) Q.
Proof.
  pose proof flush_rec1 as R1.
  unfold dv2. rewrite <- flush_filter.
  apply (Rec_commit img1 img2 dv bsF Q); try reflexivity; try assumption.
  - destruct R1 as [D _ _ _ _]. apply D.
  - unfold img2, op2. rewrite flush_man_eq. cbn [apply_fsop i_manifests].
    destruct flush_manfile1 as (file & Hl & Hlf).
    apply (DMan_app_same _ _ (dv_changes dv)).
    + intros file' Hl'. pose proof (eq_trans (eq_sym Hl') Hl) as E. injection E as ->. exists true.
      rewrite map_app. cbn [map]. apply (logfile_read _ _ (snd recd)). apply logfile_append. exact Hlf.
    + destruct R1 as [D _ _ _ _]. apply D.
  - apply flush_sem.
  - apply flush_DTab.
  - destruct R0 as [D _ _ _ _]. destruct D as (_ & _ & _ & _ & Dw).
    apply (DWal_names _ _ _ (pd_wal d) Dw). rewrite (iv_logs _ _ _ _ _ _ I), map_app. apply in_or_app. right. left. reflexivity.
  - rewrite flush_filter, (iv_logs _ _ _ _ _ _ I), log_batches_app. reflexivity.
  - apply (tables_ok_flush (tab_entries img1 (dv_ver dv)) bsF bsI _ Q).
    + apply flush_chainF.
    + apply (rec_tab _ _ _ _ R1).
    + apply flush_tab.
  - apply (rec_Q _ _ _ _ R0).
  - rewrite nops_app. pose proof (rec_seq _ _ _ _ R0) as [Hs1 _].
    pose proof flush_chainF as Hc. rewrite chained_app in Hc. apply andb_true_iff in Hc. destruct Hc as [_ Hc].
    rewrite N.add_0_l in Hc. apply nops_le_of_entries; [exact Hc|lia|].
    intros e He. apply Hseq2. apply flush_es_iff. exact He.
  - rewrite flush_total. exact Hseq3.
Qed.

Lemma flush_wals2 : i_wals img2 = i_wals (pd_img d).
Proof. unfold img2, op2, img1, ops1. cbn [apply_fsop i_wals]. apply table_ops_other. Qed.

Lemma flush_acked : (bsF ++ bsI) ++ log_batches (dv_logs dv2) = bsF ++ log_batches (dv_logs dv).
Proof.
  unfold dv2. cbn [dv_logs]. rewrite (iv_logs _ _ _ _ _ _ I), log_batches_app, <- List.app_assoc. reflexivity.
Qed.

Lemma flush_inv3 : Inv d3 dv2 (bsF ++ bsI) Q [] bsM.
Proof.
  pose proof flush_commit as R2. pose proof I as I'.
  destruct I' as [R0' Hv Hm Ho Hvw Hp Hn Hwn Hmf Hlg Hlfs Hwf Hmem Himm' Hseq Hh Hptr Hb].
  refine (mkInv d3 dv2 (bsF ++ bsI) Q [] bsM R2 eq_refl Hm eq_refl eq_refl _ _ _ _ eq_refl _ _ Hmem eq_refl _ _ _ _).
  - split; [reflexivity|]. unfold dv2. cbn [dv_changes]. rewrite man_acc_snoc. apply Hp.
  - unfold dv2, d3. cbn [dv_next dv_man dv_wal pd_next].
    pose proof (Hwn _ flush_wal_in). unfold num. lia.
  - intros n Hin. change (pd_img d3) with img2 in Hin. rewrite flush_wals2 in Hin. apply Hwn in Hin. unfold d3. cbn [pd_next]. unfold num. lia.
  - destruct flush_manfile1 as (file & Hl & Hlf). exists (file ++ fst recd). split.
    + change (pd_img d3) with img2. unfold img2, op2. rewrite flush_man_eq. cbn [apply_fsop i_manifests dv2 dv_man].
      rewrite lookupN_app_assoc, N.eqb_refl.
      etransitivity; [apply (f_equal (option_map _)); exact Hl|reflexivity].
    + unfold dv2, d3. cbn [dv_changes pd_manifest_boff]. rewrite map_app. cbn [map].
      apply logfile_append. exact Hlf.
  - constructor.
  - change (pd_img d3) with img2. rewrite flush_wals2. exact Hwf.
  - change (pd_seq d3) with (pd_seq d). rewrite flush_acked. exact Hseq.
  - unfold dv2. cbn [dv_changes dv_next]. rewrite man_acc_snoc.
    change (ma_added (accumulate (man_acc (dv_changes dv)) c'))
      with (ma_added (man_acc (dv_changes dv)) ++ news_of c').
    split; [apply flush_nodup|]. intros l f Hin. apply in_app_or in Hin. destruct Hin as [Hin|Hin].
    + destruct (proj2 Hh l f Hin) as (H1 & H2 & H3). split; [unfold num; lia|]. split; assumption.
    + rewrite flush_news in Hin. apply in_map_iff in Hin. destruct Hin as (p & E & Hp').
      injection E as <- <-. pose proof flush_added_ok as Hok. rewrite Forall_forall in Hok.
      destruct (Hok p Hp') as [H1 H2]. split; [|split; [exact H2|]].
      * destruct flush_added_cases as [[_ E]|(_ & e1 & e2 & _ & _ & E)]; rewrite E in Hp'; [destruct Hp'|].
        destruct Hp' as [<-|[]]. cbn [snd fm_num]. lia.
      * unfold NLEVELS. lia.
  - split; [apply Hptr|]. unfold dv2. cbn [dv_changes]. rewrite man_acc_snoc. apply Hptr.
  - unfold d3. cbn [pd_next pd_seq]. split; [exact Hnx|apply Hb].
Qed.

Lemma flush_gc_invisible : Forall (invisible dv2) (gc_ops d3).
Proof. apply gc_invisible; try reflexivity. apply flush_man_eq. Qed.

Lemma flush_inv : Inv (with_img d3 (apply_fsops img2 (gc_ops d3))) dv2 (bsF ++ bsI) Q [] bsM.
Proof. apply (Inv_invisible_ops _ d3). apply flush_inv3. apply flush_gc_invisible. Qed.

Lemma flush_crash :
  all_crash (fun img => Good img (bsF ++ log_batches (dv_logs dv))) (pd_img d) (ops1 ++ [op2] ++ gc_ops d3).
Proof.
  apply all_crash_app.
  - apply (all_crash_invisible _ dv bsF Q); [|exact R0|apply flush_ops1_invisible].
    intros img' R. apply (Rec_good _ _ _ _ R).
  - fold img1. cbn [app]. apply all_crash_cons.
    + apply (Rec_good _ _ _ _ flush_rec1).
    + intros k. unfold op2. cbn [torn_fsop apply_fsops fold_left].
      destruct (Nat.lt_ge_cases k (length (fst recd))) as [L|L].
      * apply (Rec_good _ _ _ _ (flush_rec_torn k L)).
      * rewrite firstn_all2 by exact L. fold op2. fold img2.
        rewrite <- flush_acked. apply (Rec_good _ _ _ _ flush_commit).
    + fold img2. apply (all_crash_invisible _ dv2 (bsF ++ bsI) Q); [|apply flush_commit|apply flush_gc_invisible].
      intros img' R. rewrite <- flush_acked. apply (Rec_good _ _ _ _ R).
Qed.
Lemma flush_after_cs : CSE img2 (bsF ++ log_batches (dv_logs dv)).
Proof.
  exists dv2, (bsF ++ bsI), Q. split; [apply (Inv_CS _ _ _ _ _ _ flush_inv3)|]. symmetry. apply flush_acked.
Qed.

Lemma flush_crash_cs :
  all_crash (fun i => CSE i (bsF ++ log_batches (dv_logs dv))) (pd_img d) (ops1 ++ [op2] ++ gc_ops d3).
Proof.
  pose proof (Inv_CS _ _ _ _ _ _ I) as C0.
  apply all_crash_app.
  - apply (all_crash_invisible_cs _ _ _ _ _ C0 flush_ops1_invisible).
  - fold img1. pose proof (CS_invisible_ops _ _ _ _ _ C0 flush_ops1_invisible) as C1. fold ops1 img1 in C1.
    apply all_crash_app.
    + destruct flush_manfile1 as (file & Hl & Hlf). pose proof flush_after_cs as Ha.
      unfold img2, op2 in Ha. unfold op2. rewrite flush_man_eq in *.
      apply (crash_cs_manifest_append img1 dv bsF Q file (pd_manifest_boff d) _ _ C1 eq_refl Hl Hlf Ha).
    + cbn [apply_fsops fold_left]. fold img2. rewrite <- flush_acked.
      apply (all_crash_invisible_cs img2 dv2 (bsF ++ bsI) Q); [apply (Inv_CS _ _ _ _ _ _ flush_inv3)|apply flush_gc_invisible].
Qed.
End FLUSH.

(** * Interface of the step lemmas *)
Definition InvE (d : pdb) (acked : list batch) : Prop :=
  exists dv bsF Q older bsM, Inv d dv bsF Q older bsM /\ acked = bsF ++ log_batches (dv_logs dv).

Definition crash_ok (img : image) (bs : list batch) : Prop :=
  (i_current img = None /\ bs = []) \/ Good img bs.

(** the directory between two sessions: empty, or as a database satisfying the invariant left it *)
Definition Closed (img : image) (acked : list batch) : Prop :=
  (img = empty_image /\ acked = []) \/ exists d, pd_img d = img /\ InvE d acked.

(** ** side conditions on the parameters of the steps, as boolean predicates *)
Definition bokb (b : batch) : bool :=
  batch_ok b && forallb (fun e => CodecProofs.key_ok (fst e)) (batch_entries b).

Definition write_okb (d : pdb) (b : list wop) : bool :=
  bokb (pd_seq d + 1, b) && (pd_seq d + N.of_nat (length b) <? two64).

Definition rotate_okb (d : pdb) : bool := pd_next d + 1 <? two64.

(** the sequence number recorded in the manifest CURRENT names *)
Definition recorded_seq (img : image) : N :=
  match recover_manifest img with inl ms => ms_seq ms | inr _ => 0 end.

(** a flush records a level below MAX_NUM_LEVELS, sizes and numbers that fit 64 bits, and a
    sequence number between the one recorded last / those of the flushed entries and the last
    published one *)
Definition flush_okb (d : pdb) (level size seq : N) : bool :=
  (level <? MAX_NUM_LEVELS) && (size <? two64) && (pd_next d + 1 <? two64)
  && (recorded_seq (pd_img d) <=? seq)
  && forallb (fun e => ik_seq (fst e) <=? seq) (match pd_imm d with Some es => es | None => [] end)
  && (seq <=? pd_seq d).

(** an open: table sizes fit 64 bits and the file numbers consumed stay below 2^64 *)
Definition open_okb (o : open_oracle) (img : image) : bool :=
  forallb (fun p => snd p <? two64) (oo_sizes o)
  && match p_open o img with Some (d, _) => pd_next d <? two64 | None => true end.

(** ** side conditions of a whole run, the number of acknowledged batches at a crash point *)
Definition step_ok (s : prun) (o : pop) : bool :=
  match o, pr_db s with
  | QOpen oo, _ => open_okb oo (pr_img s)
  | QWrite b, Some d => write_okb d b
  | QWrite _, None => false                       (* a write needs an open database *)
  | QRotate, Some d => match pd_imm d with Some _ => true | None => rotate_okb d end
  | QFlush l sz q, Some d => match pd_imm d with None => true | Some _ => flush_okb d l sz q end
  | QInstall _ _ _ _, Some _ => false             (* installs: see M5 *)
  | _, None => true
  end.

Fixpoint run_ok (s : prun) (ops : list pop) : bool :=
  match ops with
  | [] => true
  | o :: r => step_ok s o && run_ok (fst (p_step s o)) r
  end.

(** the crash point [(n, torn)] relative to the effects of one step: how many batches of this
    step (0 or 1) recovery must return *)
Definition step_extra (s : prun) (o : pop) (n : nat) (torn : option nat) : nat :=
  match o, pr_db s with
  | QWrite b, Some d =>
      if pr_failed s then O else
      match n with
      | O => O
      | S _ =>
          match torn with
          | None => 1%nat
          | Some t =>
              if (length (fst (log_append (pd_wal_boff d) (batch_bytes ((pd_seq d + 1)%N, b)))) <=? t)%nat
              then 1%nat else O
          end
      end
  | _, _ => O
  end.

Definition step_writes (s : prun) (o : pop) : nat :=
  match o, pr_db s with
  | QWrite _, Some _ => if pr_failed s then O else 1%nat
  | _, _ => O
  end.

(** [crash_k s ops n torn]: the number of QWrite operations whose append lies entirely within
    the first [n] file operations, plus one when the crash cut is inside / at the end of the next
    write's append and leaves its record complete *)
Fixpoint crash_k (s : prun) (ops : list pop) (n : nat) (torn : option nat) : nat :=
  match ops with
  | [] => O
  | o :: r =>
      let e1 := snd (p_step s o) in
      if (n <=? length e1)%nat then step_extra s o n torn
      else (step_writes s o + crash_k (fst (p_step s o)) r (n - length e1) torn)%nat
  end.

(** * The step lemmas *)
Lemma bokb_bok b : bokb b = true -> bok b.
Proof.
  unfold bokb, bok. intros H. apply andb_true_iff in H. destruct H as [H1 H2]. split; [exact H1|].
  intros e He. rewrite forallb_forall in H2. apply H2. exact He.
Qed.

Lemma InvE_good d acked : InvE d acked -> Good (pd_img d) acked.
Proof.
  intros (dv & bsF & Q & older & bsM & I & ->). apply (Rec_good _ _ _ _ (iv_rec _ _ _ _ _ _ I)).
Qed.

Theorem write_step : forall d acked b,
  InvE d acked -> write_okb d b = true ->
  let batch := (pd_seq d + 1, b) in
  let op := FsAppend (FWal (pd_wal d)) (fst (log_append (pd_wal_boff d) (batch_bytes batch))) in
  snd (p_write d b) = [op] /\
  pd_img (fst (p_write d b)) = apply_fsop (pd_img d) op /\
  pd_seq d = nops acked /\
  InvE (fst (p_write d b)) (acked ++ [batch]) /\
  Good (pd_img d) acked /\
  forall t, Good (apply_fsop (pd_img d) (FsAppend (FWal (pd_wal d)) (firstn t (fst (log_append (pd_wal_boff d) (batch_bytes batch))))))
                 (if (length (fst (log_append (pd_wal_boff d) (batch_bytes batch))) <=? t)%nat then acked ++ [batch] else acked).
Proof.
  intros d acked b IE Hok. cbv zeta. pose proof (InvE_good _ _ IE) as G0.
  destruct IE as (dv & bsF & Q & older & bsM & I & ->).
  unfold write_okb in Hok. apply andb_true_iff in Hok. destruct Hok as [Hb Hlt].
  apply bokb_bok in Hb. apply N.ltb_lt in Hlt.
  assert (Eack : (bsF ++ log_batches (dv_logs dv)) ++ [(pd_seq d + 1, b)]
                 = bsF ++ log_batches (older ++ [(pd_wal d, bsM ++ [(pd_seq d + 1, b)])])).
  { rewrite (iv_logs _ _ _ _ _ _ I), !log_batches_app, !log_batches_single, <- !List.app_assoc. reflexivity. }
  split; [reflexivity|]. split; [reflexivity|]. split; [apply (iv_seq _ _ _ _ _ _ I)|].
  split; [|split; [exact G0|]].
  - exists (set_logs dv (older ++ [(pd_wal d, bsM ++ [(pd_seq d + 1, b)])])), bsF, Q, older, (bsM ++ [(pd_seq d + 1, b)]).
    split; [apply (write_inv d dv bsF Q older bsM I b Hb Hlt)|exact Eack].
  - intros t. pose proof (write_rec_torn d dv bsF Q older bsM I b Hb t) as R.
    destruct (length _ <=? t)%nat.
    + rewrite Eack. apply (Rec_good _ _ _ _ R).
    + apply (Rec_good _ _ _ _ R).
Qed.

Theorem rotate_step : forall d acked,
  InvE d acked -> (pd_imm d <> None \/ rotate_okb d = true) ->
  pd_img (fst (p_rotate d)) = apply_fsops (pd_img d) (snd (p_rotate d)) /\
  InvE (fst (p_rotate d)) acked /\
  all_crash (fun i => Good i acked) (pd_img d) (snd (p_rotate d)).
Proof.
  intros d acked IE Hok. pose proof (InvE_good _ _ IE) as G0.
  destruct (pd_imm d) as [es|] eqn:Himm.
  - unfold p_rotate. rewrite Himm. cbn [fst snd apply_fsops fold_left].
    split; [reflexivity|]. split; [exact IE|]. apply all_crash_nil. exact G0.
  - destruct Hok as [Hok|Hok]; [congruence|]. unfold rotate_okb in Hok. apply N.ltb_lt in Hok.
    destruct IE as (dv & bsF & Q & older & bsM & I & ->).
    pose proof (rotate_inv d dv bsF Q older bsM I Himm Hok) as I2.
    pose proof (rotate_rec d dv bsF Q older bsM I Hok) as R2.
    rewrite (rotate_eq d Himm) in *. cbn [fst snd] in *.
    assert (Eack : bsF ++ log_batches (dv_logs dv)
                   = bsF ++ log_batches (dv_logs (set_logs dv (dv_logs dv ++ [(pd_next d + 1, [])])))).
    { cbn [set_logs dv_logs]. rewrite log_batches_app, log_batches_single, app_nil_r. reflexivity. }
    split; [reflexivity|]. split.
    + eexists _, bsF, Q, _, _. split; [exact I2|exact Eack].
    + apply all_crash_cons; [exact G0| |apply all_crash_nil].
      * intros k. cbn [torn_fsop apply_fsops fold_left]. rewrite Eack. apply (Rec_good _ _ _ _ R2).
      * rewrite Eack. apply (Rec_good _ _ _ _ R2).
Qed.

Lemma recorded_seq_durable img dv : Durable img dv -> recorded_seq img = dv_seq dv.
Proof. intros D. unfold recorded_seq. rewrite (recover_manifest_durable _ _ D). reflexivity. Qed.

Theorem flush_step : forall d acked level size seq d' ops,
  InvE d acked -> (pd_imm d = None \/ flush_okb d level size seq = true) ->
  p_flush d level size seq = Some (d', ops) ->
  pd_img d' = apply_fsops (pd_img d) ops /\
  InvE d' acked /\
  all_crash (fun i => Good i acked) (pd_img d) ops.
Proof.
  intros d acked level size seq d' ops IE Hok Hfl. pose proof (InvE_good _ _ IE) as G0.
  destruct (pd_imm d) as [es|] eqn:Himm.
  2:{ unfold p_flush in Hfl. rewrite Himm in Hfl. injection Hfl as <- <-.
      split; [reflexivity|]. split; [exact IE|]. apply all_crash_nil. exact G0. }
  destruct Hok as [Hok|Hok]; [congruence|].
  destruct IE as (dv & bsF & Q & older & bsM & I & ->).
  unfold flush_okb in Hok. rewrite Himm in Hok.
  repeat (apply andb_true_iff in Hok; destruct Hok as [Hok ?]).
  apply N.ltb_lt in Hok. apply N.ltb_lt in H3. apply N.ltb_lt in H2. apply N.leb_le in H1. apply N.leb_le in H.
  rewrite (recorded_seq_durable _ _ (rec_dur _ _ _ _ (iv_rec _ _ _ _ _ _ I))) in H1.
  assert (Hs2 : forall e, In e es -> ik_seq (fst e) <= seq).
  { intros e He. rewrite forallb_forall in H0. apply N.leb_le. apply H0. exact He. }
  (* the version edit succeeds, otherwise the flush fails *)
  destruct (apply_edit (pd_ver d)
              (edit_of (mkVC (Some (pd_wal d)) None None None [] []
                 (match table_meta (pd_next d + 1) size es with Some f => [(level, f)] | None => [] end))))
    as [v'|] eqn:Hedit.
  2:{ unfold p_flush in Hfl. rewrite Himm in Hfl. unfold log_and_apply in Hfl.
      cbn [pd_ver vc_deleted vc_new] in Hfl. rewrite Hedit in Hfl. discriminate. }
  rewrite (flush_eq d dv bsF Q older bsM I es Himm level size seq v' Hedit) in Hfl.
  injection Hfl as <- <-.
  split; [|split].
  - cbn [with_img pd_img]. rewrite !apply_fsops_app. reflexivity.
  - eexists _, _, Q, _, _. split.
    + apply (flush_inv d dv bsF Q older bsM I es Himm level size seq Hok H3 H2 H1 Hs2 H v' Hedit).
    + symmetry. apply (flush_acked d dv bsF Q older bsM I es level size seq v').
  - apply (flush_crash d dv bsF Q older bsM I es Himm level size seq Hok H3 H2 H1 Hs2 H v' Hedit).
Qed.

(** * The step lemmas again, with crash images that can be recovered from repeatedly (M7) *)

Lemma write_cs_torn d dv bsF Q older bsM b t :
  Inv d dv bsF Q older bsM -> bok (pd_seq d + 1, b) ->
  (t < length (fst (log_append (pd_wal_boff d) (batch_bytes ((pd_seq d + 1)%N, b)))))%nat ->
  CS (apply_fsop (pd_img d) (FsAppend (FWal (pd_wal d))
        (firstn t (fst (log_append (pd_wal_boff d) (batch_bytes (pd_seq d + 1, b))))))) dv bsF Q.
Proof.
  intros I Hb Ht. pose proof (write_rec_torn d dv bsF Q older bsM I b Hb t) as R.
  apply Nat.leb_gt in Ht. rewrite Ht in R. apply Nat.leb_gt in Ht.
  pose proof (Inv_CS _ _ _ _ _ _ I) as [R0 Hmf Hlf Hp Hn Hh Hptr Hs].
  constructor; try assumption.
  cbn [apply_fsop i_wals]. rewrite (iv_logs _ _ _ _ _ _ I) in *. apply Forall_app in Hlf. destruct Hlf as [Hlo _].
  apply Forall_app. split.
    + rewrite Forall_forall in *. intros nb Hnb. destruct (Hlo nb Hnb) as (f & Hl & Hf). exists f. split; [|exact Hf].
      rewrite lookupN_app_assoc. destruct (fst nb =? pd_wal d) eqn:E; [|exact Hl].
      apply N.eqb_eq in E. exfalso.
      pose proof (DWal_nodup _ _ _ (proj2 (proj2 (proj2 (proj2 (rec_dur _ _ _ _ R0)))))) as Hnd.
      rewrite (iv_logs _ _ _ _ _ _ I), map_app in Hnd. cbn [map fst] in Hnd.
      apply NoDup_remove_2 in Hnd. apply Hnd. rewrite app_nil_r. rewrite <- E. apply in_map. exact Hnb.
    + constructor; [|constructor]. destruct (iv_walfile _ _ _ _ _ _ I) as (f & Hl & Hf).
      exists (f ++ firstn t (fst (log_append (pd_wal_boff d) (batch_bytes (pd_seq d + 1, b))))).
      cbn [fst snd]. split; [|apply (tlog_torn _ _ _ _ _ Hf Ht)].
      rewrite lookupN_app_assoc, N.eqb_refl, Hl. reflexivity.
Qed.

Theorem write_step_c : forall d acked b,
  InvE d acked -> write_okb d b = true ->
  let batch := (pd_seq d + 1, b) in
  CSE (pd_img d) acked /\
  forall t, CSE (apply_fsop (pd_img d) (FsAppend (FWal (pd_wal d)) (firstn t (fst (log_append (pd_wal_boff d) (batch_bytes batch))))))
                (if (length (fst (log_append (pd_wal_boff d) (batch_bytes batch))) <=? t)%nat then acked ++ [batch] else acked).
Proof.
  intros d acked b IE Hok. cbv zeta. split; [apply InvE_CSE; exact IE|].
  destruct (write_step d acked b IE Hok) as (_ & Himg & _ & IE' & _). cbv zeta in Himg, IE'.
  destruct IE as (dv & bsF & Q & older & bsM & I & ->).
  unfold write_okb in Hok. apply andb_true_iff in Hok. destruct Hok as [Hb _]. apply bokb_bok in Hb.
  intros t. destruct (length _ <=? t)%nat eqn:E.
  - apply Nat.leb_le in E. rewrite firstn_all2 by exact E. rewrite <- Himg. apply InvE_CSE. exact IE'.
  - apply Nat.leb_gt in E. exists dv, bsF, Q. split; [|reflexivity]. apply (write_cs_torn _ _ _ _ _ _ _ _ I Hb E).
Qed.

Theorem rotate_step_c : forall d acked,
  InvE d acked -> (pd_imm d <> None \/ rotate_okb d = true) ->
  all_crash (fun i => CSE i acked) (pd_img d) (snd (p_rotate d)).
Proof.
  intros d acked IE Hok. pose proof (InvE_CSE _ _ IE) as C0.
  destruct (rotate_step d acked IE Hok) as (Himg & IE' & _). pose proof (InvE_CSE _ _ IE') as C1.
  destruct (pd_imm d) as [es|] eqn:Himm.
  - unfold p_rotate. rewrite Himm. cbn [snd]. apply all_crash_nil. exact C0.
  - rewrite (rotate_eq d Himm) in *. cbn [fst snd pd_img apply_fsops fold_left] in *.
    apply all_crash_cons; [exact C0| |apply all_crash_nil; exact C1].
    intros k. cbn [torn_fsop apply_fsops fold_left]. exact C1.
Qed.

Theorem flush_step_c : forall d acked level size seq d' ops,
  InvE d acked -> (pd_imm d = None \/ flush_okb d level size seq = true) ->
  p_flush d level size seq = Some (d', ops) ->
  all_crash (fun i => CSE i acked) (pd_img d) ops.
Proof.
  intros d acked level size seq d' ops IE Hok Hfl. pose proof (InvE_CSE _ _ IE) as C0.
  destruct (pd_imm d) as [es|] eqn:Himm.
  2:{ unfold p_flush in Hfl. rewrite Himm in Hfl. injection Hfl as <- <-. apply all_crash_nil. exact C0. }
  destruct Hok as [Hok|Hok]; [congruence|].
  destruct IE as (dv & bsF & Q & older & bsM & I & ->).
  unfold flush_okb in Hok. rewrite Himm in Hok.
  repeat (apply andb_true_iff in Hok; destruct Hok as [Hok ?]).
  apply N.ltb_lt in Hok. apply N.ltb_lt in H3. apply N.ltb_lt in H2. apply N.leb_le in H1. apply N.leb_le in H.
  rewrite (recorded_seq_durable _ _ (rec_dur _ _ _ _ (iv_rec _ _ _ _ _ _ I))) in H1.
  assert (Hs2 : forall e, In e es -> ik_seq (fst e) <= seq).
  { intros e He. rewrite forallb_forall in H0. apply N.leb_le. apply H0. exact He. }
  destruct (apply_edit (pd_ver d)
              (edit_of (mkVC (Some (pd_wal d)) None None None [] []
                 (match table_meta (pd_next d + 1) size es with Some f => [(level, f)] | None => [] end))))
    as [v'|] eqn:Hedit.
  2:{ unfold p_flush in Hfl. rewrite Himm in Hfl. unfold log_and_apply in Hfl.
      cbn [pd_ver vc_deleted vc_new] in Hfl. rewrite Hedit in Hfl. discriminate. }
  rewrite (flush_eq d dv bsF Q older bsM I es Himm level size seq v' Hedit) in Hfl.
  injection Hfl as <- <-.
  apply (flush_crash_cs d dv bsF Q older bsM I es Himm level size seq Hok H3 H2 H1 Hs2 H v' Hedit).
Qed.
