(** The write path under injected I/O failures (property C08, model [Faults.v]): errors are
    reported and sticky (T1), acknowledged writes are visible (T2), after a reopen every
    acknowledged write is present and the failed write is present completely or not at all (T3),
    sequence numbers (T4), examples (T5). Built on [WalProofs] (crash atomicity of one log)
    and [LogProofs] (truncation at every byte). No axioms. *)
From Coq Require Import Lia ZArith ZifyN ZifyBool ZifyNat Arith List NArith Bool.
From RainVerif Require Import Params.
From RainVerif.model Require Import Bytes Key Block Crc Log LogScript Version Lsm DbSpec Codec WalModel Faults.
From RainVerif.proofs Require Import KeyProofs GetProofs CrcProofs LogProofs CodecProofs WalProofs.
Import ListNotations.
Open Scope N_scope.
Ltac Zify.zify_post_hook ::= Z.div_mod_to_equations.
Arguments N.add : simpl never.
Arguments N.sub : simpl never.
Arguments N.mul : simpl never.
Arguments N.div : simpl never.
Arguments N.modulo : simpl never.
Arguments N.eqb : simpl never.
Arguments N.ltb : simpl never.
Arguments N.leb : simpl never.
Arguments N.min : simpl never.
Arguments N.max : simpl never.
Arguments N.pow : simpl never.
Arguments N.of_nat : simpl never.
Arguments N.to_nat : simpl never.

Notation wlist := (list (list wop * fault)).

(** * Definitions used by the statements *)

(** the number of writes before the first faulted write (= [length ws] when there is none) *)
Fixpoint first_fault (ws : wlist) : nat :=
  match ws with
  | [] => 0
  | (_, NoFault) :: r => S (first_fault r)
  | (_, FailAfter _) :: _ => 0
  end.

(** the side condition: every batch that reaches the log (the writes up to and including the
    first faulted one; later writes are rejected before a batch is formed) fits the codec's
    length fields. [seq] is the sequence number published so far. *)
Fixpoint ws_enc_from (seq : N) (ws : wlist) : bool :=
  match ws with
  | [] => true
  | (ops, f) :: r =>
      batch_ok (seq + 1, ops) &&
      match f with
      | NoFault => ws_enc_from (seq + N.of_nat (length ops)) r
      | FailAfter _ => true
      end
  end.

(** ... and is not empty *)
Fixpoint ws_ok_from (seq : N) (ws : wlist) : bool :=
  match ws with
  | [] => true
  | (ops, f) :: r =>
      batch_ok (seq + 1, ops) && negb (Nat.eqb (length ops) 0) &&
      match f with
      | NoFault => ws_ok_from (seq + N.of_nat (length ops)) r
      | FailAfter _ => true
      end
  end.

Definition ws_ok (ws : wlist) : bool := ws_ok_from 0 ws.

Lemma ws_ok_enc : forall ws seq, ws_ok_from seq ws = true -> ws_enc_from seq ws = true.
Proof.
  induction ws as [|[ops f] r IH]; intros seq; cbn [ws_ok_from ws_enc_from]; [auto|].
  intros Hx. apply andb_true_iff in Hx. destruct Hx as [Hx H2].
  apply andb_true_iff in Hx. destruct Hx as [H1 _]. rewrite H1. cbn [andb].
  destruct f; auto.
Qed.

(** the batches whose append was attempted: the acknowledged ones and the failed one *)
Fixpoint attempted (seq : N) (ws : wlist) : list batch :=
  match ws with
  | [] => []
  | (ops, NoFault) :: r => (seq + 1, ops) :: attempted (seq + N.of_nat (length ops)) r
  | (ops, FailAfter _) :: _ => [(seq + 1, ops)]
  end.

(** what a reopen finds beyond the acknowledged batches: the failed batch if the failing append
    wrote all the bytes of its emission, nothing otherwise. [s] is the (not bad) state in which
    [ws] is run. *)
Fixpoint f_extra (s : fstate) (ws : wlist) : list batch :=
  match ws with
  | [] => []
  | (ops, NoFault) :: r => f_extra (fst (f_write s ops NoFault)) r
  | (ops, FailAfter n) :: _ =>
      let b : batch := (f_seq s + 1, ops) in
      if (length (fst (log_append (f_boff s) (batch_bytes b))) <=? n)%nat then [b] else []
  end.

(** * Generic facts about runs *)

Lemma f_run_bad : forall ws s,
  f_bad s = true -> f_run s ws = (s, repeat WErr (length ws)).
Proof.
  induction ws as [|[ops f] r IH]; intros s Hb; [reflexivity|].
  cbn [f_run length repeat]. unfold f_write. rewrite Hb. cbn [fst snd].
  rewrite (IH s Hb). reflexivity.
Qed.

Lemma f_run_app : forall a b s,
  f_run s (a ++ b) =
  (fst (f_run (fst (f_run s a)) b), snd (f_run s a) ++ snd (f_run (fst (f_run s a)) b)).
Proof.
  induction a as [|[ops f] a IH]; intros b s.
  - cbn [app f_run fst snd]. destruct (f_run s b); reflexivity.
  - cbn [app f_run fst snd]. rewrite IH. reflexivity.
Qed.

Lemma f_write_ok s ops :
  f_bad s = false ->
  f_write s ops NoFault =
  (mkF (f_wal s ++ fst (log_append (f_boff s) (batch_bytes (f_seq s + 1, ops))))
       (snd (log_append (f_boff s) (batch_bytes (f_seq s + 1, ops))))
       (f_mem s ++ [(f_seq s + 1, ops)]) (f_seq s + N.of_nat (length ops)) false, WOk).
Proof. intros Hb. unfold f_write. rewrite Hb. reflexivity. Qed.

Lemma f_write_fail s ops n :
  f_bad s = false ->
  f_write s ops (FailAfter n) =
  (mkF (f_wal s ++ firstn n (fst (log_append (f_boff s) (batch_bytes (f_seq s + 1, ops)))))
       (snd (log_append (f_boff s) (batch_bytes (f_seq s + 1, ops))))
       (f_mem s) (f_seq s + N.of_nat (length ops)) true, WErr).
Proof. intros Hb. unfold f_write. rewrite Hb. reflexivity. Qed.

Lemma f_run_length : forall ws s, length (snd (f_run s ws)) = length ws.
Proof.
  induction ws as [|[ops f] r IH]; intros s; [reflexivity|].
  cbn [f_run snd length]. rewrite IH. reflexivity.
Qed.

Lemma firstn_add {A} : forall a b (l : list A),
  firstn (a + b) l = firstn a l ++ firstn b (skipn a l).
Proof.
  induction a as [|a IH]; intros b l; [reflexivity|].
  destruct l as [|x l]; [cbn [Nat.add firstn skipn app]; rewrite firstn_nil; reflexivity|].
  cbn [Nat.add firstn skipn app]. rewrite IH. reflexivity.
Qed.

(** the [j]-th write is executed in the state reached by the first [j] writes *)
Lemma f_run_nth : forall ws j s ops f,
  nth_error ws j = Some (ops, f) ->
  fst (f_run s (firstn (S j) ws)) = fst (f_write (fst (f_run s (firstn j ws))) ops f) /\
  nth_error (snd (f_run s ws)) j = Some (snd (f_write (fst (f_run s (firstn j ws))) ops f)).
Proof.
  induction ws as [|[ops0 f0] r IH]; intros j s ops f Hj; [destruct j; discriminate Hj|].
  destruct j as [|j].
  - cbn [nth_error] in Hj. injection Hj as -> ->.
    cbn [firstn f_run fst snd nth_error]. auto.
  - cbn [nth_error] in Hj.
    change (firstn (S (S j)) ((ops0, f0) :: r)) with ((ops0, f0) :: firstn (S j) r).
    change (firstn (S j) ((ops0, f0) :: r)) with ((ops0, f0) :: firstn j r).
    cbn [f_run fst snd nth_error]. apply IH. exact Hj.
Qed.

(** * T1. Errors are reported and sticky *)

Lemma results_shape : forall ws s,
  f_bad s = false ->
  snd (f_run s ws) =
  repeat WOk (first_fault ws) ++ repeat WErr (length ws - first_fault ws).
Proof.
  induction ws as [|[ops f] r IH]; intros s Hb; [reflexivity|].
  destruct f as [|n]; cbn [f_run first_fault length snd].
  - rewrite f_write_ok by assumption. cbn [fst snd]. rewrite IH by reflexivity.
    reflexivity.
  - rewrite f_write_fail by assumption. cbn [fst snd]. rewrite f_run_bad by reflexivity.
    cbn [snd repeat app Nat.sub]. reflexivity.
Qed.

Theorem faults_results ws :
  snd (f_run f_init ws) =
  repeat WOk (first_fault ws) ++ repeat WErr (length ws - first_fault ws).
Proof. apply results_shape. reflexivity. Qed.

Lemma first_fault_le : forall ws, (first_fault ws <= length ws)%nat.
Proof.
  induction ws as [|[ops [|n]] r IH]; cbn [first_fault length]; lia.
Qed.

(** in terms of single writes: write [j] returns Ok iff it comes before the first faulted one *)
Corollary faults_result_nth ws j :
  (j < length ws)%nat ->
  nth_error (snd (f_run f_init ws)) j =
  Some (if (j <? first_fault ws)%nat then WOk else WErr).
Proof.
  intros Hj. rewrite faults_results. pose proof (first_fault_le ws) as Hle.
  destruct (j <? first_fault ws)%nat eqn:E.
  - apply Nat.ltb_lt in E. rewrite nth_error_app1 by (rewrite repeat_length; lia).
    apply nth_error_repeat. exact E.
  - apply Nat.ltb_ge in E. rewrite nth_error_app2 by (rewrite repeat_length; lia).
    rewrite repeat_length. apply nth_error_repeat. lia.
Qed.

(** the faulted write leaves the state bad *)
Lemma bad_after_first_fault : forall ws s,
  f_bad s = false -> (first_fault ws < length ws)%nat ->
  f_bad (fst (f_run s (firstn (S (first_fault ws)) ws))) = true.
Proof.
  induction ws as [|[ops f] r IH]; intros s Hb Hlt; [cbn [first_fault length] in Hlt; lia|].
  destruct f as [|n]; cbn [first_fault length] in *.
  - change (firstn (S (S (first_fault r))) ((ops, NoFault) :: r))
      with ((ops, NoFault) :: firstn (S (first_fault r)) r).
    cbn [f_run fst]. rewrite f_write_ok by assumption. cbn [fst].
    apply IH; [reflexivity|lia].
  - cbn [firstn f_run fst]. rewrite f_write_fail by assumption. reflexivity.
Qed.

(** No write after the first failure changes the state (log file, memtable, sequence number):
    every prefix of the run that contains the faulted write ends in the same state. *)
Theorem faults_sticky ws j :
  (first_fault ws < j)%nat ->
  fst (f_run f_init (firstn j ws)) = fst (f_run f_init (firstn (S (first_fault ws)) ws)).
Proof.
  intros Hj. set (k := first_fault ws) in *.
  replace j with (S k + (j - S k))%nat by lia.
  rewrite firstn_add, f_run_app. cbn [fst].
  destruct (Nat.lt_ge_cases k (length ws)) as [Hlt|Hge].
  - rewrite f_run_bad; [reflexivity|]. apply bad_after_first_fault; [reflexivity|exact Hlt].
  - rewrite (skipn_all2 ws) by lia. rewrite firstn_nil. reflexivity.
Qed.

Corollary faults_sticky_wal_mem ws j :
  (first_fault ws < j)%nat ->
  f_wal (fst (f_run f_init (firstn j ws))) = f_wal (fst (f_run f_init (firstn (S (first_fault ws)) ws))) /\
  f_mem (fst (f_run f_init (firstn j ws))) = f_mem (fst (f_run f_init (firstn (S (first_fault ws)) ws))).
Proof. intros Hj. rewrite (faults_sticky ws j Hj). auto. Qed.

(** * T2. Acknowledged writes are visible *)

Lemma mem_acked : forall ws s,
  f_bad s = false ->
  f_mem (fst (f_run s ws)) = f_mem s ++ acked (f_seq s) ws false.
Proof.
  induction ws as [|[ops f] r IH]; intros s Hb; [cbn [f_run fst acked]; rewrite app_nil_r; reflexivity|].
  destruct f as [|n]; cbn [f_run fst acked].
  - rewrite f_write_ok by assumption. cbn [fst]. rewrite IH by reflexivity.
    cbn [f_mem f_seq]. rewrite <- app_assoc. reflexivity.
  - rewrite f_write_fail by assumption. cbn [fst]. rewrite f_run_bad by reflexivity.
    cbn [fst f_mem]. rewrite app_nil_r. reflexivity.
Qed.

Theorem faults_mem_acked ws : f_mem (fst (f_run f_init ws)) = acked 0 ws false.
Proof. rewrite mem_acked by reflexivity. reflexivity. Qed.

Theorem faults_contents_acked ws :
  f_contents (fst (f_run f_init ws)) = replay [] (acked 0 ws false).
Proof. unfold f_contents. rewrite faults_mem_acked. reflexivity. Qed.

Lemma acked_firstn : forall ws j seq,
  acked seq (firstn j ws) false = firstn j (acked seq ws false).
Proof.
  induction ws as [|[ops f] r IH]; intros j seq; [rewrite !firstn_nil; reflexivity|].
  destruct j as [|j]; [reflexivity|].
  destruct f as [|n]; cbn [firstn acked]; [|reflexivity].
  rewrite IH. reflexivity.
Qed.

(** every prefix of the run: reads see exactly the batches acknowledged so far, which are the
    first [j] of those acknowledged at the end (an acknowledged batch stays) *)
Theorem faults_prefix_acked ws j :
  f_mem (fst (f_run f_init (firstn j ws))) = acked 0 (firstn j ws) false /\
  f_contents (fst (f_run f_init (firstn j ws))) = replay [] (acked 0 (firstn j ws) false) /\
  acked 0 (firstn j ws) false = firstn j (acked 0 ws false).
Proof.
  split; [apply faults_mem_acked|]. split; [apply faults_contents_acked|apply acked_firstn].
Qed.

(** a write that returns Ok is applied to what reads see, at once *)
Theorem faults_ok_write_applied ws j ops f :
  nth_error ws j = Some (ops, f) ->
  nth_error (snd (f_run f_init ws)) j = Some WOk ->
  f_contents (fst (f_run f_init (firstn (S j) ws))) =
  map_apply (f_contents (fst (f_run f_init (firstn j ws)))) ops.
Proof.
  intros Hj Hr. destruct (f_run_nth ws j f_init ops f Hj) as [E1 E2].
  rewrite E2 in Hr. injection Hr as Hr. rewrite E1. clear E1 E2.
  set (sj := fst (f_run f_init (firstn j ws))) in *.
  unfold f_write in *. destruct (f_bad sj); [discriminate Hr|].
  destruct f as [|n]; [|discriminate Hr].
  cbn [fst]. unfold f_contents. cbn [f_mem]. unfold replay. rewrite fold_left_app. reflexivity.
Qed.

(** read your writes: after an Ok write whose last operation puts [k], a get of [k] returns
    the value *)
Corollary faults_read_after_ok_write ws j pre k v f :
  nth_error ws j = Some (pre ++ [WPut k v], f) ->
  nth_error (snd (f_run f_init ws)) j = Some WOk ->
  map_get k (f_contents (fst (f_run f_init (firstn (S j) ws)))) = Some v.
Proof.
  intros Hj Hr. rewrite (faults_ok_write_applied ws j _ f Hj Hr).
  unfold map_apply. rewrite fold_left_app. cbn [fold_left].
  rewrite map_get_put. rewrite (proj2 (bytes_eqb_iff k k) eq_refl). reflexivity.
Qed.

Lemma map_apply_sorted : forall ops m, map_sorted m -> map_sorted (map_apply m ops).
Proof.
  unfold map_apply. induction ops as [|o ops IH]; intros m Hm; cbn [fold_left]; [exact Hm|].
  apply IH. destruct o; [apply map_put_sorted|apply map_del_sorted]; exact Hm.
Qed.

Lemma replay_sorted : forall bs m, map_sorted m -> map_sorted (replay m bs).
Proof.
  unfold replay. induction bs as [|b bs IH]; intros m Hm; cbn [fold_left]; [exact Hm|].
  apply IH. apply map_apply_sorted. exact Hm.
Qed.

Corollary faults_read_after_ok_delete ws j pre k f :
  nth_error ws j = Some (pre ++ [WDel k], f) ->
  nth_error (snd (f_run f_init ws)) j = Some WOk ->
  map_get k (f_contents (fst (f_run f_init (firstn (S j) ws)))) = None.
Proof.
  intros Hj Hr. rewrite (faults_ok_write_applied ws j _ f Hj Hr).
  unfold map_apply. rewrite fold_left_app. cbn [fold_left].
  rewrite map_get_del.
  - rewrite (proj2 (bytes_eqb_iff k k) eq_refl). reflexivity.
  - apply (map_apply_sorted pre). apply replay_sorted. exact I.
Qed.

(** * The log file of a run *)

Section SESS.
Variable B H : N.
Variable crc : bytes -> N.

Lemma append_all_app : forall a b boff,
  append_all B H crc boff (a ++ b) =
  (fst (append_all B H crc boff a) ++ fst (append_all B H crc (snd (append_all B H crc boff a)) b),
   snd (append_all B H crc (snd (append_all B H crc boff a)) b)).
Proof.
  induction a as [|r a IH]; intros b boff.
  - cbn [app append_all fst snd]. destruct (append_all B H crc boff b); reflexivity.
  - cbn [app append_all fst snd]. rewrite IH. cbn [fst snd]. rewrite app_assoc. reflexivity.
Qed.

Lemma append_all_one boff r :
  append_all B H crc boff [r] = (fst (append B H crc boff r), snd (append B H crc boff r)).
Proof. cbn [append_all fst snd]. rewrite app_nil_r. reflexivity. Qed.

Lemma append_all_snoc recs r boff :
  append_all B H crc boff (recs ++ [r]) =
  (fst (append_all B H crc boff recs) ++ fst (append B H crc (snd (append_all B H crc boff recs)) r),
   snd (append B H crc (snd (append_all B H crc boff recs)) r)).
Proof. rewrite append_all_app, append_all_one. reflexivity. Qed.

Lemma sess_records_one len boff r :
  snd (sess_records B H crc len boff [r]) = [(r, len + blen (fst (append B H crc boff r)))].
Proof. reflexivity. Qed.

Lemma sess_records_boff : forall recs len boff,
  snd (fst (sess_records B H crc len boff recs)) = snd (append_all B H crc boff recs).
Proof.
  induction recs as [|r rs IH]; intros len boff; cbn [sess_records append_all fst snd]; auto.
Qed.

Lemma sess_records_bytes recs len boff :
  fst (fst (sess_records B H crc len boff recs)) = fst (append_all B H crc boff recs).
Proof. apply sess_records_append_all. Qed.

Lemma sess_records_length : forall recs len boff,
  length (snd (sess_records B H crc len boff recs)) = length recs.
Proof.
  induction recs as [|r rs IH]; intros len boff; cbn [sess_records snd length]; auto.
Qed.

Lemma sess_records_app : forall a b len boff,
  snd (sess_records B H crc len boff (a ++ b)) =
  snd (sess_records B H crc len boff a) ++
  snd (sess_records B H crc (len + blen (fst (append_all B H crc boff a)))
                    (snd (append_all B H crc boff a)) b).
Proof.
  induction a as [|r a IH]; intros b len boff.
  - cbn [app sess_records append_all fst snd]. rewrite blen_nil, N.add_0_r. reflexivity.
  - cbn [app sess_records append_all fst snd]. rewrite IH. rewrite blen_app, N.add_assoc.
    reflexivity.
Qed.

Lemma sess_records_ends : forall recs len boff r e,
  In (r, e) (snd (sess_records B H crc len boff recs)) ->
  e <= len + blen (fst (append_all B H crc boff recs)).
Proof.
  induction recs as [|r0 rs IH]; intros len boff r e Hin; cbn [sess_records snd] in Hin.
  - destruct Hin.
  - cbn [append_all fst]. rewrite blen_app. destruct Hin as [E|Hin].
    + injection E as _ <-. lia.
    + apply IH in Hin. lia.
Qed.

End SESS.

Lemma log_append_all_snoc_fst recs r boff :
  fst (log_append_all boff (recs ++ [r])) =
  fst (log_append_all boff recs) ++ fst (log_append (snd (log_append_all boff recs)) r).
Proof.
  unfold log_append_all, log_append. rewrite append_all_snoc. reflexivity.
Qed.

Lemma log_append_all_snoc_snd recs r boff :
  snd (log_append_all boff (recs ++ [r])) =
  snd (log_append (snd (log_append_all boff recs)) r).
Proof.
  unfold log_append_all, log_append. rewrite append_all_snoc. reflexivity.
Qed.

Lemma wal_script_ends (bs : list batch) :
  snd (log_script_run (wal_script [bs])) =
  snd (sess_records BLOCK_SIZE_BYTES HEADER_LENGTH_BYTES crc32c 0 0 (map batch_bytes bs)).
Proof.
  unfold log_script_run, script_run, wal_script.
  cbn [map fold_left script_step fst snd partial_complete partial_bytes app].
  rewrite app_nil_r. reflexivity.
Qed.

Lemma wal_bytes_one (bs : list batch) :
  wal_bytes_sessions [bs] = fst (log_append_all 0 (map batch_bytes bs)).
Proof. reflexivity. Qed.

(** The heart of T3: a log of complete records followed by the first [n] bytes of the emission
    of one more record is recovered as the complete records, plus the last one iff all of its
    emission is there. *)
Lemma torn_last (mem : list batch) (b : batch) (n : nat) :
  batches_ok (mem ++ [b]) ->
  let w := log_append_all 0 (map batch_bytes mem) in
  let em := log_append (snd w) (batch_bytes b) in
  wal_recover (fst w ++ firstn n (fst em)) =
  Some (mem ++ if (length (fst em) <=? n)%nat then [b] else []).
Proof.
  intros Hok. cbv zeta. unfold log_append_all, log_append.
  destruct (append_all BLOCK_SIZE_BYTES HEADER_LENGTH_BYTES crc32c 0 (map batch_bytes mem))
    as [wb wo] eqn:Ew.
  cbn [fst snd].
  destruct (append BLOCK_SIZE_BYTES HEADER_LENGTH_BYTES crc32c wo (batch_bytes b))
    as [eb eo] eqn:Ee.
  cbn [fst snd].
  assert (Efile : wal_bytes_sessions [mem ++ [b]] = wb ++ eb).
  { rewrite wal_bytes_one, map_app. unfold log_append_all.
    rewrite append_all_app, Ew. cbn [fst snd map]. rewrite append_all_one, Ee. reflexivity. }
  assert (Ecut : wb ++ firstn n eb =
                 takeN (blen wb + N.of_nat n) (wal_bytes_sessions [mem ++ [b]])).
  { rewrite Efile. unfold takeN, blen.
    replace (N.to_nat (N.of_nat (length wb) + N.of_nat n)) with (length wb + n)%nat by lia.
    rewrite firstn_add, firstn_app_exact, skipn_app_exact. reflexivity. }
  rewrite Ecut.
  destruct (wal_crash_atomic [mem ++ [b]] (blen wb + N.of_nat n)) as [_ [_ [k [Hk1 Hk2]]]].
  { constructor; [exact Hok|constructor]. }
  rewrite Hk1. cbn [concat]. rewrite app_nil_r. f_equal.
  rewrite wal_script_ends, map_app, sess_records_app, Ew in Hk2. cbn [map fst snd] in Hk2.
  assert (Hends : forall r e,
            In (r, e) (snd (sess_records BLOCK_SIZE_BYTES HEADER_LENGTH_BYTES crc32c 0 0
                                         (map batch_bytes mem))) -> e <= blen wb).
  { intros r e Hin. apply sess_records_ends in Hin. rewrite Ew in Hin. cbn [fst] in Hin. lia. }
  assert (HL : length (snd (sess_records BLOCK_SIZE_BYTES HEADER_LENGTH_BYTES crc32c 0 0
                                         (map batch_bytes mem))) = length mem).
  { rewrite sess_records_length, map_length. reflexivity. }
  revert Hk2 Hends HL.
  generalize (snd (sess_records BLOCK_SIZE_BYTES HEADER_LENGTH_BYTES crc32c 0 0 (map batch_bytes mem))).
  intros L Hk2 Hends HL.
  assert (Elast : snd (sess_records BLOCK_SIZE_BYTES HEADER_LENGTH_BYTES crc32c (0 + blen wb) wo
                                    [batch_bytes b]) = [(batch_bytes b, blen wb + blen eb)]).
  { rewrite sess_records_one, Ee. cbn [fst]. rewrite N.add_0_l. reflexivity. }
  rewrite Elast in Hk2. clear Elast Ew Ee Efile Ecut Hk1.
  (* the records of [mem] end inside [wb] *)
  assert (Hpre : forall j, (j < length mem)%nat -> (j < k)%nat).
  { intros j Hj. destruct (nth_error L j) as [[r e]|] eqn:En.
    - apply (Hk2 j r e); [rewrite nth_error_app1 by lia; exact En|].
      apply nth_error_In in En. apply Hends in En. lia.
    - apply nth_error_None in En. lia. }
  (* the last record ends at the end of its emission *)
  assert (Hlast : blen wb + blen eb <= blen wb + N.of_nat n <-> (length mem < k)%nat).
  { apply (Hk2 (length mem) (batch_bytes b)).
    rewrite nth_error_app2 by lia. rewrite HL, Nat.sub_diag. reflexivity. }
  destruct (length eb <=? n)%nat eqn:E.
  - apply Nat.leb_le in E. apply firstn_all2. rewrite app_length. cbn [length].
    unfold blen in Hlast. lia.
  - apply Nat.leb_gt in E. rewrite app_nil_r.
    assert (Hk : k = length mem).
    { unfold blen in Hlast. destruct (length mem) as [|m] eqn:Em.
      - lia.
      - specialize (Hpre m). lia. }
    rewrite Hk. apply firstn_app_exact.
Qed.

(** the state of a run that has not failed: the log holds exactly the memtable's batches *)
Definition wal_inv (s : fstate) : Prop :=
  f_wal s = fst (log_append_all 0 (map batch_bytes (f_mem s))) /\
  f_boff s = snd (log_append_all 0 (map batch_bytes (f_mem s))) /\
  batches_ok (f_mem s).

Lemma wal_inv_init : wal_inv f_init.
Proof. split; [reflexivity|]. split; [reflexivity|constructor]. Qed.

Lemma wal_inv_write s ops :
  wal_inv s -> batch_ok (f_seq s + 1, ops) = true ->
  wal_inv (mkF (f_wal s ++ fst (log_append (f_boff s) (batch_bytes (f_seq s + 1, ops))))
               (snd (log_append (f_boff s) (batch_bytes (f_seq s + 1, ops))))
               (f_mem s ++ [(f_seq s + 1, ops)]) (f_seq s + N.of_nat (length ops)) false).
Proof.
  intros [Hw [Hb Hok]] Hbo. unfold wal_inv. cbn [f_wal f_boff f_mem].
  rewrite map_app. cbn [map]. rewrite log_append_all_snoc_fst, log_append_all_snoc_snd.
  rewrite <- Hw, <- Hb.
  split; [reflexivity|]. split; [reflexivity|].
  apply Forall_app. split; [exact Hok|]. constructor; [exact Hbo|constructor].
Qed.

Lemma recover_run : forall ws s,
  f_bad s = false -> wal_inv s -> ws_enc_from (f_seq s) ws = true ->
  wal_recover (f_wal (fst (f_run s ws))) =
  Some (f_mem s ++ acked (f_seq s) ws false ++ f_extra s ws).
Proof.
  induction ws as [|[ops f] r IH]; intros s Hb Hinv Hok.
  - cbn [f_run fst acked f_extra app]. rewrite app_nil_r.
    destruct Hinv as [Hw [_ Hbs]]. rewrite Hw, <- wal_bytes_one.
    rewrite wal_recover_all by (constructor; [exact Hbs|constructor]).
    cbn [concat]. rewrite app_nil_r. reflexivity.
  - cbn [ws_enc_from] in Hok. apply andb_true_iff in Hok. destruct Hok as [Hbo Hok].
    destruct f as [|n]; cbn [f_run fst acked f_extra].
    + rewrite f_write_ok by assumption. cbn [fst].
      rewrite IH; [|reflexivity|apply wal_inv_write; assumption|exact Hok].
      cbn [f_mem f_seq]. rewrite <- app_assoc. reflexivity.
    + rewrite f_write_fail by assumption. cbn [fst]. rewrite f_run_bad by reflexivity.
      cbn [fst f_wal app].
      destruct Hinv as [Hw [Hbf Hbs]]. rewrite Hw, Hbf.
      apply (torn_last (f_mem s) (f_seq s + 1, ops) n).
      apply Forall_app. split; [exact Hbs|]. constructor; [exact Hbo|constructor].
Qed.

(** * T3. After the fault is gone and the database is reopened *)

Theorem faults_recover_enc ws :
  ws_enc_from 0 ws = true ->
  wal_recover (f_wal (fst (f_run f_init ws))) = Some (acked 0 ws false ++ f_extra f_init ws).
Proof.
  intros Hok. rewrite (recover_run ws f_init); [reflexivity|reflexivity|exact wal_inv_init|exact Hok].
Qed.

Theorem faults_reopen_enc ws :
  ws_enc_from 0 ws = true ->
  f_reopen (fst (f_run f_init ws)) = Some (replay [] (acked 0 ws false ++ f_extra f_init ws)).
Proof. intros Hok. unfold f_reopen. rewrite faults_recover_enc by assumption. reflexivity. Qed.

Theorem faults_reopen ws :
  ws_ok ws = true ->
  f_reopen (fst (f_run f_init ws)) = Some (replay [] (acked 0 ws false ++ f_extra f_init ws)).
Proof. intros Hok. apply faults_reopen_enc. apply ws_ok_enc. exact Hok. Qed.

(** the same, relative to what reads saw before the reopen *)
Corollary faults_reopen_contents ws :
  ws_ok ws = true ->
  f_reopen (fst (f_run f_init ws)) =
  Some (replay (f_contents (fst (f_run f_init ws))) (f_extra f_init ws)).
Proof.
  intros Hok. rewrite faults_reopen by assumption. rewrite faults_contents_acked, replay_app.
  reflexivity.
Qed.

(** no fault: nothing extra *)
Lemma f_extra_no_fault : forall ws s,
  first_fault ws = length ws -> f_extra s ws = [].
Proof.
  induction ws as [|[ops [|n]] r IH]; intros s Hk; cbn [first_fault length] in Hk.
  - reflexivity.
  - cbn [f_extra]. apply IH. lia.
  - discriminate Hk.
Qed.

Lemma f_extra_app_ok : forall pre s rest,
  first_fault pre = length pre ->
  f_bad s = false ->
  f_extra s (pre ++ rest) = f_extra (fst (f_run s pre)) rest /\
  f_bad (fst (f_run s pre)) = false.
Proof.
  induction pre as [|[ops [|n]] r IH]; intros s rest Hk Hb; cbn [first_fault length] in Hk.
  - cbn [app f_run fst]. auto.
  - cbn [app f_extra f_run fst]. apply IH; [lia|]. rewrite f_write_ok by assumption. reflexivity.
  - discriminate Hk.
Qed.

(** exactly when the failed batch is recovered: the faulted write is [(ops, FailAfter n)], the
    writes [pre] before it have no fault, [post] is arbitrary *)
Theorem faults_extra_exact pre ops n post :
  first_fault pre = length pre ->
  let s0 := fst (f_run f_init pre) in
  let b : batch := (f_seq s0 + 1, ops) in
  let em := log_append (f_boff s0) (batch_bytes b) in
  f_extra f_init (pre ++ (ops, FailAfter n) :: post) =
    (if (length (fst em) <=? n)%nat then [b] else []) /\
  (f_extra f_init (pre ++ (ops, FailAfter n) :: post) = [b] <-> (length (fst em) <= n)%nat) /\
  (f_extra f_init (pre ++ (ops, FailAfter n) :: post) = [] <-> (n < length (fst em))%nat).
Proof.
  intros Hk s0 b em.
  destruct (f_extra_app_ok pre f_init ((ops, FailAfter n) :: post) Hk eq_refl) as [E _].
  rewrite E. cbn [f_extra]. fold s0. fold b. fold em.
  destruct (length (fst em) <=? n)%nat eqn:C.
  - apply Nat.leb_le in C. split; [reflexivity|]. split; split; auto; try lia. discriminate.
  - apply Nat.leb_gt in C. split; [reflexivity|]. split; split; auto; try lia. discriminate.
Qed.

(** the decomposition always applies: either no write is faulted or the run has this shape *)
Lemma ws_shape : forall ws,
  first_fault ws = length ws \/
  exists pre ops n post,
    ws = pre ++ (ops, FailAfter n) :: post /\ first_fault pre = length pre /\
    first_fault ws = length pre.
Proof.
  induction ws as [|[ops [|n]] r IH].
  - left. reflexivity.
  - destruct IH as [IH|[pre [ops' [n [post [E1 [E2 E3]]]]]]].
    + left. cbn [first_fault length]. lia.
    + right. exists ((ops, NoFault) :: pre), ops', n, post. subst r.
      cbn [first_fault length app]. auto.
  - right. exists [], ops, n, r. auto.
Qed.

(** T3 in one statement: a run without a fault is recovered as it was acknowledged; a run whose
    first fault is [FailAfter n] at [ops] is recovered as the acknowledged batches plus the whole
    failed batch if [n] covers its emission, and as the acknowledged batches alone otherwise. *)
Theorem faults_reopen_cases ws :
  ws_ok ws = true ->
  (first_fault ws = length ws /\
   f_reopen (fst (f_run f_init ws)) = Some (replay [] (acked 0 ws false)))
  \/
  (exists pre ops n post,
     ws = pre ++ (ops, FailAfter n) :: post /\ first_fault pre = length pre /\
     let s0 := fst (f_run f_init pre) in
     let b : batch := (f_seq s0 + 1, ops) in
     let em := log_append (f_boff s0) (batch_bytes b) in
     ((length (fst em) <= n)%nat ->
        f_reopen (fst (f_run f_init ws)) = Some (replay [] (acked 0 ws false ++ [b]))) /\
     ((n < length (fst em))%nat ->
        f_reopen (fst (f_run f_init ws)) = Some (replay [] (acked 0 ws false)))).
Proof.
  intros Hok. pose proof (faults_reopen ws Hok) as Hr.
  destruct (ws_shape ws) as [Hn|[pre [ops [n [post [E1 [E2 _]]]]]]].
  - left. split; [exact Hn|]. rewrite (f_extra_no_fault ws f_init Hn), app_nil_r in Hr. exact Hr.
  - right. exists pre, ops, n, post. split; [exact E1|]. split; [exact E2|].
    destruct (faults_extra_exact pre ops n post E2) as [_ [[_ H1] [_ H2]]].
    cbv zeta. rewrite <- E1 in H1, H2. split; intros Hc.
    + rewrite (H1 Hc) in Hr. exact Hr.
    + rewrite (H2 Hc), app_nil_r in Hr. exact Hr.
Qed.

(** every write that returned Ok is present after the reopen *)
Corollary faults_acked_recovered ws :
  ws_ok ws = true ->
  exists bs, wal_recover (f_wal (fst (f_run f_init ws))) = Some bs /\
             firstn (length (acked 0 ws false)) bs = acked 0 ws false /\
             (forall b, In b (acked 0 ws false) -> In b bs).
Proof.
  intros Hok. exists (acked 0 ws false ++ f_extra f_init ws).
  split; [apply faults_recover_enc, ws_ok_enc, Hok|].
  split; [apply firstn_app_exact|]. intros b Hb. apply in_or_app. auto.
Qed.

(** * T4. Sequence numbers *)

Lemma fold_ops_acc : forall (bs : list batch) a,
  fold_left (fun a b => a + N.of_nat (length (snd b))) bs a = a + total_ops bs.
Proof.
  unfold total_ops. induction bs as [|b bs IH]; intros a; cbn [fold_left]; [lia|].
  rewrite IH, (IH (0 + _)). lia.
Qed.

Lemma total_ops_cons b bs : total_ops (b :: bs) = N.of_nat (length (snd b)) + total_ops bs.
Proof. unfold total_ops at 1. cbn [fold_left]. rewrite fold_ops_acc. lia. Qed.

Lemma total_ops_app a b : total_ops (a ++ b) = total_ops a + total_ops b.
Proof.
  induction a as [|x a IH]; [cbn [app]; unfold total_ops at 2; cbn [fold_left]; lia|].
  cbn [app]. rewrite !total_ops_cons, IH. lia.
Qed.

Lemma batches_chained_app : forall a b start,
  batches_chained start (a ++ b) =
  batches_chained start a && batches_chained (start + total_ops a) b.
Proof.
  induction a as [|x a IH]; intros b start.
  - cbn [app batches_chained andb]. unfold total_ops. cbn [fold_left]. rewrite N.add_0_r. reflexivity.
  - cbn [app batches_chained]. rewrite IH, total_ops_cons, N.add_assoc, andb_assoc. reflexivity.
Qed.

Lemma attempted_chained : forall ws seq, batches_chained seq (attempted seq ws) = true.
Proof.
  induction ws as [|[ops [|n]] r IH]; intros seq; cbn [attempted batches_chained fst snd].
  - reflexivity.
  - rewrite N.eqb_refl, IH. reflexivity.
  - rewrite N.eqb_refl. reflexivity.
Qed.

Lemma seq_attempted : forall ws s,
  f_bad s = false -> f_seq (fst (f_run s ws)) = f_seq s + total_ops (attempted (f_seq s) ws).
Proof.
  induction ws as [|[ops [|n]] r IH]; intros s Hb; cbn [f_run fst attempted].
  - unfold total_ops. cbn [fold_left]. lia.
  - rewrite f_write_ok by assumption. cbn [fst]. rewrite IH by reflexivity. cbn [f_seq].
    rewrite total_ops_cons. cbn [snd]. lia.
  - rewrite f_write_fail by assumption. cbn [fst]. rewrite f_run_bad by reflexivity.
    cbn [fst f_seq]. rewrite total_ops_cons. cbn [snd]. unfold total_ops. cbn [fold_left]. lia.
Qed.

(** what is recovered is a prefix of what was attempted *)
Lemma recovered_prefix : forall ws s,
  f_bad s = false ->
  exists tl, attempted (f_seq s) ws = acked (f_seq s) ws false ++ f_extra s ws ++ tl.
Proof.
  induction ws as [|[ops [|n]] r IH]; intros s Hb; cbn [attempted acked f_extra].
  - exists []. reflexivity.
  - rewrite f_write_ok by assumption. cbn [fst].
    match goal with |- context [f_extra ?s' r] => destruct (IH s' eq_refl) as [tl E] end.
    cbn [f_seq] in E. exists tl. rewrite E. reflexivity.
  - cbv zeta. destruct (_ <=? n)%nat; [exists []|exists [(f_seq s + 1, ops)]]; reflexivity.
Qed.

Lemma fold_max_in : forall (bs : list batch) z b,
  In b bs -> fst b + N.of_nat (length (snd b)) - 1
             <= fold_left (fun m b => N.max m (fst b + N.of_nat (length (snd b)) - 1)) bs z.
Proof.
  induction bs as [|c bs IH]; intros z b Hin; [destruct Hin|].
  cbn [fold_left]. destruct Hin as [->|Hin].
  - pose proof (fold_max_ge bs (N.max z (fst b + N.of_nat (length (snd b)) - 1))). lia.
  - apply IH. exact Hin.
Qed.

(** The published sequence number bounds the last sequence number of every batch that a reopen
    recovers; the recovered batches are chained from 0, so the last sequence number computed by
    recovery is the number of recovered operations and a batch written after the reopen, which
    starts at that number plus one, continues the chain: its sequence numbers are fresh. *)
Theorem faults_seq_enc ws bs :
  ws_enc_from 0 ws = true ->
  wal_recover (f_wal (fst (f_run f_init ws))) = Some bs ->
  let s := fst (f_run f_init ws) in
  f_seq s = total_ops (attempted 0 ws) /\
  batches_chained 0 bs = true /\
  recovered_last_seq bs = total_ops bs /\
  recovered_last_seq bs <= f_seq s /\
  (forall b, In b bs -> fst b + N.of_nat (length (snd b)) - 1 <= f_seq s) /\
  (forall ops, batches_chained 0 (bs ++ [(recovered_last_seq bs + 1, ops)]) = true).
Proof.
  intros Hok Hr. cbv zeta. rewrite faults_recover_enc in Hr by assumption. injection Hr as Hr.
  destruct (recovered_prefix ws f_init eq_refl) as [tl Hp]. cbn [f_seq f_init] in Hp.
  rewrite app_assoc, Hr in Hp.
  assert (Hseq : f_seq (fst (f_run f_init ws)) = total_ops (attempted 0 ws)).
  { rewrite seq_attempted by reflexivity. cbn [f_seq f_init]. lia. }
  pose proof (attempted_chained ws 0) as Hc. rewrite Hp, batches_chained_app in Hc.
  apply andb_true_iff in Hc. destruct Hc as [Hc _].
  pose proof (chained_last_seq bs 0 Hc) as Hl.
  assert (Hl' : recovered_last_seq bs = total_ops bs) by lia.
  assert (Hle : recovered_last_seq bs <= f_seq (fst (f_run f_init ws))).
  { rewrite Hseq, Hp, total_ops_app. lia. }
  split; [exact Hseq|]. split; [exact Hc|]. split; [exact Hl'|]. split; [exact Hle|]. split.
  - intros b Hb. pose proof (fold_max_in bs 0 b Hb) as Hm. fold (recovered_last_seq bs) in Hm. lia.
  - intros ops. rewrite batches_chained_app, Hc, Hl'. cbn [andb batches_chained fst].
    rewrite N.add_0_l, N.eqb_refl. reflexivity.
Qed.

Theorem faults_seq ws bs :
  ws_ok ws = true ->
  wal_recover (f_wal (fst (f_run f_init ws))) = Some bs ->
  let s := fst (f_run f_init ws) in
  f_seq s = total_ops (attempted 0 ws) /\
  batches_chained 0 bs = true /\
  recovered_last_seq bs = total_ops bs /\
  recovered_last_seq bs <= f_seq s /\
  (forall b, In b bs -> fst b + N.of_nat (length (snd b)) - 1 <= f_seq s) /\
  (forall ops, batches_chained 0 (bs ++ [(recovered_last_seq bs + 1, ops)]) = true).
Proof. intros Hok. apply faults_seq_enc. apply ws_ok_enc. exact Hok. Qed.

(** * T5. Examples (non-vacuity) *)

Definition ex_ops1 : list wop := [WPut [1] [10]].
Definition ex_ops2 : list wop := [WPut [2] [20]; WDel [1]].
Definition ex_ops3 : list wop := [WPut [3] [30]].
(** three writes, the second one faulted after [n] bytes *)
Definition ex_ws (n : nat) : wlist :=
  [(ex_ops1, NoFault); (ex_ops2, FailAfter n); (ex_ops3, NoFault)].

(** the emission of the second write has 24 bytes (the first one 21) *)
Example ex_emission_length :
  length (fst (log_append 0 (batch_bytes (1, ex_ops1)))) = 21%nat /\
  length (fst (log_append (f_boff (fst (f_run f_init [(ex_ops1, NoFault)])))
                          (batch_bytes (2, ex_ops2)))) = 24%nat.
Proof. vm_compute. split; reflexivity. Qed.

Example ex_ws_ok : forall n, ws_ok (ex_ws n) = true.
Proof. intros n. vm_compute. reflexivity. Qed.

(** results, what reads see, the published sequence number: the same for every [n] *)
Example ex_run_results : forall n,
  let s := fst (f_run f_init (ex_ws n)) in
  snd (f_run f_init (ex_ws n)) = [WOk; WErr; WErr] /\
  f_mem s = [(1, ex_ops1)] /\ f_contents s = [([1], [10])] /\ f_seq s = 3 /\ f_bad s = true.
Proof. intros n. vm_compute. repeat split; reflexivity. Qed.

(** nothing, a few bytes, all but one byte of the emission: the failed write is not recovered *)
Example ex_fault_0 :
  let s := fst (f_run f_init (ex_ws 0)) in
  length (f_wal s) = 21%nat /\ f_reopen s = Some [([1], [10])] /\ f_extra f_init (ex_ws 0) = [].
Proof. vm_compute. repeat split; reflexivity. Qed.

Example ex_fault_5 :
  let s := fst (f_run f_init (ex_ws 5)) in
  length (f_wal s) = 26%nat /\ f_reopen s = Some [([1], [10])] /\ f_extra f_init (ex_ws 5) = [].
Proof. vm_compute. repeat split; reflexivity. Qed.

Example ex_fault_23 :
  let s := fst (f_run f_init (ex_ws 23)) in
  length (f_wal s) = 44%nat /\ f_reopen s = Some [([1], [10])] /\ f_extra f_init (ex_ws 23) = [].
Proof. vm_compute. repeat split; reflexivity. Qed.

(** all bytes (or more): the write that returned an error is recovered completely; it deleted
    key [1] and put key [2] *)
Example ex_fault_24 :
  let s := fst (f_run f_init (ex_ws 24)) in
  length (f_wal s) = 45%nat /\ f_reopen s = Some [([2], [20])] /\
  f_extra f_init (ex_ws 24) = [(2, ex_ops2)].
Proof. vm_compute. repeat split; reflexivity. Qed.

Example ex_fault_1000 :
  let s := fst (f_run f_init (ex_ws 1000)) in
  length (f_wal s) = 45%nat /\ f_reopen s = Some [([2], [20])] /\
  f_extra f_init (ex_ws 1000) = [(2, ex_ops2)].
Proof. vm_compute. repeat split; reflexivity. Qed.

(** no fault at all *)
Example ex_no_fault :
  let ws := [(ex_ops1, NoFault); (ex_ops2, NoFault); (ex_ops3, NoFault)] in
  let s := fst (f_run f_init ws) in
  snd (f_run f_init ws) = [WOk; WOk; WOk] /\
  f_contents s = [([2], [20]); ([3], [30])] /\ f_reopen s = Some [([2], [20]); ([3], [30])] /\
  f_seq s = 4.
Proof. vm_compute. repeat split; reflexivity. Qed.

(** an emission of two fragments (33029 bytes, the first fragment fills the first block): with
    the whole first fragment in the file (and any number of bytes of the second but the last)
    the failed write is not recovered, not even in part *)
Definition ex_big_ops : list wop := [WPut [2] (repeat 7 (N.to_nat 33000))].
Definition ex_big_ws (n : N) : wlist :=
  [(ex_ops1, NoFault); (ex_big_ops, FailAfter (N.to_nat n)); (ex_ops3, NoFault)].

Example ex_big_first_fragment :
  let s := fst (f_run f_init (ex_big_ws 32747)) in
  blen (f_wal s) = 32768 /\ f_reopen s = Some [([1], [10])].
Proof. vm_compute. split; reflexivity. Qed.

Example ex_big_all_but_one :
  let s := fst (f_run f_init (ex_big_ws 33028)) in
  blen (f_wal s) = 33049 /\ f_reopen s = Some [([1], [10])].
Proof. vm_compute. split; reflexivity. Qed.

Example ex_big_all :
  let s := fst (f_run f_init (ex_big_ws 33029)) in
  blen (f_wal s) = 33050 /\
  option_map (map (fun e : kv => (fst e, blen (snd e)))) (f_reopen s) = Some [([1], 1); ([2], 33000)].
Proof. vm_compute. split; reflexivity. Qed.

(** T4: the published sequence number can be strictly larger than what a reopen computes (the
    numbers 2 and 3 of the failed write are handed out again after the reopen; the failed batch
    is then neither in the log nor in the memtable) *)
Example ex_seq_gap :
  let s := fst (f_run f_init (ex_ws 0)) in
  f_seq s = 3 /\ option_map recovered_last_seq (wal_recover (f_wal s)) = Some 1.
Proof. vm_compute. split; reflexivity. Qed.
