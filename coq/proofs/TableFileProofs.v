(** The byte layout of table files ([model/TableFile.v]): stored blocks read back through their
    handles, a single changed byte of a stored block is always reported as a checksum mismatch,
    handles and the footer round trip, and the magic number of the footer is checked. No axioms. *)
From Coq Require Import Lia ZArith ZifyN ZifyBool ZifyNat Arith List NArith Bool.
From RainVerif Require Import Params.
From RainVerif.model Require Import Bytes Crc Block LogScript TableFile.
From RainVerif.proofs Require LogProofs.
From RainVerif.proofs Require Import CrcProofs BlockProofs WalProofs.
Import ListNotations.
Open Scope N_scope.
Ltac Zify.zify_post_hook ::= Z.div_mod_to_equations.
Arguments N.add : simpl never.
Arguments N.sub : simpl never.
Arguments N.mul : simpl never.
Arguments N.div : simpl never.
Arguments N.modulo : simpl never.
Arguments N.eqb : simpl never.
Arguments N.ltb : simpl never.
Arguments N.leb : simpl never.
Arguments N.pow : simpl never.
Arguments N.of_nat : simpl never.
Arguments N.to_nat : simpl never.

(** * Stored blocks *)

Definition sb_body (p : bytes) (t : N) : bytes := p ++ [t].
Definition sb_crc (p : bytes) (t : N) : bytes := le_encode 4 (mask_checksum (crc32c (p ++ [t]))).

Lemma stored_block_split p t : stored_block p t = sb_body p t ++ sb_crc p t.
Proof. unfold stored_block, sb_body, sb_crc. rewrite <- app_assoc. reflexivity. Qed.

Lemma blen_sb_body p t : blen (sb_body p t) = blen p + 1.
Proof. unfold sb_body. rewrite blen_app. unfold blen. cbn [length]. lia. Qed.

Lemma blen_sb_crc p t : blen (sb_crc p t) = 4.
Proof. reflexivity. Qed.

Lemma blen_stored p t : blen (stored_block p t) = blen p + 5.
Proof. rewrite stored_block_split, blen_app, blen_sb_body, blen_sb_crc. lia. Qed.

(** what [read_block_at] does once the [size + 5] bytes of the block are at hand *)
Definition check_raw (n : N) (raw : bytes) : block_read :=
  if negb (crc32c (takeN (n + 1) raw) =? unmask_checksum (le_decode (dropN (n + 1) raw)))
  then BChecksum
  else
    let ctype := nth (N.to_nat n) raw 0 in
    if 1 <? ctype then BType else BOk (takeN n raw) ctype.

Lemma read_block_at_raw pre raw post n :
  blen raw = n + 5 ->
  read_block_at (pre ++ raw ++ post) (mkH (blen pre) n) = check_raw n raw.
Proof.
  intros Hr. unfold read_block_at, check_raw. cbn [h_off h_size]. unfold BLOCK_TRAILER.
  rewrite (dropN_app_exact pre (raw ++ post) (blen pre) eq_refl).
  rewrite (takeN_app_exact raw post (n + 5)) by (symmetry; exact Hr).
  rewrite Hr, N.ltb_irrefl. reflexivity.
Qed.

Lemma to_nat_blen (a : bytes) : N.to_nat (blen a) = length a.
Proof. unfold blen. lia. Qed.

(** T1 *)
Theorem read_stored pre p t post :
  t <= 1 ->
  read_block_at (pre ++ stored_block p t ++ post) (mkH (blen pre) (blen p)) = BOk p t.
Proof.
  intros Ht. rewrite read_block_at_raw by apply blen_stored.
  unfold check_raw. rewrite stored_block_split.
  rewrite (takeN_app_exact (sb_body p t) (sb_crc p t)) by (symmetry; apply blen_sb_body).
  rewrite (dropN_app_exact (sb_body p t) (sb_crc p t)) by (symmetry; apply blen_sb_body).
  unfold sb_crc. rewrite LogProofs.le4 by apply mask_bound.
  rewrite unmask_mask by apply crc32c_bound.
  fold (sb_body p t). rewrite N.eqb_refl. cbn [negb].
  unfold sb_body. rewrite <- app_assoc.
  rewrite app_nth2 by (rewrite to_nat_blen; lia).
  rewrite to_nat_blen, Nat.sub_diag. cbn [app nth].
  destruct (N.ltb_spec 1 t) as [L|L]; [lia|].
  rewrite (takeN_app_exact p) by reflexivity. reflexivity.
Qed.

(** T2 *)
Lemma layout_blocks_cons off p t r :
  layout_blocks off ((p, t) :: r) =
  (stored_block p t ++ fst (layout_blocks (off + blen p + BLOCK_TRAILER) r),
   mkH off (blen p) :: snd (layout_blocks (off + blen p + BLOCK_TRAILER) r)).
Proof. reflexivity. Qed.

Lemma layout_read_back_gen : forall blocks off pre post,
  blen pre = off ->
  Forall (fun b => snd b <= 1) blocks ->
  Forall2 (fun h b => read_block_at (pre ++ fst (layout_blocks off blocks) ++ post) h
                      = BOk (fst b) (snd b))
          (snd (layout_blocks off blocks)) blocks.
Proof.
  induction blocks as [|[p t] r IH]; intros off pre post Hpre Hok.
  - constructor.
  - rewrite layout_blocks_cons. cbn [fst snd].
    inversion Hok as [|? ? Ht Hr]; subst. cbn [snd] in Ht.
    constructor.
    + cbn [fst snd]. rewrite <- app_assoc. apply read_stored. exact Ht.
    + specialize (IH (blen pre + blen p + BLOCK_TRAILER) (pre ++ stored_block p t) post).
      rewrite <- !app_assoc in IH. rewrite <- (app_assoc (stored_block p t)).
      apply IH; [|exact Hr].
      rewrite blen_app, blen_stored. unfold BLOCK_TRAILER. lia.
Qed.

Theorem layout_read_back blocks off bs handles pre post :
  layout_blocks off blocks = (bs, handles) ->
  blen pre = off ->
  Forall (fun b => snd b <= 1) blocks ->
  Forall2 (fun h b => read_block_at (pre ++ bs ++ post) h = BOk (fst b) (snd b)) handles blocks.
Proof.
  intros E Hpre Hok.
  pose proof (layout_read_back_gen blocks off pre post Hpre Hok) as H.
  rewrite E in H. exact H.
Qed.

(** the handles of a layout: consecutive, each of the size of its payload *)
Lemma layout_blocks_length : forall blocks off,
  length (snd (layout_blocks off blocks)) = length blocks.
Proof.
  induction blocks as [|[p t] r IH]; intros off; [reflexivity|].
  rewrite layout_blocks_cons. cbn [snd length]. rewrite IH. reflexivity.
Qed.

(** T3 *)
Lemma sb_body_bytes p t : is_bytes p -> t <= 1 -> is_bytes (sb_body p t).
Proof.
  intros Hp Ht. unfold sb_body, is_bytes. apply Forall_app. split; [exact Hp|].
  constructor; [lia|constructor].
Qed.

Lemma is_bytes_nth (l : bytes) k : is_bytes l -> nth k l 0 < 256.
Proof.
  intros Hl. revert k. induction Hl as [|x l Hx Hl IH]; intros k.
  - destruct k; cbn [nth]; lia.
  - destruct k; cbn [nth]; [exact Hx|apply IH].
Qed.

Lemma check_raw_body_changed p t k v :
  is_bytes p -> t <= 1 -> (k < length (sb_body p t))%nat ->
  v < 256 -> v <> nth k (sb_body p t) 0 ->
  check_raw (blen p) (update_at k v (sb_body p t) ++ sb_crc p t) = BChecksum.
Proof.
  intros Hp Ht Hk Hv Hne.
  pose proof (is_bytes_nth _ k (sb_body_bytes p t Hp Ht)) as Hx.
  destruct (update_at_split (sb_body p t) k v Hk) as [E1 E2].
  unfold check_raw.
  assert (Hl : blen (update_at k v (sb_body p t)) = blen p + 1).
  { unfold blen at 1. rewrite length_update_at. apply blen_sb_body. }
  rewrite (takeN_app_exact (update_at k v (sb_body p t))) by (symmetry; exact Hl).
  rewrite (dropN_app_exact (update_at k v (sb_body p t))) by (symmetry; exact Hl).
  unfold sb_crc. rewrite LogProofs.le4 by apply mask_bound.
  rewrite unmask_mask by apply crc32c_bound.
  fold (sb_body p t).
  replace (crc32c (update_at k v (sb_body p t)) =? crc32c (sb_body p t)) with false;
    [reflexivity|].
  symmetry. apply N.eqb_neq. rewrite E2.
  set (a := firstn k (sb_body p t)) in *. set (c := skipn (S k) (sb_body p t)) in *.
  set (x := nth k (sb_body p t) 0) in *. clearbody a c x. rewrite E1.
  apply (crc32c_detects_single_byte a v x c); [exact Hv|exact Hx|exact Hne].
Qed.

Lemma check_raw_crc_changed p t j v :
  (j < 4)%nat -> v < 256 -> v <> nth j (sb_crc p t) 0 ->
  check_raw (blen p) (sb_body p t ++ update_at j v (sb_crc p t)) = BChecksum.
Proof.
  intros Hj Hv Hne. unfold check_raw.
  rewrite (takeN_app_exact (sb_body p t)) by (symmetry; apply blen_sb_body).
  rewrite (dropN_app_exact (sb_body p t)) by (symmetry; apply blen_sb_body).
  match goal with |- (if negb ?c then _ else _) = _ => replace c with false; [reflexivity|] end.
  symmetry. apply N.eqb_neq. intros E.
  revert Hne E. unfold sb_crc. fold (sb_body p t).
  pose proof (unmask_mask (crc32c (sb_body p t)) (crc32c_bound _)) as Hum.
  pose proof (mask_bound (crc32c (sb_body p t))) as Hm. unfold two32 in Hm.
  set (m := mask_checksum (crc32c (sb_body p t))) in *. clearbody m.
  intros Hne E. rewrite <- Hum in E.
  cbn [le_encode] in *.
  destruct j as [|[|[|[|j]]]]; [| | | |lia];
    cbn [update_at nth] in *;
    (apply unmask_inj in E; [cbn [le_decode] in E; lia|exact Hm|cbn [le_decode]; unfold two32; lia]).
Qed.

Theorem block_single_byte_detected pre p t post o v :
  is_bytes p -> t <= 1 ->
  blen pre <= o < blen pre + blen p + 5 ->
  v < 256 ->
  v <> nth (N.to_nat o) (pre ++ stored_block p t ++ post) 0 ->
  read_block_at (update_at (N.to_nat o) v (pre ++ stored_block p t ++ post))
                (mkH (blen pre) (blen p)) = BChecksum.
Proof.
  intros Hp Ht Ho Hv Hne.
  pose proof (blen_stored p t) as Hsb.
  pose proof (blen_sb_body p t) as Hbd.
  assert (Ek : N.to_nat o = (length pre + (N.to_nat o - length pre))%nat)
    by (unfold blen in Ho; lia).
  set (k := (N.to_nat o - length pre)%nat) in *.
  assert (Hk : (k < length (stored_block p t))%nat) by (unfold blen in *; lia).
  rewrite Ek in Hne |- *. clear Ek.
  rewrite app_nth2_plus in Hne. rewrite app_nth1 in Hne by exact Hk.
  rewrite update_at_app_r, update_at_app_l by exact Hk.
  rewrite read_block_at_raw
    by (unfold blen at 1; rewrite length_update_at; exact Hsb).
  rewrite stored_block_split in *.
  destruct (Nat.lt_ge_cases k (length (sb_body p t))) as [L|L].
  - rewrite app_nth1 in Hne by exact L.
    rewrite update_at_app_l by exact L.
    apply check_raw_body_changed; assumption.
  - assert (Ej : k = (length (sb_body p t) + (k - length (sb_body p t)))%nat) by lia.
    set (j := (k - length (sb_body p t))%nat) in *.
    assert (Hj : (j < 4)%nat).
    { rewrite app_length in Hk. change (length (sb_crc p t)) with 4%nat in Hk. lia. }
    rewrite Ej in Hne |- *. clear Ej.
    rewrite app_nth2_plus in Hne. rewrite update_at_app_r.
    apply check_raw_crc_changed; assumption.
Qed.

(** * Handles *)

Lemma varint_enc_length k : forall fe n,
  n < 128 ^ N.of_nat (S k) -> (k <= fe)%nat -> (length (varint_enc fe n) <= S k)%nat.
Proof.
  induction k as [|k IH]; intros fe n Hn Hfe.
  - change (128 ^ N.of_nat 1) with 128 in Hn.
    destruct fe as [|fe]; cbn [varint_enc]; [cbn [length]; lia|].
    destruct (N.ltb_spec n 128) as [L|L]; [cbn [length]; lia|lia].
  - destruct fe as [|fe]; [lia|]. cbn [varint_enc].
    destruct (N.ltb_spec n 128) as [L|L]; [cbn [length]; lia|].
    rewrite Nat2N.inj_succ, N.pow_succ_r' in Hn.
    cbn [length]. apply le_n_S. apply IH; [|lia].
    apply N.div_lt_upper_bound; lia.
Qed.

Lemma varint_enc_bytes : forall fe n, is_bytes (varint_enc fe n).
Proof.
  induction fe as [|fe IH]; intros n; cbn [varint_enc].
  - constructor; [lia|constructor].
  - destruct (N.ltb_spec n 128) as [L|L].
    + constructor; [lia|constructor].
    + constructor; [lia|apply IH].
Qed.

Definition two64 : N := 18446744073709551616.

Lemma pow128_10 : 128 ^ N.of_nat 10 = 1180591620717411303424.
Proof. reflexivity. Qed.

Lemma varint64_dec_enc n rest :
  n < two64 ->
  varint_dec 10 0 0 (varint_enc 10 n ++ rest) = Some (n, length (varint_enc 10 n)).
Proof.
  intros Hn. unfold two64 in Hn.
  rewrite (varint_dec_enc 9 10 10 n 0 0 rest);
    [rewrite N.pow_0_r; f_equal; f_equal; lia
    |rewrite pow128_10; lia|lia|lia|rewrite N.pow_0_r; lia].
Qed.

Lemma varint64_length n : n < two64 -> (length (varint_enc 10 n) <= 10)%nat.
Proof.
  intros Hn. unfold two64 in Hn. apply (varint_enc_length 9); [rewrite pow128_10|]; lia.
Qed.

Definition handle_ok (h : handle) : Prop := h_off h < two64 /\ h_size h < two64.

Lemma handle_encode_length h : handle_ok h -> (length (handle_encode h) <= 20)%nat.
Proof.
  intros [Ho Hs]. unfold handle_encode. rewrite app_length.
  pose proof (varint64_length _ Ho). pose proof (varint64_length _ Hs). lia.
Qed.

Lemma handle_decode_encode h rest :
  handle_ok h ->
  handle_decode (handle_encode h ++ rest) = Some (h, length (handle_encode h)).
Proof.
  intros [Ho Hs]. unfold handle_decode, handle_encode.
  rewrite <- app_assoc. rewrite varint64_dec_enc by exact Ho.
  rewrite LogProofs.skipn_app_exact.
  rewrite varint64_dec_enc by exact Hs.
  rewrite app_length. destruct h; reflexivity.
Qed.

(** T4 *)
Theorem handle_roundtrip h rest :
  h_off h < 18446744073709551616 -> h_size h < 18446744073709551616 ->
  handle_decode (handle_encode h ++ rest) = Some (h, length (handle_encode h)) /\
  (length (handle_encode h) <= 20)%nat.
Proof.
  intros Ho Hs. split; [apply handle_decode_encode|apply handle_encode_length]; split; assumption.
Qed.

Lemma handle_encode_bytes h : is_bytes (handle_encode h).
Proof. unfold handle_encode, is_bytes. apply Forall_app. split; apply varint_enc_bytes. Qed.

(** * The footer *)

Definition magic_bytes : bytes := [110; 6; 0; 0; 0; 0; 0; 0].

Lemma magic_bytes_eq : le_encode 8 TABLE_MAGIC = magic_bytes.
Proof. reflexivity. Qed.

Definition footer_hs (m i : handle) : bytes := handle_encode m ++ handle_encode i.

Lemma footer_encode_eq m i :
  footer_encode m i =
  footer_hs m i ++ repeat 0 (40 - length (footer_hs m i)) ++ magic_bytes.
Proof. reflexivity. Qed.

Lemma footer_hs_length m i : handle_ok m -> handle_ok i -> (length (footer_hs m i) <= 40)%nat.
Proof.
  intros Hm Hi. unfold footer_hs. rewrite app_length.
  pose proof (handle_encode_length m Hm). pose proof (handle_encode_length i Hi). lia.
Qed.

Lemma footer_encode_length m i :
  (length (footer_hs m i) <= 40)%nat -> length (footer_encode m i) = 48%nat.
Proof.
  intros H. rewrite footer_encode_eq, !app_length, repeat_length. cbn [magic_bytes length]. lia.
Qed.

Lemma footer_encode_tail m i :
  (length (footer_hs m i) <= 40)%nat -> skipn 40 (footer_encode m i) = magic_bytes.
Proof.
  intros H. rewrite footer_encode_eq, app_assoc.
  set (x := footer_hs m i ++ repeat 0 (40 - length (footer_hs m i))).
  assert (E : length x = 40%nat) by (subst x; rewrite app_length, repeat_length; lia).
  rewrite <- E. apply LogProofs.skipn_app_exact.
Qed.

Lemma footer_blen m i : handle_ok m -> handle_ok i -> blen (footer_encode m i) = 48.
Proof.
  intros Hm Hi. unfold blen. rewrite footer_encode_length by (apply footer_hs_length; assumption).
  reflexivity.
Qed.

Lemma footer_decode_encode m i :
  handle_ok m -> handle_ok i -> footer_decode (footer_encode m i) = Some (m, i).
Proof.
  intros Hm Hi. unfold footer_decode.
  rewrite footer_blen by assumption. unfold FOOTER_SIZE. rewrite N.eqb_refl. cbn [negb].
  rewrite footer_encode_tail by (apply footer_hs_length; assumption).
  change (le_decode magic_bytes =? TABLE_MAGIC) with true. cbn [negb].
  rewrite footer_encode_eq. unfold footer_hs. rewrite <- !app_assoc.
  rewrite handle_decode_encode by exact Hm.
  rewrite LogProofs.skipn_app_exact.
  rewrite handle_decode_encode by exact Hi. reflexivity.
Qed.

Lemma file_footer_encode body m i :
  handle_ok m -> handle_ok i -> file_footer (body ++ footer_encode m i) = Some (m, i).
Proof.
  intros Hm Hi. unfold file_footer. rewrite blen_app, footer_blen by assumption.
  unfold FOOTER_SIZE.
  destruct (N.ltb_spec (blen body + 48) 48) as [L|L]; [lia|].
  rewrite (dropN_app_exact body) by lia.
  apply footer_decode_encode; assumption.
Qed.

(** T5 *)
Theorem footer_roundtrip m i body :
  h_off m < 18446744073709551616 -> h_size m < 18446744073709551616 ->
  h_off i < 18446744073709551616 -> h_size i < 18446744073709551616 ->
  footer_decode (footer_encode m i) = Some (m, i) /\
  blen (footer_encode m i) = 48 /\
  file_footer (body ++ footer_encode m i) = Some (m, i).
Proof.
  intros A B C D.
  assert (Hm : handle_ok m) by (split; assumption).
  assert (Hi : handle_ok i) by (split; assumption).
  split; [apply footer_decode_encode; assumption|].
  split; [apply footer_blen; assumption|apply file_footer_encode; assumption].
Qed.

(** T6 *)
Lemma skipn_update_at (l : bytes) v : forall n j,
  skipn n (update_at (n + j) v l) = update_at j v (skipn n l).
Proof.
  induction l as [|x l IH]; intros n j.
  - destruct n; destruct j; reflexivity.
  - destruct n as [|n]; [reflexivity|]. cbn [Nat.add update_at skipn]. apply IH.
Qed.

Lemma nth_skipn (l : bytes) : forall n j, nth j (skipn n l) 0 = nth (n + j) l 0.
Proof.
  induction l as [|x l IH]; intros n j.
  - destruct n; destruct j; reflexivity.
  - destruct n as [|n]; [reflexivity|]. cbn [Nat.add nth skipn]. apply IH.
Qed.

Lemma is_bytes_skipn (l : bytes) : forall n, is_bytes l -> is_bytes (skipn n l).
Proof.
  induction l as [|x l IH]; intros n Hl; [destruct n; constructor|].
  destruct n as [|n]; [exact Hl|]. cbn [skipn]. apply IH. inversion Hl; assumption.
Qed.

(** any 48 bytes that carry the magic number stop carrying it when one of the last eight
    bytes is changed *)
Lemma magic_checked_gen (b : bytes) k v :
  is_bytes b -> (40 <= k < 48)%nat -> v < 256 -> v <> nth k b 0 ->
  le_decode (skipn 40 b) = TABLE_MAGIC ->
  footer_decode (update_at k v b) = None.
Proof.
  intros Hb Hk Hv Hne Hmagic. unfold footer_decode.
  destruct (N.eqb_spec (blen (update_at k v b)) FOOTER_SIZE) as [El|El]; [|reflexivity].
  cbn [negb].
  match goal with |- (if negb ?c then _ else _) = _ => replace c with false; [reflexivity|] end.
  symmetry. apply N.eqb_neq.
  unfold blen in El. rewrite length_update_at in El. unfold FOOTER_SIZE in El.
  assert (Ek : k = (40 + (k - 40))%nat) by lia.
  set (j := (k - 40)%nat) in *. assert (Hj : (j < 8)%nat) by lia.
  rewrite Ek in Hne |- *. clear Ek Hk.
  rewrite skipn_update_at. rewrite <- nth_skipn in Hne.
  pose proof (is_bytes_skipn b 40 Hb) as Ht.
  assert (Hlt : length (skipn 40 b) = 8%nat) by (rewrite skipn_length; lia).
  revert Hne Hmagic Ht Hlt. generalize (skipn 40 b) as tl. unfold TABLE_MAGIC.
  intros tl Hne Hmagic Ht Hlt.
  destruct tl as [|b0 [|b1 [|b2 [|b3 [|b4 [|b5 [|b6 [|b7 [|b8 tl]]]]]]]]]; try discriminate Hlt.
  repeat match goal with H : is_bytes (_ :: _) |- _ => inversion H; clear H; subst
         | H : Forall _ (_ :: _) |- _ => inversion H; clear H; subst end.
  cbn [le_decode] in Hmagic.
  destruct j as [|[|[|[|[|[|[|[|j]]]]]]]]; [| | | | | | | |lia];
    cbn [update_at nth le_decode] in *; lia.
Qed.

Lemma footer_encode_bytes m i : is_bytes (footer_encode m i).
Proof.
  rewrite footer_encode_eq. unfold is_bytes, footer_hs.
  apply Forall_app; split; [apply Forall_app; split; apply handle_encode_bytes|].
  apply Forall_app; split.
  - apply Forall_forall. intros x Hx. apply repeat_spec in Hx. subst x. lia.
  - unfold magic_bytes. repeat constructor; lia.
Qed.

(** no size hypothesis on the handles is needed: an over-long "footer" is rejected anyway *)
Theorem footer_magic_checked m i k v :
  (40 <= k < 48)%nat -> v < 256 -> v <> nth k (footer_encode m i) 0 ->
  footer_decode (update_at k v (footer_encode m i)) = None.
Proof.
  intros Hk Hv Hne.
  destruct (Nat.le_gt_cases (length (footer_hs m i)) 40) as [L|L].
  - apply magic_checked_gen; try assumption.
    + apply footer_encode_bytes.
    + rewrite footer_encode_tail by exact L. reflexivity.
  - unfold footer_decode.
    replace (blen (update_at k v (footer_encode m i)) =? FOOTER_SIZE) with false; [reflexivity|].
    symmetry. apply N.eqb_neq. unfold blen, FOOTER_SIZE.
    rewrite length_update_at, footer_encode_eq, !app_length. cbn [magic_bytes length]. lia.
Qed.

(** the offsets of the last eight bytes of a file that ends in a footer *)
Theorem file_footer_magic_checked body m i o v :
  h_off m < 18446744073709551616 -> h_size m < 18446744073709551616 ->
  h_off i < 18446744073709551616 -> h_size i < 18446744073709551616 ->
  blen body + 40 <= o < blen body + 48 -> v < 256 ->
  v <> nth (N.to_nat o) (body ++ footer_encode m i) 0 ->
  file_footer (update_at (N.to_nat o) v (body ++ footer_encode m i)) = None.
Proof.
  intros A B C D Ho Hv Hne.
  assert (Hm : handle_ok m) by (split; assumption).
  assert (Hi : handle_ok i) by (split; assumption).
  pose proof (footer_blen m i Hm Hi) as Hf.
  assert (Ek : N.to_nat o = (length body + (N.to_nat o - length body))%nat)
    by (unfold blen in Ho; lia).
  set (k := (N.to_nat o - length body)%nat) in *.
  assert (Hk : (40 <= k < 48)%nat) by (unfold blen in Ho; lia).
  rewrite Ek in Hne |- *. clear Ek.
  rewrite app_nth2_plus in Hne. rewrite update_at_app_r.
  unfold file_footer. rewrite blen_app.
  assert (Hl : blen (update_at k v (footer_encode m i)) = 48)
    by (unfold blen at 1; rewrite length_update_at; exact Hf).
  rewrite Hl. unfold FOOTER_SIZE.
  destruct (N.ltb_spec (blen body + 48) 48) as [L|L]; [lia|].
  rewrite (dropN_app_exact body) by lia.
  apply footer_magic_checked; assumption.
Qed.

(** * T7. Examples *)

Definition ex_blocks : list (bytes * N) :=
  [([1; 2; 3; 250; 0; 7], 0); ([], 0); ([9; 9; 9; 128; 255], 1)].

Definition ex_layout := layout_blocks 0 ex_blocks.
Definition ex_meta : handle := nth 1 (snd ex_layout) (mkH 0 0).
Definition ex_index : handle := nth 2 (snd ex_layout) (mkH 0 0).
Definition ex_file : bytes := fst ex_layout ++ footer_encode ex_meta ex_index.

Definition block_read_eqb (a b : block_read) : bool :=
  match a, b with
  | BOk p t, BOk p' t' => bytes_eqb p p' && (t =? t')
  | BShort, BShort | BChecksum, BChecksum | BType, BType => true
  | _, _ => false
  end.

Example ex_file_length : blen ex_file = 6 + 5 + 0 + 5 + 5 + 5 + 48.
Proof. vm_compute. reflexivity. Qed.

Example ex_handles : snd ex_layout = [mkH 0 6; mkH 11 0; mkH 16 5].
Proof. vm_compute. reflexivity. Qed.

Example ex_handles_read_back :
  map (read_block_at ex_file) (snd ex_layout) = map (fun b => BOk (fst b) (snd b)) ex_blocks.
Proof. vm_compute. reflexivity. Qed.

Example ex_footer_decodes : file_footer ex_file = Some (ex_meta, ex_index).
Proof. vm_compute. reflexivity. Qed.

(** every single-byte change (here: xor with each of 1, 128, 255) of each of the 11 bytes of the
    first stored block is reported as a checksum mismatch *)
Example ex_first_block_flips :
  forallb (fun o =>
    forallb (fun x =>
      block_read_eqb
        (read_block_at (update_at o (N.lxor (nth o ex_file 0) x) ex_file) (mkH 0 6))
        BChecksum) [1; 128; 255])
    (seq 0 11) = true.
Proof. vm_compute. reflexivity. Qed.

(** the same for the empty block and the block of type 1 *)
Example ex_other_block_flips :
  forallb (fun o =>
    forallb (fun x =>
      block_read_eqb
        (read_block_at (update_at o (N.lxor (nth o ex_file 0) x) ex_file) (mkH 11 0))
        BChecksum) [1; 128; 255])
    (seq 11 5) = true /\
  forallb (fun o =>
    forallb (fun x =>
      block_read_eqb
        (read_block_at (update_at o (N.lxor (nth o ex_file 0) x) ex_file) (mkH 16 5))
        BChecksum) [1; 128; 255])
    (seq 16 10) = true.
Proof. split; vm_compute; reflexivity. Qed.

(** a change outside a block does not disturb it; a type byte other than 0/1 with a matching
    checksum is [BType]; a handle beyond the file is [BShort] *)
Example ex_other_outcomes :
  read_block_at (update_at 12 77 ex_file) (mkH 0 6) = BOk [1; 2; 3; 250; 0; 7] 0 /\
  read_block_at (stored_block [5; 6] 2) (mkH 0 2) = BType /\
  read_block_at ex_file (mkH 70 10) = BShort.
Proof. vm_compute. repeat split; reflexivity. Qed.

(** every change of one of the last eight bytes of the file makes the footer unreadable *)
Example ex_magic_flips :
  forallb (fun o =>
    forallb (fun x =>
      match file_footer (update_at o (N.lxor (nth o ex_file 0) x) ex_file) with
      | None => true | Some _ => false end) [1; 128; 255])
    (seq (length ex_file - 8) 8) = true.
Proof. vm_compute. reflexivity. Qed.

Example ex_handle_lengths :
  length (handle_encode (mkH 18446744073709551615 18446744073709551615)) = 20%nat /\
  handle_decode (handle_encode (mkH 18446744073709551615 300) ++ [1; 2]) =
    Some (mkH 18446744073709551615 300, 12%nat).
Proof. vm_compute. split; reflexivity. Qed.

(** a handle that points beyond the end of the file reads as [BShort]; the correspondence driver
    answers such handles with this lemma instead of evaluating [read_block_at] (whose [N.to_nat]
    of an offset of 2^40 and more cannot be evaluated in unary) *)
Lemma read_block_at_beyond_eof (file : bytes) (h : handle) :
  blen file < h_off h + h_size h + BLOCK_TRAILER -> read_block_at file h = BShort.
Proof.
  intros Hlt. unfold read_block_at.
  assert (Hb : blen (takeN (h_size h + BLOCK_TRAILER) (dropN (h_off h) file)) < h_size h + BLOCK_TRAILER).
  { unfold takeN, dropN, blen in *. rewrite firstn_length, skipn_length.
    unfold BLOCK_TRAILER in *.
    assert (H1 : (Nat.min (N.to_nat (h_size h + 5)) (length file - N.to_nat (h_off h)) <= length file - N.to_nat (h_off h))%nat)
      by apply Nat.le_min_r.
    destruct (N.le_gt_cases (h_off h) (N.of_nat (length file))) as [Hle|Hgt].
    - assert (H2 : N.of_nat (length file - N.to_nat (h_off h)) = N.of_nat (length file) - h_off h) by lia.
      lia.
    - assert (H2 : (length file - N.to_nat (h_off h) = 0)%nat) by lia.
      rewrite H2 in *. lia. }
  apply N.ltb_lt in Hb. rewrite Hb. reflexivity.
Qed.
