(** Crash safety of whole runs of the persistence protocol model, from the step lemmas
    ([write_step], [rotate_step], [flush_step], [open_step], [install_step]). *)
From Coq Require Import Lia Arith List NArith Bool.
From RainVerif Require Import Params.
From RainVerif.model Require Import Bytes Key Block Crc Log Table TableSpec Version Lsm DbSpec Codec WalModel Gc Recover Proto.
From RainVerif.proofs Require Import ContentsProofs ProtoDurable ProtoSteps ProtoOpen ProtoInstall.
From RainVerif.proofs Require LogXProofs ImgProofs.
Import ListNotations.
Open Scope N_scope.
Arguments N.add : simpl never.
Arguments N.sub : simpl never.
Arguments N.mul : simpl never.
Arguments N.eqb : simpl never.
Arguments N.ltb : simpl never.
Arguments N.leb : simpl never.
Arguments N.of_nat : simpl never.
Arguments N.to_nat : simpl never.

(** the state between two operations of a run *)
Definition RInv (s : prun) (acked : list batch) : Prop :=
  pr_failed s = false /\
  match pr_db s with
  | Some d => pr_img s = pd_img d /\ InvE d acked
  | None => pr_img s = empty_image /\ acked = []
  end.

(** * unfolding runs *)
Lemma p_step_failed s o : pr_failed s = true -> p_step s o = (s, []).
Proof. intros H. unfold p_step. rewrite H. reflexivity. Qed.

Lemma p_run_cons s o r :
  fst (p_run s (o :: r)) = fst (p_run (fst (p_step s o)) r) /\
  snd (p_run s (o :: r)) = snd (p_step s o) ++ snd (p_run (fst (p_step s o)) r).
Proof.
  cbn [p_run]. destruct (p_step s o) as [s1 e1]. cbn [fst snd].
  destruct (p_run s1 r) as [s2 e2]. split; reflexivity.
Qed.

Lemma failed_sticky : forall ops s, pr_failed s = true -> pr_failed (fst (p_run s ops)) = true /\ snd (p_run s ops) = [].
Proof.
  induction ops as [|o r IH]; intros s H.
  - cbn [p_run fst snd]. split; [exact H|reflexivity].
  - destruct (p_run_cons s o r) as [E1 E2]. rewrite E1, E2.
    rewrite (p_step_failed s o H). cbn [fst snd app]. apply IH. exact H.
Qed.

(** * one step *)
Lemma Good_crash_ok img bs : Good img bs -> crash_ok img bs.
Proof. intros H. right. exact H. Qed.

Lemma step_safe s o acked :
  RInv s acked -> step_okP s o -> pr_failed (fst (p_step s o)) = false ->
  pr_img (fst (p_step s o)) = apply_fsops (pr_img s) (snd (p_step s o)) /\
  RInv (fst (p_step s o)) (acked ++ firstn (step_writes s o) (acked_batches (nops acked) [o])) /\
  forall n torn, (n <= length (snd (p_step s o)))%nat ->
    crash_ok (crash_image (pr_img s) (snd (p_step s o)) n torn)
             (acked ++ firstn (step_extra s o n torn) (acked_batches (nops acked) [o])).
Proof.
  intros [Hf HR] Hok Hnf.
  assert (Closed (pr_img s) acked) as HC.
  { destruct (pr_db s) as [d|].
    - destruct HR as [E I]. right. exists d. split; [symmetry; exact E|exact I].
    - left. exact HR. }
  assert (pr_db s = None -> crash_ok (pr_img s) acked) as H0.
  { intros En. rewrite En in HR. destruct HR as [E ->]. left. rewrite E. split; reflexivity. }
  unfold step_extra, step_writes. unfold p_step in *. rewrite Hf in *.
  destruct o as [oo|b| |l sz q|del add ptr q]; unfold step_okP, step_ok in Hok.
  - (* QOpen *)
    destruct (p_open oo (pr_img s)) as [[d' ops]|] eqn:E.
    + cbn [fst snd pr_img pr_db pr_failed acked_batches firstn] in *.
      destruct (open_step oo _ acked d' ops HC Hok E) as (H1 & H2 & H3).
      rewrite app_nil_r.
      split; [exact H1|]. split.
      * split; [reflexivity|]. cbn [pr_db pr_img]. split; [reflexivity|exact H2].
      * intros n torn Hn. apply H3. exact Hn.
    + cbn [fst pr_failed] in Hnf. discriminate.
  - (* QWrite *)
    destruct (pr_db s) as [d|] eqn:Ed; [|discriminate].
    destruct HR as [Ei I].
    pose proof (write_step d acked b I Hok) as W. cbv zeta in W.
    destruct W as (W1 & W2 & W3 & W4 & W5 & W6).
    destruct (p_write d b) as [d' ops] eqn:E. cbn [fst snd] in *.
    subst ops. cbn [acked_batches]. rewrite <- W3.
    set (data := fst (log_append (pd_wal_boff d) (batch_bytes (pd_seq d + 1, b)))) in *.
    cbn [firstn pr_img pr_db pr_failed].
    split; [rewrite Ei; cbn [apply_fsops fold_left]; exact W2|].
    split.
    + split; [reflexivity|]. cbn [pr_db pr_img]. split; [reflexivity|exact W4].
    + intros n torn Hn. cbn [length] in Hn. apply Good_crash_ok. rewrite Ei.
      destruct n as [|[|n]]; [| |lia].
      * rewrite crash_image_0. cbn [firstn]. rewrite app_nil_r. exact W5.
      * destruct torn as [t|].
        -- unfold crash_image. cbn [firstn nth_error torn_fsop apply_fsops fold_left].
           specialize (W6 t). destruct (length data <=? t)%nat.
           ++ cbn [firstn]. exact W6.
           ++ cbn [firstn]. rewrite app_nil_r. exact W6.
        -- unfold crash_image. cbn [firstn apply_fsops fold_left].
           specialize (W6 (length data)). rewrite firstn_all, Nat.leb_refl in W6. exact W6.
  - (* QRotate *)
    destruct (pr_db s) as [d|] eqn:Ed.
    + destruct HR as [Ei I].
      assert (pd_imm d <> None \/ rotate_okb d = true) as Hc.
      { destruct (pd_imm d); [left; discriminate|right; exact Hok]. }
      destruct (rotate_step d acked I Hc) as (H1 & H2 & H3).
      destruct (p_rotate d) as [d' ops] eqn:E. cbn [fst snd] in *.
      cbn [acked_batches firstn pr_img pr_db pr_failed]. rewrite app_nil_r.
      split; [rewrite Ei; exact H1|]. split.
      * split; [reflexivity|]. cbn [pr_db pr_img]. split; [reflexivity|exact H2].
      * intros n torn Hn. apply Good_crash_ok. rewrite Ei. apply H3. exact Hn.
    + cbn [fst snd acked_batches firstn apply_fsops fold_left length]. rewrite app_nil_r.
      split; [reflexivity|]. split.
      * split; [exact Hf|]. rewrite Ed. exact HR.
      * intros n torn Hn. assert (n = 0)%nat as -> by lia. rewrite crash_image_0. apply H0. reflexivity.
  - (* QFlush *)
    destruct (pr_db s) as [d|] eqn:Ed.
    + destruct HR as [Ei I].
      assert (pd_imm d = None \/ flush_okb d l sz q = true) as Hc.
      { destruct (pd_imm d); [right; exact Hok|left; reflexivity]. }
      destruct (p_flush d l sz q) as [[d' ops]|] eqn:E.
      * destruct (flush_step d acked l sz q d' ops I Hc E) as (H1 & H2 & H3).
        cbn [fst snd acked_batches firstn pr_img pr_db pr_failed]. rewrite app_nil_r.
        split; [rewrite Ei; exact H1|]. split.
        -- split; [reflexivity|]. cbn [pr_db pr_img]. split; [reflexivity|exact H2].
        -- intros n torn Hn. apply Good_crash_ok. rewrite Ei. apply H3. exact Hn.
      * cbn [fst pr_failed] in Hnf. discriminate.
    + cbn [fst snd acked_batches firstn apply_fsops fold_left length]. rewrite app_nil_r.
      split; [reflexivity|]. split.
      * split; [exact Hf|]. rewrite Ed. exact HR.
      * intros n torn Hn. assert (n = 0)%nat as -> by lia. rewrite crash_image_0. apply H0. reflexivity.
  - (* QInstall *)
    destruct (pr_db s) as [d|] eqn:Ed.
    + destruct HR as [Ei I]. destruct Hok as [Hok HP].
      destruct (p_install d del add ptr q) as [[d' ops]|] eqn:E.
      * destruct (install_step d acked del add ptr q d' ops I Hok HP E) as (H1 & H2 & H3).
        cbn [fst snd acked_batches firstn pr_img pr_db pr_failed]. rewrite app_nil_r.
        split; [rewrite Ei; exact H1|]. split.
        -- split; [reflexivity|]. cbn [pr_db pr_img]. split; [reflexivity|exact H2].
        -- intros n torn Hn. apply Good_crash_ok. rewrite Ei. apply H3. exact Hn.
      * cbn [fst pr_failed] in Hnf. discriminate.
    + cbn [fst snd acked_batches firstn apply_fsops fold_left length]. rewrite app_nil_r.
      split; [reflexivity|]. split.
      * split; [exact Hf|]. rewrite Ed. exact HR.
      * intros n torn Hn. assert (n = 0)%nat as -> by lia. rewrite crash_image_0. apply H0. reflexivity.
Qed.

(** * runs *)
Lemma acked_batches_cons seq o r :
  acked_batches seq (o :: r) = acked_batches seq [o] ++ acked_batches (seq + nops (acked_batches seq [o])) r.
Proof.
  destruct o; cbn [acked_batches app]; rewrite ?nops_nil, ?N.add_0_r; try reflexivity.
Qed.

Lemma step_writes_length s o seq :
  pr_failed s = false -> step_okP s o -> step_writes s o = length (acked_batches seq [o]).
Proof.
  intros Hf Hok. unfold step_writes. rewrite Hf.
  destruct o; unfold step_okP, step_ok in Hok; cbn [acked_batches length]; try reflexivity.
  - destruct (pr_db s); [reflexivity|discriminate].
Qed.

Lemma step_extra_le s o n torn : (step_extra s o n torn <= step_writes s o)%nat.
Proof.
  unfold step_extra, step_writes. destruct o; try apply Nat.le_refl.
  destruct (pr_db s); [|apply Nat.le_refl].
  destruct (pr_failed s); [apply Nat.le_refl|].
  destruct n; [apply Nat.le_0_l|]. destruct torn; [|apply Nat.le_refl].
  match goal with |- context [if ?c then _ else _] => destruct c end; [apply Nat.le_refl|apply Nat.le_0_l].
Qed.

Lemma firstn_app_exact {A} (a b : list A) k : firstn (length a + k) (a ++ b) = a ++ firstn k b.
Proof. apply firstn_app_2. Qed.

Lemma firstn_app_le {A} (a b : list A) k : (k <= length a)%nat -> firstn k (a ++ b) = firstn k a.
Proof.
  intros H. rewrite firstn_app. replace (k - length a)%nat with 0%nat by lia.
  cbn [firstn]. apply app_nil_r.
Qed.

Lemma InvE_good d acked : InvE d acked -> Good (pd_img d) acked.
Proof.
  intros (dv & bsF & Q & older & bsM & I & ->). exact (Rec_good _ _ _ _ (iv_rec _ _ _ _ _ _ I)).
Qed.

Lemma RInv_crash_ok s acked : RInv s acked -> crash_ok (pr_img s) acked.
Proof.
  intros [Hf HR]. destruct (pr_db s) as [d|].
  - destruct HR as [Ei I]. rewrite Ei. right. apply InvE_good. exact I.
  - destruct HR as [E ->]. left. rewrite E. split; reflexivity.
Qed.

(** the generalised run theorem, together with the final state; installs included *)
Lemma run_safe : forall ops s acked,
  RInv s acked -> run_okP s ops -> pr_failed (fst (p_run s ops)) = false ->
  pr_img (fst (p_run s ops)) = apply_fsops (pr_img s) (snd (p_run s ops)) /\
  forall n torn, (n <= length (snd (p_run s ops)))%nat ->
  crash_ok (crash_image (pr_img s) (snd (p_run s ops)) n torn)
           (acked ++ firstn (crash_k s ops n torn) (acked_batches (nops acked) ops)).
Proof.
  induction ops as [|o r IH]; intros s acked HR Hok Hnf.
  - cbn [p_run fst snd apply_fsops fold_left length crash_k acked_batches firstn].
    split; [reflexivity|]. intros n torn Hn. assert (n = 0)%nat as -> by lia.
    rewrite crash_image_0, app_nil_r. apply RInv_crash_ok. exact HR.
  - destruct (p_run_cons s o r) as [E1 E2]. rewrite E1 in *. rewrite E2.
    cbn [run_okP] in Hok. destruct Hok as [Hok1 Hok2].
    assert (pr_failed (fst (p_step s o)) = false) as Hnf1.
    { destruct (pr_failed (fst (p_step s o))) eqn:F; [|reflexivity].
      destruct (failed_sticky r _ F) as [C _]. rewrite C in Hnf. discriminate. }
    destruct (step_safe s o acked HR Hok1 Hnf1) as (S1 & S2 & S3).
    pose proof (step_writes_length s o (nops acked) (proj1 HR) Hok1) as HL.
    rewrite HL, firstn_all in S2.
    destruct (IH _ _ S2 Hok2 Hnf) as [I1 I2].
    split.
    + rewrite I1, S1, apply_fsops_app. reflexivity.
    + intros n torn Hn. rewrite app_length in Hn.
      rewrite crash_image_app. cbn [crash_k]. rewrite acked_batches_cons.
      destruct (n <=? length (snd (p_step s o)))%nat eqn:En.
      * rewrite firstn_app_le by (rewrite <- HL; apply step_extra_le).
        apply S3. apply Nat.leb_le. exact En.
      * apply Nat.leb_gt in En. rewrite HL, firstn_app_exact, List.app_assoc.
        rewrite <- S1. rewrite nops_app in I2. apply I2. lia.
Qed.

Theorem run_crash_safe_P : forall ops s acked,
  RInv s acked -> run_okP s ops -> pr_failed (fst (p_run s ops)) = false ->
  forall n torn, (n <= length (snd (p_run s ops)))%nat ->
  crash_ok (crash_image (pr_img s) (snd (p_run s ops)) n torn)
           (acked ++ firstn (crash_k s ops n torn) (acked_batches (nops acked) ops)).
Proof. intros ops s acked HR Hok Hnf. exact (proj2 (run_safe ops s acked HR Hok Hnf)). Qed.

Theorem run_crash_safe : forall ops s acked,
  RInv s acked -> run_ok s ops = true -> pr_failed (fst (p_run s ops)) = false ->
  forall n torn, (n <= length (snd (p_run s ops)))%nat ->
  crash_ok (crash_image (pr_img s) (snd (p_run s ops)) n torn)
           (acked ++ firstn (crash_k s ops n torn) (acked_batches (nops acked) ops)).
Proof. intros ops s acked HR Hok. apply run_crash_safe_P; [exact HR|apply run_ok_okP; exact Hok]. Qed.

Lemma RInv_init : RInv prun_init [].
Proof. split; [reflexivity|]. cbn [prun_init pr_db pr_img]. split; reflexivity. Qed.

(** M4 + M5: every run from the empty directory, installs included *)
Theorem crash_safe_P ops :
  run_okP prun_init ops -> pr_failed (fst (p_run prun_init ops)) = false ->
  forall n torn, (n <= length (snd (p_run prun_init ops)))%nat ->
  crash_ok (crash_image empty_image (snd (p_run prun_init ops)) n torn)
           (firstn (crash_k prun_init ops n torn) (acked_batches 0 ops)).
Proof.
  intros Hok Hnf n torn Hn.
  exact (run_crash_safe_P ops prun_init [] RInv_init Hok Hnf n torn Hn).
Qed.

(** M4: every run (without installs on an open database) from the empty directory *)
Theorem crash_safe ops :
  run_ok prun_init ops = true -> pr_failed (fst (p_run prun_init ops)) = false ->
  forall n torn, (n <= length (snd (p_run prun_init ops)))%nat ->
  crash_ok (crash_image empty_image (snd (p_run prun_init ops)) n torn)
           (firstn (crash_k prun_init ops n torn) (acked_batches 0 ops)).
Proof. intros Hok. apply crash_safe_P. apply run_ok_okP. exact Hok. Qed.

(** * nothing cut off *)
Lemma crash_k_0 s ops torn : crash_k s ops 0 torn = 0%nat.
Proof.
  destruct ops as [|o r]; [reflexivity|]. cbn [crash_k Nat.leb].
  unfold step_extra. destruct o; try reflexivity.
  destruct (pr_db s); [|reflexivity]. destruct (pr_failed s); reflexivity.
Qed.

Lemma step_extra_full s o :
  step_extra s o (length (snd (p_step s o))) None = step_writes s o.
Proof.
  unfold step_extra, step_writes, p_step.
  destruct o; try reflexivity.
  destruct (pr_db s) as [d|]; [|reflexivity].
  destruct (pr_failed s); [reflexivity|]. unfold p_write. cbn [snd length]. reflexivity.
Qed.

Lemma crash_k_full_gen : forall ops s seq,
  pr_failed s = false -> run_okP s ops -> pr_failed (fst (p_run s ops)) = false ->
  crash_k s ops (length (snd (p_run s ops))) None = length (acked_batches seq ops).
Proof.
  induction ops as [|o r IH]; intros s seq Hf Hok Hnf; [reflexivity|].
  destruct (p_run_cons s o r) as [E1 E2]. rewrite E1 in *. rewrite E2.
  cbn [run_okP] in Hok. destruct Hok as [Hok1 Hok2].
  assert (pr_failed (fst (p_step s o)) = false) as Hnf1.
  { destruct (pr_failed (fst (p_step s o))) eqn:F; [|reflexivity].
    destruct (failed_sticky r _ F) as [C _]. rewrite C in Hnf. discriminate. }
  rewrite acked_batches_cons, !app_length. cbn [crash_k].
  rewrite <- (step_writes_length s o seq Hf Hok1).
  specialize (IH _ (seq + nops (acked_batches seq [o])) Hnf1 Hok2 Hnf). rewrite <- IH.
  destruct (_ <=? _)%nat eqn:En.
  - apply Nat.leb_le in En.
    assert (length (snd (p_run (fst (p_step s o)) r)) = 0)%nat as Z by lia.
    rewrite Z, Nat.add_0_r, crash_k_0, Nat.add_0_r. apply step_extra_full.
  - f_equal. f_equal. lia.
Qed.

Theorem crash_k_full_P ops :
  run_okP prun_init ops -> pr_failed (fst (p_run prun_init ops)) = false ->
  crash_k prun_init ops (length (snd (p_run prun_init ops))) None = length (acked_batches 0 ops).
Proof. intros Hok Hnf. apply crash_k_full_gen; [reflexivity|exact Hok|exact Hnf]. Qed.

Theorem crash_k_full ops :
  run_ok prun_init ops = true -> pr_failed (fst (p_run prun_init ops)) = false ->
  crash_k prun_init ops (length (snd (p_run prun_init ops))) None = length (acked_batches 0 ops).
Proof. intros Hok. apply crash_k_full_P. apply run_ok_okP. exact Hok. Qed.

Lemma crash_image_full img ops : crash_image img ops (length ops) None = apply_fsops img ops.
Proof. unfold crash_image. rewrite firstn_all. reflexivity. Qed.

Corollary clean_shutdown_recovers_all_P ops :
  run_okP prun_init ops -> pr_failed (fst (p_run prun_init ops)) = false ->
  crash_ok (pr_img (fst (p_run prun_init ops))) (acked_batches 0 ops).
Proof.
  intros Hok Hnf.
  pose proof (crash_safe_P ops Hok Hnf _ None (Nat.le_refl _)) as H.
  rewrite crash_image_full, (crash_k_full_P ops Hok Hnf), firstn_all in H.
  rewrite (proj1 (run_safe ops prun_init [] RInv_init Hok Hnf)). exact H.
Qed.

Corollary clean_shutdown_recovers_all ops :
  run_ok prun_init ops = true -> pr_failed (fst (p_run prun_init ops)) = false ->
  crash_ok (pr_img (fst (p_run prun_init ops))) (acked_batches 0 ops).
Proof. intros Hok. apply clean_shutdown_recovers_all_P. apply run_ok_okP. exact Hok. Qed.

(** M3: a single session *)
Definition no_open_no_install (ops : list pop) : bool :=
  forallb (fun o => match o with QOpen _ | QInstall _ _ _ _ => false | _ => true end) ops.

Theorem crash_safe_single_session o rest :
  no_open_no_install rest = true ->
  run_ok prun_init (QOpen o :: rest) = true -> pr_failed (fst (p_run prun_init (QOpen o :: rest))) = false ->
  forall n torn, (n <= length (snd (p_run prun_init (QOpen o :: rest))))%nat ->
  crash_ok (crash_image empty_image (snd (p_run prun_init (QOpen o :: rest))) n torn)
           (firstn (crash_k prun_init (QOpen o :: rest) n torn) (acked_batches 0 (QOpen o :: rest))).
Proof. intros _. apply crash_safe. Qed.

(** the database still opens: recovery never fails on a crash image of a non failing run, once
    CURRENT exists *)
Corollary crash_recovery_succeeds_P ops :
  run_okP prun_init ops -> pr_failed (fst (p_run prun_init ops)) = false ->
  forall n torn, (n <= length (snd (p_run prun_init ops)))%nat ->
  let img := crash_image empty_image (snd (p_run prun_init ops)) n torn in
  i_current img = None \/
  exists rc, recover_image img = inl rc /\
     rec_contents img rc = replay [] (firstn (crash_k prun_init ops n torn) (acked_batches 0 ops)) /\
     rc_seq rc = nops (firstn (crash_k prun_init ops n torn) (acked_batches 0 ops)).
Proof.
  intros Hok Hnf n torn Hn img.
  destruct (crash_safe_P ops Hok Hnf n torn Hn) as [[H _]|H]; [left; exact H|right; exact H].
Qed.

Corollary crash_recovery_succeeds ops :
  run_ok prun_init ops = true -> pr_failed (fst (p_run prun_init ops)) = false ->
  forall n torn, (n <= length (snd (p_run prun_init ops)))%nat ->
  let img := crash_image empty_image (snd (p_run prun_init ops)) n torn in
  i_current img = None \/
  exists rc, recover_image img = inl rc /\
     rec_contents img rc = replay [] (firstn (crash_k prun_init ops n torn) (acked_batches 0 ops)) /\
     rc_seq rc = nops (firstn (crash_k prun_init ops n torn) (acked_batches 0 ops)).
Proof. intros Hok. apply crash_recovery_succeeds_P. apply run_ok_okP. exact Hok. Qed.


(** * M1: the extended log reader *)
Theorem reader_x_records B H crc f :
  rx_records (read_all_x B H crc f) = fst (read_all B H crc true f).
Proof. apply LogXProofs.read_all_x_records. Qed.

Theorem reader_x_panic B H crc f :
  rx_panic (read_all_x B H crc f) = snd (read_all B H crc true f).
Proof. apply LogXProofs.read_all_x_panic. Qed.

(** a file written by writer sessions reads back completely: nothing skipped, intact *)
Theorem reader_x_sessions sessions :
  log_read_all_x (log_write_sessions [] sessions) = mkRX (concat sessions) false 0 true.
Proof.
  destruct (LogXProofs.logfile_sessions sessions) as [boff H]. apply (LogXProofs.logfile_read _ _ _ H).
Qed.

(** every byte prefix of such a file: a prefix of the records, no panic, nothing skipped (so a torn manifest is
    never rejected for "corrupted records") *)
Theorem reader_x_prefix sessions n :
  exists k i, log_read_all_x (firstn n (log_write_sessions [] sessions))
              = mkRX (firstn k (concat sessions)) false 0 i.
Proof.
  destruct (LogXProofs.logfile_sessions sessions) as [boff H]. apply (LogXProofs.logfile_prefix _ _ _ n H).
Qed.

(** a torn last append (any strict byte prefix of the bytes of one record) leaves exactly the earlier records *)
Theorem reader_x_torn_append f recs boff r t :
  LogXProofs.logfile f recs boff -> (t < length (fst (log_append boff r)))%nat ->
  exists i, log_read_all_x (f ++ firstn t (fst (log_append boff r))) = mkRX recs false 0 i.
Proof. apply LogXProofs.logfile_read_torn. Qed.

(** [rx_intact] characterised: a cut file that the reader reports intact is itself a well formed log with
    the same records (appending to it after a reopen is safe); a cut strictly inside a one-fragment record is
    reported not intact *)
Theorem reader_x_torn_intact f recs boff r t :
  LogXProofs.logfile f recs boff -> (t < length (fst (log_append boff r)))%nat ->
  rx_intact (log_read_all_x (f ++ firstn t (fst (log_append boff r)))) = true ->
  LogXProofs.logfile (f ++ firstn t (fst (log_append boff r))) recs
                     (blen (f ++ firstn t (fst (log_append boff r))) mod BLOCK_SIZE_BYTES).
Proof. apply LogXProofs.logfile_torn_intact. Qed.

Theorem reader_x_prefix_intact f recs boff n :
  LogXProofs.logfile f recs boff -> rx_intact (log_read_all_x (firstn n f)) = true ->
  exists k, LogXProofs.logfile (firstn n f) (firstn k recs) (blen (firstn n f) mod BLOCK_SIZE_BYTES).
Proof. apply LogXProofs.logfile_prefix_intact. Qed.

Theorem reader_x_torn_single_fragment f recs boff r t :
  LogXProofs.logfile f recs boff -> (0 < t < length (fst (log_append boff r)))%nat ->
  boff + HEADER_LENGTH_BYTES + blen r <= BLOCK_SIZE_BYTES ->
  log_read_all_x (f ++ firstn t (fst (log_append boff r))) = mkRX recs false 0 false.
Proof. apply LogXProofs.logfile_torn_single_fragment. Qed.

(** * M2: CURRENT *)
Theorem current_roundtrip n : n < 18446744073709551616 -> parse_current (current_contents n) = Some n.
Proof. apply ImgProofs.parse_current_contents. Qed.

(** * M6: garbage collection only removes files recovery does not look at *)
Theorem gc_removed_not_needed d acked f :
  InvE d acked -> In (FsRemove f) (gc_ops d) ->
  exists rc, recover_image (pd_img d) = inl rc /\
    match f with
    | FManifest n => n <> ms_number (rc_manifest rc)
    | FTable n => ~ In n (version_numbers (ms_version (rc_manifest rc)))
    | FWal n => forall w, In w (rc_wals rc) -> wr_number w <> n
    | FTemp _ => True
    | FCurrent => False       (* never removed *)
    | FLock => True
    end.
Proof.
  intros (dv & bsF & Q & older & bsM & I & _) Hin.
  pose proof (rec_dur _ _ _ _ (iv_rec _ _ _ _ _ _ I)) as D.
  exists (rc_of (pd_img d) dv). split; [apply recover_durable; exact D|].
  pose proof (gc_invisible d dv (iv_ver _ _ _ _ _ _ I) (iv_vswal _ _ _ _ _ _ I)
                (proj1 (iv_prev _ _ _ _ _ _ I)) (iv_man _ _ _ _ _ _ I)) as Hgc.
  rewrite Forall_forall in Hgc. specialize (Hgc _ Hin).
  destruct f as [| |n|n|n|n]; cbn [invisible] in Hgc; try contradiction; try exact Logic.I.
  - cbn [rc_of rc_manifest ms_of ms_number]. exact Hgc.
  - cbn [rc_of rc_wals]. intros w Hw. apply in_map_iff in Hw. destruct Hw as (nb & <- & Hnb).
    cbn [wr_of wr_number]. destruct D as (_ & _ & _ & _ & Dw).
    assert (Hx : In (fst nb) (map fst (dv_logs dv))) by (apply in_map; exact Hnb).
    apply (DWal_names _ _ _ _ Dw) in Hx. lia.
  - cbn [rc_of rc_manifest ms_of ms_version]. exact Hgc.
Qed.

Theorem gc_preserves_recovery d acked :
  InvE d acked ->
  InvE (fst (do_gc d)) acked /\ all_crash (fun i => Good i acked) (pd_img d) (snd (do_gc d)).
Proof.
  intros (dv & bsF & Q & older & bsM & I & ->).
  pose proof (gc_invisible d dv (iv_ver _ _ _ _ _ _ I) (iv_vswal _ _ _ _ _ _ I)
                (proj1 (iv_prev _ _ _ _ _ _ I)) (iv_man _ _ _ _ _ _ I)) as Hgc.
  unfold do_gc. cbn [fst snd]. split.
  - exists dv, bsF, Q, older, bsM. split; [|reflexivity]. apply Inv_invisible_ops; assumption.
  - apply (all_crash_invisible _ dv bsF Q); [|apply (iv_rec _ _ _ _ _ _ I)|exact Hgc].
    intros img' R'. apply (Rec_good _ _ _ _ R').
Qed.

Print Assumptions reader_x_prefix.
Print Assumptions gc_removed_not_needed.
Print Assumptions gc_preserves_recovery.
Print Assumptions crash_safe_P.
Print Assumptions crash_safe.
Print Assumptions crash_k_full_P.
Print Assumptions clean_shutdown_recovers_all_P.
Print Assumptions crash_recovery_succeeds_P.
