(** A manifest that the log reader cannot read without dropping a fragment is rejected by recovery
    ([VersionSet::recover]: "The manifest file has N corrupted record(s)"), and therefore a changed
    type byte of any fragment but the last of a manifest written by the log writer makes [DB::open]
    fail with an error (defect D19: before its repair the fragment was dropped without being
    counted and the remaining version edits were applied to the wrong file set). *)
From Coq Require Import List NArith Bool Lia.
From RainVerif Require Import Params.
From RainVerif.model Require Import Bytes Key Block Crc Log LogScript Table TableSpec Version Lsm DbSpec Codec WalModel Recover.
From RainVerif.proofs Require Import CrcProofs LogProofs LogXProofs LogTypeFlip.
Import ListNotations.
Open Scope N_scope.

Lemma recover_manifest_skipped img c n file :
  i_current img = Some c -> parse_current c = Some n ->
  lookupN n (i_manifests img) = Some file ->
  0 < rx_skipped (log_read_all_x file) ->
  exists e, recover_manifest img = inr e.
Proof.
  intros Hc Hp Hl Hs. unfold recover_manifest. rewrite Hc, Hp, Hl.
  destruct (rx_panic (log_read_all_x file)); [eexists; reflexivity|].
  destruct (decode_changes (rx_records (log_read_all_x file))); [|eexists; reflexivity].
  apply N.ltb_lt in Hs. rewrite Hs. eexists; reflexivity.
Qed.

Lemma recover_image_skipped img c n file :
  i_current img = Some c -> parse_current c = Some n ->
  lookupN n (i_manifests img) = Some file ->
  0 < rx_skipped (log_read_all_x file) ->
  exists e, recover_image img = inr e.
Proof.
  intros Hc Hp Hl Hs.
  destruct (recover_manifest_skipped img c n file Hc Hp Hl Hs) as [e He].
  exists e. unfold recover_image. rewrite He. reflexivity.
Qed.

(** the directory [img] has a manifest [f] written by the log writer, except that the type byte of
    one fragment that is not the last one of the file was set to another valid type *)
Theorem manifest_type_byte_flip_rejected : forall f recs boff, logfile f recs boff ->
  exists its, f = bytes_of crc32c its /\
    forall its1 n t d its2 t' img c m,
      its = its1 ++ It n t d :: its2 -> its2 <> [] -> t' <= 3 -> t' <> t ->
      let k := N.to_nat (size HEADER_LENGTH_BYTES its1 + n + 6) in
      i_current img = Some c -> parse_current c = Some m ->
      lookupN m (i_manifests img) = Some (set_byte k t' f) ->
      nth k f 0 = t /\ exists e, recover_image img = inr e.
Proof.
  intros f recs boff Hlf.
  destruct (logfile_type_byte_flip f recs boff Hlf) as [its [Hf [_ [_ Hflip]]]].
  exists its. split; [exact Hf|].
  intros its1 n t d its2 t' img c m E Hne Ht Hd k Hc Hp Hl.
  destruct (Hflip its1 n t d its2 t' E Hne Ht Hd) as [Hn [Hs _]].
  split; [exact Hn|].
  eapply recover_image_skipped; eauto.
Qed.
