(** Proofs for C13, parts D (block encode/decode round trip) and E (BlockIter refines the
    sorted-list cursor). No axioms. *)
From Coq Require Import Lia ZArith ZifyN ZifyBool ZifyNat Arith.
From RainVerif Require Import Params.
From RainVerif.model Require Import Bytes Key Block Table TableSpec.
From RainVerif.proofs Require Import KeyProofs.
Open Scope N_scope.
Ltac Zify.zify_post_hook ::= Z.div_mod_to_equations.
Arguments N.add : simpl never.
Arguments N.sub : simpl never.
Arguments N.mul : simpl never.
Arguments N.div : simpl never.
Arguments N.modulo : simpl never.
Arguments N.eqb : simpl never.
Arguments N.ltb : simpl never.
Arguments N.leb : simpl never.
Arguments N.pow : simpl never.
Arguments N.of_nat : simpl never.
Arguments N.to_nat : simpl never.
Arguments N.compare : simpl never.

(** * E. [BlockIter] refines the sorted-list cursor *)

(** length of the maximal prefix of entries strictly below the target: the lower bound *)
Fixpoint prefix_lt (l : list entry) (t : ikey) : nat :=
  match l with
  | [] => O
  | e :: r => if ikey_ltb (fst e) t then S (prefix_lt r t) else O
  end.

Lemma prefix_lt_le l t : (prefix_lt l t <= length l)%nat.
Proof.
  induction l as [|e r IH]; cbn [prefix_lt length]; [lia|].
  destruct (ikey_ltb (fst e) t); lia.
Qed.

Lemma lower_bound_from_prefix l t : forall i,
  lower_bound_from l i t =
  if Nat.ltb (prefix_lt l t) (length l) then Some (i + prefix_lt l t)%nat else None.
Proof.
  induction l as [|e r IH]; intros i; cbn [lower_bound_from prefix_lt length].
  - reflexivity.
  - destruct (ikey_ltb (fst e) t).
    + rewrite IH.
      destruct (Nat.ltb_spec (prefix_lt r t) (length r)) as [L|L];
      destruct (Nat.ltb_spec (S (prefix_lt r t)) (S (length r))) as [L'|L']; try lia.
      * f_equal. lia.
      * reflexivity.
    + destruct (Nat.ltb_spec 0 (S (length r))) as [L|L]; [|lia]. f_equal. lia.
Qed.

Lemma lc_seek_prefix es t :
  lc_seek es t = if Nat.ltb (prefix_lt es t) (length es) then Some (prefix_lt es t) else None.
Proof. unfold lc_seek. rewrite lower_bound_from_prefix. reflexivity. Qed.

(** entries before the lower bound are below the target *)
Lemma prefix_lt_below l t : forall i e,
  (i < prefix_lt l t)%nat -> nth_error l i = Some e -> ikey_ltb (fst e) t = true.
Proof.
  induction l as [|e0 r IH]; intros i e; cbn [prefix_lt]; [lia|].
  destruct (ikey_ltb (fst e0) t) eqn:E0; [|lia].
  destruct i as [|i]; cbn [nth_error].
  - intros _ H. injection H as <-. exact E0.
  - intros Hi H. eapply IH; [|exact H]. lia.
Qed.

(** strictly sorted lists are pairwise ordered *)
Lemma sorted_entries_head_lt e r :
  sorted_entries (e :: r) = true -> Forall (fun e' => ikey_lt (fst e) (fst e')) r.
Proof.
  revert e; induction r as [|e1 r IH]; intros e H; [constructor|].
  cbn [sorted_entries] in H. apply andb_true_iff in H. destruct H as [H1 H2].
  apply ikey_ltb_iff in H1. constructor; [exact H1|].
  specialize (IH e1 H2). eapply Forall_impl; [|exact IH].
  intros e' He'. cbv beta in He'. eapply ikey_lt_trans; eassumption.
Qed.

Lemma sorted_entries_nth es : sorted_entries es = true ->
  forall i j ei ej, (i < j)%nat -> nth_error es i = Some ei -> nth_error es j = Some ej ->
  ikey_lt (fst ei) (fst ej).
Proof.
  induction es as [|e r IH]; intros Hs i j ei ej Hij Hi Hj.
  - destruct i; discriminate.
  - destruct j as [|j]; [lia|]. cbn [nth_error] in Hj.
    destruct i as [|i]; cbn [nth_error] in Hi.
    + injection Hi as <-. pose proof (sorted_entries_head_lt _ _ Hs) as HF.
      rewrite Forall_forall in HF. apply HF. eapply nth_error_In; eassumption.
    + eapply (IH (sorted_entries_cons _ _ Hs) i j); [lia|assumption|assumption].
Qed.

(** entries at or after the lower bound are not below the target (needs sortedness) *)
Lemma prefix_lt_above l t : sorted_entries l = true -> forall i e,
  (prefix_lt l t <= i)%nat -> nth_error l i = Some e -> ikey_ltb (fst e) t = false.
Proof.
  induction l as [|e0 r IH]; intros Hs i e; cbn [prefix_lt].
  - destruct i; discriminate.
  - destruct (ikey_ltb (fst e0) t) eqn:E0.
    + destruct i as [|i]; [lia|]. cbn [nth_error]. intros Hi H.
      eapply (IH (sorted_entries_cons _ _ Hs)); [|exact H]. lia.
    + intros _ H. destruct i as [|i]; cbn [nth_error] in H.
      * injection H as <-. exact E0.
      * pose proof (sorted_entries_head_lt _ _ Hs) as HF. rewrite Forall_forall in HF.
        assert (Hlt : ikey_lt (fst e0) (fst e)) by (apply HF; eapply nth_error_In; eassumption).
        destruct (ikey_ltb (fst e) t) eqn:E; [|reflexivity].
        apply ikey_ltb_iff in E. pose proof (ikey_lt_trans _ _ _ Hlt E) as Hc.
        apply ikey_ltb_iff in Hc. congruence.
Qed.

(** the lower bound is the number of entries below the target *)
Lemma prefix_lt_count es t : sorted_entries es = true ->
  prefix_lt es t = length (filter (fun e => ikey_ltb (fst e) t) es).
Proof.
  induction es as [|e r IH]; intros Hs; cbn [prefix_lt filter]; [reflexivity|].
  destruct (ikey_ltb (fst e) t) eqn:E.
  - cbn [length]. f_equal. apply IH. eapply sorted_entries_cons; eassumption.
  - match goal with |- context [filter ?f r] => assert (Hnil : filter f r = []) end.
    { pose proof (sorted_entries_head_lt _ _ Hs) as HF. clear IH Hs.
      induction r as [|e1 r IHr]; [reflexivity|]. cbn [filter].
      inversion HF as [|? ? H1 H2]; subst.
      destruct (ikey_ltb (fst e1) t) eqn:E1.
      - apply ikey_ltb_iff in E1. pose proof (ikey_lt_trans _ _ _ H1 E1) as Hc.
        apply ikey_ltb_iff in Hc. congruence.
      - apply IHr. exact H2. }
    rewrite Hnil. reflexivity.
Qed.

(** the binary search computes the lower bound *)
Lemma bi_search_spec es t : sorted_entries es = true ->
  forall fuel l r,
    (l <= prefix_lt es t)%nat -> (prefix_lt es t <= r)%nat -> (r <= length es)%nat ->
    (r - l < fuel)%nat ->
    bi_search es fuel l r t = prefix_lt es t.
Proof.
  intros Hs. induction fuel as [|f IH]; intros l r Hl Hr Hlen Hf; [lia|].
  cbn [bi_search].
  destruct (Nat.ltb_spec l r) as [L|L]; [|lia].
  pose proof (Nat.div2_div (l + r)) as Hd.
  set (mid := Nat.div2 (l + r)) in *.
  assert (Hmid : (l <= mid /\ mid < r)%nat) by lia.
  destruct (nth_error es mid) as [[k v]|] eqn:En.
  - destruct (ikey_cmp k t) eqn:Ec.
    + apply IH; try lia.
      destruct (Nat.le_gt_cases (prefix_lt es t) mid) as [C|C]; [lia|].
      pose proof (prefix_lt_below es t mid (k, v) C En) as Hb.
      unfold ikey_ltb in Hb; cbn [fst] in Hb. rewrite Ec in Hb. discriminate.
    + apply IH; try lia.
      destruct (Nat.le_gt_cases (prefix_lt es t) mid) as [C|C]; [|lia].
      pose proof (prefix_lt_above es t Hs mid (k, v) C En) as Hb.
      unfold ikey_ltb in Hb; cbn [fst] in Hb. rewrite Ec in Hb. discriminate.
    + apply IH; try lia.
      destruct (Nat.le_gt_cases (prefix_lt es t) mid) as [C|C]; [lia|].
      pose proof (prefix_lt_below es t mid (k, v) C En) as Hb.
      unfold ikey_ltb in Hb; cbn [fst] in Hb. rewrite Ec in Hb. discriminate.
  - apply nth_error_None in En. lia.
Qed.

Theorem bi_search_lower_bound es t : sorted_entries es = true ->
  bi_search es (S (length es)) 0 (length es) t = prefix_lt es t.
Proof.
  intros Hs. apply bi_search_spec; try lia; [exact Hs | apply prefix_lt_le].
Qed.

Theorem bi_search_count es t : sorted_entries es = true ->
  bi_search es (S (length es)) 0 (length es) t =
  length (filter (fun e => ikey_ltb (fst e) t) es).
Proof. intros Hs. rewrite bi_search_lower_bound, prefix_lt_count; auto. Qed.

(** [seek], including the "already positioned at the target" shortcut *)
Theorem bi_seek_lower_bound es i t : sorted_entries es = true ->
  bi_seek es i t = prefix_lt es t.
Proof.
  intros Hs. unfold bi_seek.
  destruct (nth_error es i) as [[k v]|] eqn:En; [|apply bi_search_lower_bound; exact Hs].
  destruct (ikey_eqb k t) eqn:Eq; [|apply bi_search_lower_bound; exact Hs].
  apply ikey_eqb_iff in Eq. subst k.
  destruct (Nat.lt_trichotomy i (prefix_lt es t)) as [C|[C|C]]; [|exact C|].
  - pose proof (prefix_lt_below es t i (t, v) C En) as Hb. cbn [fst] in Hb.
    apply ikey_ltb_iff in Hb. exfalso. eapply ikey_lt_irrefl; eassumption.
  - assert (Hp : (prefix_lt es t < length es)%nat).
    { assert (i < length es)%nat by (apply nth_error_Some; congruence). lia. }
    destruct (nth_error es (prefix_lt es t)) as [e'|] eqn:En'.
    + pose proof (prefix_lt_above es t Hs _ e' (Nat.le_refl _) En') as Hb.
      pose proof (sorted_entries_nth es Hs _ _ _ _ C En' En) as Hlt. cbn [fst] in Hlt.
      apply ikey_ltb_iff in Hlt. congruence.
    + apply nth_error_None in En'. lia.
Qed.

Theorem bi_seek_current es i t : sorted_entries es = true ->
  nth_error es (bi_seek es i t) = lc_current es (lc_seek es t).
Proof.
  intros Hs. rewrite bi_seek_lower_bound by exact Hs. rewrite lc_seek_prefix.
  destruct (Nat.ltb_spec (prefix_lt es t) (length es)) as [L|L]; cbn [lc_current].
  - reflexivity.
  - apply nth_error_None. exact L.
Qed.

(** ** Simulation under the representation "index >= length <-> None" *)

Definition bi_rep (es : list entry) (i : nat) (p : option nat) : Prop :=
  match p with
  | Some j => i = j /\ (j < length es)%nat
  | None => (length es <= i)%nat
  end.

Lemma bi_rep_current es i p : bi_rep es i p -> bi_current es i = lc_current es p.
Proof.
  unfold bi_rep, bi_current. destruct p as [j|]; cbn [lc_current].
  - intros [-> _]. reflexivity.
  - intros H. apply nth_error_None. exact H.
Qed.

Lemma bi_rep_valid es i p :
  bi_rep es i p -> bi_valid es i = match p with Some _ => true | None => false end.
Proof.
  unfold bi_rep, bi_valid. destruct p as [j|].
  - intros [-> H]. apply Nat.ltb_lt. exact H.
  - intros H. apply Nat.ltb_ge. exact H.
Qed.

Lemma bi_rep_seek es i t : sorted_entries es = true ->
  bi_rep es (bi_seek es i t) (lc_seek es t).
Proof.
  intros Hs. rewrite bi_seek_lower_bound by exact Hs. rewrite lc_seek_prefix.
  pose proof (prefix_lt_le es t).
  destruct (Nat.ltb_spec (prefix_lt es t) (length es)) as [L|L]; cbn [bi_rep]; lia.
Qed.

Lemma bi_rep_first es i : bi_rep es (bi_seek_first i) (lc_first es).
Proof.
  unfold bi_seek_first, lc_first. destruct es; cbn [bi_rep length]; lia.
Qed.

Lemma bi_rep_last es i : es <> [] ->
  exists j, bi_seek_last es i = Some j /\ bi_rep es j (lc_last es).
Proof.
  intros Hne. unfold bi_seek_last, lc_last. destruct es as [|e r]; [contradiction|].
  eexists. split; [reflexivity|]. cbn [bi_rep length]. lia.
Qed.

Lemma bi_seek_last_nil i : bi_seek_last [] i = None.
Proof. reflexivity. Qed.

Lemma bi_rep_next es i p : bi_rep es i p -> bi_rep es (bi_next es i) (lc_next es p).
Proof.
  unfold bi_rep, bi_next, lc_next. destruct p as [j|].
  - intros [-> Hj]. destruct (Nat.leb_spec (length es) j) as [L|L]; [lia|].
    destruct (Nat.ltb_spec (S j) (length es)) as [L'|L']; lia.
  - intros H. destruct (Nat.leb_spec (length es) i) as [L|L]; lia.
Qed.

Lemma bi_rep_prev es i p : bi_rep es i p -> bi_rep es (bi_prev es i) (lc_prev p).
Proof.
  unfold bi_rep, bi_prev, lc_prev. destruct p as [j|].
  - intros [-> Hj]. destruct (Nat.leb_spec (length es) j) as [L|L]; [lia|].
    destruct j as [|j]; cbn [Nat.eqb orb]; lia.
  - intros H. destruct (Nat.leb_spec (length es) i) as [L|L]; [|lia].
    rewrite orb_true_r. lia.
Qed.

(** the block iterator run over cursor scripts ([None] = the [seek_to_last] panic on an empty
    block), analogous to [lc_run] / [tl_run] *)
Definition bi_step (es : list entry) (i : nat) (o : cop) : option nat :=
  match o with
  | CSeek k => Some (bi_seek es i k)
  | CFirst => Some (bi_seek_first i)
  | CLast => bi_seek_last es i
  | CNext => Some (bi_next es i)
  | CPrev => Some (bi_prev es i)
  end.

Fixpoint bi_run (es : list entry) (i : nat) (ops : list cop) : list (option entry) * bool :=
  match ops with
  | [] => ([], true)
  | o :: r =>
      match bi_step es i o with
      | None => ([], false)
      | Some i' =>
          let x := bi_run es i' r in
          (bi_current es i' :: fst x, snd x)
      end
  end.

Lemma bi_step_refines es i p o :
  sorted_entries es = true -> bi_rep es i p -> (es <> [] \/ o <> CLast) ->
  exists i', bi_step es i o = Some i' /\ bi_rep es i' (lc_step es p o).
Proof.
  intros Hs Hr Hne. destruct o as [k| | | |]; cbn [bi_step lc_step].
  - eexists; split; [reflexivity|]. apply bi_rep_seek; exact Hs.
  - eexists; split; [reflexivity|]. apply bi_rep_first.
  - apply bi_rep_last. destruct Hne as [H|H]; [exact H | congruence].
  - eexists; split; [reflexivity|]. apply bi_rep_next; exact Hr.
  - eexists; split; [reflexivity|]. apply bi_rep_prev; exact Hr.
Qed.

Theorem bi_run_refines es : sorted_entries es = true ->
  forall ops i p, bi_rep es i p -> (es <> [] \/ ~ In CLast ops) ->
  bi_run es i ops = (lc_run es p ops, true).
Proof.
  intros Hs. induction ops as [|o r IH]; intros i p Hr Hne; cbn [bi_run lc_run]; [reflexivity|].
  destruct (bi_step_refines es i p o Hs Hr) as (i' & E1 & E2).
  { destruct Hne as [H|H]; [left; exact H|]. right. intros ->. apply H. left. reflexivity. }
  rewrite E1. rewrite (IH i' (lc_step es p o) E2).
  - cbn [fst snd]. rewrite (bi_rep_current _ _ _ E2). reflexivity.
  - destruct Hne as [H|H]; [left; exact H|]. right. intros Hin. apply H. right. exact Hin.
Qed.

(** a fresh [BlockIter] (index 0) corresponds to [lc_first] *)
Theorem block_iter_refines es ops :
  sorted_entries es = true -> (es <> [] \/ ~ In CLast ops) ->
  bi_run es 0 ops = (lc_run es (lc_first es) ops, true).
Proof.
  intros Hs Hne. apply bi_run_refines; [exact Hs | | exact Hne].
  apply (bi_rep_first es 0).
Qed.

(** on an empty block [seek_to_last] is the only failing operation, and it always fails *)
Theorem block_iter_empty_last i : bi_step [] i CLast = None.
Proof. reflexivity. Qed.

(** * D. Block encode / decode round trip *)

Lemma blen_app (a b : bytes) : blen (a ++ b) = blen a + blen b.
Proof. unfold blen. rewrite app_length. lia. Qed.

Lemma blen_nil : blen [] = 0.
Proof. reflexivity. Qed.

Lemma takeN_app_exact (a b : bytes) n : n = blen a -> takeN n (a ++ b) = a.
Proof.
  intros ->. unfold takeN, blen. rewrite Nat2N.id. apply firstn_app_len. reflexivity.
Qed.

Lemma dropN_app_exact (a b : bytes) n : n = blen a -> dropN n (a ++ b) = b.
Proof.
  intros ->. unfold dropN, blen. rewrite Nat2N.id. apply skipn_app_len. reflexivity.
Qed.

Lemma takeN_of_nat n (l : bytes) : takeN (N.of_nat n) l = firstn n l.
Proof. unfold takeN. rewrite Nat2N.id. reflexivity. Qed.

(** ** varint32 *)

Lemma varint_dec_single fd shift acc n rest :
  n < 128 -> acc + n * 2 ^ shift < 18446744073709551616 ->
  varint_dec (S fd) shift acc (n :: rest) = Some (acc + n * 2 ^ shift, 1%nat).
Proof.
  intros Hn Hb. cbn [varint_dec].
  destruct (N.ltb_spec n 128) as [L|L]; [|lia].
  rewrite (N.mod_small n 128) by lia.
  rewrite N.mod_small by exact Hb. reflexivity.
Qed.

Lemma varint_dec_enc k : forall fe fd n shift acc rest,
  n < 128 ^ N.of_nat (S k) -> (k <= fe)%nat -> (k < fd)%nat ->
  acc + n * 2 ^ shift < 18446744073709551616 ->
  varint_dec fd shift acc (varint_enc fe n ++ rest) =
  Some (acc + n * 2 ^ shift, length (varint_enc fe n)).
Proof.
  induction k as [|k IH]; intros fe fd n shift acc rest Hn Hfe Hfd Hb.
  - change (128 ^ N.of_nat 1) with 128 in Hn.
    destruct fd as [|fd]; [lia|].
    destruct fe as [|fe]; cbn [varint_enc].
    + rewrite (N.mod_small n 128) by lia. cbn [app length].
      apply varint_dec_single; assumption.
    + destruct (N.ltb_spec n 128) as [L|L]; [|lia]. cbn [app length].
      apply varint_dec_single; assumption.
  - destruct fd as [|fd]; [lia|]. destruct fe as [|fe]; [lia|].
    cbn [varint_enc].
    destruct (N.ltb_spec n 128) as [L|L].
    + cbn [app length]. apply varint_dec_single; assumption.
    + rewrite Nat2N.inj_succ, N.pow_succ_r' in Hn.
      cbn [app length varint_dec].
      destruct (N.ltb_spec (128 + n mod 128) 128) as [L'|L']; [lia|].
      replace ((128 + n mod 128) mod 128) with (n mod 128) by lia.
      assert (Hp : 2 ^ (shift + 7) = 128 * 2 ^ shift).
      { rewrite N.pow_add_r. change (2 ^ 7) with 128. lia. }
      set (p := 2 ^ shift) in *.
      assert (Hle : (n mod 128) * p <= n * p).
      { apply N.mul_le_mono_r. apply N.mod_le. lia. }
      rewrite (N.mod_small (acc + n mod 128 * p)) by lia.
      assert (Hsplit : n * p = n mod 128 * p + n / 128 * (128 * p)).
      { rewrite (N.div_mod n 128) at 1 by lia. lia. }
      rewrite (IH fe fd (n / 128) (shift + 7) (acc + n mod 128 * p) rest).
      * rewrite Hp. f_equal. f_equal. lia.
      * apply N.div_lt_upper_bound; lia.
      * lia.
      * lia.
      * rewrite Hp. lia.
Qed.

Lemma varint32_dec_enc n rest :
  n < 4294967296 ->
  varint32_dec (varint32 n ++ rest) = Some (n, length (varint32 n)).
Proof.
  intros Hn. unfold varint32_dec, varint32.
  assert (H5 : 128 ^ N.of_nat 5 = 34359738368) by reflexivity.
  rewrite (varint_dec_enc 4 10 10 n 0 0 rest); try lia.
  rewrite N.pow_0_r. f_equal. f_equal. lia.
Qed.

Lemma varint32_nonempty n : varint32 n <> [].
Proof.
  unfold varint32. cbn [varint_enc]. destruct (n <? 128); discriminate.
Qed.

Lemma varint32_length_pos n : (0 < length (varint32 n))%nat.
Proof.
  pose proof (varint32_nonempty n). destruct (varint32 n); [congruence|cbn [length]; lia].
Qed.

(** ** One entry *)

Definition enc_entry (shared : nat) (kb v : bytes) : bytes :=
  varint32 (N.of_nat shared) ++ varint32 (blen (skipn shared kb))
    ++ varint32 (blen v mod 4294967296) ++ skipn shared kb ++ v.

Lemma enc_entry_nonempty shared kb v : enc_entry shared kb v <> [].
Proof.
  unfold enc_entry. intros E. apply app_eq_nil in E. destruct E as [E _].
  exact (varint32_nonempty _ E).
Qed.

Lemma blen_enc_entry shared kb v :
  blen (enc_entry shared kb v) =
  N.of_nat (length (varint32 (N.of_nat shared)) + length (varint32 (blen (skipn shared kb)))
            + length (varint32 (blen v mod 4294967296)))
  + blen (skipn shared kb) + blen v.
Proof. unfold enc_entry, blen. rewrite !app_length. lia. Qed.

Lemma blen_enc_entry_pos shared kb v : 0 < blen (enc_entry shared kb v).
Proof.
  rewrite blen_enc_entry. pose proof (varint32_length_pos (N.of_nat shared)). lia.
Qed.

Lemma dec_entries_unfold f buf off cur restarts matched acc :
  buf <> [] ->
  dec_entries (S f) buf off cur restarts matched acc =
  match varint32_dec buf with
  | None => DErr
  | Some (shared, n1) =>
      let b1 := skipn n1 buf in
      match varint32_dec b1 with
      | None => DErr
      | Some (unshared, n2) =>
          let b2 := skipn n2 b1 in
          match varint32_dec b2 with
          | None => DErr
          | Some (vlen, n3) =>
              let b3 := skipn n3 b2 in
              if blen b3 <? unshared then DPanic
              else
                let delta := takeN unshared b3 in
                let b4 := dropN unshared b3 in
                let full := takeN shared cur ++ delta in
                match ikey_decode full with
                | None => DErr
                | Some k =>
                    if blen b4 <? vlen then DPanic
                    else
                      let v := takeN vlen b4 in
                      let b5 := dropN vlen b4 in
                      let is_restart :=
                        match restarts with
                        | r :: _ => (off =? r) && (shared =? 0)
                        | [] => false
                        end in
                      let consumed := N.of_nat (n1 + n2 + n3) + unshared + vlen in
                      dec_entries f b5 (off + consumed) full
                                  (if is_restart then tl restarts else restarts)
                                  (if is_restart then S matched else matched)
                                  ((k, v) :: acc)
                end
          end
      end
  end.
Proof. intros H. destruct buf; [congruence|reflexivity]. Qed.

Lemma dec_entries_step f shared kb v k rest off cur restarts matched acc :
  N.of_nat shared < 4294967296 ->
  blen (skipn shared kb) < 4294967296 ->
  blen v < 4294967296 ->
  firstn shared cur ++ skipn shared kb = kb ->
  ikey_decode kb = Some k ->
  dec_entries (S f) (enc_entry shared kb v ++ rest) off cur restarts matched acc =
  dec_entries f rest (off + blen (enc_entry shared kb v)) kb
    (if match restarts with
        | r :: _ => (off =? r) && (N.of_nat shared =? 0)
        | [] => false
        end then tl restarts else restarts)
    (if match restarts with
        | r :: _ => (off =? r) && (N.of_nat shared =? 0)
        | [] => false
        end then S matched else matched)
    ((k, v) :: acc).
Proof.
  intros Hsh Hun Hv Hfull Hk.
  rewrite dec_entries_unfold.
  2:{ intros E. apply app_eq_nil in E. destruct E as [E _]. exact (enc_entry_nonempty _ _ _ E). }
  rewrite blen_enc_entry.
  unfold enc_entry. rewrite (N.mod_small (blen v)) by exact Hv.
  rewrite <- !app_assoc.
  rewrite varint32_dec_enc by exact Hsh. cbv beta iota zeta.
  rewrite (skipn_app_len (varint32 (N.of_nat shared)) _ _ eq_refl).
  rewrite varint32_dec_enc by exact Hun. cbv beta iota zeta.
  rewrite (skipn_app_len (varint32 (blen (skipn shared kb))) _ _ eq_refl).
  rewrite varint32_dec_enc by exact Hv. cbv beta iota zeta.
  rewrite (skipn_app_len (varint32 (blen v)) _ _ eq_refl).
  rewrite (takeN_app_exact (skipn shared kb) _ _ eq_refl).
  rewrite (dropN_app_exact (skipn shared kb) _ _ eq_refl).
  rewrite (takeN_app_exact v _ _ eq_refl).
  rewrite (dropN_app_exact v _ _ eq_refl).
  rewrite !takeN_of_nat. rewrite !Hfull, Hk.
  rewrite !blen_app.
  destruct (N.ltb_spec (blen (skipn shared kb) + (blen v + blen rest)) (blen (skipn shared kb)))
    as [L|L]; [lia|].
  destruct (N.ltb_spec (blen v + blen rest) (blen v)) as [L'|L']; [lia|].
  reflexivity.
Qed.

(** ** The builder, as a function of (count, last key, offset) *)

Fixpoint enc_from (ri c : N) (last : bytes) (off : N) (es : list (bytes * bytes))
  : bytes * list N :=
  match es with
  | [] => ([], [])
  | e :: r =>
      let restart := negb (c <? ri) in
      let shared := if restart then O else common_prefix_len last (fst e) in
      let ent := enc_entry shared (fst e) (snd e) in
      let x := enc_from ri ((if restart then 0 else c) + 1)
                        (firstn shared last ++ skipn shared (fst e)) (off + blen ent) r in
      (ent ++ fst x, (if restart then [off mod 4294967296] else []) ++ snd x)
  end.

Lemma enc_from_cons_restart ri c last off kb v r :
  (c <? ri) = false ->
  enc_from ri c last off ((kb, v) :: r) =
  (enc_entry 0 kb v ++ fst (enc_from ri (0 + 1) kb (off + blen (enc_entry 0 kb v)) r),
   (off mod 4294967296) :: snd (enc_from ri (0 + 1) kb (off + blen (enc_entry 0 kb v)) r)).
Proof. intros E. cbn [enc_from fst snd]. rewrite E. reflexivity. Qed.

Lemma enc_from_cons_cont ri c last off kb v r :
  (c <? ri) = true ->
  enc_from ri c last off ((kb, v) :: r) =
  (enc_entry (common_prefix_len last kb) kb v
     ++ fst (enc_from ri (c + 1) kb
                      (off + blen (enc_entry (common_prefix_len last kb) kb v)) r),
   snd (enc_from ri (c + 1) kb
                 (off + blen (enc_entry (common_prefix_len last kb) kb v)) r)).
Proof.
  intros E. cbn [enc_from fst snd]. rewrite E. cbn [negb]. rewrite cpl_rebuild. reflexivity.
Qed.

Lemma bb_add_eq ri b kb v :
  bb_add ri b kb v =
  mkBB (bb_buf b ++ enc_entry (if negb (bb_count b <? ri) then O
                               else common_prefix_len (bb_last b) kb) kb v)
       (if negb (bb_count b <? ri) then bb_restarts b ++ [blen (bb_buf b) mod 4294967296]
        else bb_restarts b)
       ((if negb (bb_count b <? ri) then 0 else bb_count b) + 1)
       (firstn (if negb (bb_count b <? ri) then O else common_prefix_len (bb_last b) kb)
               (bb_last b)
        ++ skipn (if negb (bb_count b <? ri) then O else common_prefix_len (bb_last b) kb) kb).
Proof. reflexivity. Qed.

Lemma fold_bb_add ri es : forall b,
  bb_buf (fold_left (fun b e => bb_add ri b (fst e) (snd e)) es b) =
    bb_buf b ++ fst (enc_from ri (bb_count b) (bb_last b) (blen (bb_buf b)) es) /\
  bb_restarts (fold_left (fun b e => bb_add ri b (fst e) (snd e)) es b) =
    bb_restarts b ++ snd (enc_from ri (bb_count b) (bb_last b) (blen (bb_buf b)) es).
Proof.
  induction es as [|e r IH]; intros b; cbn [fold_left enc_from fst snd].
  - rewrite !app_nil_r. auto.
  - destruct (IH (bb_add ri b (fst e) (snd e))) as [H1 H2]. rewrite H1, H2.
    rewrite bb_add_eq. cbn [bb_buf bb_restarts bb_count bb_last].
    rewrite blen_app.
    destruct (negb (bb_count b <? ri)); rewrite <- !app_assoc; auto.
Qed.

Lemma enc_from_restarts_lt ri : forall es c last off,
  Forall (fun r => r < 4294967296) (snd (enc_from ri c last off es)).
Proof.
  induction es as [|[kb v] r IH]; intros c last off; [constructor|].
  destruct (c <? ri) eqn:E.
  - rewrite enc_from_cons_cont by exact E. cbn [snd]. apply IH.
  - rewrite enc_from_cons_restart by exact E. cbn [snd]. constructor; [lia | apply IH].
Qed.

Lemma enc_from_restarts_ge ri : forall es c last off,
  off + blen (fst (enc_from ri c last off es)) < 4294967296 ->
  Forall (fun r => off <= r) (snd (enc_from ri c last off es)).
Proof.
  induction es as [|[kb v] r IH]; intros c last off Hb; [constructor|].
  destruct (c <? ri) eqn:E.
  - rewrite enc_from_cons_cont in * by exact E. cbn [fst snd] in *.
    rewrite blen_app in Hb.
    eapply Forall_impl; [|apply IH; lia]. intros r0 Hr0. cbv beta in Hr0. lia.
  - rewrite enc_from_cons_restart in * by exact E. cbn [fst snd] in *.
    rewrite blen_app in Hb.
    constructor; [rewrite N.mod_small by lia; lia|].
    eapply Forall_impl; [|apply IH; lia]. intros r0 Hr0. cbv beta in Hr0. lia.
Qed.

Lemma enc_from_length ri : forall es c last off,
  (length es <= length (fst (enc_from ri c last off es)))%nat.
Proof.
  induction es as [|[kb v] r IH]; intros c last off; [cbn; lia|].
  destruct (c <? ri) eqn:E.
  - rewrite enc_from_cons_cont by exact E. cbn [fst length]. rewrite app_length.
    match goal with |- context [enc_entry ?s kb v] =>
      pose proof (blen_enc_entry_pos s kb v) as Hp; unfold blen in Hp end.
    match goal with |- context [enc_from ri ?c' ?l' ?o' r] => specialize (IH c' l' o') end.
    lia.
  - rewrite enc_from_cons_restart by exact E. cbn [fst length]. rewrite app_length.
    pose proof (blen_enc_entry_pos 0 kb v) as Hp; unfold blen in Hp.
    match goal with |- context [enc_from ri ?c' ?l' ?o' r] => specialize (IH c' l' o') end.
    lia.
Qed.

Lemma blen_skipn_bound n (kb : bytes) : blen kb <= N.of_nat n + blen (skipn n kb).
Proof. unfold blen. rewrite skipn_length. lia. Qed.

(** ** The decoder loop on the builder's output.
    Invariant: the decoder is at a suffix of the builder's buffer; [cur] is the previous full
    key (= the builder's [last_key_bytes]); [off] the number of bytes consumed; the restart
    list is exactly the restarts the builder records from here on. *)

Definition encE (e : entry) : bytes * bytes := (ikey_encode (fst e), snd e).

Lemma dec_entries_enc ri : forall es fuel c last off matched acc,
  entries_bounded es ->
  (length es < fuel)%nat ->
  blen last <= off ->
  off + blen (fst (enc_from ri c last off (map encE es))) < 4294967296 ->
  dec_entries fuel (fst (enc_from ri c last off (map encE es))) off last
              (snd (enc_from ri c last off (map encE es))) matched acc =
  DOk (rev acc ++ es,
       (matched + length (snd (enc_from ri c last off (map encE es))))%nat).
Proof.
  induction es as [|[k v] r IH]; intros fuel c last off matched acc Hbd Hfuel Hlast Hb.
  - destruct fuel as [|f]; [lia|]. cbn [map enc_from fst snd dec_entries length].
    rewrite app_nil_r, Nat.add_0_r. reflexivity.
  - destruct fuel as [|f]; [cbn [length] in Hfuel; lia|].
    cbn [length] in Hfuel.
    change (map encE ((k, v) :: r)) with ((ikey_encode k, v) :: map encE r) in *.
    inversion Hbd as [|? ? Hk Hbd']; subst. cbn [fst] in Hk.
    pose proof (ikey_decode_encode k Hk) as Hdec.
    destruct (c <? ri) eqn:E.
    + rewrite enc_from_cons_cont in * by exact E. cbn [fst snd] in *.
      set (kb := ikey_encode k) in *.
      set (shared := common_prefix_len last kb) in *.
      rewrite blen_app in Hb.
      pose proof (blen_enc_entry shared kb v) as Hent.
      pose proof (blen_enc_entry_pos shared kb v) as Hpos.
      pose proof (cpl_le_l last kb) as Hshl. fold shared in Hshl.
      assert (Hshl' : N.of_nat shared <= blen last) by (unfold blen; lia).
      pose proof (blen_skipn_bound shared kb) as Hkb.
      set (ent := enc_entry shared kb v) in *.
      set (X' := enc_from ri (c + 1) kb (off + blen ent) (map encE r)) in *.
      unfold ent at 1.
      rewrite (dec_entries_step f shared kb v k); try lia;
        [| unfold shared; apply cpl_rebuild | exact Hdec].
      fold ent.
      assert (Hnr : match snd X' with
                    | r0 :: _ => (off =? r0) && (N.of_nat shared =? 0)
                    | [] => false
                    end = false).
      { pose proof (enc_from_restarts_ge ri (map encE r) (c + 1) kb (off + blen ent)) as Hge.
        fold X' in Hge. destruct (snd X') as [|r0 t]; [reflexivity|].
        assert (Hlt : off + blen ent + blen (fst X') < 4294967296) by lia.
        specialize (Hge Hlt). inversion Hge as [|? ? Hr0 _]; subst.
        destruct (N.eqb_spec off r0) as [Er|Er]; [lia|]. reflexivity. }
      rewrite Hnr.
      unfold X'. rewrite IH; try assumption; try lia.
      * cbn [rev]. rewrite <- app_assoc. reflexivity.
      * fold X'. lia.
    + rewrite enc_from_cons_restart in * by exact E. cbn [fst snd] in *.
      set (kb := ikey_encode k) in *.
      rewrite blen_app in Hb.
      pose proof (blen_enc_entry 0 kb v) as Hent.
      pose proof (blen_enc_entry_pos 0 kb v) as Hpos.
      pose proof (blen_skipn_bound 0 kb) as Hkb.
      set (ent := enc_entry 0 kb v) in *.
      set (X' := enc_from ri (0 + 1) kb (off + blen ent) (map encE r)) in *.
      unfold ent at 1.
      rewrite (dec_entries_step f 0 kb v k); try lia; [| reflexivity | exact Hdec].
      fold ent.
      rewrite (N.mod_small off) by lia.
      change (N.of_nat 0) with 0. rewrite !N.eqb_refl. cbn [andb tl].
      unfold X'. rewrite IH; try assumption; try lia.
      * cbn [rev length]. rewrite <- app_assoc. cbn [app]. f_equal. f_equal. lia.
      * fold X'. change (N.of_nat 0) with 0 in Hkb. lia.
Qed.

(** ** The restart array and the block frame *)

Lemma le_chunks4_unfold f (l : bytes) :
  l <> [] -> le_chunks4 (S f) l = le_decode (firstn 4 l) :: le_chunks4 f (skipn 4 l).
Proof. intros H. destruct l; [congruence|reflexivity]. Qed.

Lemma le_encode4_nonempty v (rest : bytes) : le_encode 4 v ++ rest <> [].
Proof. cbn [le_encode app]. discriminate. Qed.

Lemma le_chunks4_concat rs : forall fuel,
  Forall (fun r => r < 4294967296) rs -> (length rs <= fuel)%nat ->
  le_chunks4 fuel (concat (map (le_encode 4) rs)) = rs.
Proof.
  induction rs as [|r0 rs IH]; intros fuel Hrs Hf.
  - destruct fuel; reflexivity.
  - destruct fuel as [|f]; [cbn [length] in Hf; lia|]. cbn [length] in Hf.
    inversion Hrs as [|? ? Hr0 Hrs']; subst.
    cbn [map concat]. rewrite le_chunks4_unfold by apply le_encode4_nonempty.
    rewrite (firstn_app_len (le_encode 4 r0) _ 4 (le_encode_length _ _)).
    rewrite (skipn_app_len (le_encode 4 r0) _ 4 (le_encode_length _ _)).
    rewrite le_decode_encode4 by exact Hr0. f_equal. apply IH; [exact Hrs'|lia].
Qed.

Lemma length_concat_le4 rs :
  length (concat (map (le_encode 4) rs)) = (4 * length rs)%nat.
Proof.
  induction rs as [|r0 rs IH]; [reflexivity|].
  cbn [map concat length]. rewrite app_length, le_encode_length, IH. lia.
Qed.

Lemma block_decode_layout buf rs :
  blen (buf ++ concat (map (le_encode 4) rs)
            ++ le_encode 4 (N.of_nat (length rs) mod 4294967296)) < 4294967296 ->
  Forall (fun r => r < 4294967296) rs ->
  block_decode (buf ++ concat (map (le_encode 4) rs)
                    ++ le_encode 4 (N.of_nat (length rs) mod 4294967296)) =
  match dec_entries (S (length (buf ++ concat (map (le_encode 4) rs)
                                    ++ le_encode 4 (N.of_nat (length rs) mod 4294967296))))
                    buf 0 [] rs O [] with
  | DErr => DErr
  | DPanic => DPanic
  | DOk (es, matched) => if Nat.eqb matched (length rs) then DOk es else DErr
  end.
Proof.
  set (R := concat (map (le_encode 4) rs)).
  set (nrs := N.of_nat (length rs)).
  set (L := le_encode 4 (nrs mod 4294967296)).
  set (raw := buf ++ R ++ L).
  intros Hb Hrs.
  assert (HR : blen R = 4 * nrs).
  { unfold blen, R, nrs. rewrite length_concat_le4. lia. }
  assert (HLl : blen L = 4).
  { unfold blen, L. rewrite le_encode_length. reflexivity. }
  assert (Hn : blen raw = blen buf + 4 * nrs + 4).
  { unfold raw. rewrite !blen_app. lia. }
  assert (HL : le_decode L = nrs).
  { unfold L. rewrite N.mod_small by lia. apply le_decode_encode4. lia. }
  assert (H1 : dropN (blen raw - 4) raw = L).
  { unfold raw. rewrite app_assoc. apply dropN_app_exact.
    fold raw. rewrite blen_app. lia. }
  assert (H2 : blen raw - (1 + nrs) * 4 = blen buf) by lia.
  assert (H3 : takeN (blen raw - 4 - blen buf) (dropN (blen buf) raw) = R).
  { unfold raw at 2. rewrite (dropN_app_exact buf _ _ eq_refl).
    apply takeN_app_exact. lia. }
  assert (H4 : le_chunks4 (length R) R = rs).
  { apply le_chunks4_concat; [exact Hrs|]. unfold R. rewrite length_concat_le4. lia. }
  assert (H5 : takeN (blen buf) raw = buf).
  { unfold raw. apply takeN_app_exact. reflexivity. }
  unfold block_decode. cbv zeta.
  destruct (N.ltb_spec (blen raw) 4) as [C|C]; [lia|].
  rewrite H1, HL.
  destruct (N.ltb_spec (blen raw) ((1 + nrs) * 4)) as [C'|C']; [lia|].
  rewrite H2, H3, H4, H5.
  fold nrs. rewrite N.eqb_refl. cbn [negb]. reflexivity.
Qed.

Lemma enc_from_first ri es' :
  0 < ri -> es' <> [] ->
  fst (enc_from ri 0 [] 0 es') = fst (enc_from ri ri [] 0 es') /\
  0 :: snd (enc_from ri 0 [] 0 es') = snd (enc_from ri ri [] 0 es').
Proof.
  intros Hri Hne. destruct es' as [|[kb v] r]; [congruence|].
  rewrite (enc_from_cons_cont ri 0) by (apply N.ltb_lt; exact Hri).
  rewrite (enc_from_cons_restart ri ri) by apply N.ltb_irrefl.
  cbn [common_prefix_len fst snd]. split; reflexivity.
Qed.

(** the shape of an encoded block: entries, restart array, restart count *)
Lemma block_encode_shape ri es :
  0 < ri -> es <> [] ->
  block_encode ri es =
  fst (enc_from ri ri [] 0 (map encE es))
  ++ concat (map (le_encode 4) (snd (enc_from ri ri [] 0 (map encE es))))
  ++ le_encode 4 (N.of_nat (length (snd (enc_from ri ri [] 0 (map encE es))))
                  mod 4294967296).
Proof.
  intros Hri Hne.
  assert (H0 : block_encode ri es =
               bb_finalize (fold_left (fun b e => bb_add ri b (fst e) (snd e))
                                      (map encE es) bb_new)) by reflexivity.
  rewrite H0. unfold bb_finalize.
  destruct (fold_bb_add ri (map encE es) bb_new) as [Hbuf Hrs].
  rewrite Hbuf, Hrs. unfold bb_new. cbn [bb_buf bb_restarts bb_count bb_last app].
  change (blen []) with 0.
  assert (Hne' : map encE es <> []) by (destruct es; [congruence|discriminate]).
  destruct (enc_from_first ri (map encE es) Hri Hne') as [E1 E2].
  rewrite E1, E2. reflexivity.
Qed.

Theorem block_decode_encode ri es :
  0 < ri -> es <> [] -> entries_bounded es ->
  blen (block_encode ri es) < 4294967296 ->
  block_decode (block_encode ri es) = DOk es.
Proof.
  intros Hri Hne Hbd Hb. rewrite block_encode_shape in * by assumption.
  set (X := enc_from ri ri [] 0 (map encE es)) in *.
  rewrite block_decode_layout; [| exact Hb | apply enc_from_restarts_lt].
  pose proof (enc_from_length ri (map encE es) ri [] 0) as Hlen. fold X in Hlen.
  rewrite map_length in Hlen.
  rewrite !blen_app in Hb.
  unfold X. rewrite dec_entries_enc.
  - fold X. cbn [rev app Nat.add]. rewrite Nat.eqb_refl. reflexivity.
  - exact Hbd.
  - fold X. rewrite app_length. lia.
  - change (blen []) with 0. lia.
  - fold X. lia.
Qed.

(** an empty block does not decode: its single pre-pushed restart point is never matched *)
Lemma block_decode_encode_nil ri : block_decode (block_encode ri []) = DErr.
Proof. reflexivity. Qed.

(** with a zero restart interval the duplicated restart offset 0 is never matched *)
Lemma block_decode_encode_ri0 :
  block_decode (block_encode 0 [(mkIKey [1] 5 1, [7])]) = DErr.
Proof. vm_compute. reflexivity. Qed.

(** ** Corollaries for the blocks of a built table *)

Theorem data_block_decode_encode es :
  es <> [] -> entries_bounded es ->
  blen (data_block_encode es) < 4294967296 ->
  block_decode (data_block_encode es) = DOk es.
Proof.
  intros Hne Hbd Hb. unfold data_block_encode in *.
  apply block_decode_encode; try assumption. reflexivity.
Qed.

(** every data block of a built table, and its index block (restart interval 1), survive the
    block codec *)
Theorem table_blocks_roundtrip es sizes t :
  sorted_entries es = true -> entries_bounded es ->
  table_build es sizes = Some t ->
  (forall b, In b (t_blocks t) ->
     blen (data_block_encode b) < 4294967296 ->
     block_decode (data_block_encode b) = DOk b) /\
  (es <> [] -> blen (block_encode 1 (t_index t)) < 4294967296 ->
     block_decode (block_encode 1 (t_index t)) = DOk (t_index t)).
Proof.
  intros Hs Hbd Hbuild.
  destruct (table_build_wf es sizes Hs Hbd) as (t' & Hb' & Hwf & Hlen & Hne).
  rewrite Hbuild in Hb'. injection Hb' as <-.
  destruct Hwf as (Hc & _ & _).
  split.
  - intros b Hin Hb. apply data_block_decode_encode; [| | exact Hb].
    + rewrite Forall_forall in Hne. apply Hne. exact Hin.
    + unfold entries_bounded in *. rewrite <- Hc in Hbd. rewrite Forall_forall in *.
      intros e He. apply Hbd. apply in_concat. exists b. split; assumption.
  - intros Hes Hb. apply block_decode_encode; [reflexivity | | | exact Hb].
    + intros E. rewrite E in Hlen. cbn [length] in Hlen.
      destruct (t_blocks t); [|discriminate]. cbn [concat] in Hc. congruence.
    + pose proof (table_build_index_bounded es sizes t Hs Hbd Hbuild) as Hk.
      unfold entries_bounded. rewrite Forall_map in Hk. exact Hk.
Qed.

(** * Example data for the non-vacuity examples of props/C13 *)

(** [n] strictly sorted entries: user keys "k" ++ two digits (so neighbouring keys share a
    prefix), two versions for every third user key, alternating operations *)
Definition ex_entry (i : nat) : entry :=
  let u := N.of_nat (i / 3) in
  (mkIKey [107; 48 + u / 10; 48 + u mod 10] (1000 - N.of_nat i) (N.of_nat (i mod 2)),
   [N.of_nat i; 255; N.of_nat i]).

Definition ex_entries (n : nat) : list entry := map ex_entry (seq 0 n).
