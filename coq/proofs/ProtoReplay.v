(** Log replay during open: what the tables built and the memtable kept contain *)
From Coq Require Import Lia ZArith ZifyN ZifyBool ZifyNat Arith List NArith Bool.
From RainVerif Require Import Params.
From RainVerif.model Require Import Bytes Key Block Crc Log Table TableSpec Version Lsm DbSpec Codec WalModel Gc Recover Proto.
From RainVerif.proofs Require Import ImgProofs ContentsProofs ProtoDurable ProtoSteps.
Import ListNotations.
Open Scope N_scope.

Arguments N.add : simpl never.
Arguments N.sub : simpl never.
Arguments N.max : simpl never.
Arguments N.modulo : simpl never.
Arguments N.eqb : simpl never.

(** * small facts *)
Lemma NoDup_snoc {A} (l : list A) (x : A) : NoDup l -> ~ In x l -> NoDup (l ++ [x]).
Proof.
  induction l as [|a l IH]; intros Hn Hx; cbn [app].
  - constructor; [intros []|constructor].
  - inversion Hn as [|a' l' Ha Hl]; subst. constructor.
    + rewrite in_app_iff. intros [H|[H|[]]]; [exact (Ha H)|]. apply Hx. left. symmetry. exact H.
    + apply IH; [exact Hl|]. intros H. apply Hx. right. exact H.
Qed.

Lemma table_meta_num num size es f : table_meta num size es = Some f -> fm_num f = num /\ es <> [].
Proof.
  intros H. destruct es as [|e es]; [rewrite table_meta_nil in H; discriminate|].
  split; [|discriminate].
  destruct (table_meta_some num size (e :: es)) as (e1 & e2 & _ & _ & E); [discriminate|].
  rewrite E in H. injection H as <-. reflexivity.
Qed.

Section REPLAY.
Variables (img : image) (dv : dview) (next1 : N) (sizes : list (N * N)).
(** table numbers above [next1] are not in the recovered version *)
Hypothesis Hfresh : forall n, next1 < n -> ~ In n (version_numbers (dv_ver dv)).

Definition rs_img (r : replay_state) : image := apply_fsops img (rs_ops r).

(** [tabd]: the batches whose entries are in the tables built so far; [memd]: those in the memtable *)
Record RSInv (r : replay_state) (tabd memd : list batch) : Prop := mkRSInv {
  rsi_next : next1 <= rs_next r;
  rsi_inv : Forall (invisible dv) (rs_ops r);
  rsi_cur : i_current (rs_img r) = i_current img;
  rsi_man : i_manifests (rs_img r) = i_manifests img;
  rsi_wals : i_wals (rs_img r) = i_wals img;
  rsi_old : forall n, n <= next1 -> lookupN n (i_tables (rs_img r)) = lookupN n (i_tables img);
  rsi_added : forall l f, In (l, f) (rs_added r) ->
      l = 0 /\ next1 < fm_num f /\ fm_num f <= rs_next r /\
      exists es, lookupN (fm_num f) (i_tables (rs_img r)) = Some (Some es) /\ es <> [] /\
                 table_meta (fm_num f) (size_of sizes (fm_num f)) es = Some f;
  rsi_nodup : NoDup (map (fun x => fm_num (snd x)) (rs_added r));
  rsi_tab : forall e,
      (exists l f es, In (l, f) (rs_added r) /\
                      lookupN (fm_num f) (i_tables (rs_img r)) = Some (Some es) /\ In e es)
      <-> In e (all_entries_of tabd);
  rsi_mem : forall e, In e (rs_mem r) <-> In e (all_entries_of memd);
  rsi_nm : rs_new_manifest r = false -> rs_ops r = [] /\ rs_added r = [] /\ tabd = []
}.

Lemma RSInv_init : forall cuts, RSInv (mkRS next1 [] cuts [] [] O false) [] [].
Proof using. clear Hfresh.
  intros cuts. constructor; unfold rs_img; cbn [rs_next rs_mem rs_ops rs_added rs_new_manifest apply_fsops fold_left map].
  - lia.
  - constructor.
  - reflexivity.
  - reflexivity.
  - reflexivity.
  - reflexivity.
  - intros l f [].
  - constructor.
  - intros e. change (all_entries_of []) with (@nil entry). split; [intros (l & f & es & [] & _)|intros []].
  - intros e. change (all_entries_of []) with (@nil entry). split; intros [].
  - intros _. repeat split; reflexivity.
Qed.

(** the invariant does not mention [rs_cuts], [rs_flushes]; it is monotone in [rs_next]; the memtable only matters as a set *)
Lemma RSInv_ext r r' tabd memd memd' :
  rs_next r <= rs_next r' -> rs_ops r' = rs_ops r -> rs_added r' = rs_added r ->
  rs_new_manifest r' = rs_new_manifest r ->
  (forall e, In e (rs_mem r') <-> In e (all_entries_of memd')) ->
  RSInv r tabd memd -> RSInv r' tabd memd'.
Proof using. clear Hfresh.
  intros Hn Ho Ha Hm Hmem [H1 H2 H3 H4 H5 H6 H7 H8 H9 H10 H11].
  unfold rs_img in H3, H4, H5, H6, H7, H9.
  constructor; unfold rs_img; rewrite ?Ho, ?Ha, ?Hm; try assumption.
  - lia.
  - intros l f Hin. destruct (H7 l f Hin) as (A & B & C & D).
    split; [exact A|]. split; [exact B|]. split; [lia|exact D].
Qed.

Lemma RSInv_same r r' tabd memd :
  rs_next r <= rs_next r' -> rs_mem r' = rs_mem r -> rs_ops r' = rs_ops r -> rs_added r' = rs_added r ->
  rs_new_manifest r' = rs_new_manifest r ->
  RSInv r tabd memd -> RSInv r' tabd memd.
Proof using. clear Hfresh.
  intros Hn Hme Ho Ha Hm HI. apply (RSInv_ext r r' tabd memd memd Hn Ho Ha Hm); [|exact HI].
  rewrite Hme. exact (rsi_mem _ _ _ HI).
Qed.

Lemma RSInv_tab_eq r tabd tabd' memd :
  RSInv r tabd memd -> rs_new_manifest r = true ->
  (forall e, In e (all_entries_of tabd) <-> In e (all_entries_of tabd')) ->
  RSInv r tabd' memd.
Proof using. clear Hfresh.
  intros [H1 H2 H3 H4 H5 H6 H7 H8 H9 H10 H11] Hnm Heq.
  constructor; try assumption.
  - intros e. rewrite <- Heq. apply H9.
  - intros H. rewrite H in Hnm. discriminate.
Qed.

Lemma RSInv_flush : forall r tabd memd,
  RSInv r tabd memd ->
  RSInv (rs_flush sizes r) (tabd ++ memd) [] /\
  rs_new_manifest (rs_flush sizes r) = true /\ rs_next (rs_flush sizes r) = rs_next r + 1.
Proof.
  intros r tabd memd [H1 H2 H3 H4 H5 H6 H7 H8 H9 H10 H11].
  split; [|split; reflexivity].
  set (num := rs_next r + 1).
  set (r' := rs_flush sizes r).
  assert (Himg : rs_img r' = apply_fsops (rs_img r) (table_ops num (rs_mem r))).
  { unfold r', rs_img, rs_flush. cbn [rs_ops]. apply apply_fsops_app. }
  assert (Hlk : forall n, n <> num -> lookupN n (i_tables (rs_img r')) = lookupN n (i_tables (rs_img r))).
  { intros n Hn. rewrite Himg, table_ops_tables. destruct (rs_mem r); [reflexivity|].
    apply N.eqb_neq in Hn. rewrite Hn. reflexivity. }
  assert (Hadd : rs_added r' = rs_added r ++ match table_meta num (size_of sizes num) (rs_mem r) with
                                             | Some f => [(0, f)] | None => [] end) by reflexivity.
  assert (Hold : forall l f, In (l, f) (rs_added r) -> fm_num f <> num).
  { intros l f Hin. destruct (H7 l f Hin) as (_ & _ & Hle & _). unfold num. lia. }
  assert (Hnext : rs_next r' = num) by reflexivity.
  assert (Hcase : (rs_mem r = [] /\ table_meta num (size_of sizes num) (rs_mem r) = None) \/
                  (rs_mem r <> [] /\ exists f0, table_meta num (size_of sizes num) (rs_mem r) = Some f0 /\
                     fm_num f0 = num /\ lookupN num (i_tables (rs_img r')) = Some (Some (rs_mem r)))).
  { destruct (rs_mem r) as [|e0 m0] eqn:M.
    - left. split; reflexivity.
    - right. split; [discriminate|].
      destruct (table_meta_some num (size_of sizes num) (e0 :: m0)) as (e1 & e2 & _ & _ & E); [discriminate|].
      eexists. split; [exact E|]. split; [reflexivity|].
      rewrite Himg, ?M, table_ops_tables, N.eqb_refl. reflexivity. }
  constructor.
  - rewrite Hnext. unfold num. lia.
  - unfold r', rs_flush. cbn [rs_ops]. apply Forall_app. split; [exact H2|].
    apply table_ops_invisible. apply Hfresh. lia.
  - rewrite Himg. destruct (table_ops_other (rs_img r) num (rs_mem r)) as (A & _ & _). rewrite A. exact H3.
  - rewrite Himg. destruct (table_ops_other (rs_img r) num (rs_mem r)) as (_ & A & _). rewrite A. exact H4.
  - rewrite Himg. destruct (table_ops_other (rs_img r) num (rs_mem r)) as (_ & _ & A). rewrite A. exact H5.
  - intros n Hn. rewrite Hlk by (unfold num; lia). apply H6. exact Hn.
  - intros l f Hin. rewrite Hadd in Hin. apply in_app_or in Hin. destruct Hin as [Hin|Hin].
    + destruct (H7 l f Hin) as (A & B & C & es & D & E & F).
      split; [exact A|]. split; [exact B|]. split; [rewrite Hnext; unfold num; lia|].
      exists es. rewrite Hlk by (exact (Hold l f Hin)). split; [exact D|]. split; [exact E|exact F].
    + destruct Hcase as [(M & TM)|(M & f0 & TM & Hnum & L)]; rewrite TM in Hin; [destruct Hin|].
      destruct Hin as [Hin|[]]. injection Hin as <- <-.
      split; [reflexivity|]. rewrite Hnum, Hnext. split; [unfold num; lia|]. split; [lia|].
      exists (rs_mem r). split; [exact L|]. split; [exact M|exact TM].
  - rewrite Hadd, map_app.
    destruct Hcase as [(M & TM)|(M & f0 & TM & Hnum & L)]; rewrite TM; cbn [map snd].
    + rewrite app_nil_r. exact H8.
    + apply NoDup_snoc; [exact H8|]. rewrite Hnum. intros Hin. apply in_map_iff in Hin.
      destruct Hin as ([l f] & E & Hin). cbn [snd] in E. exact (Hold l f Hin E).
  - intros e. rewrite all_entries_app, in_app_iff. split.
    + intros (l & f & es & Hin & Hl & He). rewrite Hadd in Hin. apply in_app_or in Hin. destruct Hin as [Hin|Hin].
      * left. apply H9. exists l, f, es. rewrite Hlk in Hl by (exact (Hold l f Hin)).
        split; [exact Hin|]. split; [exact Hl|exact He].
      * destruct Hcase as [(M & TM)|(M & f0 & TM & Hnum & L)]; rewrite TM in Hin; [destruct Hin|].
        destruct Hin as [Hin|[]]. injection Hin as <- <-. rewrite Hnum, L in Hl. injection Hl as <-.
        right. apply H10. exact He.
    + intros [Ht|Hm].
      * apply H9 in Ht. destruct Ht as (l & f & es & Hin & Hl & He). exists l, f, es.
        split; [rewrite Hadd; apply in_or_app; left; exact Hin|].
        split; [rewrite Hlk by (exact (Hold l f Hin)); exact Hl|exact He].
      * apply H10 in Hm. destruct Hcase as [(M & TM)|(M & f0 & TM & Hnum & L)]; [rewrite M in Hm; destruct Hm|].
        exists 0, f0, (rs_mem r). split; [rewrite Hadd, TM; apply in_or_app; right; left; reflexivity|].
        split; [rewrite Hnum; exact L|exact Hm].
  - intros e. change (all_entries_of []) with (@nil entry). unfold r', rs_flush. cbn [rs_mem]. split; intros [].
  - unfold r', rs_flush. cbn [rs_new_manifest]. discriminate.
Qed.

(** one batch: inserted into the memtable, then a flush when the memtable was full after it *)
Definition batch_step (b : batch) (r : replay_state) : replay_state :=
  let mem := fold_left (fun m e => insert_entry e m) (batch_entries b) (rs_mem r) in
  match rs_cuts r with
  | c :: cs =>
      if c =? batch_last_seq b
      then rs_flush sizes (mkRS (rs_next r) mem cs (rs_ops r) (rs_added r) (rs_flushes r) (rs_new_manifest r))
      else mkRS (rs_next r) mem (rs_cuts r) (rs_ops r) (rs_added r) (rs_flushes r) (rs_new_manifest r)
  | [] => mkRS (rs_next r) mem (rs_cuts r) (rs_ops r) (rs_added r) (rs_flushes r) (rs_new_manifest r)
  end.

Lemma replay_batches_cons b rest r :
  replay_batches sizes (b :: rest) r = replay_batches sizes rest (batch_step b r).
Proof.
  cbn [replay_batches]. unfold batch_step. cbn [rs_cuts rs_next rs_ops rs_added rs_flushes rs_new_manifest].
  destruct (rs_cuts r) as [|c cs]; [reflexivity|]. destruct (c =? batch_last_seq b); reflexivity.
Qed.

Lemma batch_step_spec b r tabd memd :
  RSInv r tabd memd ->
  (RSInv (batch_step b r) tabd (memd ++ [b]) /\ rs_flushes (batch_step b r) = rs_flushes r /\
   rs_next (batch_step b r) = rs_next r /\ rs_new_manifest (batch_step b r) = rs_new_manifest r) \/
  (RSInv (batch_step b r) (tabd ++ memd ++ [b]) [] /\ rs_flushes (batch_step b r) = S (rs_flushes r) /\
   rs_next (batch_step b r) = rs_next r + 1).
Proof.
  intros HI.
  set (mem := fold_left (fun m e => insert_entry e m) (batch_entries b) (rs_mem r)).
  assert (Hmem : forall e, In e mem <-> In e (all_entries_of (memd ++ [b]))).
  { intros e. unfold mem. rewrite insert_entries_in, all_entries_app, in_app_iff, (rsi_mem _ _ _ HI e).
    rewrite all_entries_cons. change (all_entries_of []) with (@nil entry). rewrite app_nil_r. tauto. }
  assert (Hr1 : forall cuts, RSInv (mkRS (rs_next r) mem cuts (rs_ops r) (rs_added r) (rs_flushes r) (rs_new_manifest r))
                                   tabd (memd ++ [b])).
  { intros cuts. apply (RSInv_ext r _ tabd memd (memd ++ [b])); cbn [rs_next rs_ops rs_added rs_new_manifest rs_mem];
      try reflexivity; try assumption. }
  unfold batch_step. fold mem.
  destruct (rs_cuts r) as [|c cs] eqn:Ec.
  - left. split; [apply Hr1|]. repeat split; reflexivity.
  - destruct (c =? batch_last_seq b).
    + right. destruct (RSInv_flush _ _ _ (Hr1 cs)) as (A & _ & B). split; [exact A|]. split; [reflexivity|exact B].
    + left. split; [apply Hr1|]. repeat split; reflexivity.
Qed.

Lemma replay_batches_spec : forall bs r tabd memd,
  RSInv r tabd memd ->
  exists tabd' memd',
    RSInv (replay_batches sizes bs r) tabd' memd' /\
    tabd' ++ memd' = tabd ++ memd ++ bs /\
    (rs_flushes r <= rs_flushes (replay_batches sizes bs r))%nat /\
    rs_next r <= rs_next (replay_batches sizes bs r) /\
    (rs_flushes (replay_batches sizes bs r) = rs_flushes r ->
       tabd' = tabd /\ memd' = memd ++ bs /\
       rs_new_manifest (replay_batches sizes bs r) = rs_new_manifest r /\
       rs_next (replay_batches sizes bs r) = rs_next r).
Proof.
  induction bs as [|b rest IH]; intros r tabd memd HI.
  - exists tabd, memd. cbn [replay_batches]. rewrite app_nil_r.
    split; [exact HI|]. split; [reflexivity|]. split; [lia|]. split; [lia|].
    intros _. repeat split; reflexivity.
  - rewrite replay_batches_cons.
    destruct (batch_step_spec b r tabd memd HI) as [(A & B & C & D)|(A & B & C)].
    + destruct (IH _ _ _ A) as (tabd' & memd' & I1 & I2 & I3 & I4 & I5).
      exists tabd', memd'. split; [exact I1|].
      split; [rewrite I2, <- List.app_assoc; reflexivity|].
      split; [lia|]. split; [lia|].
      intros E. rewrite <- B in E. destruct (I5 E) as (J1 & J2 & J3 & J4).
      split; [exact J1|]. split; [rewrite J2, <- List.app_assoc; reflexivity|].
      split; [rewrite J3; exact D|rewrite J4; exact C].
    + destruct (IH _ _ _ A) as (tabd' & memd' & I1 & I2 & I3 & I4 & I5).
      exists tabd', memd'. split; [exact I1|].
      split; [rewrite I2; cbn [app]; rewrite <- !List.app_assoc; reflexivity|].
      split; [lia|]. split; [lia|].
      intros E. exfalso. lia.
Qed.

Lemma replay_batches_nm : forall bs r,
  rs_new_manifest r = true -> rs_new_manifest (replay_batches sizes bs r) = true.
Proof.
  induction bs as [|b rest IH]; intros r H; [exact H|].
  rewrite replay_batches_cons. apply IH. unfold batch_step.
  destruct (rs_cuts r) as [|c cs]; [exact H|]. destruct (c =? batch_last_seq b); [reflexivity|exact H].
Qed.
End REPLAY.

(** * the logs one after the other *)
Definition log_r1 (o : open_oracle) (w : wal_replay) (r : replay_state) : replay_state :=
  replay_batches (oo_sizes o) (wr_batches w)
                 (mkRS (rs_next r) [] (rs_cuts r) (rs_ops r) (rs_added r) O (rs_new_manifest r)).

Definition log_reuse (o : open_oracle) (w : wal_replay) (rest : list wal_replay) (r : replay_state) : bool :=
  oo_reuse o && (match rest with [] => true | _ => false end) && Nat.eqb (rs_flushes (log_r1 o w r)) 0 && wr_intact w.

Definition log_r3 (o : open_oracle) (w : wal_replay) (rest : list wal_replay) (r : replay_state) : replay_state :=
  let r1 := log_r1 o w r in
  let r2 := if log_reuse o w rest r && negb (match rs_mem r1 with [] => true | _ => false end)
            then r1 else rs_flush (oo_sizes o) r1 in
  mkRS (N.max (rs_next r2) (wr_number w)) (rs_mem r2) (rs_cuts r2) (rs_ops r2)
       (rs_added r2) (rs_flushes r2) (rs_new_manifest r2).

Lemma replay_logs_cons o wimg w rest r :
  replay_logs o wimg (w :: rest) r =
  if log_reuse o w rest r
  then (log_r3 o w rest r,
        Some (wr_number w, (match lookupN (wr_number w) (i_wals wimg) with Some f => blen f | None => 0 end) mod BLOCK_SIZE_BYTES))
  else replay_logs o wimg rest (log_r3 o w rest r).
Proof. reflexivity. Qed.

Lemma log_r3_nm o w rest r : rs_new_manifest r = true -> rs_new_manifest (log_r3 o w rest r) = true.
Proof.
  intros H. unfold log_r3. cbn [rs_new_manifest].
  destruct (log_reuse o w rest r && negb (match rs_mem (log_r1 o w r) with [] => true | _ => false end)).
  - unfold log_r1. apply replay_batches_nm. exact H.
  - reflexivity.
Qed.

Lemma replay_logs_nm o wimg : forall ws r r' reused,
  replay_logs o wimg ws r = (r', reused) -> rs_new_manifest r = true -> rs_new_manifest r' = true.
Proof.
  induction ws as [|w rest IH]; intros r r' reused H Hn.
  - cbn [replay_logs] in H. injection H as <- _. exact Hn.
  - rewrite replay_logs_cons in H. destruct (log_reuse o w rest r).
    + injection H as <- _. apply log_r3_nm. exact Hn.
    + apply (IH _ _ _ H). apply log_r3_nm. exact Hn.
Qed.

Section LOGS.
Variables (img : image) (dv : dview) (next1 : N) (o : open_oracle).
Hypothesis Hfresh : forall n, next1 < n -> ~ In n (version_numbers (dv_ver dv)).
Notation Inv := (RSInv img dv next1 (oo_sizes o)).

(** one log *)
Lemma log_step n bs (b : bool) rest r tabd :
  Inv r tabd [] ->
  rs_next r <= rs_next (log_r3 o (mkWR n bs b) rest r) /\
  n <= rs_next (log_r3 o (mkWR n bs b) rest r) /\
  (if log_reuse o (mkWR n bs b) rest r
   then Inv (log_r3 o (mkWR n bs b) rest r) tabd bs /\ oo_reuse o = true /\ rest = [] /\ b = true
   else Inv (log_r3 o (mkWR n bs b) rest r) (tabd ++ bs) [] /\
        rs_new_manifest (log_r3 o (mkWR n bs b) rest r) = true).
Proof.
  intros HI.
  set (w := mkWR n bs b).
  set (r0 := mkRS (rs_next r) [] (rs_cuts r) (rs_ops r) (rs_added r) O (rs_new_manifest r)).
  assert (HI0 : Inv r0 tabd []).
  { apply (RSInv_ext img dv next1 (oo_sizes o) r r0 tabd [] []);
      [unfold r0; cbn [rs_next]; lia|reflexivity|reflexivity|reflexivity| |exact HI].
    intros e. unfold r0. cbn [rs_mem]. change (all_entries_of []) with (@nil entry). tauto. }
  destruct (replay_batches_spec img dv next1 (oo_sizes o) Hfresh bs r0 tabd [] HI0)
    as (tabd1 & memd1 & S1 & S2 & S3 & S4 & S5).
  change (replay_batches (oo_sizes o) bs r0) with (log_r1 o w r) in *.
  cbn [app] in S2.
  assert (Hr0n : rs_next r0 = rs_next r) by reflexivity.
  assert (Hr0f : rs_flushes r0 = O) by reflexivity.
  set (r1 := log_r1 o w r) in *.
  unfold log_r3. fold r1. cbn [wr_number w].
  destruct (log_reuse o w rest r) eqn:RU.
  - unfold log_reuse in RU. fold r1 in RU.
    apply andb_prop in RU. destruct RU as (RU & RB). cbn [wr_intact w] in RB.
    apply andb_prop in RU. destruct RU as (RU & RF).
    apply andb_prop in RU. destruct RU as (RO & RL).
    apply Nat.eqb_eq in RF.
    assert (Hrest : rest = []) by (destruct rest; [reflexivity|discriminate]).
    rewrite Hr0f in S5. destruct (S5 RF) as (T1 & T2 & T3 & T4). cbn [app] in T2. subst tabd1 memd1.
    cbn [andb].
    destruct (rs_mem r1) as [|e0 m0] eqn:M; cbn [negb].
    + (* empty memtable: an empty flush; the log has no entries *)
      destruct (RSInv_flush img dv next1 (oo_sizes o) Hfresh r1 tabd bs S1) as (F1 & F2 & F3).
      set (r2 := rs_flush (oo_sizes o) r1) in *.
      cbn [rs_next rs_mem rs_cuts rs_ops rs_added rs_flushes rs_new_manifest].
      assert (Hnone : forall e, ~ In e (all_entries_of bs)).
      { intros e He. apply (rsi_mem _ _ _ _ _ _ _ S1) in He. rewrite M in He. destruct He. }
      split; [rewrite F3, T4, Hr0n; lia|]. split; [lia|].
      split; [|split; [exact RO|split; [exact Hrest|exact RB]]].
      apply (RSInv_ext img dv next1 (oo_sizes o) r2 _ tabd [] bs);
        cbn [rs_next rs_mem rs_ops rs_added rs_new_manifest]; try reflexivity.
      * lia.
      * intros e. split; [intros He|intros He; exfalso; exact (Hnone e He)].
        exfalso. unfold r2, rs_flush in He. cbn [rs_mem] in He. destruct He.
      * apply (RSInv_tab_eq img dv next1 (oo_sizes o) r2 (tabd ++ bs) tabd [] F1 F2).
        intros e. rewrite all_entries_app, in_app_iff. split; [intros [H|H]; [exact H|exfalso; exact (Hnone e H)]|].
        intros H. left. exact H.
    + cbn [rs_next rs_mem rs_cuts rs_ops rs_added rs_flushes rs_new_manifest].
      split; [rewrite T4, Hr0n; lia|]. split; [lia|].
      split; [|split; [exact RO|split; [exact Hrest|exact RB]]].
      apply (RSInv_same img dv next1 (oo_sizes o) r1 _ tabd bs);
        cbn [rs_next rs_mem rs_ops rs_added rs_new_manifest]; try reflexivity; [lia|exact S1].
  - cbn [andb].
    destruct (RSInv_flush img dv next1 (oo_sizes o) Hfresh r1 tabd1 memd1 S1) as (F1 & F2 & F3).
    set (r2 := rs_flush (oo_sizes o) r1) in *.
    cbn [rs_next rs_mem rs_cuts rs_ops rs_added rs_flushes rs_new_manifest].
    rewrite S2 in F1.
    split; [rewrite F3; lia|]. split; [lia|]. split; [|exact F2].
    apply (RSInv_same img dv next1 (oo_sizes o) r2 _ (tabd ++ bs) []);
      cbn [rs_next rs_mem rs_ops rs_added rs_new_manifest]; try reflexivity; [lia|exact F1].
Qed.

Lemma replay_logs_spec_sec (wimg : image) (intact : N * list batch -> bool) :
  forall (logs : list (N * list batch)) r tabd r' reused,
  Inv r tabd [] ->
  replay_logs o wimg (map (fun nb => mkWR (fst nb) (snd nb) (intact nb)) logs) r = (r', reused) ->
  exists flushed kept,
    logs = flushed ++ kept /\
    Inv r' (tabd ++ log_batches flushed) (log_batches kept) /\
    rs_next r <= rs_next r' /\
    (forall nb, In nb logs -> fst nb <= rs_next r') /\
    (flushed <> [] -> rs_new_manifest r' = true) /\
    match reused with
    | None => kept = []
    | Some (n, boff) =>
        exists bs, kept = [(n, bs)] /\ oo_reuse o = true /\ intact (n, bs) = true /\
          boff = (match lookupN n (i_wals wimg) with Some f => blen f | None => 0 end) mod BLOCK_SIZE_BYTES
    end.
Proof.
  induction logs as [|[n bs] logs IH]; intros r tabd r' reused HI Hrun.
  - cbn [map replay_logs] in Hrun. injection Hrun as <- <-.
    exists [], []. change (log_batches []) with (@nil batch). rewrite (app_nil_r tabd).
    split; [reflexivity|]. split; [exact HI|]. split; [lia|]. split; [intros nb []|].
    split; [intros H; exfalso; apply H; reflexivity|reflexivity].
  - cbn [map] in Hrun. rewrite replay_logs_cons in Hrun. cbn [fst snd] in Hrun.
    set (rest := map (fun nb => mkWR (fst nb) (snd nb) (intact nb)) logs) in *.
    destruct (log_step n bs (intact (n, bs)) rest r tabd HI) as (A & B & C).
    set (r3 := log_r3 o (mkWR n bs (intact (n, bs))) rest r) in *.
    destruct (log_reuse o (mkWR n bs (intact (n, bs))) rest r) eqn:RU.
    + cbn [wr_number] in Hrun. injection Hrun as <- <-.
      destruct C as (C1 & C2 & C3 & C4).
      assert (logs = []) as -> by (destruct logs; [reflexivity|discriminate]).
      exists [], [(n, bs)]. rewrite log_batches_single. change (log_batches []) with (@nil batch). rewrite (app_nil_r tabd).
      split; [reflexivity|]. split; [exact C1|]. split; [exact A|].
      split; [intros nb [<-|[]]; exact B|].
      split; [intros H; exfalso; apply H; reflexivity|].
      exists bs. split; [reflexivity|]. split; [exact C2|]. split; [exact C4|reflexivity].
    + destruct C as (C1 & C2).
      pose proof (replay_logs_nm o wimg _ _ _ _ Hrun C2) as Hnm.
      destruct (IH r3 (tabd ++ bs) r' reused C1 Hrun) as (fl & kp & E1 & E2 & E3 & E4 & E5 & E6).
      exists ((n, bs) :: fl), kp.
      split; [rewrite E1; reflexivity|].
      split.
      { replace (tabd ++ log_batches ((n, bs) :: fl)) with ((tabd ++ bs) ++ log_batches fl); [exact E2|].
        rewrite <- List.app_assoc. reflexivity. }
      split; [lia|].
      split; [intros nb [<-|Hin]; [cbn [fst]; lia|apply E4; exact Hin]|].
      split; [intros _; exact Hnm|exact E6].
Qed.
End LOGS.

(** the logs one after the other, each intact or not ([wimg] is only used for the length of the reused log);
    a log that is not intact is never reused: it is flushed like any log but the last *)
Theorem replay_logs_spec_gen : forall (img : image) (dv : dview) (next1 : N) (o : open_oracle) (wimg : image)
    (intact : N * list batch -> bool),
  (forall n, next1 < n -> ~ In n (version_numbers (dv_ver dv))) ->
  forall (logs : list (N * list batch)) r tabd r' reused,
  RSInv img dv next1 (oo_sizes o) r tabd [] ->
  replay_logs o wimg (map (fun nb => mkWR (fst nb) (snd nb) (intact nb)) logs) r = (r', reused) ->
  exists flushed kept,
    logs = flushed ++ kept /\
    RSInv img dv next1 (oo_sizes o) r' (tabd ++ log_batches flushed) (log_batches kept) /\
    rs_next r <= rs_next r' /\
    (forall nb, In nb logs -> fst nb <= rs_next r') /\
    (flushed <> [] -> rs_new_manifest r' = true) /\
    match reused with
    | None => kept = []
    | Some (n, boff) =>
        exists bs, kept = [(n, bs)] /\ oo_reuse o = true /\ intact (n, bs) = true /\
          boff = (match lookupN n (i_wals wimg) with Some f => blen f | None => 0 end) mod BLOCK_SIZE_BYTES
    end.
Proof.
  intros img dv next1 o wimg intact Hfresh logs r tabd r' reused HI Hrun.
  exact (replay_logs_spec_sec img dv next1 o Hfresh wimg intact logs r tabd r' reused HI Hrun).
Qed.

(** the logs one after the other ([wimg] is only used for the length of the reused log) *)
Theorem replay_logs_spec : forall (img : image) (dv : dview) (next1 : N) (o : open_oracle) (wimg : image),
  (forall n, next1 < n -> ~ In n (version_numbers (dv_ver dv))) ->
  forall (logs : list (N * list batch)) r tabd r' reused,
  RSInv img dv next1 (oo_sizes o) r tabd [] ->
  replay_logs o wimg (map (fun nb => mkWR (fst nb) (snd nb) true) logs) r = (r', reused) ->
  exists flushed kept,
    logs = flushed ++ kept /\
    RSInv img dv next1 (oo_sizes o) r' (tabd ++ log_batches flushed) (log_batches kept) /\
    rs_next r <= rs_next r' /\
    (forall nb, In nb logs -> fst nb <= rs_next r') /\
    (flushed <> [] -> rs_new_manifest r' = true) /\
    match reused with
    | None => kept = []
    | Some (n, boff) =>
        exists bs, kept = [(n, bs)] /\ oo_reuse o = true /\
          boff = (match lookupN n (i_wals wimg) with Some f => blen f | None => 0 end) mod BLOCK_SIZE_BYTES
    end.
Proof.
  intros img dv next1 o wimg Hfresh logs r tabd r' reused HI Hrun.
  destruct (replay_logs_spec_gen img dv next1 o wimg (fun _ => true) Hfresh logs r tabd r' reused HI Hrun)
    as (fl & kp & E1 & E2 & E3 & E4 & E5 & E6).
  exists fl, kp. split; [exact E1|]. split; [exact E2|]. split; [exact E3|]. split; [exact E4|]. split; [exact E5|].
  destruct reused as [[n boff]|]; [|exact E6].
  destruct E6 as (bs & F1 & F2 & _ & F3). exists bs. split; [exact F1|]. split; [exact F2|exact F3].
Qed.

Print Assumptions replay_logs_spec.
Print Assumptions replay_logs_spec_gen.
