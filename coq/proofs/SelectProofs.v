(** Proofs for C07b: the compaction input selection ([get_overlapping_compaction_inputs],
    [get_key_range_for_files], [add_boundary_inputs], [finalize_compaction_inputs]) and the
    application of a compaction's version edit ([VersionBuilder::apply_changes]). No axioms. *)
From Coq Require Import Lia ZArith ZifyN ZifyBool ZifyNat Arith Permutation Orders OrdersTac Sorted.
From RainVerif Require Import Params.
From RainVerif.model Require Import Bytes Key Block Table TableSpec Version LsmSpec.
From RainVerif.proofs Require Import KeyProofs.
Open Scope N_scope.

Definition ult (a b : bytes) : Prop := bytes_cmp a b = Lt.
Definition ule (a b : bytes) : Prop := bytes_cmp a b <> Gt.

Module BytesO <: EqLtLe.
  Definition t := bytes.
  Definition eq := @Logic.eq bytes.
  Definition lt := ult.
  Definition le := ule.
End BytesO.

Module BytesTO <: IsTotalOrder BytesO.
  Definition eq_equiv : Equivalence BytesO.eq := eq_equivalence.
  Lemma lt_strorder : StrictOrder BytesO.lt.
  Proof.
    split.
    - intros a H. exact (bytes_cmp_lt_irrefl a H).
    - intros a b c. apply bytes_cmp_lt_trans.
  Qed.
  Lemma lt_compat : Proper (BytesO.eq ==> BytesO.eq ==> iff) BytesO.lt.
  Proof. intros a b -> c d ->. reflexivity. Qed.
  Lemma le_lteq x y : BytesO.le x y <-> BytesO.lt x y \/ BytesO.eq x y.
  Proof.
    unfold BytesO.le, BytesO.lt, BytesO.eq, ule, ult. rewrite <- bytes_cmp_eq_iff.
    destruct (bytes_cmp x y); split; try congruence; auto. intros [H|H]; congruence.
  Qed.
  Lemma lt_total x y : BytesO.lt x y \/ BytesO.eq x y \/ BytesO.lt y x.
  Proof. apply bytes_cmp_total. Qed.
End BytesTO.

Module BytesOrd := MakeOrderTac BytesO BytesTO.


Definition keq (a b : ikey) : Prop := ikey_cmp a b = Eq.

Module IKeyO <: EqLtLe.
  Definition t := ikey.
  Definition eq := keq.
  Definition lt := ikey_lt.
  Definition le := ikey_le.
End IKeyO.

Module IKeyTO <: IsTotalOrder IKeyO.
  Lemma eq_equiv : Equivalence IKeyO.eq.
  Proof.
    split.
    - intros a. apply ikey_cmp_refl.
    - intros a b. apply ikey_cmp_eq_sym.
    - intros a b c. apply ikey_cmp_eq_trans.
  Qed.
  Lemma lt_strorder : StrictOrder IKeyO.lt.
  Proof.
    split.
    - intros a H. exact (ikey_lt_irrefl a H).
    - intros a b c. apply ikey_lt_trans.
  Qed.
  Lemma lt_compat : Proper (IKeyO.eq ==> IKeyO.eq ==> iff) IKeyO.lt.
  Proof.
    intros a b E1 c d E2. unfold IKeyO.lt, ikey_lt.
    rewrite (ikey_cmp_eq_compat_l _ _ _ E1), (ikey_cmp_eq_compat_r _ _ _ E2). reflexivity.
  Qed.
  Lemma le_lteq x y : IKeyO.le x y <-> IKeyO.lt x y \/ IKeyO.eq x y.
  Proof. apply ikey_le_iff. Qed.
  Lemma lt_total x y : IKeyO.lt x y \/ IKeyO.eq x y \/ IKeyO.lt y x.
  Proof. apply ikey_cmp_total. Qed.
End IKeyTO.

Module IKeyOrd := MakeOrderTac IKeyO IKeyTO.

Ltac uorder := BytesOrd.order.
Ltac korder := IKeyOrd.order.


(** ** boolean reflection *)
Lemma bltb_t a b : bytes_ltb a b = true <-> ult a b.
Proof. apply bytes_ltb_iff. Qed.
Lemma bltb_f a b : bytes_ltb a b = false <-> ule b a.
Proof.
  unfold bytes_ltb, ule. rewrite (bytes_cmp_opp b a).
  destruct (bytes_cmp a b); cbn [CompOpp]; split; congruence.
Qed.
Lemma bleb_t a b : bytes_leb a b = true <-> ule a b.
Proof. apply bytes_leb_iff. Qed.
Lemma bleb_f a b : bytes_leb a b = false <-> ult b a.
Proof.
  unfold bytes_leb, ult. rewrite (bytes_cmp_opp b a).
  destruct (bytes_cmp a b); cbn [CompOpp]; split; congruence.
Qed.
Lemma beqb_t a b : bytes_eqb a b = true <-> a = b.
Proof. apply bytes_eqb_iff. Qed.
Lemma beqb_f a b : bytes_eqb a b = false <-> a <> b.
Proof. rewrite <- beqb_t. destruct (bytes_eqb a b); split; congruence. Qed.
Lemma kltb_t a b : ikey_ltb a b = true <-> ikey_lt a b.
Proof. apply ikey_ltb_iff. Qed.
Lemma kltb_f a b : ikey_ltb a b = false <-> ikey_le b a.
Proof. apply ikey_ltb_false_iff. Qed.
Lemma kleb_t a b : ikey_leb a b = true <-> ikey_le a b.
Proof. apply ikey_leb_iff. Qed.
Lemma kleb_f a b : ikey_leb a b = false <-> ikey_lt b a.
Proof.
  unfold ikey_leb, ikey_lt. rewrite (ikey_cmp_opp b a).
  destruct (ikey_cmp a b); cbn [CompOpp]; split; congruence.
Qed.

Ltac breflect :=
  repeat match goal with
  | H : bytes_ltb _ _ = true |- _ => apply bltb_t in H
  | H : bytes_ltb _ _ = false |- _ => apply bltb_f in H
  | H : bytes_leb _ _ = true |- _ => apply bleb_t in H
  | H : bytes_leb _ _ = false |- _ => apply bleb_f in H
  | H : bytes_eqb _ _ = true |- _ => apply beqb_t in H
  | H : bytes_eqb _ _ = false |- _ => apply beqb_f in H
  | H : ikey_ltb _ _ = true |- _ => apply kltb_t in H
  | H : ikey_ltb _ _ = false |- _ => apply kltb_f in H
  | H : ikey_leb _ _ = true |- _ => apply kleb_t in H
  | H : ikey_leb _ _ = false |- _ => apply kleb_f in H
  | |- bytes_ltb _ _ = true => apply bltb_t
  | |- bytes_ltb _ _ = false => apply bltb_f
  | |- bytes_leb _ _ = true => apply bleb_t
  | |- bytes_leb _ _ = false => apply bleb_f
  | |- ikey_ltb _ _ = true => apply kltb_t
  | |- ikey_ltb _ _ = false => apply kltb_f
  | |- ikey_leb _ _ = true => apply kleb_t
  | |- ikey_leb _ _ = false => apply kleb_f
  end.

(** ** bridges between the internal-key order and the user-key order *)
Lemma klt_ule a b : ikey_lt a b -> ule (ik_user a) (ik_user b).
Proof.
  unfold ikey_lt, ikey_cmp, ule. destruct (bytes_cmp (ik_user a) (ik_user b)); congruence.
Qed.
Lemma kle_ule a b : ikey_le a b -> ule (ik_user a) (ik_user b).
Proof.
  unfold ikey_le, ikey_cmp, ule. destruct (bytes_cmp (ik_user a) (ik_user b)); congruence.
Qed.
Lemma ult_klt a b : ult (ik_user a) (ik_user b) -> ikey_lt a b.
Proof. unfold ikey_lt, ikey_cmp, ult. intros ->. reflexivity. Qed.
Lemma keq_user a b : keq a b -> ik_user a = ik_user b.
Proof. intros H. apply ikey_cmp_eq_iff in H. tauto. Qed.

(** * 3. Key ranges and hulls *)

Notation usmall f := (ik_user (fm_small f)).
Notation ularge f := (ik_user (fm_large f)).

Definition is_hull (fs : list fmeta) (lo hi : bytes) : Prop :=
  (forall f, In f fs -> ule lo (usmall f)) /\ (exists f, In f fs /\ usmall f = lo) /\
  (forall f, In f fs -> ule (ularge f) hi) /\ (exists f, In f fs /\ ularge f = hi).

Lemma is_hull_unique fs lo hi lo' hi' :
  is_hull fs lo hi -> is_hull fs lo' hi' -> lo = lo' /\ hi = hi'.
Proof.
  intros (A1 & (f1 & I1 & E1) & A2 & (f2 & I2 & E2)) (B1 & (g1 & J1 & F1) & B2 & (g2 & J2 & F2)).
  pose proof (A1 _ J1). pose proof (B1 _ I1). pose proof (A2 _ J2). pose proof (B2 _ I2).
  subst. split; uorder.
Qed.

Definition hstep (r : bytes * bytes) (f : fmeta) : bytes * bytes :=
  ((if bytes_ltb (usmall f) (fst r) then usmall f else fst r),
   (if bytes_ltb (snd r) (ularge f) then ularge f else snd r)).

Lemma hull_fold l : forall a0 b0,
  let r := fold_left hstep l (a0, b0) in
  ule (fst r) a0 /\ (forall f, In f l -> ule (fst r) (usmall f)) /\
  (fst r = a0 \/ exists f, In f l /\ usmall f = fst r) /\
  ule b0 (snd r) /\ (forall f, In f l -> ule (ularge f) (snd r)) /\
  (snd r = b0 \/ exists f, In f l /\ ularge f = snd r).
Proof.
  induction l as [|g l IH]; intros a0 b0; cbn [fold_left].
  - cbn [fst snd In]. repeat split; try uorder; try tauto.
  - specialize (IH (fst (hstep (a0, b0) g)) (snd (hstep (a0, b0) g))).
    rewrite <- surjective_pairing in IH. cbv zeta in IH.
    set (r := fold_left hstep l (hstep (a0, b0) g)) in *.
    destruct IH as (I1 & I2 & I3 & I4 & I5 & I6).
    unfold hstep in I1, I3, I4, I6. cbn [fst snd] in I1, I3, I4, I6.
    destruct (bytes_ltb (usmall g) a0) eqn:E1; destruct (bytes_ltb b0 (ularge g)) eqn:E2;
      breflect; (repeat split;
      [ uorder
      | intros f [<-|Hf]; [uorder | auto]
      | destruct I3 as [I3|(f & Hf & I3)]; [ (left; exact I3) || (right; exists g; split; [left; reflexivity|congruence]) | right; exists f; split; [right; exact Hf|exact I3] ]
      | uorder
      | intros f [<-|Hf]; [uorder | auto]
      | destruct I6 as [I6|(f & Hf & I6)]; [ (left; exact I6) || (right; exists g; split; [left; reflexivity|congruence]) | right; exists f; split; [right; exact Hf|exact I6] ] ]).
Qed.

Lemma hull_is_hull fs : fs <> [] -> exists lo hi, hull fs = Some (lo, hi) /\ is_hull fs lo hi.
Proof.
  destruct fs as [|f0 l]; [congruence|]. intros _. unfold hull.
  pose proof (hull_fold (f0 :: l) (usmall f0) (ularge f0)) as H. cbv zeta in H.
  change (fold_left _ (f0 :: l) (usmall f0, ularge f0))
    with (fold_left hstep (f0 :: l) (usmall f0, ularge f0)).
  set (r := fold_left hstep (f0 :: l) (usmall f0, ularge f0)) in *.
  exists (fst r), (snd r). rewrite <- surjective_pairing. split; [reflexivity|].
  destruct H as (I1 & I2 & I3 & I4 & I5 & I6). repeat split; auto.
  - destruct I3 as [I3|I3]; auto. exists f0. split; [left; reflexivity|congruence].
  - destruct I6 as [I6|I6]; auto. exists f0. split; [left; reflexivity|congruence].
Qed.

Lemma hull_some_is_hull fs lo hi : hull fs = Some (lo, hi) -> fs <> [] /\ is_hull fs lo hi.
Proof.
  intros H. assert (N : fs <> []) by (intros ->; discriminate). split; [exact N|].
  destruct (hull_is_hull fs N) as (lo' & hi' & E & I). rewrite E in H. injection H as <- <-. exact I.
Qed.

Lemma is_hull_hull fs lo hi : fs <> [] -> is_hull fs lo hi -> hull fs = Some (lo, hi).
Proof.
  intros N I. destruct (hull_is_hull fs N) as (lo' & hi' & E & I').
  destruct (is_hull_unique _ _ _ _ _ I I') as [-> ->]. exact E.
Qed.

(** the key range computed by the repaired [get_key_range_for_files] *)
Definition is_krange (fs : list fmeta) (a b : ikey) : Prop :=
  (forall f, In f fs -> ikey_le a (fm_small f)) /\ (exists f, In f fs /\ fm_small f = a) /\
  (forall f, In f fs -> ule (ularge f) (ik_user b)) /\ (exists f, In f fs /\ fm_large f = b).

Lemma is_krange_hull fs a b : is_krange fs a b -> is_hull fs (ik_user a) (ik_user b).
Proof.
  intros (A1 & (f1 & I1 & E1) & A2 & (f2 & I2 & E2)). repeat split.
  - intros f Hf. apply kle_ule. auto.
  - exists f1. split; [exact I1|congruence].
  - exact A2.
  - exists f2. split; [exact I2|congruence].
Qed.

Definition kstep (r : ikey * ikey) (f : fmeta) : ikey * ikey :=
  (upd_small (fst r) (fm_small f), upd_large true (snd r) (fm_large f)).

Lemma krange_fold l : forall a0 b0,
  let r := fold_left kstep l (a0, b0) in
  ikey_le (fst r) a0 /\ (forall f, In f l -> ikey_le (fst r) (fm_small f)) /\
  (fst r = a0 \/ exists f, In f l /\ fm_small f = fst r) /\
  ule (ik_user b0) (ik_user (snd r)) /\ (forall f, In f l -> ule (ularge f) (ik_user (snd r))) /\
  (snd r = b0 \/ exists f, In f l /\ fm_large f = snd r).
Proof.
  induction l as [|g l IH]; intros a0 b0; cbn [fold_left].
  - cbn [fst snd In]. repeat split; try uorder; try korder; try tauto.
  - specialize (IH (fst (kstep (a0, b0) g)) (snd (kstep (a0, b0) g))).
    rewrite <- surjective_pairing in IH. cbv zeta in IH.
    set (r := fold_left kstep l (kstep (a0, b0) g)) in *.
    destruct IH as (I1 & I2 & I3 & I4 & I5 & I6).
    unfold kstep, upd_small, upd_large in I1, I3, I4, I6. cbn [fst snd] in I1, I3, I4, I6.
    destruct (ikey_ltb (fm_small g) a0) eqn:E1;
      destruct (bytes_ltb (ik_user b0) (ularge g)) eqn:E2;
      breflect; (repeat split;
      [ korder
      | intros f [<-|Hf]; [korder | auto]
      | destruct I3 as [I3|(f & Hf & I3)]; [ (left; exact I3) || (right; exists g; split; [left; reflexivity|congruence]) | right; exists f; split; [right; exact Hf|exact I3] ]
      | uorder
      | intros f [<-|Hf]; [uorder | auto]
      | destruct I6 as [I6|(f & Hf & I6)]; [ (left; exact I6) || (right; exists g; split; [left; reflexivity|congruence]) | right; exists f; split; [right; exact Hf|exact I6] ] ]).
Qed.

Lemma key_range_is_krange fs :
  fs <> [] -> exists a b, key_range_for_files true fs = Some (a, b) /\ is_krange fs a b.
Proof.
  destruct fs as [|f0 l]; [congruence|]. intros _. unfold key_range_for_files.
  pose proof (krange_fold (f0 :: l) (fm_small f0) (fm_large f0)) as H. cbv zeta in H.
  change (fold_left _ (f0 :: l) (fm_small f0, fm_large f0))
    with (fold_left kstep (f0 :: l) (fm_small f0, fm_large f0)).
  set (r := fold_left kstep (f0 :: l) (fm_small f0, fm_large f0)) in *.
  exists (fst r), (snd r). rewrite <- surjective_pairing. split; [reflexivity|].
  destruct H as (I1 & I2 & I3 & I4 & I5 & I6). repeat split; auto.
  - destruct I3 as [I3|I3]; auto. exists f0. split; [left; reflexivity|congruence].
  - destruct I6 as [I6|I6]; auto. exists f0. split; [left; reflexivity|congruence].
Qed.

Lemma key_range_some fs r : key_range_for_files true fs = Some r ->
  fs <> [] /\ is_krange fs (fst r) (snd r).
Proof.
  intros H. assert (N : fs <> []) by (intros ->; discriminate). split; [exact N|].
  destruct (key_range_is_krange fs N) as (a & b & E & I). rewrite E in H. injection H as <-. exact I.
Qed.

Lemma key_range_none fs d : key_range_for_files d fs = None <-> fs = [].
Proof. destruct fs; cbn [key_range_for_files]; split; congruence. Qed.

Lemma key_range_two_is_krange fs gs :
  fs <> [] -> exists a b, key_range_for_two true fs gs = Some (a, b) /\ is_krange (fs ++ gs) a b.
Proof.
  intros N. unfold key_range_for_two.
  destruct (key_range_is_krange fs N) as (a & b & E & I). rewrite E.
  destruct gs as [|g0 gs'].
  - exists a, b. rewrite app_nil_r. auto.
  - destruct (key_range_is_krange (g0 :: gs') ltac:(congruence)) as (a' & b' & E' & I'). rewrite E'.
    cbn [fst snd]. eexists _, _. split; [reflexivity|].
    destruct I as (A1 & (f1 & I1 & E1) & A2 & (f2 & I2 & E2)).
    destruct I' as (B1 & (g1 & J1 & F1) & B2 & (g2 & J2 & F2)).
    unfold upd_small, upd_large.
    destruct (ikey_ltb a' a) eqn:C1; destruct (bytes_ltb (ik_user b) (ik_user b')) eqn:C2; breflect;
      (repeat split;
       [ intros f Hf; apply in_app_or in Hf; destruct Hf as [Hf|Hf];
         [pose proof (A1 _ Hf) | pose proof (B1 _ Hf)]; korder
       | first [ exists g1; split; [apply in_or_app; right; exact J1 | exact F1]
               | exists f1; split; [apply in_or_app; left; exact I1 | exact E1] ]
       | intros f Hf; apply in_app_or in Hf; destruct Hf as [Hf|Hf];
         [pose proof (A2 _ Hf) | pose proof (B2 _ Hf)]; uorder
       | first [ exists g2; split; [apply in_or_app; right; exact J2 | exact F2]
               | exists f2; split; [apply in_or_app; left; exact I2 | exact E2] ] ]).
Qed.

Lemma key_range_two_some fs gs r : key_range_for_two true fs gs = Some r ->
  fs <> [] /\ is_krange (fs ++ gs) (fst r) (snd r).
Proof.
  intros H. assert (N : fs <> []).
  { intros ->. unfold key_range_for_two in H. cbn [key_range_for_files] in H. discriminate. }
  split; [exact N|].
  destruct (key_range_two_is_krange fs gs N) as (a & b & E & I). rewrite E in H.
  injection H as <-. exact I.
Qed.

(** [key_range_covers]: the repaired range functions compute a pair of actual bounds whose
    user keys are exactly the user-key hull *)
Theorem key_range_covers_files fs :
  fs <> [] ->
  exists a b, key_range_for_files true fs = Some (a, b) /\ is_krange fs a b
              /\ hull fs = Some (ik_user a, ik_user b).
Proof.
  intros N. destruct (key_range_is_krange fs N) as (a & b & E & I).
  exists a, b. split; [exact E|]. split; [exact I|].
  apply is_hull_hull; [exact N|]. apply is_krange_hull. exact I.
Qed.

Theorem key_range_covers_two fs gs :
  fs <> [] ->
  exists a b, key_range_for_two true fs gs = Some (a, b) /\ is_krange (fs ++ gs) a b
              /\ hull (fs ++ gs) = Some (ik_user a, ik_user b).
Proof.
  intros N. destruct (key_range_two_is_krange fs gs N) as (a & b & E & I).
  exists a, b. split; [exact E|]. split; [exact I|]. apply is_hull_hull.
  - destruct fs; [congruence|discriminate].
  - apply is_krange_hull. exact I.
Qed.

(** * 1./2. [get_overlapping_compaction_inputs] *)

Definition in_range (lo hi : option bytes) (f : fmeta) : bool :=
  negb (after_file lo f || before_file hi f).
Definition sticks_lo (lo : option bytes) (f : fmeta) : bool :=
  match lo with Some k => bytes_ltb (usmall f) k | None => false end.
Definition sticks_hi (hi : option bytes) (f : fmeta) : bool :=
  match hi with Some k => bytes_ltb k (ularge f) | None => false end.

Lemma oci_step f l0 all file rest lo hi acc :
  oci_loop (S f) l0 all (file :: rest) lo hi acc =
  if negb (in_range lo hi file) then oci_loop f l0 all rest lo hi acc
  else if negb l0 then oci_loop f l0 all rest lo hi (file :: acc)
  else if sticks_lo lo file then oci_loop f l0 all all (Some (usmall file)) hi []
  else if sticks_hi hi file then oci_loop f l0 all all lo (Some (ularge file)) []
  else oci_loop f l0 all rest lo hi (file :: acc).
Proof.
  cbn [oci_loop]. unfold in_range, after_file, before_file, sticks_lo, sticks_hi.
  rewrite negb_involutive.
  destruct lo as [lo|], hi as [hi|];
    repeat match goal with |- context [if ?b then _ else _] =>
      match b with
      | bytes_ltb _ _ => destruct b
      | negb l0 => destruct l0
      end; cbn [orb negb] end; reflexivity.
Qed.

Lemma oci_nil f l0 all lo hi acc : oci_loop f l0 all [] lo hi acc = rev acc.
Proof. destruct f; reflexivity. Qed.

Lemma oci_loop_deep fuel all : forall rest lo hi acc,
  (length rest <= fuel)%nat ->
  oci_loop fuel false all rest lo hi acc = rev acc ++ filter (in_range lo hi) rest.
Proof.
  induction fuel as [|fuel IH]; intros rest lo hi acc L.
  - destruct rest; [|cbn [length] in L; lia]. cbn [oci_loop filter]. now rewrite app_nil_r.
  - destruct rest as [|file rest].
    + cbn [oci_loop filter]. now rewrite app_nil_r.
    + rewrite oci_step. cbn [filter negb]. cbn [length] in L.
      destruct (in_range lo hi file); cbn [negb].
      * rewrite IH by lia. cbn [rev]. rewrite <- app_assoc. reflexivity.
      * apply IH. lia.
Qed.

Lemma oci_fuel_ge fs : (length fs <= oci_fuel fs)%nat.
Proof. unfold oci_fuel. nia. Qed.

(** user-key view of the optional bounds *)
Definition ulo (lo : option ikey) : option bytes := option_map ik_user lo.

Theorem overlapping_inputs_eq v l lo hi :
  l <> O ->
  overlapping_inputs v l lo hi = filter (in_range (ulo lo) (ulo hi)) (level_files v l).
Proof.
  intros Hl. unfold overlapping_inputs. destruct l as [|l]; [congruence|].
  cbn [Nat.eqb]. rewrite oci_loop_deep by apply oci_fuel_ge. reflexivity.
Qed.

Lemma in_range_iff lo hi f :
  in_range lo hi f = true <->
  (forall k, lo = Some k -> ule k (ularge f)) /\ (forall k, hi = Some k -> ule (usmall f) k).
Proof.
  unfold in_range, after_file, before_file. rewrite negb_true_iff, orb_false_iff.
  destruct lo as [lo|], hi as [hi|]; rewrite ?bltb_f; split.
  all: try (intros [A B]; split; intros k Hk; try discriminate; injection Hk as <-; assumption).
  all: intros [A B]; split; auto; discriminate.
Qed.

(** the textual statement: membership, and the result is the level filtered in order *)
Theorem overlapping_inputs_spec v l lo hi :
  l <> O ->
  (forall f, In f (overlapping_inputs v l lo hi) <->
             In f (level_files v l)
             /\ ~ (exists k, lo = Some k /\ ult (ularge f) (ik_user k))
             /\ ~ (exists k, hi = Some k /\ ult (ik_user k) (usmall f)))
  /\ overlapping_inputs v l lo hi = filter (in_range (ulo lo) (ulo hi)) (level_files v l).
Proof.
  intros Hl. split; [|apply overlapping_inputs_eq; exact Hl].
  intros f. rewrite overlapping_inputs_eq by exact Hl. rewrite filter_In, in_range_iff.
  split.
  - intros (I & A & B). split; [exact I|]. split.
    + intros (k & -> & H). specialize (A _ eq_refl). uorder.
    + intros (k & -> & H). specialize (B _ eq_refl). uorder.
  - intros (I & A & B). split; [exact I|]. split.
    + intros k Hk. destruct lo as [lo|]; [|discriminate]. injection Hk as <-.
      destruct (bytes_ltb (ularge f) (ik_user lo)) eqn:E; breflect; [|exact E].
      exfalso. apply A. eauto.
    + intros k Hk. destruct hi as [hi|]; [|discriminate]. injection Hk as <-.
      destruct (bytes_ltb (ik_user hi) (usmall f)) eqn:E; breflect; [|exact E].
      exfalso. apply B. eauto.
Qed.

(** ** level 0: the restart loop *)

Definition cnt_lo (all : list fmeta) (lo : option bytes) : nat :=
  match lo with
  | Some k => length (filter (fun g => bytes_ltb (usmall g) k) all)
  | None => O
  end.
Definition cnt_hi (all : list fmeta) (hi : option bytes) : nat :=
  match hi with
  | Some k => length (filter (fun g => bytes_ltb k (ularge g)) all)
  | None => O
  end.

Lemma filter_length_le {A} (p : A -> bool) l : (length (filter p l) <= length l)%nat.
Proof. induction l as [|x l IH]; cbn [filter length]; [lia|]. destruct (p x); cbn [length]; lia. Qed.

Lemma filter_length_mono {A} (p q : A -> bool) l :
  (forall x, In x l -> p x = true -> q x = true) ->
  (length (filter p l) <= length (filter q l))%nat.
Proof.
  induction l as [|x l IH]; intros H; cbn [filter length]; [lia|].
  assert (IH' := IH (fun y Hy => H y (or_intror Hy))).
  destruct (p x) eqn:P.
  - rewrite (H x (or_introl eq_refl) P). cbn [length]. lia.
  - destruct (q x); cbn [length]; lia.
Qed.

Lemma filter_length_lt {A} (p q : A -> bool) l x :
  (forall y, In y l -> p y = true -> q y = true) ->
  In x l -> q x = true -> p x = false ->
  (length (filter p l) < length (filter q l))%nat.
Proof.
  induction l as [|y l IH]; intros H Hx Q P; [destruct Hx|].
  cbn [filter].
  assert (M := filter_length_mono p q l (fun z Hz => H z (or_intror Hz))).
  destruct Hx as [->|Hx].
  - rewrite P, Q. cbn [length]. lia.
  - assert (IH' := IH (fun z Hz => H z (or_intror Hz)) Hx Q P).
    destruct (p y) eqn:Py.
    + rewrite (H y (or_introl eq_refl) Py). cbn [length]. lia.
    + destruct (q y); cbn [length]; lia.
Qed.

(** order on optional bounds: [ole lo' lo]: the lower bound moved down (or stayed);
    [oge hi' hi]: the upper bound moved up (or stayed) *)
Definition ole (lo' lo : option bytes) : Prop :=
  match lo', lo with
  | Some a, Some b => ule a b
  | None, None => True
  | _, _ => False
  end.
Definition oge (hi' hi : option bytes) : Prop :=
  match hi', hi with
  | Some a, Some b => ule b a
  | None, None => True
  | _, _ => False
  end.

Lemma ole_refl lo : ole lo lo.
Proof. destruct lo; cbn; [uorder|exact I]. Qed.
Lemma oge_refl hi : oge hi hi.
Proof. destruct hi; cbn; [uorder|exact I]. Qed.
Lemma ole_trans a b c : ole a b -> ole b c -> ole a c.
Proof. destruct a, b, c; cbn; try tauto. intros; uorder. Qed.
Lemma oge_trans a b c : oge a b -> oge b c -> oge a c.
Proof. destruct a, b, c; cbn; try tauto. intros; uorder. Qed.

(** no selected file sticks out of the range *)
Definition inside (lo hi : option bytes) (f : fmeta) : Prop :=
  sticks_lo lo f = false /\ sticks_hi hi f = false.

Lemma cnt_lo_restart all lo file :
  In file all -> sticks_lo lo file = true ->
  (cnt_lo all (Some (usmall file)) < cnt_lo all lo)%nat /\ ole (Some (usmall file)) lo.
Proof.
  intros I S. destruct lo as [k|]; [|discriminate]. cbn [sticks_lo] in S. breflect.
  split; [|cbn; uorder]. cbn [cnt_lo].
  apply filter_length_lt with (x := file); auto.
  - intros y _ Hy. breflect. uorder.
  - breflect. exact S.
  - breflect. uorder.
Qed.

Lemma cnt_hi_restart all hi file :
  In file all -> sticks_hi hi file = true ->
  (cnt_hi all (Some (ularge file)) < cnt_hi all hi)%nat /\ oge (Some (ularge file)) hi.
Proof.
  intros I S. destruct hi as [k|]; [|discriminate]. cbn [sticks_hi] in S. breflect.
  split; [|cbn; uorder]. cbn [cnt_hi].
  apply filter_length_lt with (x := file); auto.
  - intros y _ Hy. breflect. uorder.
  - breflect. exact S.
  - breflect. uorder.
Qed.

Definition oci_result (all : list fmeta) (lo hi : option bytes) (res : list fmeta) : Prop :=
  exists lo' hi', ole lo' lo /\ oge hi' hi /\ res = filter (in_range lo' hi') all
                  /\ forall f, In f res -> inside lo' hi' f.

Lemma oci_loop_l0 all : forall m fuel rest lo hi acc,
  (cnt_lo all lo + cnt_hi all hi <= m)%nat ->
  incl rest all ->
  (m * S (length all) + length rest <= fuel)%nat ->
  (oci_loop fuel true all rest lo hi acc = rev acc ++ filter (in_range lo hi) rest
   /\ forall f, In f (filter (in_range lo hi) rest) -> inside lo hi f)
  \/ oci_result all lo hi (oci_loop fuel true all rest lo hi acc).
Proof.
  induction m as [m IHm] using lt_wf_ind.
  intros fuel rest. revert fuel. induction rest as [|file rest IHr]; intros fuel lo hi acc Hm Hincl Hfuel.
  - left. rewrite oci_nil. cbn [filter]. rewrite app_nil_r. split; [reflexivity|]. intros f [].
  - destruct fuel as [|fuel]; [cbn [length] in Hfuel; lia|].
    cbn [length] in Hfuel. rewrite oci_step. cbn [negb filter].
    assert (Hfile : In file all) by (apply Hincl; left; reflexivity).
    assert (Hincl' : incl rest all) by (intros x Hx; apply Hincl; right; exact Hx).
    destruct (in_range lo hi file) eqn:R; cbn [negb].
    2:{ apply IHr; auto. lia. }
    destruct (sticks_lo lo file) eqn:SL.
    { right. destruct (cnt_lo_restart all lo file Hfile SL) as [C O].
      destruct (IHm (cnt_lo all (Some (usmall file)) + cnt_hi all hi)%nat ltac:(lia)
                  fuel all (Some (usmall file)) hi [] (le_n _) (incl_refl _)) as [[E1 E2]|Res].
      - nia.
      - exists (Some (usmall file)), hi. split; [exact O|]. split; [apply oge_refl|].
        rewrite E1. cbn [rev app]. split; [reflexivity|exact E2].
      - destruct Res as (lo' & hi' & O1 & O2 & E & Ins). exists lo', hi'.
        split; [eapply ole_trans; eassumption|]. split; [exact O2|]. split; assumption. }
    destruct (sticks_hi hi file) eqn:SH.
    { right. destruct (cnt_hi_restart all hi file Hfile SH) as [C O].
      destruct (IHm (cnt_lo all lo + cnt_hi all (Some (ularge file)))%nat ltac:(lia)
                  fuel all lo (Some (ularge file)) [] (le_n _) (incl_refl _)) as [[E1 E2]|Res].
      - nia.
      - exists lo, (Some (ularge file)). split; [apply ole_refl|]. split; [exact O|].
        rewrite E1. cbn [rev app]. split; [reflexivity|exact E2].
      - destruct Res as (lo' & hi' & O1 & O2 & E & Ins). exists lo', hi'.
        split; [exact O1|]. split; [eapply oge_trans; eassumption|]. split; assumption. }
    destruct (IHr fuel lo hi (file :: acc) Hm Hincl' ltac:(lia)) as [[E1 E2]|Res].
    + left. rewrite E1. cbn [rev]. rewrite <- app_assoc. split; [reflexivity|].
      intros f [<-|Hf]; [split; assumption|auto].
    + right. exact Res.
Qed.

Lemma oci_l0_result all lo hi :
  oci_result all lo hi (oci_loop (oci_fuel all) true all all lo hi []).
Proof.
  assert (A : (cnt_lo all lo <= length all)%nat).
  { destruct lo; cbn [cnt_lo]; [apply filter_length_le|lia]. }
  assert (B : (cnt_hi all hi <= length all)%nat).
  { destruct hi; cbn [cnt_hi]; [apply filter_length_le|lia]. }
  destruct (oci_loop_l0 all (cnt_lo all lo + cnt_hi all hi)%nat (oci_fuel all) all lo hi []
              (le_n _) (incl_refl _)) as [[E1 E2]|Res].
  - unfold oci_fuel. nia.
  - exists lo, hi. split; [apply ole_refl|]. split; [apply oge_refl|].
    rewrite E1. cbn [rev app]. split; [reflexivity|exact E2].
  - exact Res.
Qed.

(** a file list [sel] is closed within [fs]: every file of [fs] that meets the user-key hull
    of [sel] is in [sel] *)
Definition hull_closed (fs sel : list fmeta) : Prop :=
  forall lo hi f, hull sel = Some (lo, hi) -> In f fs -> file_meets lo hi f = true -> In f sel.

Lemma file_meets_iff lo hi f :
  file_meets lo hi f = true <-> ule (usmall f) hi /\ ule lo (ularge f).
Proof. unfold file_meets. rewrite andb_true_iff, bleb_t, bleb_t. reflexivity. Qed.

Lemma oci_result_closed all lo hi res : oci_result all lo hi res -> hull_closed all res.
Proof.
  intros (lo' & hi' & O1 & O2 & E & Ins) a b f Hh Hf Hm.
  apply hull_some_is_hull in Hh. destruct Hh as [_ (A1 & (f1 & I1 & E1) & A2 & (f2 & I2 & E2))].
  apply file_meets_iff in Hm. destruct Hm as [M1 M2].
  rewrite E. apply filter_In. split; [exact Hf|]. apply in_range_iff. split.
  - intros k ->. destruct (Ins _ I1) as [S _]. cbn [sticks_lo] in S. breflect. uorder.
  - intros k ->. destruct (Ins _ I2) as [_ S]. cbn [sticks_hi] in S. breflect. uorder.
Qed.

(** [overlapping_inputs_l0_closed]: the fuel suffices, the answer is exactly the set of level-0
    files meeting a widened range out of which no selected file sticks, hence it is closed *)
Theorem overlapping_inputs_l0_closed v lo hi :
  let fs := level_files v O in
  let res := overlapping_inputs v O lo hi in
  (exists lo' hi',
     ole lo' (ulo lo) /\ oge hi' (ulo hi)
     /\ res = filter (in_range lo' hi') fs
     /\ (forall f, In f res -> inside lo' hi' f))
  /\ hull_closed fs res.
Proof.
  cbv zeta. unfold overlapping_inputs. cbn [Nat.eqb].
  pose proof (oci_l0_result (level_files v O) (ulo lo) (ulo hi)) as R.
  split; [exact R|]. eapply oci_result_closed. exact R.
Qed.

(** * 4. [add_boundary_inputs] and [finalize_compaction_inputs] *)

Definition ordered (f : fmeta) : Prop := ikey_le (fm_small f) (fm_large f).

(** [f] is a boundary candidate for the key [t] *)
Definition cand (t : ikey) (f : fmeta) : Prop :=
  ikey_lt t (fm_small f) /\ usmall f = ik_user t.

Definition fsb_step (target : ikey) (best : option fmeta) (f : fmeta) : option fmeta :=
  if ikey_ltb target (fm_small f) && bytes_eqb (usmall f) (ik_user target) then
    match best with
    | Some b => if ikey_ltb (fm_small f) (fm_small b) then Some f else best
    | None => Some f
    end
  else best.

Lemma fsb_fold t l : forall best,
  match fold_left (fsb_step t) l best with
  | None => best = None /\ forall f, In f l -> ~ cand t f
  | Some b =>
      (best = Some b \/ (In b l /\ cand t b))
      /\ (forall b0, best = Some b0 -> ikey_le (fm_small b) (fm_small b0))
      /\ (forall f, In f l -> cand t f -> ikey_le (fm_small b) (fm_small f))
  end.
Proof.
  induction l as [|g l IH]; intros best; cbn [fold_left].
  - destruct best as [b|].
    + split; [left; reflexivity|]. split; [|intros f []]. intros b0 E. injection E as <-. korder.
    + split; [reflexivity|]. intros f [].
  - specialize (IH (fsb_step t best g)).
    destruct (fold_left (fsb_step t) l (fsb_step t best g)) as [b|].
    + destruct IH as (I1 & I2 & I3). unfold fsb_step in I1, I2.
      destruct (ikey_ltb t (fm_small g) && bytes_eqb (usmall g) (ik_user t)) eqn:C.
      * apply andb_true_iff in C. destruct C as [C1 C2]. breflect.
        assert (Cg : cand t g) by (split; assumption).
        destruct best as [b1|].
        -- destruct (ikey_ltb (fm_small g) (fm_small b1)) eqn:C3; breflect.
           ++ split; [|split].
              ** destruct I1 as [I1|[I1 I1']]; [injection I1 as <-; right; split; [left; reflexivity|exact Cg]
                                               | right; split; [right; exact I1|exact I1']].
              ** intros b0 E. injection E as <-. specialize (I2 _ eq_refl). korder.
              ** intros f [<-|Hf] Cf; [apply (I2 _ eq_refl)|auto].
           ++ split; [|split].
              ** destruct I1 as [I1|[I1 I1']]; [left; exact I1 | right; split; [right; exact I1|exact I1']].
              ** exact I2.
              ** intros f [<-|Hf] Cf; [specialize (I2 _ eq_refl); korder|auto].
        -- split; [|split].
           ++ destruct I1 as [I1|[I1 I1']]; [injection I1 as <-; right; split; [left; reflexivity|exact Cg]
                                            | right; split; [right; exact I1|exact I1']].
           ++ intros b0 E. discriminate.
           ++ intros f [<-|Hf] Cf; [apply (I2 _ eq_refl)|auto].
      * split; [|split].
        -- destruct I1 as [I1|[I1 I1']]; [left; exact I1 | right; split; [right; exact I1|exact I1']].
        -- exact I2.
        -- intros f [<-|Hf] Cf; [|auto]. exfalso. destruct Cf as [Cf1 Cf2].
           apply andb_false_iff in C. destruct C as [C|C]; breflect; [korder|congruence].
    + destruct IH as (I1 & I2). unfold fsb_step in I1.
      destruct (ikey_ltb t (fm_small g) && bytes_eqb (usmall g) (ik_user t)) eqn:C.
      * destruct best as [b1|]; [destruct (ikey_ltb (fm_small g) (fm_small b1))|]; discriminate.
      * split; [exact I1|]. intros f [<-|Hf]; [|auto]. intros [Cf1 Cf2].
        apply andb_false_iff in C. destruct C as [C|C]; breflect; [korder|congruence].
Qed.

Lemma fsb_spec lf t :
  match find_smallest_boundary_file lf t with
  | None => forall f, In f lf -> ~ cand t f
  | Some b => In b lf /\ cand t b /\ forall f, In f lf -> cand t f -> ikey_le (fm_small b) (fm_small f)
  end.
Proof.
  unfold find_smallest_boundary_file.
  change (fold_left _ lf None) with (fold_left (fsb_step t) lf None).
  pose proof (fsb_fold t lf None) as H.
  destruct (fold_left (fsb_step t) lf None) as [b|].
  - destruct H as ([H1|[H1 H1']] & _ & H3); [discriminate|]. auto.
  - tauto.
Qed.

(** the largest key of a non-empty list *)
Definition flk_step (cur : ikey) (f : fmeta) : ikey :=
  if ikey_ltb cur (fm_large f) then fm_large f else cur.

Lemma flk_fold l : forall k0,
  let k := fold_left flk_step l k0 in
  ikey_le k0 k /\ (forall f, In f l -> ikey_le (fm_large f) k)
  /\ (k = k0 \/ exists f, In f l /\ fm_large f = k).
Proof.
  induction l as [|g l IH]; intros k0; cbn [fold_left].
  - split; [korder|]. split; [intros f []|left; reflexivity].
  - specialize (IH (flk_step k0 g)). cbv zeta in IH.
    set (k := fold_left flk_step l (flk_step k0 g)) in *.
    destruct IH as (I1 & I2 & I3). unfold flk_step in I1, I3.
    destruct (ikey_ltb k0 (fm_large g)) eqn:C; breflect.
    + split; [korder|]. split; [intros f [<-|Hf]; [korder|auto]|].
      right. destruct I3 as [I3|(f & Hf & I3)]; [exists g; split; [left; reflexivity|congruence]
                                                | exists f; split; [right; exact Hf|exact I3]].
    + split; [korder|]. split; [intros f [<-|Hf]; [korder|auto]|].
      destruct I3 as [I3|(f & Hf & I3)]; [left; exact I3|right; exists f; split; [right; exact Hf|exact I3]].
Qed.

Lemma flk_spec fs :
  fs <> [] ->
  exists k, find_largest_key fs = Some k /\ (forall f, In f fs -> ikey_le (fm_large f) k)
            /\ exists f, In f fs /\ fm_large f = k.
Proof.
  destruct fs as [|f0 l]; [congruence|]. intros _. unfold find_largest_key.
  change (fold_left _ (f0 :: l) (fm_large f0)) with (fold_left flk_step (f0 :: l) (fm_large f0)).
  pose proof (flk_fold (f0 :: l) (fm_large f0)) as H. cbv zeta in H.
  set (k := fold_left flk_step (f0 :: l) (fm_large f0)) in *.
  exists k. split; [reflexivity|]. destruct H as (H1 & H2 & H3). split; [exact H2|].
  destruct H3 as [H3|H3]; [exists f0; split; [left; reflexivity|congruence]|exact H3].
Qed.

Lemma flk_none fs : find_largest_key fs = None -> fs = [].
Proof. destruct fs; [reflexivity|discriminate]. Qed.

(** [abi_loop] only appends files of the level *)
Lemma abi_loop_app fuel lf : forall k acc,
  exists extra, abi_loop fuel lf k acc = acc ++ extra /\ forall f, In f extra -> In f lf.
Proof.
  induction fuel as [|fuel IH]; intros k acc; cbn [abi_loop].
  - exists []. rewrite app_nil_r. split; [reflexivity|intros f []].
  - pose proof (fsb_spec lf k) as S. destruct (find_smallest_boundary_file lf k) as [b|].
    + destruct (IH (fm_large b) (acc ++ [b])) as (extra & E & I). exists (b :: extra).
      rewrite E, <- app_assoc. split; [reflexivity|]. intros f [<-|Hf]; [tauto|auto].
    + exists []. rewrite app_nil_r. split; [reflexivity|intros f []].
Qed.

Lemma abi_app lf fs :
  exists extra, add_boundary_inputs lf fs = fs ++ extra /\ forall f, In f extra -> In f lf.
Proof.
  unfold add_boundary_inputs. destruct (find_largest_key fs) as [k|].
  - apply abi_loop_app.
  - exists []. rewrite app_nil_r. split; [reflexivity|intros f []].
Qed.

Lemma abi_incl lf fs f : In f fs -> In f (add_boundary_inputs lf fs).
Proof.
  destruct (abi_app lf fs) as (extra & -> & _). intros H. apply in_or_app. left. exact H.
Qed.

Lemma abi_sub lf fs f :
  (forall g, In g fs -> In g lf) -> In f (add_boundary_inputs lf fs) -> In f lf.
Proof.
  destruct (abi_app lf fs) as (extra & -> & I). intros H Hf.
  apply in_app_or in Hf. destruct Hf; auto.
Qed.

Lemma abi_nonempty lf fs : fs <> [] -> add_boundary_inputs lf fs <> [].
Proof.
  destruct (abi_app lf fs) as (extra & -> & _). destruct fs; [congruence|discriminate].
Qed.

Lemma abi_nil lf : add_boundary_inputs lf [] = [].
Proof. reflexivity. Qed.

(** a closed selection has no boundary files *)
Lemma abi_closed lf fs :
  (forall f, In f lf -> ordered f) ->
  (forall f, In f fs -> In f lf) ->
  hull_closed lf fs ->
  add_boundary_inputs lf fs = fs.
Proof.
  intros Ord Sub Cl. unfold add_boundary_inputs.
  destruct fs as [|f0 fs']; [reflexivity|].
  destruct (flk_spec (f0 :: fs') ltac:(congruence)) as (k & -> & K1 & (fk & K2 & K3)).
  cbn [abi_loop]. pose proof (fsb_spec lf k) as S.
  destruct (find_smallest_boundary_file lf k) as [b|]; [exfalso|reflexivity].
  destruct S as (Ib & [C1 C2] & _).
  destruct (hull_is_hull (f0 :: fs') ltac:(congruence)) as (lo & hi & Hh & (A1 & _ & A2 & _)).
  assert (Hb : In b (f0 :: fs')).
  { apply (Cl lo hi b Hh Ib). apply file_meets_iff.
    pose proof (A1 _ K2). pose proof (A2 _ K2). pose proof (kle_ule _ _ (Ord _ (Sub _ K2))).
    pose proof (kle_ule _ _ (Ord _ Ib)). rewrite <- K3 in C2. split; uorder. }
  pose proof (K1 _ Hb). pose proof (Ord _ Ib). unfold ordered in *. korder.
Qed.

(** ** the shape of [finalize_inputs] *)

Definition ukr (r : ikey * ikey) : option ikey * option ikey := (Some (fst r), Some (snd r)).

Lemma finalize_inputs_cases d14 mfs v level seed c :
  finalize_inputs true d14 mfs v level seed = Some c ->
  let lf := level_files v level in
  let lf1 := level_files v (S level) in
  let in0 := add_boundary_inputs lf seed in
  exists r0, key_range_for_files true in0 = Some r0 /\
  let in1 := add_boundary_inputs lf1 (overlapping_inputs v (S level) (Some (fst r0)) (Some (snd r0))) in
  ci_level c = level /\
  ((ci_in0 c = in0 /\ ci_in1 c = in1)
   \/ exists rall rnew,
        key_range_for_two true in0 in1 = Some rall /\
        let exp0 := add_boundary_inputs lf (overlapping_inputs v level (Some (fst rall)) (Some (snd rall))) in
        key_range_for_files true exp0 = Some rnew /\
        (length in0 < length exp0)%nat /\
        ci_in0 c = exp0 /\
        let exp1_0 := overlapping_inputs v (S level) (Some (fst rnew)) (Some (snd rnew)) in
        ci_in1 c = if d14 then add_boundary_inputs lf1 exp1_0 else exp1_0).
Proof.
  intros H. cbv zeta. unfold finalize_inputs in H.
  destruct (key_range_for_files true (add_boundary_inputs (level_files v level) seed)) as [r0|] eqn:E0;
    [|discriminate].
  exists r0. split; [reflexivity|].
  set (in0 := add_boundary_inputs (level_files v level) seed) in *.
  set (in1 := add_boundary_inputs (level_files v (S level))
                (overlapping_inputs v (S level) (Some (fst r0)) (Some (snd r0)))) in *.
  destruct (key_range_for_two true in0 in1) as [rall|] eqn:E1; [|discriminate].
  destruct in1 as [|g1 in1'] eqn:Ein1.
  { injection H as <-. cbn [ci_level ci_in0 ci_in1]. auto. }
  rewrite <- Ein1 in *.
  set (exp0 := add_boundary_inputs (level_files v level)
                 (overlapping_inputs v level (Some (fst rall)) (Some (snd rall)))) in *.
  destruct (Nat.ltb (length in0) (length exp0) && (sum_sizes in1 + sum_sizes exp0 <? 25 * mfs)) eqn:C.
  2:{ injection H as <-. cbn [ci_level ci_in0 ci_in1]. auto. }
  destruct (key_range_for_files true exp0) as [rnew|] eqn:E2; [|discriminate].
  set (exp1 := if d14 then add_boundary_inputs (level_files v (S level))
                              (overlapping_inputs v (S level) (Some (fst rnew)) (Some (snd rnew)))
               else overlapping_inputs v (S level) (Some (fst rnew)) (Some (snd rnew))) in *.
  destruct (Nat.eqb (length exp1) (length in1)) eqn:C2.
  2:{ injection H as <-. cbn [ci_level ci_in0 ci_in1]. auto. }
  destruct (key_range_for_two true exp0 exp1) as [rall'|] eqn:E3; [|discriminate].
  injection H as <-. cbn [ci_level ci_in0 ci_in1]. split; [reflexivity|]. right.
  exists rall, rnew. split; [reflexivity|]. split; [exact E2|].
  apply andb_true_iff in C. destruct C as [C _]. apply Nat.ltb_lt in C. auto.
Qed.

Theorem finalize_inputs_no_panic d14 mfs v level seed :
  seed <> [] -> finalize_inputs true d14 mfs v level seed <> None.
Proof.
  intros N. unfold finalize_inputs.
  set (in0 := add_boundary_inputs (level_files v level) seed).
  assert (N0 : in0 <> []) by (apply abi_nonempty; exact N).
  destruct (key_range_is_krange in0 N0) as (a & b & -> & _).
  set (in1 := add_boundary_inputs _ _).
  destruct (key_range_two_is_krange in0 in1 N0) as (a' & b' & -> & _).
  destruct in1 as [|g1 in1'] eqn:Ein1; [discriminate|]. rewrite <- Ein1.
  set (exp0 := add_boundary_inputs (level_files v level) _).
  destruct (Nat.ltb (length in0) (length exp0) && _) eqn:C; [|discriminate].
  assert (Ne : exp0 <> []).
  { apply andb_true_iff in C. destruct C as [C _]. apply Nat.ltb_lt in C.
    intros E. rewrite E in C. cbn [length] in C. lia. }
  destruct (key_range_is_krange exp0 Ne) as (a2 & b2 & -> & _).
  set (exp1 := if d14 then _ else _).
  destruct (Nat.eqb _ _); [|discriminate].
  destruct (key_range_two_is_krange exp0 exp1 Ne) as (a3 & b3 & -> & _).
  discriminate.
Qed.

(** ** consequences of [version_wf] *)
Lemma level_files_in v l f : In f (level_files v l) -> In (level_files v l) v.
Proof.
  unfold level_files. intros H. destruct (Nat.lt_ge_cases l (length v)) as [L|L].
  - apply nth_In. exact L.
  - rewrite nth_overflow in H by exact L. destruct H.
Qed.

Lemma wf_ordered v l f : version_wf v = true -> In f (level_files v l) -> ordered f.
Proof.
  unfold version_wf. rewrite !andb_true_iff. intros [[_ H] _] Hf.
  rewrite forallb_forall in H. specialize (H _ (level_files_in _ _ _ Hf)).
  rewrite forallb_forall in H. specialize (H _ Hf). breflect. exact H.
Qed.

Lemma ordered_user f : ordered f -> ule (usmall f) (ularge f).
Proof. apply kle_ule. Qed.

Lemma In_mem_file f fs : In f fs -> mem_file f fs = true.
Proof.
  intros H. unfold mem_file. apply existsb_exists. exists f. split; [exact H|apply N.eqb_refl].
Qed.

Lemma in_range_meets lo hi f : in_range (Some lo) (Some hi) f = file_meets lo hi f.
Proof.
  apply eq_true_iff_eq. rewrite in_range_iff, file_meets_iff. split.
  - intros [A B]. split; auto.
  - intros [A B]. split; intros k E; injection E as <-; assumption.
Qed.

Lemma overlapping_inputs_sub v l lo hi f :
  In f (overlapping_inputs v l lo hi) -> In f (level_files v l).
Proof.
  destruct l as [|l].
  - destruct (overlapping_inputs_l0_closed v lo hi) as [(lo' & hi' & _ & _ & E & _) _].
    cbv zeta in E. rewrite E. intros H. apply filter_In in H. tauto.
  - rewrite overlapping_inputs_eq by congruence. intros H. apply filter_In in H. tauto.
Qed.

Lemma in_range_widen lo hi lo' hi' f :
  ole lo' lo -> oge hi' hi -> in_range lo hi f = true -> in_range lo' hi' f = true.
Proof.
  rewrite !in_range_iff. intros O1 O2 [A B]. split.
  - intros k ->. destruct lo as [a|]; cbn in O1; [|tauto]. specialize (A _ eq_refl). uorder.
  - intros k ->. destruct hi as [a|]; cbn in O2; [|tauto]. specialize (B _ eq_refl). uorder.
Qed.

Lemma overlapping_inputs_sup v l lo hi f :
  In f (level_files v l) -> in_range (ulo lo) (ulo hi) f = true ->
  In f (overlapping_inputs v l lo hi).
Proof.
  intros Hf R. destruct l as [|l].
  - destruct (overlapping_inputs_l0_closed v lo hi) as [(lo' & hi' & O1 & O2 & E & _) _].
    cbv zeta in E. rewrite E. apply filter_In. split; [exact Hf|].
    eapply in_range_widen; eassumption.
  - rewrite overlapping_inputs_eq by congruence. apply filter_In. auto.
Qed.

Lemma overlapping_inputs_l0_hull_closed v lo hi :
  hull_closed (level_files v O) (overlapping_inputs v O lo hi).
Proof. apply (overlapping_inputs_l0_closed v lo hi). Qed.

(** [inputs_closed] without its last conjunct (the boundary closure of the parent inputs), and
    that conjunct *)
Definition inputs_closed_nb (v : version) (seed : list fmeta) (c : cinputs) : bool :=
  match hull (ci_in0 c) with
  | None => false
  | Some (lo, hi) =>
      forallb (fun f => mem_file f (ci_in0 c)) seed
      && forallb (fun f => mem_file f (level_files v (ci_level c))) (ci_in0 c)
      && forallb (fun f => mem_file f (level_files v (S (ci_level c)))) (ci_in1 c)
      && forallb (fun f => negb (file_meets lo hi f) || mem_file f (ci_in1 c))
                 (level_files v (S (ci_level c)))
      && (negb (Nat.eqb (ci_level c) 0)
          || forallb (fun f => negb (file_meets lo hi f) || mem_file f (ci_in0 c))
                     (level_files v O))
  end.

Definition parent_boundary_closed_b (v : version) (c : cinputs) : bool :=
  forallb (fun f =>
             mem_file f (ci_in1 c)
             || negb (existsb (fun g => bytes_eqb (ik_user (fm_small f)) (ik_user (fm_large g))
                                        && ikey_ltb (fm_large g) (fm_small f)) (ci_in1 c)))
          (level_files v (S (ci_level c))).

Lemma inputs_closed_split v seed c :
  inputs_closed v seed c = inputs_closed_nb v seed c && parent_boundary_closed_b v c.
Proof.
  unfold inputs_closed, inputs_closed_nb, parent_boundary_closed_b.
  destruct (hull (ci_in0 c)) as [[lo hi]|]; reflexivity.
Qed.

(** assembling [inputs_closed_nb] from its parts *)
Lemma inputs_closed_intro v seed level i0 i1 grand ptr :
  i0 <> [] ->
  (forall f, In f seed -> In f i0) ->
  (forall f, In f i0 -> In f (level_files v level)) ->
  (forall f, In f i1 -> In f (level_files v (S level))) ->
  (forall lo hi f, hull i0 = Some (lo, hi) -> In f (level_files v (S level)) ->
                   file_meets lo hi f = true -> In f i1) ->
  (level = O -> hull_closed (level_files v O) i0) ->
  inputs_closed_nb v seed (mkCI level i0 i1 grand ptr) = true.
Proof.
  intros N Hs H0 H1 Hc Hl0. unfold inputs_closed_nb. cbn [ci_in0 ci_in1 ci_level].
  destruct (hull_is_hull i0 N) as (lo & hi & Hh & _). rewrite Hh.
  rewrite !andb_true_iff. repeat split.
  - apply forallb_forall. intros f Hf. apply In_mem_file. auto.
  - apply forallb_forall. intros f Hf. apply In_mem_file. auto.
  - apply forallb_forall. intros f Hf. apply In_mem_file. auto.
  - apply forallb_forall. intros f Hf. destruct (file_meets lo hi f) eqn:M; [|reflexivity].
    cbn [negb orb]. apply In_mem_file. eauto.
  - destruct level as [|level]; [|reflexivity]. cbn [Nat.eqb negb orb].
    apply forallb_forall. intros f Hf. destruct (file_meets lo hi f) eqn:M; [|reflexivity].
    cbn [negb orb]. apply In_mem_file. eapply Hl0; eauto.
Qed.

(** the parent selection computed from the key range of [i0] contains every parent file that
    meets the hull of [i0] *)
Lemma parent_selection_covers v level i0 r lo hi f :
  key_range_for_files true i0 = Some r ->
  hull i0 = Some (lo, hi) ->
  In f (level_files v (S level)) -> file_meets lo hi f = true ->
  In f (overlapping_inputs v (S level) (Some (fst r)) (Some (snd r))).
Proof.
  intros E Hh Hf M. apply key_range_some in E. destruct E as [N K].
  apply is_krange_hull in K. rewrite (is_hull_hull _ _ _ N K) in Hh. injection Hh as <- <-.
  apply overlapping_inputs_sup; [exact Hf|]. cbn [ulo option_map]. rewrite in_range_meets. exact M.
Qed.

Theorem finalize_inputs_closed_nb d14 mfs v level seed c :
  version_wf v = true ->
  seed <> [] ->
  (forall f, In f seed -> In f (level_files v level)) ->
  (level = O -> hull_closed (level_files v O) seed) ->
  finalize_inputs true d14 mfs v level seed = Some c ->
  inputs_closed_nb v seed c = true.
Proof.
  intros WF N Sub Cl0 H.
  destruct c as [clevel ci0 ci1 grand ptr].
  apply finalize_inputs_cases in H. cbv zeta in H. cbn [ci_level ci_in0 ci_in1] in H.
  destruct H as (r0 & E0 & -> & H).
  set (lf := level_files v level) in *. set (lf1 := level_files v (S level)) in *.
  set (in0 := add_boundary_inputs lf seed) in *.
  set (M := overlapping_inputs v (S level) (Some (fst r0)) (Some (snd r0))) in *.
  set (in1 := add_boundary_inputs lf1 M) in *.
  assert (Ord : forall l f, In f (level_files v l) -> ordered f) by (intros; eapply wf_ordered; eauto).
  assert (N0 : in0 <> []) by (apply abi_nonempty; exact N).
  assert (S0 : forall f, In f seed -> In f in0) by (intros; apply abi_incl; assumption).
  assert (L0 : forall f, In f in0 -> In f lf) by (intros f; apply abi_sub; exact Sub).
  assert (MS : forall f, In f M -> In f lf1) by (intros f; apply overlapping_inputs_sub).
  assert (L1 : forall f, In f in1 -> In f lf1) by (intros f; apply abi_sub; exact MS).
  destruct H as [[-> ->]|(rall & rnew & E1 & E2 & Hlen & -> & Hexp1)].
  - (* the base selection *)
    apply inputs_closed_intro; auto.
    + intros lo hi f Hh Hf Mt. apply abi_incl. eapply parent_selection_covers; eauto.
    + intros ->. unfold in0. rewrite abi_closed; auto. intros f. apply Ord.
  - (* the expanded selection *)
    set (R := overlapping_inputs v level (Some (fst rall)) (Some (snd rall))) in *.
    set (exp0 := add_boundary_inputs lf R) in *.
    assert (RS : forall f, In f R -> In f lf) by (intros f; apply overlapping_inputs_sub).
    apply key_range_two_some in E1. destruct E1 as [_ (A1 & _ & A2 & _)].
    assert (SR : forall f, In f in0 -> In f R).
    { intros f Hf. apply overlapping_inputs_sup; [apply L0; exact Hf|].
      cbn [ulo option_map]. apply in_range_iff.
      pose proof (kle_ule _ _ (A1 f (in_or_app _ _ _ (or_introl Hf)))).
      pose proof (A2 f (in_or_app _ _ _ (or_introl Hf))).
      pose proof (ordered_user _ (Ord _ _ (L0 _ Hf))).
      split; intros k Ek; injection Ek as <-; uorder. }
    assert (Ne : exp0 <> []) by (intros E; rewrite E in Hlen; cbn [length] in Hlen; lia).
    set (E := overlapping_inputs v (S level) (Some (fst rnew)) (Some (snd rnew))) in *.
    assert (ES : forall f, In f E -> In f lf1) by (intros f; apply overlapping_inputs_sub).
    assert (X1 : forall f, In f ci1 -> In f lf1).
    { rewrite Hexp1. destruct d14; [|exact ES]. intros f. apply abi_sub. exact ES. }
    assert (X2 : forall f, In f E -> In f ci1).
    { rewrite Hexp1. destruct d14; [|auto]. intros f. apply abi_incl. }
    apply inputs_closed_intro; auto.
    + intros f Hf. apply abi_incl. auto.
    + intros f. apply abi_sub. exact RS.
    + intros lo hi f Hh Hf Mt. apply X2. eapply parent_selection_covers; eauto.
    + intros ->. unfold exp0. rewrite abi_closed; auto.
      * apply overlapping_inputs_l0_hull_closed.
      * intros f. apply Ord.
      * apply overlapping_inputs_l0_hull_closed.
Qed.

(** * 5. Applying the version edit of a compaction *)

Definition lt_files (a b : fmeta) : Prop := ikey_lt (fm_large a) (fm_small b).
Definition le_small (a b : fmeta) : Prop := ikey_le (fm_small a) (fm_small b).

Lemma cd_sorted l :
  (forall f, In f l -> ordered f) -> check_disjoint l = true -> StronglySorted lt_files l.
Proof.
  induction l as [|a l IH]; intros Ord H; [constructor|].
  cbn [check_disjoint] in H. destruct l as [|b l'].
  - constructor; constructor.
  - apply andb_true_iff in H. destruct H as [H1 H2]. breflect.
    assert (IH' := IH (fun f Hf => Ord f (or_intror Hf)) H2).
    constructor; [exact IH'|].
    apply StronglySorted_inv in IH'. destruct IH' as [_ Fb].
    constructor; [exact H1|]. rewrite Forall_forall in *. intros x Hx. specialize (Fb x Hx).
    pose proof (Ord b (or_intror (or_introl eq_refl))). unfold lt_files, ordered in *. korder.
Qed.

Lemma sorted_cd l : StronglySorted lt_files l -> check_disjoint l = true.
Proof.
  induction 1 as [|a l S IH F]; [reflexivity|]. cbn [check_disjoint].
  destruct l as [|b l']; [reflexivity|].
  apply andb_true_iff. split; [|exact IH]. apply Forall_inv in F. breflect. exact F.
Qed.

Lemma sorted_trich l x y :
  StronglySorted lt_files l -> In x l -> In y l -> x = y \/ lt_files x y \/ lt_files y x.
Proof.
  induction 1 as [|a l S IH F]; intros Hx Hy; [destruct Hx|]. rewrite Forall_forall in F.
  destruct Hx as [<-|Hx], Hy as [<-|Hy]; auto.
Qed.

Lemma lt_le_sorted l :
  (forall f, In f l -> ordered f) -> StronglySorted lt_files l -> StronglySorted le_small l.
Proof.
  intros Ord S. induction S as [|a l S IH F]; [constructor|].
  constructor; [apply IH; intros f Hf; apply Ord; right; exact Hf|].
  rewrite Forall_forall in *. intros x Hx. specialize (F x Hx).
  pose proof (Ord a (or_introl eq_refl)). unfold lt_files, le_small, ordered in *. korder.
Qed.

Lemma insert_sorted f l : ordered f -> Forall (lt_files f) l -> insert_fmeta f l = f :: l.
Proof.
  intros O F. destruct l as [|g r]; [reflexivity|]. cbn [insert_fmeta]. apply Forall_inv in F.
  assert (H : ikey_cmp (fm_small g) (fm_small f) = Gt).
  { apply ikey_cmp_gt_lt. change (ikey_lt (fm_small f) (fm_small g)).
    unfold lt_files, ordered in *. korder. }
  unfold fmeta_cmp. rewrite H. reflexivity.
Qed.

Lemma sort_sorted l :
  (forall f, In f l -> ordered f) -> StronglySorted lt_files l -> sort_fmeta l = l.
Proof.
  intros Ord S. induction S as [|a l S IH F]; [reflexivity|].
  change (sort_fmeta (a :: l)) with (insert_fmeta a (sort_fmeta l)).
  rewrite IH by (intros f Hf; apply Ord; right; exact Hf).
  apply insert_sorted; [apply Ord; left; reflexivity|exact F].
Qed.

Lemma insert_perm f l : Permutation (insert_fmeta f l) (f :: l).
Proof.
  induction l as [|g r IH]; cbn [insert_fmeta]; [reflexivity|].
  destruct (fmeta_cmp g f); try reflexivity.
  rewrite IH. apply perm_swap.
Qed.

Lemma sort_perm l : Permutation (sort_fmeta l) l.
Proof.
  induction l as [|a l IH]; [reflexivity|].
  change (sort_fmeta (a :: l)) with (insert_fmeta a (sort_fmeta l)).
  rewrite insert_perm. constructor. exact IH.
Qed.

Lemma merge_perm fuel : forall B A,
  (length B + length A < fuel)%nat -> Permutation (merge_files fuel B A) (B ++ A).
Proof.
  induction fuel as [|fuel IH]; intros B A L; [lia|]. cbn [merge_files].
  destruct B as [|b br]; [reflexivity|]. destruct A as [|a ar]; [rewrite app_nil_r; reflexivity|].
  cbn [length] in L.
  destruct (fmeta_cmp b a).
  - rewrite IH by (cbn [length]; lia). apply Permutation_middle.
  - rewrite IH by (cbn [length]; lia). reflexivity.
  - rewrite IH by (cbn [length]; lia). apply Permutation_middle.
Qed.

Lemma merge_in fuel : forall B A x, In x (merge_files fuel B A) -> In x B \/ In x A.
Proof.
  induction fuel as [|fuel IH]; intros B A x H; [destruct H|]. cbn [merge_files] in H.
  destruct B as [|b br]; [auto|]. destruct A as [|a ar]; [auto|].
  destruct (fmeta_cmp b a); destruct H as [<-|H];
    try (left; left; reflexivity); try (right; left; reflexivity);
    apply IH in H; cbn [In] in *; tauto.
Qed.

Lemma fmeta_cmp_lt_le b a : fmeta_cmp b a = Lt -> le_small b a.
Proof.
  unfold fmeta_cmp, le_small, ikey_le. destruct (ikey_cmp (fm_small b) (fm_small a)); congruence.
Qed.
Lemma fmeta_cmp_nlt_le b a : fmeta_cmp b a <> Lt -> le_small a b.
Proof.
  unfold fmeta_cmp, le_small, ikey_le. rewrite (ikey_cmp_opp (fm_small a) (fm_small b)).
  destruct (ikey_cmp (fm_small b) (fm_small a)); cbn [CompOpp]; congruence.
Qed.

Lemma merge_sorted fuel : forall B A,
  StronglySorted le_small B -> StronglySorted le_small A ->
  StronglySorted le_small (merge_files fuel B A).
Proof.
  induction fuel as [|fuel IH]; intros B A SB SA; cbn [merge_files]; [constructor|].
  destruct B as [|b br]; [exact SA|]. destruct A as [|a ar]; [exact SB|].
  pose proof (StronglySorted_inv SB) as [SB' FB]. pose proof (StronglySorted_inv SA) as [SA' FA].
  rewrite Forall_forall in FB, FA.
  assert (Hb : fmeta_cmp b a = Lt -> StronglySorted le_small (b :: merge_files fuel br (a :: ar))).
  { intros C. apply fmeta_cmp_lt_le in C. constructor; [apply IH; assumption|].
    apply Forall_forall. intros x Hx. apply merge_in in Hx. destruct Hx as [Hx|[<-|Hx]]; auto.
    specialize (FA x Hx). unfold le_small in *. korder. }
  assert (Ha : fmeta_cmp b a <> Lt -> StronglySorted le_small (a :: merge_files fuel (b :: br) ar)).
  { intros C. apply fmeta_cmp_nlt_le in C. constructor; [apply IH; assumption|].
    apply Forall_forall. intros x Hx. apply merge_in in Hx. destruct Hx as [[<-|Hx]|Hx]; auto.
    specialize (FB x Hx). unfold le_small in *. korder. }
  destruct (fmeta_cmp b a); [apply Ha|apply Hb|apply Ha]; congruence.
Qed.

Lemma filter_ssorted {A} (R : A -> A -> Prop) p l :
  StronglySorted R l -> StronglySorted R (filter p l).
Proof.
  induction 1 as [|a l S IH F]; cbn [filter]; [constructor|].
  destruct (p a); [|exact IH]. constructor; [exact IH|].
  rewrite Forall_forall in *. intros x Hx. apply filter_In in Hx. apply F. tauto.
Qed.

Lemma disjoint_sorted l :
  StronglySorted le_small l -> NoDup l -> (forall f, In f l -> ordered f) ->
  (forall x y, In x l -> In y l -> x <> y -> lt_files x y \/ lt_files y x) ->
  StronglySorted lt_files l.
Proof.
  induction 1 as [|a l S IH F]; intros ND Ord D; [constructor|].
  apply NoDup_cons_iff in ND. destruct ND as [Na ND].
  constructor.
  - apply IH; auto.
    + intros f Hf. apply Ord. right. exact Hf.
    + intros x y Hx Hy. apply D; right; assumption.
  - rewrite Forall_forall in *. intros y Hy. specialize (F y Hy).
    destruct (D a y (or_introl eq_refl) (or_intror Hy)) as [H|H]; [congruence|exact H|].
    exfalso. pose proof (Ord y (or_intror Hy)). unfold lt_files, le_small, ordered in *. korder.
Qed.

Lemma NoDup_app_intro {A} (l1 l2 : list A) :
  NoDup l1 -> NoDup l2 -> (forall x, In x l1 -> ~ In x l2) -> NoDup (l1 ++ l2).
Proof.
  induction l1 as [|a l1 IH]; intros N1 N2 D; [exact N2|]. cbn [app].
  apply NoDup_cons_iff in N1. destruct N1 as [Na N1]. constructor.
  - intros H. apply in_app_or in H. destruct H as [H|H]; [tauto|]. apply (D a); [left; reflexivity|exact H].
  - apply IH; auto. intros x Hx. apply D. right. exact Hx.
Qed.

Lemma NoDup_app_l {A} (l1 l2 : list A) : NoDup (l1 ++ l2) -> NoDup l1.
Proof.
  induction l1 as [|a l1 IH]; intros H; [constructor|]. cbn [app] in H.
  apply NoDup_cons_iff in H. destruct H as [Na H]. constructor; [|auto].
  intros Hi. apply Na. apply in_or_app. left. exact Hi.
Qed.
Lemma NoDup_app_r {A} (l1 l2 : list A) : NoDup (l1 ++ l2) -> NoDup l2.
Proof.
  induction l1 as [|a l1 IH]; intros H; [exact H|]. cbn [app] in H.
  apply NoDup_cons_iff in H. tauto.
Qed.
Lemma NoDup_app_disj {A} (l1 l2 : list A) x : NoDup (l1 ++ l2) -> In x l1 -> ~ In x l2.
Proof.
  induction l1 as [|a l1 IH]; intros H H1 H2; [destruct H1|]. cbn [app] in H.
  apply NoDup_cons_iff in H. destruct H as [Na H]. destruct H1 as [->|H1].
  - apply Na. apply in_or_app. right. exact H2.
  - exact (IH H H1 H2).
Qed.

(** [apply_level] does not hit the overlap assertion *)
Lemma apply_level_some level B del A :
  (forall f, In f B -> ordered f) -> (forall f, In f A -> ordered f) ->
  StronglySorted lt_files B -> StronglySorted lt_files A ->
  NoDup (map fm_num (B ++ A)) ->
  (forall r o, In r B -> In o A -> existsb (N.eqb (fm_num r)) del = false ->
               lt_files r o \/ lt_files o r) ->
  apply_level level B del A <> None.
Proof.
  intros OB OA SB SA ND D. unfold apply_level.
  destruct (Nat.eqb level 0); [discriminate|].
  rewrite (sort_sorted B OB SB), (sort_sorted A OA SA).
  set (keep := fun f : fmeta => negb (existsb (N.eqb (fm_num f)) del)).
  set (merged := merge_files (S (length B + length A)) B A).
  assert (P : Permutation merged (B ++ A)) by (apply merge_perm; lia).
  assert (Hin : forall x, In x (filter keep merged) ->
                          keep x = true /\ (In x B \/ In x A)).
  { intros x Hx. apply filter_In in Hx. destruct Hx as [Hx K]. split; [exact K|].
    apply in_app_or. eapply Permutation_in; eassumption. }
  assert (C : check_disjoint (filter keep merged) = true); [|rewrite C; discriminate].
  apply sorted_cd. apply disjoint_sorted.
  - apply filter_ssorted. apply merge_sorted; apply lt_le_sorted; assumption.
  - apply NoDup_filter. apply NoDup_map_inv in ND.
    eapply Permutation_NoDup; [symmetry; exact P|exact ND].
  - intros f Hf. apply Hin in Hf. destruct Hf as [_ [Hf|Hf]]; auto.
  - intros x y Hx Hy Hne. apply Hin in Hx. apply Hin in Hy.
    destruct Hx as [Kx Hx], Hy as [Ky Hy]. unfold keep in Kx, Ky.
    apply negb_true_iff in Kx. apply negb_true_iff in Ky.
    destruct Hx as [Hx|Hx], Hy as [Hy|Hy].
    + destruct (sorted_trich B x y SB Hx Hy) as [E|E]; [congruence|exact E].
    + apply D; assumption.
    + destruct (D y x Hy Hx Ky); auto.
    + destruct (sorted_trich A x y SA Hx Hy) as [E|E]; [congruence|exact E].
Qed.

Definition cnt (l : list fmeta) (x : N) : nat := count_occ N.eq_dec (map fm_num l) x.

Lemma cnt_app l1 l2 x : cnt (l1 ++ l2) x = (cnt l1 x + cnt l2 x)%nat.
Proof. unfold cnt. rewrite map_app. apply count_occ_app. Qed.

Lemma cnt_perm l1 l2 x : Permutation l1 l2 -> cnt l1 x = cnt l2 x.
Proof.
  intros P. unfold cnt. apply (Permutation_count_occ N.eq_dec). apply Permutation_map. exact P.
Qed.

Lemma cnt_filter p l x : (cnt (filter p l) x <= cnt l x)%nat.
Proof.
  unfold cnt. induction l as [|a l IH]; cbn [filter map count_occ]; [lia|].
  destruct (p a); cbn [map count_occ]; destruct (N.eq_dec (fm_num a) x); lia.
Qed.

(** facts about any successful [apply_level] *)
Lemma apply_level_facts level B del A res :
  apply_level level B del A = Some res ->
  (level <> O -> check_disjoint res = true)
  /\ (forall f, In f res -> In f B \/ In f A)
  /\ (forall x, (cnt res x <= cnt B x + cnt A x)%nat).
Proof.
  unfold apply_level.
  set (keep := fun f : fmeta => negb (existsb (N.eqb (fm_num f)) del)).
  set (merged := merge_files _ _ _).
  assert (P : Permutation merged (B ++ A)).
  { unfold merged. rewrite merge_perm.
    - rewrite (sort_perm B), (sort_perm A). reflexivity.
    - rewrite (Permutation_length (sort_perm B)), (Permutation_length (sort_perm A)). lia. }
  intros H.
  assert (R : res = filter keep merged /\ (level <> O -> check_disjoint res = true)).
  { destruct (Nat.eqb level 0) eqn:L.
    - injection H as <-. split; [reflexivity|]. apply Nat.eqb_eq in L. congruence.
    - destruct (check_disjoint (filter keep merged)) eqn:C; [|discriminate].
      injection H as <-. auto. }
  destruct R as [-> R]. split; [exact R|]. split.
  - intros f Hf. apply filter_In in Hf. apply in_app_or. eapply Permutation_in; [exact P|tauto].
  - intros x. rewrite <- cnt_app, <- (cnt_perm _ _ x P). apply cnt_filter.
Qed.

(** ** [apply_edit_levels] *)
Definition ae_add (e : vedit) (i : nat) : list fmeta :=
  map snd (filter (fun a => Nat.eqb (fst a) i) (ve_added e)).
Definition ae_del (e : vedit) (i : nat) : list N :=
  filter (fun n => negb (existsb (fun a => N.eqb (fm_num a) n) (ae_add e i)))
         (map snd (filter (fun d => Nat.eqb (fst d) i) (ve_deleted e))).

Lemma ael_cons B rest e i :
  apply_edit_levels (B :: rest) e i =
  match apply_level i B (ae_del e i) (ae_add e i), apply_edit_levels rest e (S i) with
  | Some l, Some r => Some (l :: r)
  | _, _ => None
  end.
Proof. reflexivity. Qed.

Lemma ael_some e : forall v k,
  (forall i B, nth_error v i = Some B ->
               apply_level (k + i) B (ae_del e (k + i)) (ae_add e (k + i)) <> None) ->
  apply_edit_levels v e k <> None.
Proof.
  induction v as [|B rest IH]; intros k H; [discriminate|]. rewrite ael_cons.
  pose proof (H O B eq_refl) as H0. rewrite Nat.add_0_r in H0.
  destruct (apply_level k B _ _); [|congruence].
  specialize (IH (S k)). destruct (apply_edit_levels rest e (S k)); [discriminate|].
  exfalso. apply IH; [|reflexivity]. intros i B' Hn. specialize (H (S i) B' Hn).
  rewrite Nat.add_succ_r in H. exact H.
Qed.

Fixpoint addcnt (e : vedit) (k n : nat) (x : N) : nat :=
  match n with
  | O => O
  | S n' => (cnt (ae_add e k) x + addcnt e (S k) n' x)%nat
  end.

Lemma ael_facts e : forall v k v',
  apply_edit_levels v e k = Some v' ->
  (k <> O -> forallb check_disjoint v' = true)
  /\ (forall f, In f (concat v') -> In f (concat v) \/ exists i, In f (ae_add e i))
  /\ (forall x, (cnt (concat v') x <= cnt (concat v) x + addcnt e k (length v) x)%nat).
Proof.
  induction v as [|B rest IH]; intros k v' H.
  - injection H as <-. split; [reflexivity|]. split; [intros f []|]. intros x. cbn. lia.
  - rewrite ael_cons in H.
    destruct (apply_level k B _ _) as [l|] eqn:E1; [|discriminate].
    destruct (apply_edit_levels rest e (S k)) as [r|] eqn:E2; [|discriminate].
    injection H as <-. apply apply_level_facts in E1. destruct E1 as (F1 & F2 & F3).
    destruct (IH _ _ E2) as (G1 & G2 & G3). split; [|split].
    + intros Hk. cbn [forallb]. rewrite (F1 Hk), (G1 ltac:(lia)). reflexivity.
    + intros f Hf. cbn [concat] in *. apply in_app_or in Hf. destruct Hf as [Hf|Hf].
      * destruct (F2 f Hf) as [Hb|Ha]; [left; apply in_or_app; left; exact Hb|right; eauto].
      * destruct (G2 f Hf) as [Hb|Ha]; [left; apply in_or_app; right; exact Hb|right; exact Ha].
    + intros x. cbn [concat length addcnt]. rewrite !cnt_app. specialize (F3 x). specialize (G3 x). lia.
Qed.

Lemma nodup_nums_iff l : nodup_nums l = true <-> NoDup l.
Proof.
  induction l as [|x r IH]; cbn [nodup_nums]; [split; [constructor|reflexivity]|].
  rewrite andb_true_iff, negb_true_iff, IH, NoDup_cons_iff.
  assert (E : existsb (N.eqb x) r = false <-> ~ In x r).
  { rewrite <- not_true_iff_false, existsb_exists. split.
    - intros H Hi. apply H. exists x. split; [exact Hi|apply N.eqb_refl].
    - intros H (y & Hy & Exy). apply N.eqb_eq in Exy. subst. tauto. }
  rewrite E. reflexivity.
Qed.

(** ** consequences of [version_wf], continued *)
Lemma nth_error_level v i B : nth_error v i = Some B -> level_files v i = B.
Proof. intros H. unfold level_files. apply nth_error_nth. exact H. Qed.

Lemma wf_level_sorted v i :
  version_wf v = true -> i <> O -> StronglySorted lt_files (level_files v i).
Proof.
  intros WF Hi. destruct (nth_error v i) as [B|] eqn:E.
  - rewrite (nth_error_level _ _ _ E). apply cd_sorted.
    + intros f Hf. apply (wf_ordered v i); [exact WF|]. rewrite (nth_error_level _ _ _ E). exact Hf.
    + unfold version_wf in WF. rewrite !andb_true_iff in WF. destruct WF as [[WF _] _].
      rewrite forallb_forall in WF. apply WF.
      destruct i as [|j]; [congruence|]. destruct v as [|B0 v']; [discriminate|].
      cbn [nth_error tl] in *. eapply nth_error_In. exact E.
  - unfold level_files. rewrite nth_overflow; [constructor|]. apply nth_error_None. exact E.
Qed.

Lemma wf_nodup v : version_wf v = true -> NoDup (map fm_num (concat v)).
Proof.
  unfold version_wf. rewrite !andb_true_iff. intros [_ H]. apply nodup_nums_iff. exact H.
Qed.

Lemma in_level_concat v i f : In f (level_files v i) -> In f (concat v).
Proof. intros H. apply in_concat. exists (level_files v i). split; [eapply level_files_in; eauto|exact H]. Qed.

Lemma wf_level_nodup v i : version_wf v = true -> NoDup (map fm_num (level_files v i)).
Proof.
  intros WF. apply wf_nodup in WF. destruct (nth_error v i) as [B|] eqn:E.
  - rewrite (nth_error_level _ _ _ E). apply nth_error_In in E. apply in_split in E.
    destruct E as (l1 & l2 & ->). rewrite concat_app in WF. cbn [concat] in WF.
    rewrite !map_app in WF. apply NoDup_app_r in WF. apply NoDup_app_l in WF. exact WF.
  - unfold level_files. rewrite nth_overflow; [constructor|]. apply nth_error_None. exact E.
Qed.

(** ** the edit of a compaction *)
Definition compaction_edit (c : cinputs) (outs : list fmeta) : vedit :=
  mkVE (map (fun f => (ci_level c, fm_num f)) (ci_in0 c)
        ++ map (fun f => (S (ci_level c), fm_num f)) (ci_in1 c))
       (map (fun o => (S (ci_level c), o)) outs).

Lemma filter_map_const {A} (j i : nat) (l : list A) :
  filter (fun a => Nat.eqb (fst a) i) (map (fun o => (j, o)) l)
  = if Nat.eqb j i then map (fun o => (j, o)) l else [].
Proof.
  induction l as [|a l IH]; cbn [map filter fst]; [destruct (Nat.eqb j i); reflexivity|].
  rewrite IH. destruct (Nat.eqb j i); reflexivity.
Qed.

Lemma ae_add_compaction c outs i :
  ae_add (compaction_edit c outs) i = if Nat.eqb (S (ci_level c)) i then outs else [].
Proof.
  unfold ae_add, compaction_edit. cbn [ve_added]. rewrite filter_map_const.
  destruct (Nat.eqb (S (ci_level c)) i); [|reflexivity].
  rewrite map_map. cbn [snd]. apply map_id.
Qed.

Lemma ae_del_compaction_in1 c outs r :
  In r (ci_in1 c) -> ~ In (fm_num r) (map fm_num outs) ->
  In (fm_num r) (ae_del (compaction_edit c outs) (S (ci_level c))).
Proof.
  intros Hr Hn. unfold ae_del. apply filter_In. split.
  - apply in_map_iff. exists (S (ci_level c), fm_num r). split; [reflexivity|].
    apply filter_In. split; [|cbn [fst]; apply Nat.eqb_refl].
    unfold compaction_edit. cbn [ve_deleted]. apply in_or_app. right.
    apply in_map_iff. exists r. auto.
  - apply negb_true_iff. apply not_true_iff_false. intros H. apply existsb_exists in H.
    destruct H as (a & Ha & E). apply N.eqb_eq in E. apply Hn. rewrite <- E.
    apply in_map. rewrite ae_add_compaction, Nat.eqb_refl in Ha. exact Ha.
Qed.

Lemma addcnt_compaction c outs : forall n k x,
  (addcnt (compaction_edit c outs) k n x <= if Nat.leb k (S (ci_level c)) then cnt outs x else O)%nat.
Proof.
  induction n as [|n IH]; intros k x; cbn [addcnt]; [lia|].
  rewrite ae_add_compaction. specialize (IH (S k) x).
  destruct (Nat.eqb (S (ci_level c)) k) eqn:E.
  - apply Nat.eqb_eq in E. subst k. rewrite Nat.leb_refl.
    destruct (Nat.leb (S (S (ci_level c))) (S (ci_level c))) eqn:L; [apply Nat.leb_le in L; lia|]. lia.
  - apply Nat.eqb_neq in E. change (cnt [] x) with O.
    destruct (Nat.leb (S k) (S (ci_level c))) eqn:L1; destruct (Nat.leb k (S (ci_level c))) eqn:L2;
      lia.
Qed.

(** the parent files that are not inputs lie entirely below or entirely above all inputs, in
    internal-key order *)
Definition separated (v : version) (c : cinputs) : Prop :=
  forall r, In r (level_files v (S (ci_level c))) -> ~ In r (ci_in1 c) ->
    (forall f, In f (ci_in0 c ++ ci_in1 c) -> lt_files r f)
    \/ (forall f, In f (ci_in0 c ++ ci_in1 c) -> lt_files f r).

(** the outputs: sorted and mutually disjoint, bounds ordered, within the internal-key span of
    the inputs, numbered freshly *)
Record outs_ok (v : version) (c : cinputs) (outs : list fmeta) : Prop := {
  oo_disjoint : check_disjoint outs = true;
  oo_ordered : forall o, In o outs -> ordered o;
  oo_span : forall o, In o outs ->
      exists f g, In f (ci_in0 c ++ ci_in1 c) /\ In g (ci_in0 c ++ ci_in1 c)
                  /\ ikey_le (fm_small f) (fm_small o) /\ ikey_le (fm_large o) (fm_large g);
  oo_fresh : forall o, In o outs -> ~ In (fm_num o) (map fm_num (concat v));
  oo_nodup : NoDup (map fm_num outs)
}.

Theorem apply_edit_compaction_wf_gen v c outs :
  version_wf v = true ->
  (forall f, In f (ci_in1 c) -> In f (level_files v (S (ci_level c)))) ->
  separated v c ->
  outs_ok v c outs ->
  exists v', apply_edit v (compaction_edit c outs) = Some v' /\ version_wf v' = true.
Proof.
  intros WF Sub1 Sep OK. set (e := compaction_edit c outs).
  assert (Souts : StronglySorted lt_files outs) by (apply cd_sorted; [apply OK|apply OK]).
  destruct (apply_edit v e) as [v'|] eqn:E.
  2:{ exfalso. revert E. apply ael_some. intros i B Hn. cbn [Nat.add].
      pose proof (nth_error_level _ _ _ Hn) as HB.
      destruct i as [|j]; [unfold apply_level; cbn [Nat.eqb]; discriminate|].
      assert (OB : forall f, In f B -> ordered f).
      { intros f Hf. apply (wf_ordered v (S j)); [exact WF|]. rewrite HB. exact Hf. }
      assert (SB : StronglySorted lt_files B) by (rewrite <- HB; apply wf_level_sorted; auto).
      unfold e. rewrite ae_add_compaction.
      destruct (Nat.eqb (S (ci_level c)) (S j)) eqn:Ej.
      - apply Nat.eqb_eq in Ej. rewrite <- Ej in *. clear Ej.
        apply apply_level_some; auto.
        + apply OK.
        + rewrite map_app. apply NoDup_app_intro.
          * rewrite <- HB. apply wf_level_nodup. exact WF.
          * apply OK.
          * intros x Hx Ho. apply in_map_iff in Ho. destruct Ho as (o & <- & Ho).
            apply (oo_fresh _ _ _ OK o Ho). apply in_map_iff in Hx. destruct Hx as (r0 & Er & Hr).
            rewrite <- Er. apply in_map. apply (in_level_concat v (S (ci_level c))). rewrite HB. exact Hr.
        + intros r o Hr Ho Keep.
          assert (Hr' : In r (level_files v (S (ci_level c)))) by (rewrite HB; exact Hr).
          assert (Nr : ~ In r (ci_in1 c)).
          { intros Hi. apply not_true_iff_false in Keep. apply Keep. apply existsb_exists.
            exists (fm_num r). split; [|apply N.eqb_refl]. apply ae_del_compaction_in1; [exact Hi|].
            intros Hm. apply in_map_iff in Hm. destruct Hm as (o' & Eo & Ho').
            apply (oo_fresh _ _ _ OK o' Ho'). rewrite Eo. apply in_map.
            eapply in_level_concat; eauto. }
          destruct (oo_span _ _ _ OK o Ho) as (f & g & Hf & Hg & L1 & L2).
          destruct (Sep r Hr' Nr) as [S|S].
          * left. specialize (S f Hf). unfold lt_files in *. korder.
          * right. specialize (S g Hg). unfold lt_files in *. korder.
      - apply apply_level_some; auto.
        + intros f [].
        + constructor.
        + rewrite app_nil_r. rewrite <- HB. apply wf_level_nodup. exact WF.
        + intros r o _ []. }
  exists v'. split; [reflexivity|].
  unfold apply_edit in E. pose proof (ael_facts e v O v' E) as (_ & F2 & F3).
  unfold version_wf. rewrite !andb_true_iff. split; [split|].
  - destruct v as [|B rest]; [injection E as <-; reflexivity|].
    rewrite ael_cons in E. destruct (apply_level O B _ _) as [l|]; [|discriminate].
    destruct (apply_edit_levels rest e 1) as [r|] eqn:E2; [|discriminate].
    injection E as <-. cbn [tl]. apply (ael_facts e rest 1%nat r E2). lia.
  - apply forallb_forall. intros l Hl. apply forallb_forall. intros f Hf. breflect.
    assert (Hc : In f (concat v')) by (apply in_concat; eauto).
    destruct (F2 f Hc) as [Hv|(i & Ha)].
    + apply in_concat in Hv. destruct Hv as (B & HB & Hf').
      apply In_nth_error in HB. destruct HB as (i & HB).
      apply (wf_ordered v i); [exact WF|]. rewrite (nth_error_level _ _ _ HB). exact Hf'.
    + unfold e in Ha. rewrite ae_add_compaction in Ha.
      destruct (Nat.eqb _ _); [apply OK; exact Ha|destruct Ha].
  - apply nodup_nums_iff. apply (NoDup_count_occ N.eq_dec). intros x.
    specialize (F3 x). pose proof (addcnt_compaction c outs (length v) O x) as F4.
    cbn [Nat.leb] in F4. fold e in F4. fold (cnt (concat v') x).
    assert (F5 : (cnt (concat v) x + cnt outs x <= 1)%nat); [|lia].
    rewrite <- cnt_app. unfold cnt. apply (NoDup_count_occ N.eq_dec).
    rewrite map_app. apply NoDup_app_intro; [apply wf_nodup; exact WF|apply OK|].
    intros y Hy Ho. apply in_map_iff in Ho. destruct Ho as (o & <- & Ho).
    exact (oo_fresh _ _ _ OK o Ho Hy).
Qed.

(** ** [finalize_inputs] yields separated inputs *)
Section BOUNDARY_SEP.
Variable lf : list fmeta.
Hypothesis lf_sorted : StronglySorted lt_files lf.
Hypothesis lf_ordered : forall f, In f lf -> ordered f.

Lemma abi_loop_above r : In r lf -> forall fuel k acc,
  ~ In r (abi_loop fuel lf k acc) -> ikey_lt k (fm_small r) ->
  (forall f, In f acc -> lt_files f r) ->
  forall f, In f (abi_loop fuel lf k acc) -> lt_files f r.
Proof.
  intros Hr. induction fuel as [|fuel IH]; intros k acc Nr Hk Hacc; cbn [abi_loop] in *; [exact Hacc|].
  pose proof (fsb_spec lf k) as S. destruct (find_smallest_boundary_file lf k) as [b|]; [|exact Hacc].
  destruct S as (Hb & [C1 C2] & Cmin).
  assert (Hbr : lt_files b r).
  { destruct (sorted_trich lf r b lf_sorted Hr Hb) as [E|[L|L]]; [| |exact L]; exfalso.
    - subst b. apply Nr. destruct (abi_loop_app fuel lf (fm_large r) (acc ++ [r])) as (extra & -> & _).
      apply in_or_app. left. apply in_or_app. right. left. reflexivity.
    - pose proof (lf_ordered r Hr) as Or. unfold lt_files, ordered in *.
      assert (Cr : cand k r).
      { split; [exact Hk|]. pose proof (klt_ule _ _ Hk). 
        assert (ikey_lt (fm_small r) (fm_small b)) as Hl by korder.
        pose proof (klt_ule _ _ Hl). rewrite C2 in *. uorder. }
      specialize (Cmin r Hr Cr). korder. }
  apply IH; auto.
  intros f Hf. apply in_app_or in Hf. destruct Hf as [Hf|[<-|[]]]; auto.
Qed.

Lemma abi_loop_below r : forall fuel k acc,
  ikey_lt (fm_large r) k -> (forall f, In f acc -> lt_files r f) ->
  forall f, In f (abi_loop fuel lf k acc) -> lt_files r f.
Proof.
  induction fuel as [|fuel IH]; intros k acc Hk Hacc; cbn [abi_loop] in *; [exact Hacc|].
  pose proof (fsb_spec lf k) as S. destruct (find_smallest_boundary_file lf k) as [b|]; [|exact Hacc].
  destruct S as (Hb & [C1 C2] & _). pose proof (lf_ordered b Hb) as Ob.
  assert (Hrb : lt_files r b) by (unfold lt_files, ordered in *; korder).
  apply IH.
  - unfold lt_files, ordered in *. korder.
  - intros f Hf. apply in_app_or in Hf. destruct Hf as [Hf|[<-|[]]]; auto.
Qed.

Lemma abi_above M r :
  In r lf -> (forall f, In f M -> In f lf) -> ~ In r (add_boundary_inputs lf M) ->
  (forall f, In f M -> lt_files f r) ->
  forall f, In f (add_boundary_inputs lf M) -> lt_files f r.
Proof.
  intros Hr Sub Nr HM. unfold add_boundary_inputs in *.
  destruct M as [|m0 M']; [intros f []|].
  destruct (flk_spec (m0 :: M') ltac:(congruence)) as (k & Ek & _ & (fk & Hfk & <-)).
  rewrite Ek in *. apply abi_loop_above; auto.
  pose proof (HM _ Hfk) as L. pose proof (lf_ordered r Hr). unfold lt_files in L. exact L.
Qed.

Lemma abi_below M r :
  (forall f, In f M -> In f lf) ->
  (forall f, In f M -> lt_files r f) ->
  forall f, In f (add_boundary_inputs lf M) -> lt_files r f.
Proof.
  intros Sub HM. unfold add_boundary_inputs in *.
  destruct M as [|m0 M']; [intros f []|].
  destruct (flk_spec (m0 :: M') ltac:(congruence)) as (k & Ek & _ & (fk & Hfk & <-)).
  rewrite Ek in *. apply abi_loop_below; auto.
  pose proof (HM _ Hfk) as L. pose proof (lf_ordered fk (Sub _ Hfk)). unfold lt_files, ordered in *. korder.
Qed.
End BOUNDARY_SEP.

Lemma separated_intro v level i0 M i1 lo hi grand ptr :
  version_wf v = true -> is_hull i0 lo hi ->
  (forall f, In f M <-> In f (level_files v (S level)) /\ file_meets lo hi f = true) ->
  (i1 = M \/ i1 = add_boundary_inputs (level_files v (S level)) M) ->
  separated v (mkCI level i0 i1 grand ptr).
Proof.
  intros WF (A1 & _ & A2 & _) HM Hi1 r Hr Nr. cbn [ci_level ci_in0 ci_in1] in *.
  set (lf1 := level_files v (S level)) in *.
  assert (SS : StronglySorted lt_files lf1) by (apply wf_level_sorted; auto).
  assert (Ord : forall f, In f lf1 -> ordered f) by (intros f; apply wf_ordered; exact WF).
  assert (MS : forall f, In f M -> In f lf1) by (intros f Hf; apply HM in Hf; tauto).
  assert (Mi1 : forall f, In f M -> In f i1).
  { destruct Hi1 as [->| ->]; auto. intros f. apply abi_incl. }
  assert (NM : file_meets lo hi r = false).
  { apply not_true_iff_false. intros Hm. apply Nr. apply Mi1. apply HM. auto. }
  pose proof (Ord r Hr) as Or. apply ordered_user in Or.
  unfold file_meets in NM. apply andb_false_iff in NM. destruct NM as [NM|NM]; breflect.
  - (* [r] starts after the hull *)
    right.
    assert (HMr : forall f, In f M -> lt_files f r).
    { intros f Hf. pose proof (Ord f (MS f Hf)) as Of. apply ordered_user in Of.
      apply HM in Hf. destruct Hf as [Hf Hm]. apply file_meets_iff in Hm. destruct Hm as [M1 M2].
      destruct (sorted_trich lf1 f r SS Hf Hr) as [E|[L|L]]; [subst; exfalso; uorder|exact L|].
      exfalso. pose proof (klt_ule _ _ L). uorder. }
    intros f Hf. apply in_app_or in Hf. destruct Hf as [Hf|Hf].
    + apply ult_klt. specialize (A2 f Hf). uorder.
    + destruct Hi1 as [->| ->]; [auto|]. revert f Hf. apply abi_above; auto.
  - (* [r] ends before the hull *)
    left.
    assert (HMr : forall f, In f M -> lt_files r f).
    { intros f Hf. pose proof (Ord f (MS f Hf)) as Of. apply ordered_user in Of.
      apply HM in Hf. destruct Hf as [Hf Hm]. apply file_meets_iff in Hm. destruct Hm as [M1 M2].
      destruct (sorted_trich lf1 f r SS Hf Hr) as [E|[L|L]]; [subst; exfalso; uorder| |exact L].
      exfalso. pose proof (klt_ule _ _ L). uorder. }
    intros f Hf. apply in_app_or in Hf. destruct Hf as [Hf|Hf].
    + apply ult_klt. specialize (A1 f Hf). uorder.
    + destruct Hi1 as [->| ->]; [auto|]. revert f Hf. apply abi_below; auto.
Qed.

Lemma parent_selection_iff v level (r : ikey * ikey) f :
  (In f (overlapping_inputs v (S level) (Some (fst r)) (Some (snd r)))
   <-> In f (level_files v (S level))
       /\ file_meets (ik_user (fst r)) (ik_user (snd r)) f = true).
Proof.
  rewrite overlapping_inputs_eq by congruence. cbn [ulo option_map].
  rewrite filter_In, in_range_meets. reflexivity.
Qed.

Theorem finalize_inputs_separated d14 mfs v level seed c :
  version_wf v = true ->
  finalize_inputs true d14 mfs v level seed = Some c ->
  separated v c
  /\ (forall f, In f (ci_in1 c) -> In f (level_files v (S (ci_level c)))).
Proof.
  intros WF H. destruct c as [clevel ci0 ci1 grand ptr].
  apply finalize_inputs_cases in H. cbv zeta in H. cbn [ci_level ci_in0 ci_in1] in H.
  destruct H as (r0 & E0 & -> & H). cbn [ci_level ci_in1].
  destruct H as [[-> ->]|(rall & rnew & E1 & E2 & Hlen & -> & ->)].
  - split.
    + eapply separated_intro with (lo := ik_user (fst r0)) (hi := ik_user (snd r0)).
      * exact WF.
      * apply is_krange_hull. apply (key_range_some _ _ E0).
      * intros f. apply parent_selection_iff.
      * right. reflexivity.
    + intros f. apply abi_sub. intros g. apply overlapping_inputs_sub.
  - split.
    + eapply separated_intro with (lo := ik_user (fst rnew)) (hi := ik_user (snd rnew)).
      * exact WF.
      * apply is_krange_hull. apply (key_range_some _ _ E2).
      * intros f. apply parent_selection_iff.
      * destruct d14; [right|left]; reflexivity.
    + destruct d14; [|intros f; apply overlapping_inputs_sub].
      intros f. apply abi_sub. intros g. apply overlapping_inputs_sub.
Qed.

(** [apply_edit_compaction_wf]: installing the outputs of a compaction chosen by
    [finalize_inputs] never trips the overlap assertion of [maybe_add_file], and the new version
    is well formed *)
Theorem apply_edit_compaction_wf d14 mfs v level seed c outs :
  version_wf v = true ->
  finalize_inputs true d14 mfs v level seed = Some c ->
  outs_ok v c outs ->
  exists v', apply_edit v (compaction_edit c outs) = Some v' /\ version_wf v' = true.
Proof.
  intros WF H OK. destruct (finalize_inputs_separated _ _ _ _ _ _ WF H) as [Sep Sub].
  apply apply_edit_compaction_wf_gen; assumption.
Qed.

(** * Completeness of [add_boundary_inputs]: the fuel [S (length level_files)] suffices, the
    loop stops only when no boundary file is left *)

Definition cntgt (lf : list fmeta) (k : ikey) : nat :=
  length (filter (fun f => ikey_ltb k (fm_small f)) lf).

Lemma abi_loop_complete lf :
  (forall f, In f lf -> ordered f) ->
  forall fuel k acc, (cntgt lf k < fuel)%nat ->
  exists k', ikey_le k k'
    /\ find_smallest_boundary_file lf k' = None
    /\ (k' = k \/ exists b, In b (abi_loop fuel lf k acc) /\ fm_large b = k')
    /\ (forall f, In f (abi_loop fuel lf k acc) -> In f acc \/ ikey_le (fm_large f) k').
Proof.
  intros Ord. induction fuel as [|fuel IH]; intros k acc L; [lia|]. cbn [abi_loop].
  pose proof (fsb_spec lf k) as S. destruct (find_smallest_boundary_file lf k) as [b|] eqn:E.
  - destruct S as (Hb & [C1 C2] & _). pose proof (Ord b Hb) as Ob. unfold ordered in Ob.
    destruct (IH (fm_large b) (acc ++ [b])) as (k' & K1 & K2 & K3 & K4).
    { assert ((cntgt lf (fm_large b) < cntgt lf k)%nat); [|lia]. unfold cntgt.
      apply filter_length_lt with (x := b); auto.
      - intros y _ Hy. breflect. korder.
      - breflect. exact C1.
      - breflect. exact Ob. }
    exists k'. split; [korder|]. split; [exact K2|]. split.
    + right. destruct K3 as [->|K3]; [|exact K3]. exists b. split; [|reflexivity].
      destruct (abi_loop_app fuel lf (fm_large b) (acc ++ [b])) as (extra & -> & _).
      apply in_or_app. left. apply in_or_app. right. left. reflexivity.
    + intros f Hf. destruct (K4 f Hf) as [Ha|Hl]; [|right; exact Hl].
      apply in_app_or in Ha. destruct Ha as [Ha|[<-|[]]]; [left; exact Ha|right; exact K1].
  - exists k. split; [korder|]. split; [exact E|]. split; [left; reflexivity|]. intros f Hf. left. exact Hf.
Qed.

Theorem add_boundary_inputs_complete lf M :
  (forall f, In f lf -> ordered f) -> M <> [] ->
  exists k, (forall f, In f (add_boundary_inputs lf M) -> ikey_le (fm_large f) k)
            /\ (exists m, In m (add_boundary_inputs lf M) /\ fm_large m = k)
            /\ forall b, In b lf -> ~ cand k b.
Proof.
  intros Ord N. unfold add_boundary_inputs.
  destruct (flk_spec M N) as (k0 & -> & K1 & (fk & K2 & K3)).
  assert (L : (cntgt lf k0 < S (length lf))%nat).
  { unfold cntgt. pose proof (filter_length_le (fun f => ikey_ltb k0 (fm_small f)) lf). lia. }
  destruct (abi_loop_complete lf Ord (S (length lf)) k0 M L) as (k & A1 & A2 & A3 & A4).
  exists k. split; [|split].
  - intros f Hf. destruct (A4 f Hf) as [Hm|Hl]; [|exact Hl]. specialize (K1 f Hm). korder.
  - destruct A3 as [->|A3]; [|exact A3]. exists fk. split; [|exact K3].
    destruct (abi_loop_app (S (length lf)) lf k0 M) as (extra & -> & _). apply in_or_app. left. exact K2.
  - pose proof (fsb_spec lf k) as S. rewrite A2 in S. exact S.
Qed.

(** no file of the level outside the selection continues (with older versions) the user key
    on which a selected file ends *)
Definition boundary_closed (lf sel : list fmeta) : Prop :=
  forall f b, In f sel -> In b lf -> ~ In b sel ->
              ~ (ikey_lt (fm_large f) (fm_small b) /\ usmall b = ularge f).

(** the parent inputs of the base selection are closed under boundary files *)
Theorem parent_inputs_boundary_closed v level (r0 : ikey * ikey) :
  version_wf v = true ->
  boundary_closed (level_files v (S level))
    (add_boundary_inputs (level_files v (S level))
       (overlapping_inputs v (S level) (Some (fst r0)) (Some (snd r0)))).
Proof.
  intros WF f b Hf Hb Nb [L U].
  set (lf1 := level_files v (S level)) in *.
  set (M := overlapping_inputs v (S level) (Some (fst r0)) (Some (snd r0))) in *.
  assert (SS : StronglySorted lt_files lf1) by (apply wf_level_sorted; auto).
  assert (Ord : forall g, In g lf1 -> ordered g) by (intros g; apply wf_ordered; exact WF).
  assert (MS : forall g, In g M -> In g lf1) by (intros g; apply overlapping_inputs_sub).
  assert (N : M <> []).
  { intros E. rewrite E in Hf. destruct Hf. }
  destruct (add_boundary_inputs_complete lf1 M Ord N) as (k & K1 & (m & K2 & K3) & K4).
  assert (Hm : In m lf1) by (revert K2; apply abi_sub; exact MS).
  assert (Hfl : In f lf1) by (revert Hf; apply abi_sub; exact MS).
  pose proof (K1 f Hf) as Lf. rewrite <- K3 in *.
  (* [b] is not selected, so by separation it lies above or below all selected files *)
  assert (Sep : (forall g, In g (add_boundary_inputs lf1 M) -> lt_files b g)
                \/ (forall g, In g (add_boundary_inputs lf1 M) -> lt_files g b)).
  { destruct (file_meets (ik_user (fst r0)) (ik_user (snd r0)) b) eqn:Mb.
    - exfalso. apply Nb. apply abi_incl. apply parent_selection_iff. auto.
    - unfold file_meets in Mb. apply andb_false_iff in Mb.
      pose proof (ordered_user _ (Ord b Hb)) as Ob.
      destruct Mb as [Mb|Mb]; breflect.
      + right. apply abi_above; auto.
        intros g Hg. pose proof (ordered_user _ (Ord g (MS g Hg))) as Og.
        apply parent_selection_iff in Hg. destruct Hg as [Hg Hmt].
        apply file_meets_iff in Hmt. destruct Hmt as [M1 M2].
        destruct (sorted_trich lf1 g b SS Hg Hb) as [E|[Lg|Lg]]; [subst; exfalso; uorder|exact Lg|].
        exfalso. pose proof (klt_ule _ _ Lg). uorder.
      + left. apply abi_below; auto.
        intros g Hg. pose proof (ordered_user _ (Ord g (MS g Hg))) as Og.
        apply parent_selection_iff in Hg. destruct Hg as [Hg Hmt].
        apply file_meets_iff in Hmt. destruct Hmt as [M1 M2].
        destruct (sorted_trich lf1 g b SS Hg Hb) as [E|[Lg|Lg]]; [subst; exfalso; uorder| |exact Lg].
        exfalso. pose proof (klt_ule _ _ Lg). uorder. }
  pose proof (Ord b Hb) as Ob. pose proof (Ord f Hfl) as Of. unfold ordered in *.
  destruct Sep as [Sep|Sep].
  - specialize (Sep f Hf). unfold lt_files in Sep. korder.
  - specialize (Sep m K2). unfold lt_files in Sep. apply (K4 b Hb). split; [exact Sep|].
    pose proof (kle_ule _ _ Lf). pose proof (klt_ule _ _ Sep). rewrite U in *. uorder.
Qed.

Lemma finalize_inputs_level d14 mfs v level seed c :
  finalize_inputs true d14 mfs v level seed = Some c -> ci_level c = level.
Proof.
  intros H. apply finalize_inputs_cases in H. cbv zeta in H.
  destruct H as (r0 & _ & L & _). exact L.
Qed.

(** sensitivity witness: the pinned comparison ([d1fix = false], minimum of the upper bounds)
    does not compute the hull *)
Lemma key_range_min_bug_refuted :
  exists fs, hull fs <> option_map (fun r => (ik_user (fst r), ik_user (snd r)))
                                   (key_range_for_files false fs).
Proof.
  exists [mkFM 1 100 (mkIKey [1] 9 OP_PUT) (mkIKey [9] 9 OP_PUT);
          mkFM 2 100 (mkIKey [2] 9 OP_PUT) (mkIKey [3] 9 OP_PUT)].
  vm_compute. discriminate.
Qed.

(** with the repair of the expansion path ([d14fix = true]) the parent inputs are closed under
    boundary files on both paths *)
Theorem finalize_inputs_parent_boundary_closed mfs v level seed c :
  version_wf v = true ->
  finalize_inputs true true mfs v level seed = Some c ->
  boundary_closed (level_files v (S (ci_level c))) (ci_in1 c).
Proof.
  intros WF H. apply finalize_inputs_cases in H. cbv zeta in H.
  destruct H as (r0 & _ & -> & [[_ ->]|(rall & rnew & _ & _ & _ & _ & ->)]);
    apply parent_inputs_boundary_closed; exact WF.
Qed.

Lemma boundary_closed_b v c :
  boundary_closed (level_files v (S (ci_level c))) (ci_in1 c) ->
  parent_boundary_closed_b v c = true.
Proof.
  intros B. unfold parent_boundary_closed_b. apply forallb_forall. intros f Hf.
  destruct (mem_file f (ci_in1 c)) eqn:M; [reflexivity|]. cbn [orb].
  apply negb_true_iff. apply not_true_iff_false. intros E. apply existsb_exists in E.
  destruct E as (g & Hg & E). apply andb_true_iff in E. destruct E as [E1 E2]. breflect.
  apply (B g f Hg Hf).
  - intros Hi. apply In_mem_file in Hi. congruence.
  - split; assumption.
Qed.

Lemma boundary_closed_b_inv v c :
  (forall f, In f (ci_in1 c) -> In f (level_files v (S (ci_level c)))) ->
  NoDup (map fm_num (level_files v (S (ci_level c)))) ->
  parent_boundary_closed_b v c = true ->
  boundary_closed (level_files v (S (ci_level c))) (ci_in1 c).
Proof.
  intros Sub ND H g f Hg Hf Nf [L U]. unfold parent_boundary_closed_b in H.
  rewrite forallb_forall in H. specialize (H f Hf). apply orb_true_iff in H. destruct H as [H|H].
  - apply Nf. unfold mem_file in H. apply existsb_exists in H. destruct H as (f' & Hf' & E).
    apply N.eqb_eq in E. assert (f' = f); [|subst; exact Hf'].
    pose proof (Sub _ Hf') as Hf'1. clear - ND Hf Hf'1 E.
    induction (level_files v (S (ci_level c))) as [|a l IH]; [destruct Hf|].
    cbn [map] in ND. apply NoDup_cons_iff in ND. destruct ND as [Na ND].
    destruct Hf as [->|Hf], Hf'1 as [->|Hf'1]; auto.
    + exfalso. apply Na. rewrite <- E. apply in_map. exact Hf'1.
    + exfalso. apply Na. rewrite E. apply in_map. exact Hf.
  - apply negb_true_iff in H. apply not_true_iff_false in H. apply H. apply existsb_exists.
    exists g. split; [exact Hg|]. apply andb_true_iff.
    split; [apply beqb_t; exact U|apply kltb_t; exact L].
Qed.

(** 4., full statement, for the current code ([d14fix = true]): the chosen inputs are closed,
    including the boundary closure of the parent inputs, on both paths *)
Theorem finalize_inputs_closed mfs v level seed c :
  version_wf v = true ->
  (S level < length v)%nat ->
  seed <> [] ->
  (forall f, In f seed -> In f (level_files v level)) ->
  (level = O -> hull_closed (level_files v O) seed) ->
  finalize_inputs true true mfs v level seed = Some c ->
  inputs_closed v seed c = true.
Proof.
  intros WF _ N Sub Cl H. rewrite inputs_closed_split. apply andb_true_iff. split.
  - eapply finalize_inputs_closed_nb; eauto.
  - apply boundary_closed_b. eapply finalize_inputs_parent_boundary_closed; eauto.
Qed.

Theorem finalize_inputs_total mfs v level seed :
  version_wf v = true ->
  seed <> [] ->
  (forall f, In f seed -> In f (level_files v level)) ->
  (level = O -> hull_closed (level_files v O) seed) ->
  exists c, finalize_inputs true true mfs v level seed = Some c /\ inputs_closed v seed c = true.
Proof.
  intros WF N Sub Cl. destruct (finalize_inputs true true mfs v level seed) as [c|] eqn:E.
  - exists c. split; [reflexivity|]. rewrite inputs_closed_split. apply andb_true_iff. split.
    + eapply finalize_inputs_closed_nb; eauto.
    + apply boundary_closed_b. eapply finalize_inputs_parent_boundary_closed; eauto.
  - exfalso. eapply finalize_inputs_no_panic; eauto.
Qed.

(** the pinned expansion path ([d14fix = false]) violates the boundary conjunct *)
Lemma expansion_boundary_refuted :
  exists v level seed c,
    version_wf v = true /\ seed <> [] /\ (forall f, In f seed -> In f (level_files v level))
    /\ level <> O
    /\ finalize_inputs true false 1000000 v level seed = Some c
    /\ inputs_closed_nb v seed c = true
    /\ inputs_closed v seed c = false.
Proof.
  set (k := fun u s => mkIKey [u] s OP_PUT).
  set (F0 := mkFM 1 100 (k 4 9) (k 6 9)). set (F1 := mkFM 2 100 (k 10 9) (k 12 9)).
  set (g := mkFM 3 100 (k 1 9) (k 4 8)). set (f1 := mkFM 4 100 (k 5 9) (k 20 5)).
  set (b1 := mkFM 5 100 (k 20 3) (k 25 1)).
  exists [[]; [F0; F1]; [g; f1; b1]; []; []; []; []], 1%nat, [F1].
  eexists. split; [vm_compute; reflexivity|]. split; [discriminate|].
  split; [intros f [<-|[]]; right; left; reflexivity|]. split; [discriminate|].
  split; [vm_compute; reflexivity|]. split; vm_compute; reflexivity.
Qed.
