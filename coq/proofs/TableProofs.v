(** C13 — proofs about the table layer: [Table::get] agrees with the sorted-list lookup
    specification and the two-level iterator is a sorted-list cursor. *)
From Coq Require Import Lia Arith ZArith ZifyN ZifyBool ZifyNat List Bool.
From RainVerif Require Import Params.
From RainVerif.model Require Import Bytes Key Block Table TableSpec.
Import ListNotations.
Open Scope nat_scope.

Arguments N.add : simpl never.
Arguments N.sub : simpl never.
Arguments N.mul : simpl never.
Arguments N.div : simpl never.
Arguments N.modulo : simpl never.
Arguments N.eqb : simpl never.
Arguments N.ltb : simpl never.
Arguments N.leb : simpl never.
Arguments N.of_nat : simpl never.
Arguments N.to_nat : simpl never.

(* ------------------------------------------------------------------------------------- *)
(** * OrderFacts: [bytes_cmp] / [ikey_cmp] are strict total preorders                      *)
(* ------------------------------------------------------------------------------------- *)
Section OrderFacts.

Lemma bytes_cmp_refl a : bytes_cmp a a = Eq.
Proof.
  induction a as [|x a IH]; cbn [bytes_cmp]; [reflexivity|].
  rewrite N.compare_refl. exact IH.
Qed.

Lemma bytes_cmp_eq a b : bytes_cmp a b = Eq -> a = b.
Proof.
  revert b. induction a as [|x a IH]; intros [|y b]; cbn [bytes_cmp]; try discriminate; auto.
  destruct (N.compare x y) eqn:E; try discriminate.
  apply N.compare_eq_iff in E. intros H. f_equal; auto.
Qed.

Lemma bytes_cmp_eq_iff a b : bytes_cmp a b = Eq <-> a = b.
Proof. split; [apply bytes_cmp_eq|intros ->; apply bytes_cmp_refl]. Qed.

Lemma bytes_cmp_opp a b : bytes_cmp a b = CompOpp (bytes_cmp b a).
Proof.
  revert b. induction a as [|x a IH]; intros [|y b]; cbn [bytes_cmp]; auto.
  rewrite (N.compare_antisym y x). destruct (N.compare y x); cbn [CompOpp]; auto.
Qed.

Lemma bytes_cmp_trans a b c :
  bytes_cmp a b = Lt -> bytes_cmp b c = Lt -> bytes_cmp a c = Lt.
Proof.
  revert b c. induction a as [|x a IH]; intros [|y b] [|z c]; cbn [bytes_cmp];
    try discriminate; auto.
  destruct (N.compare x y) eqn:E1; destruct (N.compare y z) eqn:E2; try discriminate; intros H1 H2.
  - apply N.compare_eq_iff in E1. apply N.compare_eq_iff in E2. subst.
    rewrite N.compare_refl. eauto.
  - apply N.compare_eq_iff in E1. subst. rewrite E2. reflexivity.
  - apply N.compare_eq_iff in E2. subst. rewrite E1. reflexivity.
  - apply N.compare_lt_iff in E1. apply N.compare_lt_iff in E2.
    assert (E3 : N.compare x z = Lt) by (apply N.compare_lt_iff; eapply N.lt_trans; eauto).
    rewrite E3. reflexivity.
Qed.

Lemma bytes_eqb_eq a b : bytes_eqb a b = true <-> a = b.
Proof.
  unfold bytes_eqb. split.
  - destruct (bytes_cmp a b) eqn:E; try discriminate. intros _. apply bytes_cmp_eq; exact E.
  - intros ->. rewrite bytes_cmp_refl. reflexivity.
Qed.

Lemma ikey_cmp_refl a : ikey_cmp a a = Eq.
Proof. unfold ikey_cmp. rewrite bytes_cmp_refl. apply N.compare_refl. Qed.

Lemma ikey_cmp_opp a b : ikey_cmp a b = CompOpp (ikey_cmp b a).
Proof.
  unfold ikey_cmp. rewrite (bytes_cmp_opp (ik_user a) (ik_user b)).
  destruct (bytes_cmp (ik_user b) (ik_user a)); cbn [CompOpp]; auto.
  apply N.compare_antisym.
Qed.

Lemma ikey_cmp_eq_iff a b :
  ikey_cmp a b = Eq <-> ik_user a = ik_user b /\ ik_seq a = ik_seq b.
Proof.
  unfold ikey_cmp. split.
  - destruct (bytes_cmp (ik_user a) (ik_user b)) eqn:E; try discriminate.
    intros H. apply N.compare_eq_iff in H. apply bytes_cmp_eq in E. auto.
  - intros [-> ->]. rewrite bytes_cmp_refl. apply N.compare_refl.
Qed.

Lemma ikey_cmp_eq_l a b c : ikey_cmp a b = Eq -> ikey_cmp a c = ikey_cmp b c.
Proof. intros H. apply ikey_cmp_eq_iff in H. destruct H as [Hu Hs]. unfold ikey_cmp. rewrite Hu, Hs. reflexivity. Qed.

Lemma ikey_cmp_eq_r a b c : ikey_cmp a b = Eq -> ikey_cmp c a = ikey_cmp c b.
Proof. intros H. apply ikey_cmp_eq_iff in H. destruct H as [Hu Hs]. unfold ikey_cmp. rewrite Hu, Hs. reflexivity. Qed.

Lemma ikey_cmp_trans_lt a b c :
  ikey_cmp a b = Lt -> ikey_cmp b c = Lt -> ikey_cmp a c = Lt.
Proof.
  unfold ikey_cmp.
  destruct (bytes_cmp (ik_user a) (ik_user b)) eqn:E1;
    destruct (bytes_cmp (ik_user b) (ik_user c)) eqn:E2; try discriminate; intros H1 H2.
  - apply bytes_cmp_eq in E1. apply bytes_cmp_eq in E2. rewrite E1, E2, bytes_cmp_refl.
    apply N.compare_lt_iff in H1. apply N.compare_lt_iff in H2. apply N.compare_lt_iff. eapply N.lt_trans; eauto.
  - apply bytes_cmp_eq in E1. rewrite E1, E2. reflexivity.
  - apply bytes_cmp_eq in E2. rewrite <- E2, E1. reflexivity.
  - rewrite (bytes_cmp_trans _ _ _ E1 E2). reflexivity.
Qed.

Lemma ikey_cmp_lt_gt a b : ikey_cmp a b = Lt <-> ikey_cmp b a = Gt.
Proof.
  rewrite (ikey_cmp_opp a b). destruct (ikey_cmp b a); cbn [CompOpp]; split; congruence.
Qed.

(** mixed transitivity, [ikey_le a b] is [ikey_cmp a b <> Gt] *)
Lemma ikey_cmp_trans_le_lt a b c :
  ikey_cmp a b <> Gt -> ikey_cmp b c = Lt -> ikey_cmp a c = Lt.
Proof.
  intros H1 H2. destruct (ikey_cmp a b) eqn:E.
  - rewrite (ikey_cmp_eq_l _ _ c E). exact H2.
  - eapply ikey_cmp_trans_lt; eauto.
  - congruence.
Qed.

Lemma ikey_cmp_trans_lt_le a b c :
  ikey_cmp a b = Lt -> ikey_cmp b c <> Gt -> ikey_cmp a c = Lt.
Proof.
  intros H1 H2. destruct (ikey_cmp b c) eqn:E.
  - rewrite <- (ikey_cmp_eq_r _ _ a E). exact H1.
  - eapply ikey_cmp_trans_lt; eauto.
  - congruence.
Qed.

Lemma ikey_lt_irrefl a : ikey_cmp a a <> Lt.
Proof. rewrite ikey_cmp_refl. discriminate. Qed.

Lemma ikey_ltb_lt a b : ikey_ltb a b = true <-> ikey_cmp a b = Lt.
Proof. unfold ikey_ltb. destruct (ikey_cmp a b); split; congruence. Qed.

Lemma ikey_ltb_false a b : ikey_ltb a b = false <-> ikey_cmp a b <> Lt.
Proof. unfold ikey_ltb. destruct (ikey_cmp a b); split; congruence. Qed.

Lemma ikey_eqb_cmp a b : ikey_eqb a b = true -> ikey_cmp a b = Eq.
Proof.
  unfold ikey_eqb. intros H.
  apply andb_prop in H. destruct H as [H _]. apply andb_prop in H. destruct H as [Hu Hs].
  apply bytes_eqb_eq in Hu. apply N.eqb_eq in Hs. apply ikey_cmp_eq_iff. auto.
Qed.

End OrderFacts.

(* ------------------------------------------------------------------------------------- *)
(** * Sorted entry lists and the lower bound                                               *)
(* ------------------------------------------------------------------------------------- *)
Section LowerBound.

(** number of leading entries strictly below [t]; on a sorted list: the lower bound of [t] *)
Fixpoint lbn (l : list entry) (t : ikey) : nat :=
  match l with
  | [] => 0
  | e :: r => if ikey_ltb (fst e) t then S (lbn r t) else 0
  end.

Lemma lbn_le l t : lbn l t <= length l.
Proof. induction l as [|e r IH]; cbn [lbn length]; [lia|]. destruct (ikey_ltb (fst e) t); lia. Qed.

Lemma lbn_before l t : forall i e, i < lbn l t -> nth_error l i = Some e -> ikey_ltb (fst e) t = true.
Proof.
  induction l as [|x r IH]; cbn [lbn]; intros i e Hi Hn; [lia|].
  destruct (ikey_ltb (fst x) t) eqn:E; [|lia].
  destruct i as [|i]; cbn [nth_error] in Hn.
  - inversion Hn; subst; exact E.
  - eapply IH; eauto. lia.
Qed.

Lemma lbn_at l t e : nth_error l (lbn l t) = Some e -> ikey_ltb (fst e) t = false.
Proof.
  induction l as [|x r IH]; cbn [lbn]; [discriminate|].
  destruct (ikey_ltb (fst x) t) eqn:E; cbn [nth_error]; intros H.
  - auto.
  - inversion H; subst; exact E.
Qed.

Lemma lbn_all l t : lbn l t = length l <-> (forall e, In e l -> ikey_ltb (fst e) t = true).
Proof.
  induction l as [|x r IH]; cbn [lbn length In].
  - split; [intros _ e []|reflexivity].
  - destruct (ikey_ltb (fst x) t) eqn:E; split.
    + intros H e [<-|Hin]; [exact E|]. apply IH; [lia|exact Hin].
    + intros H. f_equal. apply IH. intros e He. apply H. right; exact He.
    + intros H; lia.
    + intros H. rewrite (H x (or_introl eq_refl)) in E. discriminate.
Qed.

Lemma lbn_app_all a b t :
  (forall e, In e a -> ikey_ltb (fst e) t = true) -> lbn (a ++ b) t = length a + lbn b t.
Proof.
  induction a as [|x a IH]; intros H; cbn [app lbn length]; [reflexivity|].
  rewrite (H x (or_introl eq_refl)). rewrite IH; [lia|]. intros e He. apply H. right; exact He.
Qed.

Lemma lbn_app_found a b t : lbn a t < length a -> lbn (a ++ b) t = lbn a t.
Proof.
  induction a as [|x a IH]; cbn [app lbn length]; [lia|].
  destruct (ikey_ltb (fst x) t); [|reflexivity]. intros H. f_equal. apply IH. lia.
Qed.

Lemma lbn_head e r t : ikey_ltb (fst e) t = false -> lbn (e :: r) t = 0.
Proof. intros H. cbn [lbn]. rewrite H. reflexivity. Qed.

Lemma find_lbn l t :
  find (fun e => negb (ikey_ltb (fst e) t)) l = nth_error l (lbn l t).
Proof.
  induction l as [|x r IH]; cbn [find lbn]; [reflexivity|].
  destruct (ikey_ltb (fst x) t); cbn [negb nth_error]; auto.
Qed.

Lemma lower_bound_from_lbn l i t :
  lower_bound_from l i t = if Nat.ltb (lbn l t) (length l) then Some (i + lbn l t) else None.
Proof.
  revert i. induction l as [|x r IH]; intros i; cbn [lower_bound_from lbn length]; [reflexivity|].
  destruct (ikey_ltb (fst x) t).
  - rewrite IH. change (Nat.ltb (S (lbn r t)) (S (length r))) with (Nat.ltb (lbn r t) (length r)).
    destruct (Nat.ltb (lbn r t) (length r)); [f_equal; lia|reflexivity].
  - cbn. f_equal. lia.
Qed.

(** ** sortedness *)

Lemma sorted_tail e r : sorted_entries (e :: r) = true -> sorted_entries r = true.
Proof.
  cbn [sorted_entries]. destruct r as [|e' r']; [reflexivity|].
  intros H. apply andb_prop in H. tauto.
Qed.

Lemma sorted_cons_all e r :
  sorted_entries (e :: r) = true -> forall y, In y r -> ikey_cmp (fst e) (fst y) = Lt.
Proof.
  revert e. induction r as [|e' r IH]; intros e H y Hy; [destruct Hy|].
  cbn [sorted_entries] in H. apply andb_prop in H. destruct H as [H1 H2].
  apply ikey_ltb_lt in H1.
  destruct Hy as [<-|Hy]; [exact H1|].
  eapply ikey_cmp_trans_lt; [exact H1|]. apply IH; assumption.
Qed.

Lemma sorted_app a b :
  sorted_entries (a ++ b) = true ->
  sorted_entries a = true /\ sorted_entries b = true /\
  (forall x y, In x a -> In y b -> ikey_cmp (fst x) (fst y) = Lt).
Proof.
  induction a as [|e a IH]; intros H.
  - cbn [app] in H. repeat split; auto. intros x y [].
  - cbn [app] in H. pose proof (sorted_tail _ _ H) as Ht. destruct (IH Ht) as (Ha & Hb & Hab).
    repeat split; auto.
    + destruct a as [|e' a']; [reflexivity|].
      cbn [sorted_entries]. cbn [app sorted_entries] in H. apply andb_prop in H. destruct H as [H1 _].
      rewrite H1. exact Ha.
    + intros x y [<-|Hx] Hy.
      * apply (sorted_cons_all _ _ H). apply in_or_app. right; exact Hy.
      * apply Hab; assumption.
Qed.

Lemma sorted_nth l : sorted_entries l = true ->
  forall i j a b, i < j -> nth_error l i = Some a -> nth_error l j = Some b ->
  ikey_cmp (fst a) (fst b) = Lt.
Proof.
  induction l as [|e r IH]; intros H i j a b Hij Ha Hb.
  - destruct i; discriminate.
  - destruct j as [|j]; [lia|]. cbn [nth_error] in Hb.
    destruct i as [|i]; cbn [nth_error] in Ha.
    + inversion Ha; subst. apply (sorted_cons_all _ _ H). eapply nth_error_In; eauto.
    + eapply (IH (sorted_tail _ _ H) i j); eauto. lia.
Qed.

Lemma sorted_of_adjacent (d : entry) l :
  (forall h, S h < length l -> ikey_cmp (fst (nth h l d)) (fst (nth (S h) l d)) = Lt) ->
  sorted_entries l = true.
Proof.
  induction l as [|e r IH]; intros H; [reflexivity|].
  cbn [sorted_entries]. destruct r as [|e' r']; [reflexivity|].
  apply andb_true_intro. split.
  - apply ikey_ltb_lt. apply (H 0). cbn [length]. lia.
  - apply IH. intros h Hh. apply (H (S h)). cbn [length] in *. lia.
Qed.

Lemma lbn_after l t : sorted_entries l = true ->
  forall i e, lbn l t <= i -> nth_error l i = Some e -> ikey_ltb (fst e) t = false.
Proof.
  intros Hs i e Hi Hn.
  destruct (Nat.eq_dec i (lbn l t)) as [->|Hne]; [eapply lbn_at; eauto|].
  assert (Hlt : lbn l t < length l).
  { assert (i < length l) by (apply nth_error_Some; congruence). lia. }
  destruct (nth_error l (lbn l t)) as [x|] eqn:Ex; [|apply nth_error_None in Ex; lia].
  pose proof (lbn_at _ _ _ Ex) as Hx.
  assert (Hxe : ikey_cmp (fst x) (fst e) = Lt) by (eapply (sorted_nth l Hs (lbn l t) i); eauto; lia).
  apply ikey_ltb_false. intros Hc. apply ikey_ltb_false in Hx. apply Hx.
  eapply ikey_cmp_trans_lt; eauto.
Qed.

(** ** [BlockIter::seek] computes the lower bound on a sorted block *)

Lemma div2_mid a b : a < b -> a <= Nat.div2 (a + b) < b.
Proof.
  intros H. pose proof (Nat.div2_odd (a + b)) as E. destruct (Nat.odd (a + b)); cbn [Nat.b2n] in E; lia.
Qed.

Lemma bi_search_lbn l t : sorted_entries l = true ->
  forall fuel left right,
    left <= lbn l t <= right -> right <= length l -> right - left < fuel ->
    bi_search l fuel left right t = lbn l t.
Proof.
  intros Hs. induction fuel as [|f IH]; intros left right Hb Hr Hf; [lia|].
  cbn [bi_search]. destruct (Nat.ltb left right) eqn:E.
  - apply Nat.ltb_lt in E. pose proof (div2_mid _ _ E) as Hm.
    set (mid := Nat.div2 (left + right)) in *.
    destruct (nth_error l mid) as [[k v]|] eqn:En; [|apply nth_error_None in En; lia].
    destruct (ikey_cmp k t) eqn:Ec.
    + apply IH; try lia.
      assert (lbn l t <= mid); [|lia].
      destruct (le_lt_dec (lbn l t) mid) as [|Hlt]; [assumption|].
      pose proof (lbn_before _ _ _ _ Hlt En) as Hx. apply ikey_ltb_lt in Hx. cbn [fst] in Hx. congruence.
    + apply IH; try lia.
      assert (mid < lbn l t); [|lia].
      destruct (le_lt_dec (lbn l t) mid) as [Hle|]; [|assumption].
      pose proof (lbn_after _ _ Hs _ _ Hle En) as Hx. apply ikey_ltb_false in Hx. cbn [fst] in Hx. congruence.
    + apply IH; try lia.
      assert (lbn l t <= mid); [|lia].
      destruct (le_lt_dec (lbn l t) mid) as [|Hlt]; [assumption|].
      pose proof (lbn_before _ _ _ _ Hlt En) as Hx. apply ikey_ltb_lt in Hx. cbn [fst] in Hx. congruence.
  - apply Nat.ltb_ge in E. lia.
Qed.

Lemma bi_seek_lbn l i t : sorted_entries l = true -> bi_seek l i t = lbn l t.
Proof.
  intros Hs. pose proof (lbn_le l t) as Hle.
  assert (Hsearch : bi_search l (S (length l)) 0 (length l) t = lbn l t)
    by (apply bi_search_lbn; auto; lia).
  unfold bi_seek. destruct (nth_error l i) as [[k v]|] eqn:En; [|exact Hsearch].
  destruct (ikey_eqb k t) eqn:Ee; [|exact Hsearch].
  apply ikey_eqb_cmp in Ee.
  destruct (lt_eq_lt_dec i (lbn l t)) as [[Hlt|Heq]|Hgt]; [|exact Heq|].
  - pose proof (lbn_before _ _ _ _ Hlt En) as Hx. apply ikey_ltb_lt in Hx. cbn [fst] in Hx. congruence.
  - exfalso.
    destruct (nth_error l (lbn l t)) as [x|] eqn:Ex.
    2:{ apply nth_error_None in Ex. assert (i < length l) by (apply nth_error_Some; congruence). lia. }
    pose proof (lbn_at _ _ _ Ex) as Hx. apply ikey_ltb_false in Hx. apply Hx.
    pose proof (sorted_nth l Hs _ _ _ _ Hgt Ex En) as Hxk. cbn [fst] in Hxk.
    rewrite <- (ikey_cmp_eq_r _ _ (fst x) Ee). exact Hxk.
Qed.

End LowerBound.

(* ------------------------------------------------------------------------------------- *)
(** * Blocks inside the concatenated entry list                                            *)
(* ------------------------------------------------------------------------------------- *)
Section Concat.
Context {A : Type}.
Implicit Types bs : list (list A).

(** position of the first entry of block [h] inside [concat bs] *)
Definition off bs (h : nat) : nat := length (concat (firstn h bs)).

Lemma off_0 bs : off bs 0 = 0.
Proof. reflexivity. Qed.

Lemma concat_split3 bs : forall h, h < length bs ->
  concat bs = concat (firstn h bs) ++ nth h bs [] ++ concat (skipn (S h) bs).
Proof.
  induction bs as [|b r IH]; intros h Hh; cbn [length] in Hh; [lia|].
  destruct h as [|h].
  - reflexivity.
  - cbn [firstn nth skipn concat]. rewrite <- app_assoc. f_equal.
    change (skipn (S h) r) with (skipn (S h) r). apply IH. lia.
Qed.

Lemma concat_skipn bs : forall h, h < length bs ->
  concat (skipn h bs) = nth h bs [] ++ concat (skipn (S h) bs).
Proof.
  induction bs as [|b r IH]; intros h Hh; cbn [length] in Hh; [lia|].
  destruct h as [|h]; [reflexivity|].
  cbn [skipn nth]. apply IH. lia.
Qed.

Lemma off_S bs : forall h, h < length bs -> off bs (S h) = off bs h + length (nth h bs []).
Proof.
  unfold off. induction bs as [|b r IH]; intros h Hh; cbn [length] in Hh; [lia|].
  destruct h as [|h].
  - cbn [firstn concat nth]. rewrite app_nil_r. reflexivity.
  - cbn [firstn concat nth]. rewrite !app_length. rewrite <- Nat.add_assoc. f_equal.
    apply (IH h). lia.
Qed.

Lemma off_all bs h : length bs <= h -> off bs h = length (concat bs).
Proof. intros H. unfold off. rewrite firstn_all2; auto. Qed.

Lemma off_le bs h : off bs h <= length (concat bs).
Proof.
  unfold off. rewrite <- (firstn_skipn h bs) at 2. rewrite concat_app, app_length. lia.
Qed.

Lemma off_block_le bs h : h < length bs -> off bs h + length (nth h bs []) <= length (concat bs).
Proof. intros H. rewrite <- off_S by exact H. apply off_le. Qed.

Lemma nth_error_concat bs h p : h < length bs -> p < length (nth h bs []) ->
  nth_error (concat bs) (off bs h + p) = nth_error (nth h bs []) p.
Proof.
  intros Hh Hp. rewrite (concat_split3 bs h Hh) at 1. unfold off.
  rewrite nth_error_app2 by lia.
  replace (length (concat (firstn h bs)) + p - length (concat (firstn h bs))) with p by lia.
  apply nth_error_app1. exact Hp.
Qed.

Lemma in_concat_firstn bs x : forall h, In x (concat (firstn h bs)) ->
  exists g, g < h /\ g < length bs /\ In x (nth g bs []).
Proof.
  induction bs as [|b r IH]; intros h Hx.
  - rewrite firstn_nil in Hx. destruct Hx.
  - destruct h as [|h]; [destruct Hx|].
    cbn [firstn concat] in Hx. apply in_app_or in Hx. destruct Hx as [Hx|Hx].
    + exists 0. cbn [nth length]. repeat split; try lia. exact Hx.
    + destruct (IH h Hx) as (g & Hg1 & Hg2 & Hg3). exists (S g). cbn [nth length].
      repeat split; try lia. exact Hg3.
Qed.

Lemma in_concat_nth bs x : In x (concat bs) -> exists g, g < length bs /\ In x (nth g bs []).
Proof.
  intros Hx. rewrite <- (firstn_all bs) in Hx. apply in_concat_firstn in Hx.
  destruct Hx as (g & _ & H2 & H3). eauto.
Qed.

End Concat.

(* ------------------------------------------------------------------------------------- *)
(** * Pointwise consequences of [index_ok]                                                *)
(* ------------------------------------------------------------------------------------- *)
Section IndexOk.

Definition dk : ikey := mkIKey [] 0%N 0%N.
Definition de : entry := (dk, []).

Lemma index_ok_length bs ks : index_ok bs ks -> length ks = length bs.
Proof. induction 1; cbn [length] in *; auto. Qed.

Lemma index_ok_ne bs ks : index_ok bs ks -> forall h, h < length bs -> nth h bs [] <> [].
Proof.
  induction 1 as [|b k Hb Hk|b b' r k ks Hb Hk Hr IH]; intros h Hh; cbn [length] in Hh.
  - lia.
  - destruct h as [|h]; [exact Hb|lia].
  - destruct h as [|h]; [exact Hb|]. cbn [nth]. apply IH. cbn [length]. lia.
Qed.

Lemma index_ok_le bs ks : index_ok bs ks -> forall h lk, h < length bs ->
  last_key (nth h bs []) = Some lk -> ikey_cmp lk (nth h ks dk) <> Gt.
Proof.
  induction 1 as [|b k Hb Hk|b b' r k ks Hb Hk Hr IH]; intros h lk Hh Hl; cbn [length] in Hh.
  - lia.
  - destruct h as [|h]; [|lia]. cbn [nth] in *. apply Hk. exact Hl.
  - destruct h as [|h].
    + cbn [nth] in *. pose proof (index_ok_ne _ _ Hr 0) as Hne. cbn [nth length] in Hne.
      destruct b' as [|e' b'']; [exfalso; apply Hne; [lia|reflexivity]|].
      destruct (Hk lk (fst e') Hl eq_refl) as [H1 _]. exact H1.
    + cbn [nth] in *. apply IH; [cbn [length]; lia|exact Hl].
Qed.

Lemma index_ok_sep bs ks : index_ok bs ks -> forall h lk fk, S h < length bs ->
  last_key (nth h bs []) = Some lk -> first_key (nth (S h) bs []) = Some fk ->
  ikey_cmp lk (nth h ks dk) = Eq \/ bytes_ltb (ik_user (nth h ks dk)) (ik_user fk) = true.
Proof.
  induction 1 as [|b k Hb Hk|b b' r k ks Hb Hk Hr IH]; intros h lk fk Hh Hl Hf; cbn [length] in Hh.
  - lia.
  - lia.
  - destruct h as [|h].
    + cbn [nth] in *. destruct (Hk lk fk Hl Hf) as [_ H2]. exact H2.
    + cbn [nth] in Hl, Hf |- *. apply (IH h lk fk); [cbn [length]; lia|exact Hl|exact Hf].
Qed.

Lemma last_key_snoc (b : list entry) e : last_key (b ++ [e]) = Some (fst e).
Proof. unfold last_key. rewrite rev_app_distr. reflexivity. Qed.

Lemma last_key_some (b : list entry) : b <> [] ->
  exists b' e, b = b' ++ [e] /\ last_key b = Some (fst e).
Proof.
  intros Hb. destruct (exists_last Hb) as (b' & e & ->). exists b', e. split; auto.
  apply last_key_snoc.
Qed.

Lemma sorted_le_last (b : list entry) lk : sorted_entries b = true -> last_key b = Some lk ->
  forall e, In e b -> ikey_cmp (fst e) lk <> Gt.
Proof.
  intros Hs Hl e He.
  destruct b as [|x b0]; [destruct He|].
  destruct (last_key_some (x :: b0)) as (b' & z & Hb & Hz); [discriminate|].
  rewrite Hl in Hz. inversion Hz; subst lk. rewrite Hb in He, Hs.
  apply in_app_or in He. destruct He as [He|[<-|[]]].
  - destruct (sorted_app _ _ Hs) as (_ & _ & H3). rewrite (H3 e z He (or_introl eq_refl)). discriminate.
  - rewrite ikey_cmp_refl. discriminate.
Qed.

End IndexOk.

(* ------------------------------------------------------------------------------------- *)
(** * Well-formed tables: order facts and the position of the global lower bound           *)
(* ------------------------------------------------------------------------------------- *)
Section TableFacts.
Variable t : table.
Variable es : list entry.
Hypothesis Hwf : table_wf t es.

Local Notation bs := (t_blocks t).
Local Notation ix := (t_index t).
Local Notation nb := (length (t_blocks t)).

(** the i-th index key *)
Definition ixk (h : nat) : ikey := fst (nth h ix de).

Lemma ixk_map h : nth h (map fst ix) dk = ixk h.
Proof. unfold ixk. change dk with (fst de). apply map_nth. Qed.

Lemma wf_concat : concat bs = es.
Proof. destruct Hwf as (H & _ & _). exact H. Qed.

Lemma wf_sorted : sorted_entries (concat bs) = true.
Proof. destruct Hwf as (H1 & H2 & _). rewrite H1. exact H2. Qed.

Lemma wf_iok : index_ok bs (map fst ix).
Proof. destruct Hwf as (_ & _ & H). exact H. Qed.

Lemma wf_len : length ix = nb.
Proof. rewrite <- (index_ok_length _ _ wf_iok). symmetry. apply map_length. Qed.

Lemma wf_ne h : h < nb -> blk t h <> [].
Proof. apply (index_ok_ne _ _ wf_iok). Qed.

Lemma wf_ne_len h : h < nb -> 0 < length (blk t h).
Proof. intros H. pose proof (wf_ne h H). destruct (blk t h); [congruence|cbn [length]; lia]. Qed.

Lemma blk_overflow h : nb <= h -> blk t h = [].
Proof. intros H. unfold blk. apply nth_overflow. exact H. Qed.

Lemma blk_sorted h : h < nb -> sorted_entries (blk t h) = true.
Proof.
  intros Hh. pose proof wf_sorted as Hs. rewrite (concat_split3 bs h Hh) in Hs.
  destruct (sorted_app _ _ Hs) as (_ & Hs2 & _).
  destruct (sorted_app _ _ Hs2) as (Hs3 & _ & _). exact Hs3.
Qed.

Lemma blk_adjacent h x y : S h < nb -> In x (blk t h) -> In y (blk t (S h)) ->
  ikey_cmp (fst x) (fst y) = Lt.
Proof.
  intros Hh Hx Hy. pose proof wf_sorted as Hs.
  rewrite (concat_split3 bs h) in Hs by lia.
  destruct (sorted_app _ _ Hs) as (_ & Hs2 & _).
  destruct (sorted_app _ _ Hs2) as (_ & _ & H3). apply H3; [exact Hx|].
  rewrite (concat_skipn bs (S h) Hh). apply in_or_app. left. exact Hy.
Qed.

Lemma blk_le_ix h e : h < nb -> In e (blk t h) -> ikey_cmp (fst e) (ixk h) <> Gt.
Proof.
  intros Hh He.
  destruct (last_key_some (blk t h) (wf_ne h Hh)) as (b' & z & Hb & Hz).
  pose proof (index_ok_le _ _ wf_iok h (fst z) Hh Hz) as Hle. rewrite ixk_map in Hle.
  pose proof (sorted_le_last _ _ (blk_sorted h Hh) Hz e He) as Hez.
  destruct (ikey_cmp (fst e) (fst z)) eqn:E.
  - rewrite (ikey_cmp_eq_l _ _ _ E). exact Hle.
  - rewrite (ikey_cmp_trans_lt_le _ _ _ E Hle). discriminate.
  - congruence.
Qed.

Lemma first_le_all (b : list entry) fk : sorted_entries b = true -> first_key b = Some fk ->
  forall e, In e b -> ikey_cmp fk (fst e) <> Gt.
Proof.
  intros Hs Hf e He. destruct b as [|x r]; [destruct He|]. cbn [first_key] in Hf.
  inversion Hf; subst fk. destruct He as [<-|He].
  - rewrite ikey_cmp_refl. discriminate.
  - rewrite (sorted_cons_all _ _ Hs e He). discriminate.
Qed.

(** the separator of block [h] is strictly below every entry of block [h+1] *)
Lemma ix_lt_next h e : S h < nb -> In e (blk t (S h)) -> ikey_cmp (ixk h) (fst e) = Lt.
Proof.
  intros Hh He.
  assert (Hh0 : h < nb) by lia.
  destruct (last_key_some (blk t h) (wf_ne h Hh0)) as (b' & z & Hb & Hz).
  destruct (blk t (S h)) as [|f r] eqn:Eb; [destruct He|].
  assert (Hf : first_key (blk t (S h)) = Some (fst f)) by (rewrite Eb; reflexivity).
  assert (Hzf : ikey_cmp (fst z) (fst f) = Lt).
  { apply (blk_adjacent h z f Hh).
    - rewrite Hb. apply in_or_app. right. left. reflexivity.
    - rewrite Eb. left. reflexivity. }
  assert (Hkf : ikey_cmp (ixk h) (fst f) = Lt).
  { destruct (index_ok_sep _ _ wf_iok h (fst z) (fst f) Hh Hz Hf) as [H|H]; rewrite ixk_map in H.
    - rewrite <- (ikey_cmp_eq_l _ _ _ H). exact Hzf.
    - unfold bytes_ltb in H. unfold ikey_cmp.
      destruct (bytes_cmp (ik_user (ixk h)) (ik_user (fst f))); try discriminate. reflexivity. }
  pose proof (blk_sorted (S h) Hh) as Hs. rewrite Eb in Hs.
  eapply ikey_cmp_trans_lt_le; [exact Hkf|].
  apply (first_le_all (f :: r) (fst f) Hs eq_refl). rewrite <- Eb in *. exact He.
Qed.

Lemma ix_sorted : sorted_entries ix = true.
Proof.
  apply (sorted_of_adjacent de). intros h Hh. rewrite wf_len in Hh.
  fold (ixk h). fold (ixk (S h)).
  destruct (blk t (S h)) as [|f r] eqn:Eb; [exfalso; apply (wf_ne (S h) Hh); exact Eb|].
  assert (Hin : In f (blk t (S h))) by (rewrite Eb; left; reflexivity).
  eapply ikey_cmp_trans_lt_le; [apply (ix_lt_next h f Hh Hin)|].
  apply blk_le_ix; assumption.
Qed.

Lemma ix_nth_error h : h < nb -> nth_error ix h = Some (nth h ix de).
Proof. intros H. apply nth_error_nth'. rewrite wf_len. exact H. Qed.

(** every entry of a block before the index lower bound is below the target *)
Lemma before_lb_lt target h e :
  h < lbn ix target -> h < nb -> In e (blk t h) -> ikey_ltb (fst e) target = true.
Proof.
  intros Hh Hn He. apply ikey_ltb_lt.
  eapply ikey_cmp_trans_le_lt; [apply (blk_le_ix h e Hn He)|].
  apply ikey_ltb_lt. apply (lbn_before ix target h (nth h ix de) Hh). apply ix_nth_error. exact Hn.
Qed.

Lemma lbn_ix_le target : lbn ix target <= nb.
Proof. rewrite <- wf_len. apply lbn_le. Qed.

(** the index key at the index lower bound is not below the target *)
Lemma at_lb_ge target : lbn ix target < nb -> ikey_cmp (ixk (lbn ix target)) target <> Lt.
Proof.
  intros H. apply ikey_ltb_false. apply (lbn_at ix target (nth (lbn ix target) ix de)).
  apply ix_nth_error. exact H.
Qed.

(** ** the global lower bound lies in (or right after) the block selected by the index *)
Lemma lbn_es target :
  lbn es target = off bs (lbn ix target) + lbn (blk t (lbn ix target)) target.
Proof.
  set (i := lbn ix target). pose proof (lbn_ix_le target) as Hi. fold i in Hi.
  rewrite <- wf_concat.
  assert (Hpre : forall e, In e (concat (firstn i bs)) -> ikey_ltb (fst e) target = true).
  { intros e He. apply in_concat_firstn in He. destruct He as (g & Hg1 & Hg2 & Hg3).
    apply (before_lb_lt target g e); auto. }
  destruct (Nat.eq_dec i nb) as [Heq|Hneq].
  - rewrite (blk_overflow i) by lia. cbn [lbn]. rewrite Nat.add_0_r.
    rewrite off_all by lia. apply lbn_all. intros e He.
    apply Hpre. rewrite Heq, firstn_all. exact He.
  - assert (Hlt : i < nb) by lia.
    rewrite (concat_split3 bs i Hlt) at 1. rewrite (lbn_app_all _ _ _ Hpre). unfold off. f_equal.
    fold (blk t i). pose proof (lbn_le (blk t i) target) as Hle.
    destruct (Nat.eq_dec (lbn (blk t i) target) (length (blk t i))) as [Hall|Hfound].
    + rewrite lbn_app_all by (apply lbn_all; exact Hall). rewrite Hall.
      destruct (le_lt_dec nb (S i)) as [Hlast|Hmore].
      * rewrite skipn_all2 by lia. cbn [concat lbn]. apply Nat.add_0_r.
      * rewrite (concat_skipn bs (S i) Hmore). fold (blk t (S i)).
        destruct (blk t (S i)) as [|f r] eqn:Eb; [exfalso; apply (wf_ne (S i) Hmore); exact Eb|].
        cbn [app]. rewrite lbn_head; [apply Nat.add_0_r|].
        apply ikey_ltb_false. intros Hc. apply (at_lb_ge target Hlt). fold i.
        eapply ikey_cmp_trans_lt; [|exact Hc].
        apply (ix_lt_next i f Hmore). rewrite Eb. left. reflexivity.
    + apply lbn_app_found. lia.
Qed.

End TableFacts.

(* ------------------------------------------------------------------------------------- *)
(** * [Table::get] (with the D3 repair) meets the lookup specification                     *)
(* ------------------------------------------------------------------------------------- *)
Section TableGet.
Variable t : table.
Variable es : list entry.
Hypothesis Hwf : table_wf t es.

Local Notation bs := (t_blocks t).
Local Notation ix := (t_index t).
Local Notation nb := (length (t_blocks t)).

(** if block [i] (selected by the index) has no entry at or above the target, the first entry of
    block [i+1] belongs to another user key *)
Lemma next_block_other_user target f r :
  let i := lbn ix target in
  S i < nb ->
  lbn (blk t i) target = length (blk t i) ->
  blk t (S i) = f :: r ->
  ik_user (fst f) <> ik_user target.
Proof.
  intros i Hi Hall Eb Heq.
  assert (Hi0 : i < nb) by lia.
  destruct (last_key_some (blk t i) (wf_ne t es Hwf i Hi0)) as (b' & z & Hb & Hz).
  assert (Hzt : ikey_cmp (fst z) target = Lt).
  { apply ikey_ltb_lt. apply (proj1 (lbn_all (blk t i) target) Hall).
    rewrite Hb. apply in_or_app. right. left. reflexivity. }
  pose proof (at_lb_ge t es Hwf target Hi0) as Hge. fold i in Hge.
  assert (Hf : first_key (blk t (S i)) = Some (fst f)) by (rewrite Eb; reflexivity).
  destruct (index_ok_sep _ _ (wf_iok t es Hwf) i (fst z) (fst f) Hi Hz Hf) as [H|H];
    rewrite (ixk_map t) in H.
  - apply Hge. rewrite <- (ikey_cmp_eq_l _ _ target H). exact Hzt.
  - apply Hge. unfold bytes_ltb in H. rewrite Heq in H. unfold ikey_cmp.
    destruct (bytes_cmp (ik_user (ixk t i)) (ik_user target)); try discriminate. reflexivity.
Qed.

Theorem table_get_spec (filt : nat -> bytes -> bool) (target : ikey) :
  (forall i u, (exists e, In e (nth i (t_blocks t) []) /\ ik_user (fst e) = u) -> filt i u = true) ->
  table_get true filt t target = get_spec es target.
Proof.
  intros Hfilt. unfold table_get, get_spec.
  rewrite find_lbn, (lbn_es t es Hwf target).
  change (ikey * bytes)%type with entry.
  rewrite (bi_seek_lbn ix 0 target (ix_sorted t es Hwf)).
  pose proof (lbn_ix_le t es Hwf target) as Hi.
  remember (lbn ix target) as i eqn:Ei.
  unfold bi_valid. rewrite (wf_len t es Hwf).
  destruct (Nat.ltb i nb) eqn:Ev; cbn [negb].
  2:{ apply Nat.ltb_ge in Ev. rewrite (blk_overflow t i Ev). cbn [lbn].
      rewrite off_all by exact Ev. rewrite (wf_concat t es Hwf), Nat.add_0_r.
      rewrite (proj2 (nth_error_None es (length es))) by lia. reflexivity. }
  apply Nat.ltb_lt in Ev.
  change (nth i bs []) with (blk t i).
  rewrite (bi_seek_lbn (blk t i) 0 target (blk_sorted t es Hwf i Ev)).
  unfold bi_current.
  pose proof (lbn_le (blk t i) target) as Hj.
  remember (lbn (blk t i) target) as j eqn:Ej.
  destruct (Nat.eq_dec j (length (blk t i))) as [Hall|Hfound].
  - (* block i exhausted: both sides say "not found" *)
    assert (Hl : (if negb (filt i (ik_user target)) then GNotFound
                  else match nth_error (blk t i) j with
                       | Some (k, v) =>
                           if negb (bytes_eqb (ik_user k) (ik_user target)) then GNotFound
                           else if (ik_op k =? OP_DELETE)%N then GDeleted else GFound v
                       | None => GNotFound
                       end) = GNotFound).
    { rewrite (proj2 (nth_error_None (blk t i) j)) by lia. destruct (negb _); reflexivity. }
    rewrite Hl. clear Hl. rewrite Hall. unfold blk at 1. rewrite <- off_S by exact Ev.
    destruct (le_lt_dec nb (S i)) as [Hlast|Hmore].
    + rewrite off_all by exact Hlast. rewrite (wf_concat t es Hwf).
      rewrite (proj2 (nth_error_None es (length es))) by lia. reflexivity.
    + destruct (blk t (S i)) as [|f r] eqn:Eb; [exfalso; apply (wf_ne t es Hwf (S i) Hmore); exact Eb|].
      rewrite <- (wf_concat t es Hwf). rewrite <- (Nat.add_0_r (off bs (S i))).
      rewrite nth_error_concat; [|exact Hmore|fold (blk t (S i)); rewrite Eb; cbn [length]; lia].
      fold (blk t (S i)). rewrite Eb. cbn [nth_error]. destruct f as [k v].
      assert (Hne : ik_user k <> ik_user target).
      { subst i. apply (next_block_other_user target (k, v) r); auto. rewrite <- Ej. exact Hall. }
      destruct (bytes_eqb (ik_user k) (ik_user target)) eqn:Eu; [|reflexivity].
      apply bytes_eqb_eq in Eu. contradiction.
  - (* the lower bound is inside block i *)
    assert (Hjl : j < length (blk t i)) by lia.
    rewrite <- (wf_concat t es Hwf). rewrite nth_error_concat by assumption. fold (blk t i).
    destruct (nth_error (blk t i) j) as [[k v]|] eqn:En; [|apply nth_error_None in En; lia].
    destruct (filt i (ik_user target)) eqn:Ef; cbn [negb]; [reflexivity|].
    destruct (bytes_eqb (ik_user k) (ik_user target)) eqn:Eu; [|reflexivity].
    apply bytes_eqb_eq in Eu. exfalso.
    rewrite (Hfilt i (ik_user target)) in Ef; [discriminate|].
    exists (k, v). split; [|exact Eu]. apply (nth_error_In _ _ En).
Qed.

End TableGet.

(* ------------------------------------------------------------------------------------- *)
(** * The two-level iterator is a sorted-list cursor                                       *)
(* ------------------------------------------------------------------------------------- *)
Section TwoLevel.
Variable t : table.
Variable es : list entry.
Hypothesis Hwf : table_wf t es.

Local Notation bs := (t_blocks t).
Local Notation ix := (t_index t).
Local Notation nb := (length (t_blocks t)).

(** ** evaluation lemmas for the iterator primitives *)

Lemma tl_valid_some a h p : tl_valid t (mkTL a (Some (h, p))) = Nat.ltb p (length (blk t h)).
Proof. reflexivity. Qed.

Lemma ix_valid i : bi_valid ix i = Nat.ltb i nb.
Proof. unfold bi_valid. rewrite (wf_len t es Hwf). reflexivity. Qed.

Lemma init_data_invalid i d : nb <= i -> tl_init_data t (mkTL i d) = mkTL i None.
Proof.
  intros H. unfold tl_init_data. cbn [tl_idx tl_data]. rewrite ix_valid.
  rewrite (proj2 (Nat.ltb_ge i nb) H). reflexivity.
Qed.

Lemma init_data_valid i d : i < nb -> exists p0, tl_init_data t (mkTL i d) = mkTL i (Some (i, p0)).
Proof.
  intros H. unfold tl_init_data. cbn [tl_idx tl_data]. rewrite ix_valid.
  rewrite (proj2 (Nat.ltb_lt i nb) H). cbn [negb].
  destruct d as [[h p]|]; [|eexists; reflexivity].
  destruct (Nat.eqb h i) eqn:E; [|eexists; reflexivity].
  apply Nat.eqb_eq in E. subst h. eexists; reflexivity.
Qed.

Lemma init_data_other i h p : i < nb -> h <> i ->
  tl_init_data t (mkTL i (Some (h, p))) = mkTL i (Some (i, 0)).
Proof.
  intros H Hne. unfold tl_init_data. cbn [tl_idx tl_data]. rewrite ix_valid.
  rewrite (proj2 (Nat.ltb_lt i nb) H). cbn [negb].
  rewrite (proj2 (Nat.eqb_neq h i) Hne). reflexivity.
Qed.

Lemma skip_fwd_valid fuel s : tl_valid t s = true -> tl_skip_fwd t fuel s = Some s.
Proof. intros H. destruct fuel; cbn [tl_skip_fwd]; unfold data_invalid; rewrite H; reflexivity. Qed.

Lemma skip_bwd_valid fuel s : tl_valid t s = true -> tl_skip_bwd t fuel s = Some s.
Proof. intros H. destruct fuel; cbn [tl_skip_bwd]; unfold data_invalid; rewrite H; reflexivity. Qed.

Lemma skip_fwd_none fuel i : nb <= i -> tl_skip_fwd t (S fuel) (mkTL i None) = Some (mkTL i None).
Proof.
  intros H. cbn [tl_skip_fwd]. unfold data_invalid. cbn [tl_valid tl_data tl_idx negb].
  rewrite ix_valid, (proj2 (Nat.ltb_ge i nb) H). reflexivity.
Qed.

Lemma skip_bwd_none fuel i : nb <= i -> tl_skip_bwd t (S fuel) (mkTL i None) = Some (mkTL i None).
Proof.
  intros H. cbn [tl_skip_bwd]. unfold data_invalid. cbn [tl_valid tl_data tl_idx negb].
  rewrite ix_valid, (proj2 (Nat.ltb_ge i nb) H). reflexivity.
Qed.

Lemma bi_next_ix h : h < nb -> bi_next ix h = S h.
Proof.
  intros H. unfold bi_next. rewrite (wf_len t es Hwf).
  rewrite (proj2 (Nat.leb_gt nb h) H). reflexivity.
Qed.

Lemma skip_fwd_exhausted_more f h p : S h < nb -> length (blk t h) <= p ->
  tl_skip_fwd t (S f) (mkTL h (Some (h, p))) = Some (mkTL (S h) (Some (S h, 0))).
Proof.
  intros Hh Hp. cbn [tl_skip_fwd]. unfold data_invalid. rewrite tl_valid_some.
  rewrite (proj2 (Nat.ltb_ge p (length (blk t h))) Hp). cbn [negb tl_idx tl_data].
  rewrite ix_valid, (proj2 (Nat.ltb_lt h nb)) by lia. cbn [negb].
  rewrite bi_next_ix by lia. rewrite init_data_other by lia. cbn [tl_data tl_idx].
  apply skip_fwd_valid. rewrite tl_valid_some. apply Nat.ltb_lt. apply (wf_ne_len t es Hwf). exact Hh.
Qed.

Lemma skip_fwd_exhausted_last f h p : S h = nb -> length (blk t h) <= p ->
  tl_skip_fwd t (S (S f)) (mkTL h (Some (h, p))) = Some (mkTL (S h) None).
Proof.
  intros Hh Hp. cbn [tl_skip_fwd]. unfold data_invalid. rewrite tl_valid_some.
  rewrite (proj2 (Nat.ltb_ge p (length (blk t h))) Hp). cbn [negb tl_idx tl_data].
  rewrite ix_valid, (proj2 (Nat.ltb_lt h nb)) by lia. cbn [negb].
  rewrite bi_next_ix by lia. rewrite init_data_invalid by lia. cbn [tl_data tl_idx tl_valid negb].
  rewrite ix_valid, (proj2 (Nat.ltb_ge (S h) nb)) by lia. reflexivity.
Qed.

(** ** the simulation relation *)

Definition pos_of (n : nat) : option nat := if Nat.ltb n (length es) then Some n else None.

Definition R (s : tl_state) (pos : option nat) : Prop :=
  match pos with
  | None => tl_data s = None
  | Some n => exists h p, s = mkTL h (Some (h, p)) /\ h < nb /\ p < length (blk t h) /\ n = off bs h + p
  end.

Lemma len_es : length es = off bs nb.
Proof. rewrite off_all by lia. rewrite (wf_concat t es Hwf). reflexivity. Qed.

Lemma off_blk_le h : h < nb -> off bs h + length (blk t h) <= length es.
Proof. intros H. rewrite <- (wf_concat t es Hwf). apply off_block_le. exact H. Qed.

Lemma R_current s pos : R s pos -> tl_current t s = lc_current es pos.
Proof.
  destruct pos as [n|]; cbn [R lc_current].
  - intros (h & p & -> & Hh & Hp & ->). cbn [tl_current tl_data]. unfold bi_current.
    rewrite <- (wf_concat t es Hwf). symmetry. apply nth_error_concat; assumption.
  - intros H. unfold tl_current. rewrite H. reflexivity.
Qed.

Lemma R_at h p : h < nb -> p < length (blk t h) ->
  R (mkTL h (Some (h, p))) (pos_of (off bs h + p)).
Proof.
  intros Hh Hp. unfold pos_of. pose proof (off_blk_le h Hh) as Hle.
  rewrite (proj2 (Nat.ltb_lt (off bs h + p) (length es))) by lia.
  cbn [R]. exists h, p. auto.
Qed.

Lemma skip_fwd_norm h p : h < nb -> p <= length (blk t h) ->
  exists s', tl_skip_fwd t (tl_fuel t) (mkTL h (Some (h, p))) = Some s' /\ R s' (pos_of (off bs h + p)).
Proof.
  intros Hh Hp. unfold tl_fuel.
  destruct (Nat.eq_dec p (length (blk t h))) as [Heq|Hne].
  - subst p.
    replace (off bs h + length (blk t h)) with (off bs (S h)) by (rewrite off_S by exact Hh; reflexivity).
    destruct (Nat.eq_dec (S h) nb) as [Hlast|Hmore].
    + rewrite skip_fwd_exhausted_last by auto. eexists; split; [reflexivity|].
      unfold pos_of. rewrite Hlast, <- len_es, Nat.ltb_irrefl. reflexivity.
    + rewrite skip_fwd_exhausted_more by (auto; lia). eexists; split; [reflexivity|].
      rewrite <- (Nat.add_0_r (off bs (S h))). apply R_at; [lia|].
      apply (wf_ne_len t es Hwf). lia.
  - rewrite skip_fwd_valid by (rewrite tl_valid_some; apply Nat.ltb_lt; lia).
    eexists; split; [reflexivity|]. apply R_at; [exact Hh|lia].
Qed.

Lemma bi_prev_ix h : h < nb -> bi_prev ix h = match h with 0 => nb | S g => g end.
Proof.
  intros H. unfold bi_prev. rewrite (wf_len t es Hwf).
  rewrite (proj2 (Nat.leb_gt nb h) H). destruct h as [|g]; cbn [Nat.eqb orb]; [reflexivity|].
  f_equal. lia.
Qed.

Lemma bi_seek_last_ne (l : list entry) i : l <> [] -> bi_seek_last l i = Some (length l - 1).
Proof. destruct l; [congruence|reflexivity]. Qed.

Lemma skip_bwd_step f s : tl_valid t s = false ->
  tl_skip_bwd t (S f) s =
  if negb (bi_valid ix (tl_idx s)) then Some (mkTL (tl_idx s) None)
  else
    let s1 := tl_init_data t (mkTL (bi_prev ix (tl_idx s)) (tl_data s)) in
    match tl_data s1 with
    | Some (h, _) =>
        match bi_seek_last (blk t h) 0 with
        | None => None
        | Some p => tl_skip_bwd t f (mkTL (tl_idx s1) (Some (h, p)))
        end
    | None => tl_skip_bwd t f s1
    end.
Proof. intros H. cbn [tl_skip_bwd]. unfold data_invalid. rewrite H. reflexivity. Qed.

Lemma skip_bwd_norm f h : h < nb ->
  exists s', tl_skip_bwd t (S (S f)) (mkTL h (Some (h, length (blk t h)))) = Some s' /\
             R s' (lc_prev (Some (off bs h))).
Proof.
  intros Hh. rewrite skip_bwd_step by (rewrite tl_valid_some; apply Nat.ltb_irrefl).
  cbv zeta. cbn [tl_idx tl_data]. rewrite ix_valid, (proj2 (Nat.ltb_lt h nb)) by lia. cbn [negb].
  rewrite bi_prev_ix by exact Hh. destruct h as [|g].
  - rewrite init_data_invalid by lia. cbn [tl_data].
    rewrite skip_bwd_none by lia.
    eexists; split; [reflexivity|]. rewrite off_0. reflexivity.
  - rewrite init_data_other by lia. cbn [tl_data tl_idx].
    rewrite bi_seek_last_ne by (apply (wf_ne t es Hwf); lia).
    pose proof (wf_ne_len t es Hwf g) as Hlen.
    rewrite skip_bwd_valid by (rewrite tl_valid_some; apply Nat.ltb_lt; lia).
    eexists; split; [reflexivity|].
    rewrite off_S by lia. fold (blk t g).
    replace (off bs g + length (blk t g)) with (S (off bs g + (length (blk t g) - 1))) by lia.
    cbn [lc_prev R]. exists g, (length (blk t g) - 1). repeat split; lia.
Qed.


(** ** every cursor operation preserves the simulation *)

Lemma nb_pos : bs <> [] -> 0 < nb.
Proof. destruct bs; [congruence|cbn [length]; lia]. Qed.

Lemma lc_first_pos : lc_first es = pos_of 0.
Proof. unfold lc_first, pos_of. destruct es; reflexivity. Qed.

Lemma lc_last_ne (l : list entry) : 0 < length l -> lc_last l = Some (length l - 1).
Proof. destruct l; cbn [length]; [lia|reflexivity]. Qed.

Lemma lc_seek_pos target : lc_seek es target = pos_of (lbn es target).
Proof. unfold lc_seek, pos_of. rewrite lower_bound_from_lbn. reflexivity. Qed.

Lemma step_first s : exists s', tl_seek_first t s = Some s' /\ R s' (lc_first es).
Proof.
  unfold tl_seek_first. rewrite lc_first_pos.
  destruct (Nat.eq_dec nb 0) as [Hz|Hnz].
  - (* a table without blocks *)
    rewrite init_data_invalid by lia. cbn [tl_data]. unfold tl_fuel.
    rewrite skip_fwd_none by lia. eexists; split; [reflexivity|].
    unfold pos_of. rewrite len_es, Hz, off_0. reflexivity.
  - assert (Hpos : 0 < nb) by lia.
    destruct (init_data_valid 0 (tl_data s) Hpos) as [p0 Hp0]. rewrite Hp0. cbn [tl_data tl_idx].
    destruct (skip_fwd_norm 0 0 Hpos (Nat.le_0_l _)) as (s' & Hs & HR).
    exists s'. split; [exact Hs|]. exact HR.
Qed.

Lemma step_last s : bs <> [] -> exists s', tl_seek_last t s = Some s' /\ R s' (lc_last es).
Proof.
  intros Hnonempty. pose proof (nb_pos Hnonempty) as Hnb. unfold tl_seek_last.
  assert (Hix : ix <> []).
  { intros E. pose proof (wf_len t es Hwf) as Hl. rewrite E in Hl. cbn [length] in Hl. lia. }
  rewrite (bi_seek_last_ne ix _ Hix). rewrite (wf_len t es Hwf).
  assert (Hh : nb - 1 < nb) by lia.
  destruct (init_data_valid (nb - 1) (tl_data s) Hh) as [p0 Hp0]. rewrite Hp0. cbn [tl_data tl_idx].
  rewrite bi_seek_last_ne by (apply (wf_ne t es Hwf); exact Hh).
  pose proof (wf_ne_len t es Hwf (nb - 1) Hh) as Hlen.
  rewrite skip_bwd_valid by (rewrite tl_valid_some; apply Nat.ltb_lt; lia).
  eexists; split; [reflexivity|].
  assert (Hes : length es = off bs (nb - 1) + length (blk t (nb - 1))).
  { rewrite len_es. replace nb with (S (nb - 1)) at 1 by lia. apply off_S. exact Hh. }
  rewrite lc_last_ne by lia. cbn [R].
  exists (nb - 1), (length (blk t (nb - 1)) - 1). repeat split; lia.
Qed.

Lemma step_next s pos : R s pos -> exists s', tl_next t s = Some s' /\ R s' (lc_next es pos).
Proof.
  destruct pos as [n|]; cbn [R].
  - intros (h & p & -> & Hh & Hp & ->). unfold tl_next.
    rewrite tl_valid_some, (proj2 (Nat.ltb_lt p (length (blk t h))) Hp). cbn [negb tl_data tl_idx].
    assert (Hn : bi_next (blk t h) p = S p).
    { unfold bi_next. rewrite (proj2 (Nat.leb_gt (length (blk t h)) p) Hp). reflexivity. }
    rewrite Hn.
    assert (Hs : (if bi_valid (blk t h) (S p) then Some (mkTL h (Some (h, S p)))
                  else tl_skip_fwd t (tl_fuel t) (mkTL h (Some (h, S p))))
                 = tl_skip_fwd t (tl_fuel t) (mkTL h (Some (h, S p)))).
    { destruct (bi_valid (blk t h) (S p)) eqn:Ev; [|reflexivity].
      symmetry. apply skip_fwd_valid. exact Ev. }
    rewrite Hs. clear Hs.
    destruct (skip_fwd_norm h (S p) Hh) as (s' & Hs' & HR); [lia|].
    exists s'. split; [exact Hs'|].
    replace (off bs h + S p) with (S (off bs h + p)) in HR by lia. exact HR.
  - intros Hd. unfold tl_next, tl_valid. rewrite Hd. cbn [negb]. exists s. split; [reflexivity|exact Hd].
Qed.

Lemma step_prev s pos : R s pos -> exists s', tl_prev t s = Some s' /\ R s' (lc_prev pos).
Proof.
  destruct pos as [n|]; cbn [R].
  - intros (h & p & -> & Hh & Hp & ->). unfold tl_prev.
    rewrite tl_valid_some, (proj2 (Nat.ltb_lt p (length (blk t h))) Hp). cbn [negb tl_data tl_idx].
    destruct p as [|q].
    + assert (Hn : bi_prev (blk t h) 0 = length (blk t h)) by reflexivity.
      rewrite Hn. unfold bi_valid. rewrite Nat.ltb_irrefl. unfold tl_fuel.
      destruct (skip_bwd_norm (length ix) h Hh) as (s' & Hs' & HR).
      exists s'. split; [exact Hs'|]. rewrite Nat.add_0_r. exact HR.
    + assert (Hn : bi_prev (blk t h) (S q) = q).
      { unfold bi_prev. rewrite (proj2 (Nat.leb_gt (length (blk t h)) (S q)) Hp).
        cbn [Nat.eqb orb]. lia. }
      rewrite Hn. unfold bi_valid. rewrite (proj2 (Nat.ltb_lt q (length (blk t h)))) by lia.
      eexists; split; [reflexivity|].
      replace (off bs h + S q) with (S (off bs h + q)) by lia. cbn [lc_prev R].
      exists h, q. repeat split; try lia.
  - intros Hd. unfold tl_prev, tl_valid. rewrite Hd. cbn [negb]. exists s. split; [reflexivity|exact Hd].
Qed.

Lemma step_seek s target : exists s', tl_seek t s target = Some s' /\ R s' (lc_seek es target).
Proof.
  unfold tl_seek. rewrite (bi_seek_lbn ix (tl_idx s) target (ix_sorted t es Hwf)).
  rewrite lc_seek_pos, (lbn_es t es Hwf target).
  pose proof (lbn_ix_le t es Hwf target) as Hi.
  remember (lbn ix target) as i eqn:Ei.
  destruct (Nat.eq_dec i nb) as [Heq|Hneq].
  - rewrite init_data_invalid by lia. cbn [tl_data]. unfold tl_fuel.
    rewrite skip_fwd_none by lia. eexists; split; [reflexivity|].
    rewrite (blk_overflow t i) by lia. cbn [lbn]. rewrite Nat.add_0_r, Heq, <- len_es.
    unfold pos_of. rewrite Nat.ltb_irrefl. reflexivity.
  - assert (Hlt : i < nb) by lia.
    destruct (init_data_valid i (tl_data s) Hlt) as [p0 Hp0]. rewrite Hp0. cbn [tl_data tl_idx].
    rewrite (bi_seek_lbn (blk t i) p0 target (blk_sorted t es Hwf i Hlt)).
    apply skip_fwd_norm; [exact Hlt|apply lbn_le].
Qed.

Lemma step_sim s pos o : R s pos -> (o = CLast -> bs <> []) ->
  exists s', tl_step t s o = Some s' /\ R s' (lc_step es pos o).
Proof.
  intros HR Hne. destruct o as [k| | | |]; cbn [tl_step lc_step].
  - apply step_seek.
  - apply step_first.
  - apply step_last. apply Hne. reflexivity.
  - apply step_next; exact HR.
  - apply step_prev; exact HR.
Qed.

Lemma run_sim ops : (In CLast ops -> bs <> []) ->
  forall s pos, R s pos -> tl_run t s ops = (lc_run es pos ops, true).
Proof.
  induction ops as [|o r IH]; intros Hne s pos HR; cbn [tl_run lc_run]; [reflexivity|].
  destruct (step_sim s pos o HR) as (s' & Hs & HR').
  { intros ->. apply Hne. left. reflexivity. }
  rewrite Hs. rewrite (IH (fun H => Hne (or_intror H)) s' _ HR'). cbn [fst snd].
  rewrite (R_current s' _ HR'). reflexivity.
Qed.

(** [seek_to_last] on a table without any block underflows in [BlockIter::seek_to_last] of the
    (empty) index block; every other script, and every script on a table with at least one
    block, is refined. *)
Theorem two_level_refines_gen ops : (In CLast ops -> bs <> []) ->
  tl_run t tl_new ops = (lc_run es None ops, true).
Proof. intros Hne. apply run_sim; [exact Hne|reflexivity]. Qed.

End TwoLevel.

(* ------------------------------------------------------------------------------------- *)
(** * Final statements                                                                     *)
(* ------------------------------------------------------------------------------------- *)

(** FINDING: as literally stated (no non-emptiness hypothesis) the refinement theorem is false:
    the table without blocks satisfies every hypothesis, and [CLast] panics on it
    ([self.block_entries.len() - 1] on the empty index block) whereas the list cursor simply
    stays invalid. *)
Lemma two_level_empty_table_counterexample :
  let t := mkTable [] [] in
  table_wf t [] /\ length (t_index t) = length (t_blocks t) /\
  Forall (fun b => b <> []) (t_blocks t) /\
  tl_run t tl_new [CLast] = ([], false) /\
  lc_run [] None [CLast] = [None].
Proof.
  cbv zeta. repeat split; try reflexivity.
  - constructor.
  - constructor.
Qed.

Theorem two_level_refines (t : table) (es : list entry) :
  table_wf t es ->
  length (t_index t) = length (t_blocks t) ->
  Forall (fun b => b <> []) (t_blocks t) ->
  forall ops, (In CLast ops -> t_blocks t <> []) ->
  tl_run t tl_new ops = (lc_run es None ops, true).
Proof. intros Hwf _ _ ops Hne. apply two_level_refines_gen; assumption. Qed.

Corollary two_level_refines_nonempty (t : table) (es : list entry) :
  table_wf t es ->
  length (t_index t) = length (t_blocks t) ->
  Forall (fun b => b <> []) (t_blocks t) ->
  es <> [] ->
  forall ops, tl_run t tl_new ops = (lc_run es None ops, true).
Proof.
  intros Hwf Hl Hf Hes ops. apply two_level_refines; auto.
  intros _ E. apply Hes. rewrite <- (wf_concat t es Hwf), E. reflexivity.
Qed.

Theorem table_get_meets_spec (t : table) (es : list entry) (filt : nat -> bytes -> bool) (target : ikey) :
  table_wf t es ->
  length (t_index t) = length (t_blocks t) ->
  Forall (fun b => b <> []) (t_blocks t) ->
  (forall i u, (exists e, In e (nth i (t_blocks t) []) /\ ik_user (fst e) = u) -> filt i u = true) ->
  table_get true filt t target = get_spec es target.
Proof. intros Hwf _ _ Hf. apply table_get_spec; assumption. Qed.

(* ------------------------------------------------------------------------------------- *)
(** * Sensitivity witness and non-vacuity examples                                         *)
(* ------------------------------------------------------------------------------------- *)
Section Examples.
Open Scope N_scope.

Ltac index_ok_by_computation :=
  repeat first
    [ apply iok_nil
    | apply iok_last;
      [ discriminate
      | let lk := fresh "lk" in let Hl := fresh "Hl" in
        intros lk Hl; vm_compute in Hl; inversion Hl; subst; vm_compute; discriminate ]
    | apply iok_cons;
      [ discriminate
      | let lk := fresh "lk" in let fk := fresh "fk" in
        let Hl := fresh "Hl" in let Hf := fresh "Hf" in
        intros lk fk Hl Hf; vm_compute in Hl, Hf; inversion Hl; inversion Hf; subst;
        split; [ vm_compute; discriminate
               | first [ left; vm_compute; reflexivity | right; vm_compute; reflexivity ] ]
      | ] ].

(** the exact filter: answers [true] precisely for the user keys present in the block *)
Definition exact_filt (t : table) (i : nat) (u : bytes) : bool :=
  existsb (fun e : entry => bytes_eqb (ik_user (fst e)) u) (nth i (t_blocks t) []).

Lemma exact_filt_no_false_negative t :
  forall i u, (exists e, In e (nth i (t_blocks t) []) /\ ik_user (fst e) = u) -> exact_filt t i u = true.
Proof.
  intros i u (e & Hin & Hu). unfold exact_filt. apply existsb_exists.
  exists e. split; [exact Hin|]. apply bytes_eqb_eq. exact Hu.
Qed.

(** ** D3 witness: one block, the queried user key is the largest of the file and the sequence
    bound lies below all its versions, so the index seek runs off the end *)
Definition w13_e1 : entry := (mkIKey [97] 5 OP_PUT, [1]).
Definition w13_e2 : entry := (mkIKey [98] 3 OP_PUT, [2]).
Definition w13_es : list entry := [w13_e1; w13_e2].
Definition w13_t : table := mkTable [[w13_e1; w13_e2]] [(mkIKey [98] 3 OP_PUT, [])].
Definition w13_target : ikey := mkIKey [98] 1 OP_PUT.

Lemma w13_wf : table_wf w13_t w13_es.
Proof.
  split; [reflexivity|]. split; [reflexivity|].
  cbn [w13_t t_blocks t_index map fst]. index_ok_by_computation.
Qed.

Lemma table_get_unfixed_refuted :
  exists t es filt target,
    table_wf t es /\
    length (t_index t) = length (t_blocks t) /\
    Forall (fun b => b <> []) (t_blocks t) /\
    (forall i u, (exists e, In e (nth i (t_blocks t) []) /\ ik_user (fst e) = u) -> filt i u = true) /\
    table_get false filt t target <> get_spec es target.
Proof.
  exists w13_t, w13_es, (exact_filt w13_t), w13_target.
  split; [exact w13_wf|]. split; [reflexivity|]. split.
  { repeat constructor. discriminate. }
  split; [apply exact_filt_no_false_negative|].
  vm_compute. discriminate.
Qed.

(** the same table and target with the repair *)
Lemma w13_fixed : table_get true (exact_filt w13_t) w13_t w13_target = get_spec w13_es w13_target.
Proof. vm_compute. reflexivity. Qed.

(** ** a three-block table built by [table_build]: five versions of one user key cross the first
    block cut, with a tombstone as the first entry of the second block *)
Definition ex13_es : list entry :=
  [ (mkIKey [97] 9 OP_PUT, [1]);
    (mkIKey [107; 107] 8 OP_PUT, [2]);
    (mkIKey [107; 107] 7 OP_DELETE, []);
    (mkIKey [107; 107] 5 OP_PUT, [3]);
    (mkIKey [107; 107] 2 OP_PUT, [4]);
    (mkIKey [109] 4 OP_PUT, [5]);
    (mkIKey [122; 122] 1 OP_DELETE, []) ].

Definition ex13_t : table :=
  mkTable
    [ [ (mkIKey [97] 9 OP_PUT, [1]); (mkIKey [107; 107] 8 OP_PUT, [2]) ];
      [ (mkIKey [107; 107] 7 OP_DELETE, []); (mkIKey [107; 107] 5 OP_PUT, [3]);
        (mkIKey [107; 107] 2 OP_PUT, [4]) ];
      [ (mkIKey [109] 4 OP_PUT, [5]); (mkIKey [122; 122] 1 OP_DELETE, []) ] ]
    [ (mkIKey [107; 107] 8 OP_PUT, []);          (* no shorter separator: same user key *)
      (mkIKey [108] MAX_SEQ OP_PUT, []);         (* shortened separator "l" *)
      (mkIKey [123] MAX_SEQ OP_PUT, []) ].       (* shortened successor "{" *)

Lemma ex13_built : table_build ex13_es [1%nat; 2%nat] = Some ex13_t.
Proof. vm_compute. reflexivity. Qed.

Lemma ex13_wf : table_wf ex13_t ex13_es.
Proof.
  split; [reflexivity|]. split; [reflexivity|].
  cbn [ex13_t t_blocks t_index map fst]. index_ok_by_computation.
Qed.

Lemma ex13_hyps :
  table_wf ex13_t ex13_es /\
  length (t_index ex13_t) = length (t_blocks ex13_t) /\
  Forall (fun b => b <> []) (t_blocks ex13_t) /\
  (forall i u, (exists e, In e (nth i (t_blocks ex13_t) []) /\ ik_user (fst e) = u) ->
               exact_filt ex13_t i u = true).
Proof.
  split; [exact ex13_wf|]. split; [reflexivity|]. split.
  { repeat constructor; discriminate. }
  apply exact_filt_no_false_negative.
Qed.

Definition ex13_get := table_get true (exact_filt ex13_t) ex13_t.

Lemma ex13_gets :
  ex13_get (mkIKey [107; 107] 100 OP_PUT) = GFound [2] /\      (* newest version, block 0 *)
  ex13_get (mkIKey [107; 107] 6 OP_PUT) = GFound [3] /\        (* older version, block 1 *)
  ex13_get (mkIKey [107; 107] 7 OP_PUT) = GDeleted /\          (* the tombstone, first of block 1 *)
  ex13_get (mkIKey [107; 107] 1 OP_PUT) = GNotFound /\         (* below all versions: block 1 exhausted *)
  ex13_get (mkIKey [98] 5 OP_PUT) = GNotFound /\               (* absent user key, filter says no *)
  ex13_get (mkIKey [122; 122] 0 OP_PUT) = GNotFound /\         (* last block exhausted *)
  ex13_get (mkIKey [126] 5 OP_PUT) = GNotFound /\              (* index seek runs off the end *)
  table_get false (exact_filt ex13_t) ex13_t (mkIKey [126] 5 OP_PUT) = GDeleted /\
  (forall k, In k [mkIKey [107; 107] 100 OP_PUT; mkIKey [107; 107] 6 OP_PUT; mkIKey [107; 107] 7 OP_PUT;
                   mkIKey [107; 107] 1 OP_PUT; mkIKey [98] 5 OP_PUT; mkIKey [122; 122] 0 OP_PUT;
                   mkIKey [126] 5 OP_PUT] ->
             ex13_get k = get_spec ex13_es k).
Proof.
  repeat match goal with |- _ /\ _ => split; [vm_compute; reflexivity|] end.
  intros k Hk. cbn [In] in Hk.
  repeat (destruct Hk as [<-|Hk]; [vm_compute; reflexivity|]). destruct Hk.
Qed.

Definition ex13_script : list cop :=
  [ CNext; CPrev;                                   (* on a fresh (invalid) iterator *)
    CFirst; CNext; CNext; CPrev; CNext; CNext; CNext; CPrev; CPrev; CPrev; CPrev; CPrev; CPrev;
    CLast; CNext; CPrev; CNext;                     (* off the end, stays invalid *)
    CLast; CPrev; CPrev; CNext; CPrev; CPrev; CPrev; CNext; CNext;
    CSeek (mkIKey [107; 107] 6 OP_PUT); CPrev; CPrev; CNext;
    CSeek (mkIKey [107; 107] 5 OP_PUT);             (* the "already there" shortcut after a move *)
    CNext; CPrev; CSeek (mkIKey [107; 107] 5 OP_PUT);
    CSeek (mkIKey [107; 107] 1 OP_PUT); CPrev; CNext; CNext;
    CSeek (mkIKey [126] 5 OP_PUT); CPrev; CNext;
    CSeek (mkIKey [0] 5 OP_PUT); CPrev;
    CFirst; CPrev; CNext; CLast; CFirst; CLast; CPrev ].

Lemma ex13_script_refines :
  tl_run ex13_t tl_new ex13_script = (lc_run ex13_es None ex13_script, true) /\
  length (filter (fun x => match x with Some _ => true | None => false end)
                 (lc_run ex13_es None ex13_script)) = 39%nat.
Proof. split; vm_compute; reflexivity. Qed.

End Examples.
