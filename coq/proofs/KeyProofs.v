(** Proofs for C13, parts A (orderings), B (separators / successors / key codec) and
    C (every cut of a sorted entry list builds a well-formed table). No axioms. *)
From Coq Require Import Lia ZArith ZifyN ZifyBool ZifyNat Arith.
From RainVerif.model Require Import Bytes Key Block Table TableSpec.
Open Scope N_scope.
Ltac Zify.zify_post_hook ::= Z.div_mod_to_equations.
Arguments N.add : simpl never.
Arguments N.sub : simpl never.
Arguments N.mul : simpl never.
Arguments N.div : simpl never.
Arguments N.modulo : simpl never.
Arguments N.eqb : simpl never.
Arguments N.ltb : simpl never.
Arguments N.leb : simpl never.
Arguments N.pow : simpl never.
Arguments N.of_nat : simpl never.
Arguments N.to_nat : simpl never.
Arguments N.compare : simpl never.

(** * Generic list facts *)

Lemma firstn_app_len {A} (a b : list A) n : length a = n -> firstn n (a ++ b) = a.
Proof.
  intros <-. rewrite firstn_app, Nat.sub_diag, firstn_all. cbn [firstn]. apply app_nil_r.
Qed.

Lemma skipn_app_len {A} (a b : list A) n : length a = n -> skipn n (a ++ b) = b.
Proof.
  intros <-. rewrite skipn_app, Nat.sub_diag, skipn_all. reflexivity.
Qed.

(** * A. [bytes_cmp] is a strict total order *)

Lemma bytes_cmp_refl a : bytes_cmp a a = Eq.
Proof.
  induction a as [|x a IH]; cbn [bytes_cmp]; [reflexivity|].
  rewrite N.compare_refl. exact IH.
Qed.

Lemma bytes_cmp_eq a b : bytes_cmp a b = Eq -> a = b.
Proof.
  revert b; induction a as [|x a IH]; intros [|y b]; cbn [bytes_cmp]; try congruence.
  destruct (N.compare_spec x y) as [E|E|E]; try congruence.
  intros H. subst y. f_equal. auto.
Qed.

Lemma bytes_cmp_eq_iff a b : bytes_cmp a b = Eq <-> a = b.
Proof. split; [apply bytes_cmp_eq | intros ->; apply bytes_cmp_refl]. Qed.

Lemma bytes_cmp_opp a b : bytes_cmp a b = CompOpp (bytes_cmp b a).
Proof.
  revert b; induction a as [|x a IH]; intros [|y b]; cbn [bytes_cmp CompOpp]; try reflexivity.
  rewrite (N.compare_antisym y x). destruct (y ?= x); cbn [CompOpp]; auto.
Qed.

Lemma bytes_cmp_gt_lt a b : bytes_cmp a b = Gt <-> bytes_cmp b a = Lt.
Proof.
  rewrite (bytes_cmp_opp a b). destruct (bytes_cmp b a); cbn [CompOpp]; split; congruence.
Qed.

Lemma bytes_cmp_lt_trans a b c :
  bytes_cmp a b = Lt -> bytes_cmp b c = Lt -> bytes_cmp a c = Lt.
Proof.
  revert b c; induction a as [|x a IH]; intros [|y b] [|z c]; cbn [bytes_cmp]; try congruence.
  destruct (N.compare_spec x y) as [E1|E1|E1], (N.compare_spec y z) as [E2|E2|E2];
    try congruence; intros H1 H2.
  - subst. rewrite N.compare_refl. eauto.
  - subst. rewrite (proj2 (N.compare_lt_iff _ _) E2). reflexivity.
  - subst. rewrite (proj2 (N.compare_lt_iff _ _) E1). reflexivity.
  - rewrite (proj2 (N.compare_lt_iff x z)) by lia. reflexivity.
Qed.

Lemma bytes_cmp_total a b : bytes_cmp a b = Lt \/ a = b \/ bytes_cmp b a = Lt.
Proof.
  destruct (bytes_cmp a b) eqn:E; auto.
  - right; left. apply bytes_cmp_eq; assumption.
  - right; right. apply bytes_cmp_gt_lt; assumption.
Qed.

Lemma bytes_cmp_lt_irrefl a : bytes_cmp a a <> Lt.
Proof. rewrite bytes_cmp_refl. discriminate. Qed.

Lemma bytes_cmp_le_lt_trans a b c :
  bytes_cmp a b <> Gt -> bytes_cmp b c = Lt -> bytes_cmp a c = Lt.
Proof.
  intros H1 H2. destruct (bytes_cmp a b) eqn:E; try congruence.
  - apply bytes_cmp_eq in E. subst. assumption.
  - eapply bytes_cmp_lt_trans; eassumption.
Qed.

Lemma bytes_cmp_lt_le_trans a b c :
  bytes_cmp a b = Lt -> bytes_cmp b c <> Gt -> bytes_cmp a c = Lt.
Proof.
  intros H1 H2. destruct (bytes_cmp b c) eqn:E; try congruence.
  - apply bytes_cmp_eq in E. subst. assumption.
  - eapply bytes_cmp_lt_trans; eassumption.
Qed.

Lemma bytes_cmp_le_trans a b c :
  bytes_cmp a b <> Gt -> bytes_cmp b c <> Gt -> bytes_cmp a c <> Gt.
Proof.
  intros H1 H2. destruct (bytes_cmp b c) eqn:E; try congruence.
  - apply bytes_cmp_eq in E. subst. assumption.
  - rewrite (bytes_cmp_le_lt_trans a b c H1 E). discriminate.
Qed.

Lemma bytes_ltb_iff a b : bytes_ltb a b = true <-> bytes_cmp a b = Lt.
Proof. unfold bytes_ltb. destruct (bytes_cmp a b); split; congruence. Qed.

Lemma bytes_eqb_iff a b : bytes_eqb a b = true <-> a = b.
Proof.
  unfold bytes_eqb. rewrite <- bytes_cmp_eq_iff.
  destruct (bytes_cmp a b); split; congruence.
Qed.

Lemma bytes_leb_iff a b : bytes_leb a b = true <-> bytes_cmp a b <> Gt.
Proof. unfold bytes_leb. destruct (bytes_cmp a b); split; congruence. Qed.

(** ** [ikey_cmp] is a strict total preorder *)

Lemma ikey_cmp_refl a : ikey_cmp a a = Eq.
Proof. unfold ikey_cmp. rewrite bytes_cmp_refl. apply N.compare_refl. Qed.

Lemma ikey_cmp_eq_iff a b :
  ikey_cmp a b = Eq <-> ik_user a = ik_user b /\ ik_seq a = ik_seq b.
Proof.
  unfold ikey_cmp. split.
  - destruct (bytes_cmp (ik_user a) (ik_user b)) eqn:E; try discriminate.
    intros H. apply bytes_cmp_eq in E. apply N.compare_eq_iff in H. auto.
  - intros [-> ->]. rewrite bytes_cmp_refl. apply N.compare_refl.
Qed.

Lemma ikey_cmp_opp a b : ikey_cmp a b = CompOpp (ikey_cmp b a).
Proof.
  unfold ikey_cmp. rewrite (bytes_cmp_opp (ik_user a) (ik_user b)).
  destruct (bytes_cmp (ik_user b) (ik_user a)); cbn [CompOpp]; try reflexivity.
  apply N.compare_antisym.
Qed.

Lemma ikey_cmp_gt_lt a b : ikey_cmp a b = Gt <-> ikey_cmp b a = Lt.
Proof.
  rewrite (ikey_cmp_opp a b). destruct (ikey_cmp b a); cbn [CompOpp]; split; congruence.
Qed.

Lemma ikey_cmp_lt_trans a b c :
  ikey_cmp a b = Lt -> ikey_cmp b c = Lt -> ikey_cmp a c = Lt.
Proof.
  unfold ikey_cmp.
  destruct (bytes_cmp (ik_user a) (ik_user b)) eqn:E1; try discriminate;
  destruct (bytes_cmp (ik_user b) (ik_user c)) eqn:E2; try discriminate; intros H1 H2.
  - apply bytes_cmp_eq in E1. apply bytes_cmp_eq in E2.
    rewrite E1, E2, bytes_cmp_refl.
    rewrite N.compare_lt_iff in *. lia.
  - apply bytes_cmp_eq in E1. rewrite E1, E2. reflexivity.
  - apply bytes_cmp_eq in E2. rewrite <- E2, E1. reflexivity.
  - rewrite (bytes_cmp_lt_trans _ _ _ E1 E2). reflexivity.
Qed.

Lemma ikey_cmp_eq_compat_l a b c : ikey_cmp a b = Eq -> ikey_cmp a c = ikey_cmp b c.
Proof.
  intros H. apply ikey_cmp_eq_iff in H. destruct H as [Hu Hs].
  unfold ikey_cmp. rewrite Hu, Hs. reflexivity.
Qed.

Lemma ikey_cmp_eq_compat_r a b c : ikey_cmp b c = Eq -> ikey_cmp a b = ikey_cmp a c.
Proof.
  intros H. apply ikey_cmp_eq_iff in H. destruct H as [Hu Hs].
  unfold ikey_cmp. rewrite Hu, Hs. reflexivity.
Qed.

Lemma ikey_cmp_eq_sym a b : ikey_cmp a b = Eq -> ikey_cmp b a = Eq.
Proof. intros H. rewrite ikey_cmp_opp, H. reflexivity. Qed.

Lemma ikey_cmp_eq_trans a b c : ikey_cmp a b = Eq -> ikey_cmp b c = Eq -> ikey_cmp a c = Eq.
Proof. intros H1 H2. rewrite (ikey_cmp_eq_compat_l _ _ _ H1). exact H2. Qed.

Lemma ikey_cmp_total a b : ikey_cmp a b = Lt \/ ikey_cmp a b = Eq \/ ikey_cmp b a = Lt.
Proof.
  destruct (ikey_cmp a b) eqn:E; auto. right; right. apply ikey_cmp_gt_lt; assumption.
Qed.

(** the exported order lemmas, on [ikey_lt] / [ikey_le] of TableSpec *)

Lemma ikey_lt_irrefl a : ~ ikey_lt a a.
Proof. unfold ikey_lt. rewrite ikey_cmp_refl. discriminate. Qed.

Lemma ikey_le_refl a : ikey_le a a.
Proof. unfold ikey_le. rewrite ikey_cmp_refl. discriminate. Qed.

Lemma ikey_lt_trans a b c : ikey_lt a b -> ikey_lt b c -> ikey_lt a c.
Proof. apply ikey_cmp_lt_trans. Qed.

Lemma ikey_lt_le a b : ikey_lt a b -> ikey_le a b.
Proof. unfold ikey_lt, ikey_le. intros ->. discriminate. Qed.

Lemma ikey_le_lt_trans a b c : ikey_le a b -> ikey_lt b c -> ikey_lt a c.
Proof.
  unfold ikey_le, ikey_lt. intros H1 H2. destruct (ikey_cmp a b) eqn:E; try congruence.
  - rewrite (ikey_cmp_eq_compat_l _ _ _ E). exact H2.
  - eapply ikey_cmp_lt_trans; eassumption.
Qed.

Lemma ikey_lt_le_trans a b c : ikey_lt a b -> ikey_le b c -> ikey_lt a c.
Proof.
  unfold ikey_le, ikey_lt. intros H1 H2. destruct (ikey_cmp b c) eqn:E; try congruence.
  - rewrite <- (ikey_cmp_eq_compat_r _ _ _ E). exact H1.
  - eapply ikey_cmp_lt_trans; eassumption.
Qed.

Lemma ikey_le_trans a b c : ikey_le a b -> ikey_le b c -> ikey_le a c.
Proof.
  intros H1 H2. unfold ikey_le in H2. destruct (ikey_cmp b c) eqn:E; try congruence.
  - unfold ikey_le. rewrite <- (ikey_cmp_eq_compat_r _ _ _ E). exact H1.
  - apply ikey_lt_le. eapply ikey_le_lt_trans; eassumption.
Qed.

Lemma ikey_le_iff a b : ikey_le a b <-> ikey_lt a b \/ ikey_cmp a b = Eq.
Proof.
  unfold ikey_le, ikey_lt. destruct (ikey_cmp a b); split; try congruence; auto.
  intros [H|H]; congruence.
Qed.

Lemma ikey_not_lt_le a b : ~ ikey_lt a b <-> ikey_le b a.
Proof.
  unfold ikey_lt, ikey_le. rewrite (ikey_cmp_opp b a).
  destruct (ikey_cmp a b); cbn [CompOpp]; split; congruence.
Qed.

Lemma ikey_le_antisym a b : ikey_le a b -> ikey_le b a -> ikey_cmp a b = Eq.
Proof.
  unfold ikey_le. rewrite (ikey_cmp_opp b a).
  destruct (ikey_cmp a b); cbn [CompOpp]; congruence.
Qed.

Lemma ikey_ltb_iff a b : ikey_ltb a b = true <-> ikey_lt a b.
Proof. unfold ikey_ltb, ikey_lt. destruct (ikey_cmp a b); split; congruence. Qed.

Lemma ikey_ltb_false_iff a b : ikey_ltb a b = false <-> ikey_le b a.
Proof.
  rewrite <- ikey_not_lt_le, <- ikey_ltb_iff. destruct (ikey_ltb a b); split; congruence.
Qed.

Lemma ikey_leb_iff a b : ikey_leb a b = true <-> ikey_le a b.
Proof. unfold ikey_leb, ikey_le. destruct (ikey_cmp a b); split; congruence. Qed.

(** [PartialEq] ([ikey_eqb]) implies order-equivalence; it is exactly field-wise equality *)
Lemma ikey_eqb_iff a b : ikey_eqb a b = true <-> a = b.
Proof.
  unfold ikey_eqb. rewrite !andb_true_iff, bytes_eqb_iff, !N.eqb_eq.
  destruct a as [ua sa oa], b as [ub sb ob]; cbn [ik_user ik_seq ik_op]. split.
  - intros [[-> ->] ->]. reflexivity.
  - intros H. injection H. auto.
Qed.

Lemma ikey_eqb_cmp a b : ikey_eqb a b = true -> ikey_cmp a b = Eq.
Proof. intros H. apply ikey_eqb_iff in H. subst. apply ikey_cmp_refl. Qed.

(** * B. Separators and successors *)

Lemma cpl_refl a : common_prefix_len a a = length a.
Proof.
  induction a as [|x a IH]; cbn [common_prefix_len length]; [reflexivity|].
  rewrite N.eqb_refl, IH. reflexivity.
Qed.

Lemma cpl_le_l a b : (common_prefix_len a b <= length a)%nat.
Proof.
  revert b; induction a as [|x a IH]; intros [|y b]; cbn [common_prefix_len length]; try lia.
  destruct (x =? y); [specialize (IH b)|]; lia.
Qed.

Lemma cpl_le_r a b : (common_prefix_len a b <= length b)%nat.
Proof.
  revert b; induction a as [|x a IH]; intros [|y b]; cbn [common_prefix_len length]; try lia.
  destruct (x =? y); [specialize (IH b)|]; lia.
Qed.

Lemma cpl_firstn a b :
  firstn (common_prefix_len a b) a = firstn (common_prefix_len a b) b.
Proof.
  revert b; induction a as [|x a IH]; intros [|y b]; cbn [common_prefix_len firstn];
    try reflexivity.
  destruct (N.eqb_spec x y) as [E|E]; cbn [firstn]; [|reflexivity].
  subst. f_equal. apply IH.
Qed.

(** prefix (de)compression: what the block builder stores is enough to rebuild the key *)
Lemma cpl_rebuild a b :
  firstn (common_prefix_len a b) a ++ skipn (common_prefix_len a b) b = b.
Proof. rewrite cpl_firstn. apply firstn_skipn. Qed.

Lemma bytes_separator_same a : bytes_separator a a = a.
Proof.
  unfold bytes_separator. rewrite cpl_refl, Nat.min_id, Nat.leb_refl. reflexivity.
Qed.

Lemma bytes_separator_nil_l b : bytes_separator [] b = [].
Proof. unfold bytes_separator. cbn [common_prefix_len length Nat.min Nat.leb]. reflexivity. Qed.

Lemma bytes_separator_cons_eq x a b :
  bytes_separator (x :: a) (x :: b) = x :: bytes_separator a b.
Proof.
  unfold bytes_separator. cbn [common_prefix_len length]. rewrite N.eqb_refl.
  rewrite <- Nat.succ_min_distr. cbn [Nat.leb nth firstn].
  destruct (Nat.leb (Nat.min (length a) (length b)) (common_prefix_len a b)); [reflexivity|].
  destruct ((nth (common_prefix_len a b) a 0 <? 255) &&
            (nth (common_prefix_len a b) a 0 + 1 <? nth (common_prefix_len a b) b 0));
    reflexivity.
Qed.

Lemma bytes_separator_cons_neq x y a b :
  x <> y ->
  bytes_separator (x :: a) (y :: b) =
  if (x <? 255) && (x + 1 <? y) then [x + 1] else x :: a.
Proof.
  intros Hne. unfold bytes_separator. cbn [common_prefix_len length].
  destruct (N.eqb_spec x y) as [E|E]; [contradiction|].
  rewrite <- Nat.succ_min_distr. cbn [Nat.leb nth firstn app]. reflexivity.
Qed.

Theorem bytes_separator_between a b :
  bytes_cmp a b = Lt ->
  bytes_cmp a (bytes_separator a b) <> Gt /\ bytes_cmp (bytes_separator a b) b = Lt.
Proof.
  revert b; induction a as [|x a IH]; intros [|y b] H; cbn [bytes_cmp] in H; try discriminate.
  - rewrite bytes_separator_nil_l. cbn [bytes_cmp]. split; congruence.
  - destruct (N.compare_spec x y) as [E|E|E]; try discriminate.
    + subst y. rewrite bytes_separator_cons_eq. cbn [bytes_cmp]. rewrite N.compare_refl. auto.
    + rewrite bytes_separator_cons_neq by lia.
      destruct ((x <? 255) && (x + 1 <? y)) eqn:C.
      * apply andb_true_iff in C. destruct C as [C1 C2].
        apply N.ltb_lt in C1. apply N.ltb_lt in C2.
        cbn [bytes_cmp].
        rewrite (proj2 (N.compare_lt_iff x (x + 1))) by lia.
        rewrite (proj2 (N.compare_lt_iff (x + 1) y)) by lia.
        split; [discriminate | reflexivity].
      * cbn [bytes_cmp]. rewrite N.compare_refl, bytes_cmp_refl.
        rewrite (proj2 (N.compare_lt_iff x y)) by lia.
        split; [discriminate | reflexivity].
Qed.

(** the separator is never longer than the smaller key *)
Lemma bytes_separator_length a b : (length (bytes_separator a b) <= length a)%nat.
Proof.
  unfold bytes_separator.
  destruct (Nat.leb_spec (Nat.min (length a) (length b)) (common_prefix_len a b)) as [L|L];
    [lia|].
  destruct (_ && _); [|lia].
  rewrite app_length, firstn_length. cbn [length]. lia.
Qed.

Theorem bytes_successor_ge a : bytes_cmp a (bytes_successor a) <> Gt.
Proof.
  induction a as [|x a IH]; cbn [bytes_successor bytes_cmp]; [discriminate|].
  destruct (N.eqb_spec x 255) as [E|E].
  - cbn [bytes_cmp]. rewrite N.compare_refl. exact IH.
  - cbn [bytes_cmp]. rewrite (proj2 (N.compare_lt_iff x (x + 1))) by lia. discriminate.
Qed.

Lemma bytes_successor_length a : (length (bytes_successor a) <= length a)%nat.
Proof.
  induction a as [|x a IH]; cbn [bytes_successor length]; [lia|].
  destruct (x =? 255); cbn [length]; lia.
Qed.

(** separators/successors of byte strings are byte strings *)
Lemma bytes_separator_is_bytes a b :
  is_bytes a -> is_bytes (bytes_separator a b).
Proof.
  unfold is_bytes, bytes_separator. intros Ha.
  destruct (Nat.leb_spec (Nat.min (length a) (length b)) (common_prefix_len a b)) as [L|L];
    [assumption|].
  destruct (_ && _) eqn:C; [|assumption].
  apply andb_true_iff in C. destruct C as [C1 _]. apply N.ltb_lt in C1.
  apply Forall_app. split.
  - rewrite <- (firstn_skipn (common_prefix_len a b) a) in Ha.
    apply Forall_app in Ha. tauto.
  - constructor; [lia | constructor].
Qed.

Lemma bytes_successor_is_bytes a : is_bytes a -> is_bytes (bytes_successor a).
Proof.
  unfold is_bytes. induction 1 as [|x a Hx Ha IH]; cbn [bytes_successor]; [constructor|].
  destruct (N.eqb_spec x 255) as [E|E].
  - constructor; assumption.
  - constructor; [lia | constructor].
Qed.

(** ** Fixed-width little-endian codec *)

Lemma le_encode_length n v : length (le_encode n v) = n.
Proof. revert v; induction n as [|n IH]; intros v; cbn [le_encode length]; auto. Qed.

Lemma le_decode_encode n v : v < 256 ^ N.of_nat n -> le_decode (le_encode n v) = v.
Proof.
  revert v; induction n as [|n IH]; intros v Hv; cbn [le_encode le_decode].
  - change (256 ^ N.of_nat 0) with 1 in Hv. lia.
  - rewrite Nat2N.inj_succ, N.pow_succ_r' in Hv.
    rewrite IH.
    + lia.
    + apply N.div_lt_upper_bound; lia.
Qed.

Lemma le_decode_encode8 v : v < 18446744073709551616 -> le_decode (le_encode 8 v) = v.
Proof. intros H. apply le_decode_encode. exact H. Qed.

Lemma le_decode_encode4 v : v < 4294967296 -> le_decode (le_encode 4 v) = v.
Proof. intros H. apply le_decode_encode. exact H. Qed.

Lemma le_encode_is_bytes n v : is_bytes (le_encode n v).
Proof.
  unfold is_bytes. revert v; induction n as [|n IH]; intros v; cbn [le_encode]; constructor.
  - lia.
  - apply IH.
Qed.

(** ** The internal-key codec *)

(** field bounds of a real [InternalKey]: a [u64] sequence number and a valid operation tag.
    (Nothing below needs the user key to consist of bytes.) *)
Definition ikey_bounded (k : ikey) : Prop :=
  ik_seq k < 18446744073709551616 /\ ik_op k <= 1.

Definition ikey_boundedb (k : ikey) : bool :=
  (ik_seq k <? 18446744073709551616) && (ik_op k <=? 1).

Lemma ikey_boundedb_iff k : ikey_boundedb k = true <-> ikey_bounded k.
Proof.
  unfold ikey_boundedb, ikey_bounded. rewrite andb_true_iff, N.ltb_lt, N.leb_le. tauto.
Qed.

Lemma ikey_encode_length k : length (ikey_encode k) = (length (ik_user k) + 9)%nat.
Proof.
  unfold ikey_encode. rewrite !app_length, le_encode_length. cbn [length]. lia.
Qed.

Theorem ikey_decode_encode k : ikey_bounded k -> ikey_decode (ikey_encode k) = Some k.
Proof.
  intros [Hs Ho]. unfold ikey_decode. rewrite ikey_encode_length.
  destruct (Nat.ltb_spec (length (ik_user k) + 9) 9) as [L|L]; [lia|].
  replace (length (ik_user k) + 9 - 9)%nat with (length (ik_user k)) by lia.
  replace (length (ik_user k) + 9 - 1)%nat with (length (ik_user k) + 8)%nat by lia.
  unfold ikey_encode.
  rewrite (firstn_app_len (ik_user k) _ _ eq_refl).
  rewrite (skipn_app_len (ik_user k) _ _ eq_refl).
  change (firstn 8 (le_encode 8 (ik_seq k) ++ [ik_op k])) with (le_encode 8 (ik_seq k)).
  rewrite le_decode_encode8 by exact Hs.
  rewrite app_nth2 by lia.
  replace (length (ik_user k) + 8 - length (ik_user k))%nat with 8%nat by lia.
  change (nth 8 (le_encode 8 (ik_seq k) ++ [ik_op k]) 0) with (ik_op k).
  destruct (N.ltb_spec 1 (ik_op k)) as [L1|L1]; [lia|].
  destruct k; reflexivity.
Qed.

Lemma ikey_encode_is_bytes k :
  is_bytes (ik_user k) -> ik_op k <= 1 -> is_bytes (ikey_encode k).
Proof.
  intros Hu Ho. unfold ikey_encode, is_bytes. apply Forall_app. split; [exact Hu|].
  apply Forall_app. split; [apply le_encode_is_bytes|]. constructor; [lia|constructor].
Qed.

(** ** Internal-key separators and successors *)

Lemma max_seq_key_bounded us : ikey_bounded (mkIKey us MAX_SEQ OP_PUT).
Proof. unfold ikey_bounded, MAX_SEQ, OP_PUT; cbn [ik_seq ik_op]. lia. Qed.

(** the result of [ikey_separator] explicitly *)
Definition ikey_separator_key (a b : ikey) : ikey :=
  let us := bytes_separator (ik_user a) (ik_user b) in
  if Nat.ltb (length us) (length (ik_user a)) && bytes_ltb (ik_user a) us
  then mkIKey us MAX_SEQ OP_PUT else a.

Definition ikey_successor_key (a : ikey) : ikey :=
  let us := bytes_successor (ik_user a) in
  if Nat.ltb (length us) (length (ik_user a)) && bytes_ltb (ik_user a) us
  then mkIKey us MAX_SEQ OP_PUT else a.

Lemma ikey_separator_key_bounded a b :
  ikey_bounded a -> ikey_bounded (ikey_separator_key a b).
Proof.
  intros Ha. unfold ikey_separator_key. destruct (_ && _); [apply max_seq_key_bounded|exact Ha].
Qed.

Lemma ikey_successor_key_bounded a :
  ikey_bounded a -> ikey_bounded (ikey_successor_key a).
Proof.
  intros Ha. unfold ikey_successor_key. destruct (_ && _); [apply max_seq_key_bounded|exact Ha].
Qed.

Lemma ikey_separator_spec a b :
  ikey_lt a b ->
  ikey_separator a b = Some (ikey_encode (ikey_separator_key a b)) /\
  ikey_le a (ikey_separator_key a b) /\
  ikey_lt (ikey_separator_key a b) b /\
  (ikey_cmp a (ikey_separator_key a b) = Eq \/
   bytes_ltb (ik_user (ikey_separator_key a b)) (ik_user b) = true).
Proof.
  intros Hlt. unfold ikey_separator, ikey_separator_key.
  set (us := bytes_separator (ik_user a) (ik_user b)).
  destruct (Nat.ltb (length us) (length (ik_user a)) && bytes_ltb (ik_user a) us) eqn:C.
  - apply andb_true_iff in C. destruct C as [_ C]. apply bytes_ltb_iff in C.
    assert (Hu : bytes_cmp (ik_user a) (ik_user b) = Lt).
    { unfold ikey_lt, ikey_cmp in Hlt.
      destruct (bytes_cmp (ik_user a) (ik_user b)) eqn:E; try congruence.
      apply bytes_cmp_eq in E. subst us. rewrite E, bytes_separator_same in C.
      rewrite bytes_cmp_refl in C. discriminate. }
    destruct (bytes_separator_between _ _ Hu) as [_ Hsb]. fold us in Hsb.
    assert (H1 : ikey_cmp a (mkIKey us MAX_SEQ OP_PUT) = Lt).
    { unfold ikey_cmp; cbn [ik_user]. rewrite C. reflexivity. }
    assert (H2 : ikey_cmp (mkIKey us MAX_SEQ OP_PUT) b = Lt).
    { unfold ikey_cmp; cbn [ik_user]. rewrite Hsb. reflexivity. }
    unfold ikey_ltb. rewrite H1, H2. cbn [andb].
    split; [reflexivity|]. split; [unfold ikey_le; rewrite H1; discriminate|].
    split; [exact H2|]. right. cbn [ik_user]. apply bytes_ltb_iff. exact Hsb.
  - split; [reflexivity|]. split; [apply ikey_le_refl|]. split; [exact Hlt|].
    left. apply ikey_cmp_refl.
Qed.

Lemma ikey_successor_spec a :
  ikey_successor a = Some (ikey_encode (ikey_successor_key a)) /\
  ikey_le a (ikey_successor_key a).
Proof.
  unfold ikey_successor, ikey_successor_key.
  set (us := bytes_successor (ik_user a)).
  destruct (Nat.ltb (length us) (length (ik_user a)) && bytes_ltb (ik_user a) us) eqn:C.
  - apply andb_true_iff in C. destruct C as [_ C]. apply bytes_ltb_iff in C.
    assert (H1 : ikey_cmp a (mkIKey us MAX_SEQ OP_PUT) = Lt).
    { unfold ikey_cmp; cbn [ik_user]. rewrite C. reflexivity. }
    unfold ikey_ltb. rewrite H1.
    split; [reflexivity|]. unfold ikey_le; rewrite H1; discriminate.
  - split; [reflexivity|]. apply ikey_le_refl.
Qed.

Theorem ikey_separator_between a b :
  ikey_bounded a -> ikey_lt a b ->
  exists sb k,
    ikey_separator a b = Some sb /\ ikey_decode sb = Some k /\
    ikey_le a k /\ ikey_lt k b /\
    (ikey_cmp a k = Eq \/ bytes_ltb (ik_user k) (ik_user b) = true).
Proof.
  intros Ha Hlt. destruct (ikey_separator_spec a b Hlt) as (H1 & H2 & H3 & H4).
  exists (ikey_encode (ikey_separator_key a b)), (ikey_separator_key a b).
  split; [exact H1|]. split; [|auto].
  apply ikey_decode_encode. apply ikey_separator_key_bounded. exact Ha.
Qed.

Theorem ikey_successor_ge a :
  ikey_bounded a ->
  exists sb k, ikey_successor a = Some sb /\ ikey_decode sb = Some k /\ ikey_le a k.
Proof.
  intros Ha. destruct (ikey_successor_spec a) as (H1 & H2).
  exists (ikey_encode (ikey_successor_key a)), (ikey_successor_key a).
  split; [exact H1|]. split; [|exact H2].
  apply ikey_decode_encode. apply ikey_successor_key_bounded. exact Ha.
Qed.

(** separator keys keep byte-ness of the user key (for callers that track it) *)
Lemma ikey_separator_key_is_bytes a b :
  is_bytes (ik_user a) -> is_bytes (ik_user (ikey_separator_key a b)).
Proof.
  intros Ha. unfold ikey_separator_key. destruct (_ && _); cbn [ik_user]; [|exact Ha].
  apply bytes_separator_is_bytes. exact Ha.
Qed.

Lemma ikey_successor_key_is_bytes a :
  is_bytes (ik_user a) -> is_bytes (ik_user (ikey_successor_key a)).
Proof.
  intros Ha. unfold ikey_successor_key. destruct (_ && _); cbn [ik_user]; [|exact Ha].
  apply bytes_successor_is_bytes. exact Ha.
Qed.

(** * C. Every cut of a sorted list builds a well-formed table *)

Definition entries_bounded (es : list entry) : Prop :=
  Forall (fun e => ikey_bounded (fst e)) es.

Definition entries_boundedb (es : list entry) : bool :=
  forallb (fun e => ikey_boundedb (fst e)) es.

Lemma entries_boundedb_iff es : entries_boundedb es = true <-> entries_bounded es.
Proof.
  unfold entries_boundedb, entries_bounded. rewrite forallb_forall, Forall_forall.
  split; intros H e He; apply ikey_boundedb_iff; apply H; exact He.
Qed.

Lemma cut_blocks_nil sizes : cut_blocks [] sizes = [].
Proof. destruct sizes; reflexivity. Qed.

Lemma cut_blocks_concat es sizes : concat (cut_blocks es sizes) = es.
Proof.
  revert es; induction sizes as [|n r IH]; intros es; cbn [cut_blocks].
  - destruct es; cbn [concat]; [reflexivity|]. apply app_nil_r.
  - destruct es as [|e es']; [reflexivity|].
    cbn [concat]. rewrite IH. apply firstn_skipn.
Qed.

Lemma cut_blocks_nonempty es sizes : Forall (fun b => b <> []) (cut_blocks es sizes).
Proof.
  revert es; induction sizes as [|n r IH]; intros es; cbn [cut_blocks].
  - destruct es; constructor; [discriminate|constructor].
  - destruct es as [|e es']; [constructor|].
    constructor; [cbn [firstn]; discriminate | apply IH].
Qed.

(** sortedness facts *)

Lemma sorted_entries_cons e r :
  sorted_entries (e :: r) = true -> sorted_entries r = true.
Proof.
  cbn [sorted_entries]. destruct r as [|e' r']; [reflexivity|].
  intros H. apply andb_true_iff in H. tauto.
Qed.

Lemma sorted_entries_app_r l1 l2 :
  sorted_entries (l1 ++ l2) = true -> sorted_entries l2 = true.
Proof.
  induction l1 as [|e l1 IH]; cbn [app]; [auto|].
  intros H. apply IH. eapply sorted_entries_cons; eassumption.
Qed.

Lemma sorted_entries_adjacent l1 e1 e2 l2 :
  sorted_entries (l1 ++ e1 :: e2 :: l2) = true -> ikey_lt (fst e1) (fst e2).
Proof.
  intros H. apply sorted_entries_app_r in H. cbn [sorted_entries] in H.
  apply andb_true_iff in H. destruct H as [H _]. apply ikey_ltb_iff. exact H.
Qed.

Lemma last_key_some b : b <> [] -> exists b0 e, b = b0 ++ [e] /\ last_key b = Some (fst e).
Proof.
  intros Hb. unfold last_key. destruct (rev b) as [|e t] eqn:E.
  - apply (f_equal (@rev entry)) in E. rewrite rev_involutive in E. cbn [rev] in E. contradiction.
  - apply (f_equal (@rev entry)) in E. rewrite rev_involutive in E. cbn [rev] in E.
    exists (rev t), e. split; [exact E | reflexivity].
Qed.

Lemma first_key_some b : b <> [] -> exists e b1, b = e :: b1 /\ first_key b = Some (fst e).
Proof.
  intros Hb. destruct b as [|e b1]; [contradiction|]. exists e, b1. split; reflexivity.
Qed.

Lemma index_ok_length bs ks : index_ok bs ks -> length ks = length bs.
Proof. induction 1; cbn [length]; auto. Qed.

Lemma index_keys_ok blocks :
  Forall (fun b => b <> []) blocks ->
  sorted_entries (concat blocks) = true ->
  entries_bounded (concat blocks) ->
  exists ks, index_keys blocks = Some ks /\ index_ok blocks ks /\
             Forall ikey_bounded ks.
Proof.
  induction blocks as [|b r IH]; intros Hne Hs Hb.
  - exists []. split; [reflexivity|]. split; constructor.
  - inversion Hne as [|? ? Hb0 Hner]; subst.
    destruct (last_key_some b Hb0) as (b0 & le & Eb & Elk).
    assert (Hlkb : ikey_bounded (fst le)).
    { unfold entries_bounded in Hb. cbn [concat] in Hb. rewrite Eb in Hb.
      rewrite Forall_app in Hb. destruct Hb as [Hb _]. rewrite Forall_app in Hb.
      destruct Hb as [_ Hb]. inversion Hb; assumption. }
    assert (Hs' : sorted_entries (concat r) = true).
    { cbn [concat] in Hs. eapply sorted_entries_app_r; eassumption. }
    assert (Hb' : entries_bounded (concat r)).
    { unfold entries_bounded in *. cbn [concat] in Hb. rewrite Forall_app in Hb. tauto. }
    destruct (IH Hner Hs' Hb') as (ks & Eks & Hok & Hkb).
    cbn [index_keys]. rewrite Elk.
    destruct r as [|b' r'].
    + destruct (ikey_successor_spec (fst le)) as [E1 E2].
      rewrite E1.
      rewrite (ikey_decode_encode _ (ikey_successor_key_bounded _ Hlkb)).
      cbn [index_keys]. exists [ikey_successor_key (fst le)].
      split; [reflexivity|]. split.
      * apply iok_last; [exact Hb0|]. intros lk Hlk. rewrite Elk in Hlk.
        injection Hlk as <-. exact E2.
      * constructor; [apply ikey_successor_key_bounded; exact Hlkb | constructor].
    + inversion Hner as [|? ? Hb'0 _]; subst.
      destruct (first_key_some b' Hb'0) as (fe & b1 & Eb' & Efk).
      rewrite Efk.
      assert (Hlt : ikey_lt (fst le) (fst fe)).
      { cbn [concat] in Hs. rewrite Eb' in Hs. rewrite <- app_assoc in Hs.
        cbn [app] in Hs. eapply sorted_entries_adjacent. exact Hs. }
      destruct (ikey_separator_spec _ _ Hlt) as (E1 & E2 & E3 & E4).
      rewrite E1.
      rewrite (ikey_decode_encode _ (ikey_separator_key_bounded _ (fst fe) Hlkb)).
      rewrite Eks.
      exists (ikey_separator_key (fst le) (fst fe) :: ks).
      split; [reflexivity|]. split.
      * apply iok_cons; [exact Hb0 | | exact Hok].
        intros lk fk Hlk Hfk. rewrite Elk in Hlk. rewrite Efk in Hfk.
        injection Hlk as <-. injection Hfk as <-. split; [exact E2 | exact E4].
      * constructor; [apply ikey_separator_key_bounded; exact Hlkb | exact Hkb].
Qed.

Theorem table_build_wf es sizes :
  sorted_entries es = true ->
  entries_bounded es ->
  exists t, table_build es sizes = Some t /\ table_wf t es /\
            length (t_index t) = length (t_blocks t) /\
            Forall (fun b => b <> []) (t_blocks t).
Proof.
  intros Hs Hb. unfold table_build.
  pose proof (cut_blocks_concat es sizes) as Hc.
  pose proof (cut_blocks_nonempty es sizes) as Hne.
  destruct (index_keys_ok (cut_blocks es sizes) Hne) as (ks & Eks & Hok & _).
  { rewrite Hc; exact Hs. }
  { rewrite Hc; exact Hb. }
  rewrite Eks. eexists. split; [reflexivity|].
  unfold table_wf; cbn [t_blocks t_index].
  split; [split; [exact Hc | split; [exact Hs|]] | split].
  - match goal with |- index_ok _ ?l => assert (E : l = ks) end.
    { rewrite map_map. cbn [fst]. apply map_id. }
    rewrite E. exact Hok.
  - rewrite map_length. apply index_ok_length. exact Hok.
  - exact Hne.
Qed.

Lemma table_build_nil sizes : table_build [] sizes = Some (mkTable [] []).
Proof. unfold table_build. rewrite cut_blocks_nil. reflexivity. Qed.

(** the index keys of a built table are themselves bounded (so that an index block round-trips) *)
Lemma table_build_index_bounded es sizes t :
  sorted_entries es = true -> entries_bounded es ->
  table_build es sizes = Some t -> Forall ikey_bounded (map fst (t_index t)).
Proof.
  intros Hs Hb. unfold table_build.
  pose proof (cut_blocks_concat es sizes) as Hc.
  pose proof (cut_blocks_nonempty es sizes) as Hne.
  destruct (index_keys_ok (cut_blocks es sizes) Hne) as (ks & Eks & _ & Hkb).
  { rewrite Hc; exact Hs. }
  { rewrite Hc; exact Hb. }
  rewrite Eks. intros H. injection H as <-. cbn [t_index].
  rewrite map_map. cbn [fst]. rewrite map_id. exact Hkb.
Qed.
