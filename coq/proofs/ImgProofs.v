(** CURRENT file round trip, [sort_nums], association lists of the image *)
From Coq Require Import Lia ZArith ZifyN ZifyBool ZifyNat Arith List NArith Bool Permutation Sorted.
From RainVerif Require Import Params.
From RainVerif.model Require Import Bytes Key Block Crc Log Table TableSpec Version Lsm DbSpec Codec WalModel Gc Recover Proto.
From RainVerif.proofs Require Import KeyProofs.
Import ListNotations.
Open Scope N_scope.

Arguments N.add : simpl never.
Arguments N.sub : simpl never.
Arguments N.mul : simpl never.
Arguments N.div : simpl never.
Arguments N.modulo : simpl never.
Arguments N.eqb : simpl never.
Arguments N.ltb : simpl never.
Arguments N.leb : simpl never.
Arguments N.pow : simpl never.

(** * CURRENT *)

Lemma decimal_digits_spec : forall f n acc,
  n < 10 ^ N.of_nat (S f) ->
  exists ds, decimal_digits (S f) n acc = ds ++ acc /\ ds <> [] /\
    forall tl a, parse_decimal (ds ++ tl) a = parse_decimal tl (a * 10 ^ N.of_nat (length ds) + n).
Proof.
  assert (Base : forall n acc, n < 10 ->
    exists ds, (48 + n) :: acc = ds ++ acc /\ ds <> [] /\
    forall tl a, parse_decimal (ds ++ tl) a = parse_decimal tl (a * 10 ^ N.of_nat (length ds) + n)).
  { intros n acc Hn. exists [48 + n]. split; [reflexivity|]. split; [discriminate|].
    intros tl a. cbn [app parse_decimal length].
    replace ((48 <=? 48 + n) && (48 + n <=? 57)) with true by (symmetry; apply andb_true_iff; split; apply N.leb_le; lia).
    change (N.of_nat 1) with 1. rewrite N.pow_1_r. f_equal. lia. }
  induction f as [|f IH]; intros n acc Hn.
  - cbn [decimal_digits]. change (N.of_nat 1) with 1 in Hn. rewrite N.pow_1_r in Hn.
    destruct (N.ltb_spec n 10); [|lia]. apply Base; assumption.
  - change (decimal_digits (S (S f)) n acc) with
      (if n <? 10 then (48 + n) :: acc else decimal_digits (S f) (n / 10) ((48 + n mod 10) :: acc)).
    destruct (N.ltb_spec n 10) as [Hlt|Hge]; [apply Base; assumption|].
    assert (Hq : n / 10 < 10 ^ N.of_nat (S f)).
    { apply N.div_lt_upper_bound; [lia|].
      rewrite (Nat2N.inj_succ (S f)), N.pow_succ_r in Hn by lia. exact Hn. }
    destruct (IH (n / 10) ((48 + n mod 10) :: acc) Hq) as (ds & E & Hne & P).
    exists (ds ++ [48 + n mod 10]). split; [rewrite E, <- List.app_assoc; reflexivity|].
    split; [intro C; apply app_eq_nil in C; destruct C; discriminate|].
    intros tl a. rewrite <- List.app_assoc. cbn [app]. rewrite P.
    cbn [parse_decimal].
    pose proof (N.mod_lt n 10 ltac:(lia)) as Hm.
    replace ((48 <=? 48 + n mod 10) && (48 + n mod 10 <=? 57)) with true
      by (symmetry; apply andb_true_iff; split; apply N.leb_le; lia).
    f_equal. rewrite app_length. cbn [length]. rewrite Nat.add_1_r, Nat2N.inj_succ, N.pow_succ_r by lia.
    pose proof (N.div_mod n 10 ltac:(lia)) as Hd.
    set (p := 10 ^ N.of_nat (length ds)). set (q := n / 10) in *. set (r := n mod 10) in *.
    lia.
Qed.

Lemma starts_with_app p l : starts_with p (p ++ l) = Some l.
Proof.
  induction p as [|x p IH]; cbn [app starts_with]; [destruct l; reflexivity|].
  rewrite N.eqb_refl. exact IH.
Qed.

Lemma skipn_length_app {A} (a b : list A) : skipn (length a) (a ++ b) = b.
Proof. induction a; cbn [length skipn app]; auto. Qed.

Lemma firstn_length_app {A} (a b : list A) : firstn (length a) (a ++ b) = a.
Proof. induction a; cbn [length firstn app]; [destruct b; reflexivity|]. f_equal. auto. Qed.

Theorem parse_current_contents : forall n, n < 18446744073709551616 -> parse_current (current_contents n) = Some n.
Proof.
  intros n Hn.
  assert (Hn' : n < 10 ^ N.of_nat 20).
  { eapply N.lt_trans; [exact Hn|]. vm_compute. reflexivity. }
  destruct (decimal_digits_spec 19 n [] Hn') as (ds & E & Hne & P).
  unfold current_contents. rewrite E, app_nil_r.
  unfold parse_current.
  replace (ascii_MANIFEST_ ++ ds ++ ascii_dot_manifest ++ [10])
    with ((ascii_MANIFEST_ ++ ds ++ ascii_dot_manifest) ++ [10])
    by (rewrite <- !List.app_assoc; reflexivity).
  rewrite rev_app_distr. cbn [rev app]. rewrite rev_involutive.
  rewrite starts_with_app.
  replace (length (ds ++ ascii_dot_manifest) - length ascii_dot_manifest)%nat with (length ds)
    by (rewrite app_length; lia).
  rewrite skipn_length_app, firstn_length_app.
  replace (bytes_eqb ascii_dot_manifest ascii_dot_manifest) with true
    by (symmetry; apply bytes_eqb_iff; reflexivity).
  destruct ds as [|d ds]; [contradiction|].
  specialize (P [] 0). rewrite app_nil_r in P. rewrite P.
  cbn [parse_decimal]. rewrite N.mul_0_l, N.add_0_l. reflexivity.
Qed.

(** * sort_nums *)

Lemma insert_num_in n l x : In x (insert_num n l) <-> x = n \/ In x l.
Proof.
  induction l as [|a l IH]; cbn [insert_num In].
  - intuition.
  - destruct (n <=? a); cbn [In]; [intuition|]. rewrite IH. intuition.
Qed.

Lemma insert_num_permutation n l : Permutation (insert_num n l) (n :: l).
Proof.
  induction l as [|a l IH]; cbn [insert_num]; [reflexivity|].
  destruct (n <=? a); [reflexivity|].
  rewrite IH. apply perm_swap.
Qed.

Lemma sort_nums_permutation l : Permutation (sort_nums l) l.
Proof.
  induction l as [|a l IH]; cbn [sort_nums fold_right]; [reflexivity|].
  fold (sort_nums l). rewrite insert_num_permutation. apply perm_skip, IH.
Qed.

Lemma sort_nums_cons a l : sort_nums (a :: l) = insert_num a (sort_nums l).
Proof. reflexivity. Qed.

Theorem sort_nums_in : forall l x, In x (sort_nums l) <-> In x l.
Proof.
  intros l x. split; apply Permutation_in; [|symmetry]; apply sort_nums_permutation.
Qed.

Lemma insert_num_sorted n l : StronglySorted N.le l -> StronglySorted N.le (insert_num n l).
Proof.
  induction 1 as [|a l S IH F]; cbn [insert_num].
  - constructor; constructor.
  - destruct (N.leb_spec n a).
    + constructor; [constructor; assumption|].
      constructor; [assumption|]. eapply Forall_impl; [|exact F]. cbn. intros; lia.
    + constructor; [assumption|].
      apply Forall_forall. intros x Hx. apply insert_num_in in Hx. destruct Hx as [->|Hx]; [lia|].
      rewrite Forall_forall in F. apply F, Hx.
Qed.

Theorem sort_nums_sorted : forall l, StronglySorted N.le (sort_nums l).
Proof.
  induction l as [|a l IH]; [constructor|]. rewrite sort_nums_cons. apply insert_num_sorted, IH.
Qed.

Lemma insert_num_comm x y l : insert_num x (insert_num y l) = insert_num y (insert_num x l).
Proof.
  destruct (N.eq_dec x y) as [->|Hxy]; [reflexivity|].
  induction l as [|a l IH]; cbn [insert_num].
  - destruct (N.leb_spec x y), (N.leb_spec y x); try lia; reflexivity.
  - destruct (N.leb_spec y a), (N.leb_spec x a); cbn [insert_num];
      repeat match goal with |- context [?u <=? ?v] => destruct (N.leb_spec u v) end;
      try lia; try reflexivity.
    rewrite IH. reflexivity.
Qed.

Theorem sort_nums_perm : forall l l', Permutation l l' -> sort_nums l = sort_nums l'.
Proof.
  induction 1.
  - reflexivity.
  - rewrite !sort_nums_cons. congruence.
  - rewrite !sort_nums_cons. apply insert_num_comm.
  - congruence.
Qed.

Theorem sort_nums_id : forall l, StronglySorted N.le l -> sort_nums l = l.
Proof.
  induction 1 as [|a l S IH F]; [reflexivity|].
  rewrite sort_nums_cons, IH.
  destruct l as [|b l]; [reflexivity|]. cbn [insert_num].
  inversion F; subst. destruct (N.leb_spec a b); [reflexivity|lia].
Qed.

Lemma StronglySorted_snoc_max l n :
  StronglySorted N.le l -> (forall x, In x l -> x <= n) -> StronglySorted N.le (l ++ [n]).
Proof.
  induction 1 as [|a l S IH F]; intros H; cbn [app].
  - constructor; constructor.
  - constructor.
    + apply IH. intros x Hx. apply H. right. exact Hx.
    + apply Forall_app. split; [exact F|]. constructor; [|constructor]. apply H. left. reflexivity.
Qed.

Theorem sort_nums_snoc_max : forall l n, (forall x, In x l -> x <= n) -> sort_nums (l ++ [n]) = sort_nums l ++ [n].
Proof.
  intros l n H.
  rewrite (sort_nums_perm (l ++ [n]) (sort_nums l ++ [n])).
  - apply sort_nums_id. apply StronglySorted_snoc_max; [apply sort_nums_sorted|].
    intros x Hx. apply H. apply sort_nums_in. exact Hx.
  - apply Permutation_app_tail. symmetry. apply sort_nums_permutation.
Qed.

Theorem sort_nums_nodup : forall l, NoDup l -> NoDup (sort_nums l).
Proof.
  intros l H. eapply Permutation_NoDup; [|exact H]. symmetry. apply sort_nums_permutation.
Qed.

Theorem sort_nums_ext : forall l l', NoDup l -> NoDup l' -> (forall x, In x l <-> In x l') -> sort_nums l = sort_nums l'.
Proof.
  intros l l' H H' E. apply sort_nums_perm. apply NoDup_Permutation; assumption.
Qed.

(** * association lists of the image *)

Lemma lookupN_nil A (n : N) : lookupN n (@nil (N * A)) = None.
Proof. reflexivity. Qed.

Lemma lookupN_cons A (n : N) (p : N * A) l :
  lookupN n (p :: l) = if fst p =? n then Some (snd p) else lookupN n l.
Proof. unfold lookupN. cbn [find]. destruct (fst p =? n); reflexivity. Qed.

Lemma existsb_fst_in A (m : N) (l : list (N * A)) :
  existsb (fun p => fst p =? m) l = true <-> In m (map fst l).
Proof.
  rewrite existsb_exists, in_map_iff. split.
  - intros (p & Hp & E). apply N.eqb_eq in E. exists p. split; assumption.
  - intros (p & E & Hp). exists p. split; [assumption|]. apply N.eqb_eq. assumption.
Qed.

Lemma existsb_fst_not_in A (m : N) (l : list (N * A)) :
  existsb (fun p => fst p =? m) l = false <-> ~ In m (map fst l).
Proof. rewrite <- existsb_fst_in. destruct (existsb _ l); split; congruence. Qed.

Theorem lookupN_in : forall A (n : N) (l : list (N * A)), In n (map fst l) <-> lookupN n l <> None.
Proof.
  intros A n l. induction l as [|p l IH]; cbn [map In].
  - rewrite lookupN_nil. intuition.
  - rewrite lookupN_cons. destruct (N.eqb_spec (fst p) n).
    + split; [discriminate|]. intros _. left. assumption.
    + rewrite <- IH. intuition.
Qed.

Lemma lookupN_not_in A (n : N) (l : list (N * A)) : ~ In n (map fst l) -> lookupN n l = None.
Proof.
  intros H. destruct (lookupN n l) eqn:E; [|reflexivity].
  exfalso. apply H. apply lookupN_in. congruence.
Qed.

Lemma lookupN_map_upd A (n m : N) (f : N * A -> A) (l : list (N * A)) :
  lookupN n (map (fun p => if fst p =? m then (m, f p) else p) l) =
  if n =? m then
    match find (fun p => fst p =? m) l with Some p => Some (f p) | None => None end
  else lookupN n l.
Proof.
  induction l as [|p l IH]; cbn [map find].
  - rewrite lookupN_nil. destruct (n =? m); reflexivity.
  - rewrite !lookupN_cons, IH.
    destruct (N.eqb_spec (fst p) m) as [E1|E1]; cbn [fst snd].
    + destruct (N.eqb_spec n m) as [E2|E2].
      * subst n. rewrite N.eqb_refl. reflexivity.
      * destruct (N.eqb_spec m n); [congruence|].
        destruct (N.eqb_spec (fst p) n); [congruence|]. reflexivity.
    + destruct (N.eqb_spec n m) as [E2|E2].
      * subst n. destruct (N.eqb_spec (fst p) m); [congruence|]. reflexivity.
      * reflexivity.
Qed.

Lemma lookupN_app A (n : N) (l1 l2 : list (N * A)) :
  lookupN n (l1 ++ l2) = match lookupN n l1 with Some x => Some x | None => lookupN n l2 end.
Proof.
  induction l1 as [|p l1 IH]; cbn [app].
  - rewrite lookupN_nil. reflexivity.
  - rewrite !lookupN_cons, IH. destruct (fst p =? n); reflexivity.
Qed.

Lemma find_fst_existsb A (m : N) (l : list (N * A)) :
  existsb (fun p => fst p =? m) l = true -> exists p, find (fun p => fst p =? m) l = Some p.
Proof.
  induction l as [|p l IH]; cbn [existsb find]; [discriminate|].
  destruct (fst p =? m); [eauto|]. cbn [orb]. exact IH.
Qed.

Theorem lookupN_set_assoc : forall A (n m : N) (x : A) l,
  lookupN n (set_assoc m x l) = if n =? m then Some x else lookupN n l.
Proof.
  intros A n m x l. unfold set_assoc.
  destruct (existsb (fun p => fst p =? m) l) eqn:E.
  - rewrite (lookupN_map_upd A n m (fun _ => x) l).
    destruct (find_fst_existsb _ _ _ E) as (p & ->). reflexivity.
  - rewrite lookupN_app, lookupN_cons, lookupN_nil. cbn [fst snd].
    destruct (N.eqb_spec n m) as [->|Hnm].
    + rewrite N.eqb_refl. apply existsb_fst_not_in in E.
      rewrite (lookupN_not_in _ _ _ E). reflexivity.
    + destruct (N.eqb_spec m n); [congruence|]. destruct (lookupN n l); reflexivity.
Qed.

Theorem lookupN_del_assoc : forall A (n m : N) (l : list (N * A)),
  lookupN n (del_assoc m l) = if n =? m then None else lookupN n l.
Proof.
  intros A n m l. unfold del_assoc. induction l as [|p l IH]; cbn [filter].
  - rewrite lookupN_nil. destruct (n =? m); reflexivity.
  - rewrite lookupN_cons. destruct (N.eqb_spec (fst p) m) as [E1|E1]; cbn [negb].
    + rewrite IH. destruct (N.eqb_spec n m) as [E2|E2]; [reflexivity|].
      destruct (N.eqb_spec (fst p) n); [congruence|]. reflexivity.
    + rewrite lookupN_cons, IH. destruct (N.eqb_spec n m) as [E2|E2]; [|reflexivity].
      destruct (N.eqb_spec (fst p) n); [congruence|]. reflexivity.
Qed.

Theorem lookupN_app_assoc : forall (n m : N) d l,
  lookupN n (app_assoc m d l) = if n =? m then option_map (fun x => x ++ d) (lookupN n l) else lookupN n l.
Proof.
  intros n m d l. unfold app_assoc.
  etransitivity; [apply (lookupN_map_upd bytes n m (fun p => snd p ++ d) l)|].
  destruct (N.eqb_spec n m) as [->|]; [|reflexivity].
  unfold lookupN. destruct (find (fun p => fst p =? m) l); reflexivity.
Qed.

Lemma map_fst_map_upd A (m : N) (f : N * A -> A) (l : list (N * A)) :
  map fst (map (fun p => if fst p =? m then (m, f p) else p) l) = map fst l.
Proof.
  rewrite map_map. apply map_ext. intros p.
  destruct (N.eqb_spec (fst p) m); [cbn [fst]; congruence|reflexivity].
Qed.

Theorem map_fst_set_assoc_new : forall A (m : N) (x : A) l, ~ In m (map fst l) -> map fst (set_assoc m x l) = map fst l ++ [m].
Proof.
  intros A m x l H. unfold set_assoc. apply existsb_fst_not_in in H. rewrite H.
  rewrite map_app. reflexivity.
Qed.

Theorem map_fst_set_assoc_old : forall A (m : N) (x : A) l, In m (map fst l) -> map fst (set_assoc m x l) = map fst l.
Proof.
  intros A m x l H. unfold set_assoc. apply existsb_fst_in in H. rewrite H.
  apply (map_fst_map_upd A m (fun _ => x)).
Qed.

Theorem map_fst_set_assoc_in : forall A (m : N) (x : A) l k, In k (map fst (set_assoc m x l)) <-> k = m \/ In k (map fst l).
Proof.
  intros A m x l k.
  destruct (in_dec N.eq_dec m (map fst l)) as [H|H].
  - rewrite map_fst_set_assoc_old by assumption. split; [auto|]. intros [->|]; assumption.
  - rewrite map_fst_set_assoc_new by assumption. rewrite in_app_iff. cbn [In]. intuition.
Qed.

Theorem map_fst_del_assoc : forall A (m : N) (l : list (N * A)),
  map fst (del_assoc m l) = filter (fun k => negb (k =? m)) (map fst l).
Proof.
  intros A m l. unfold del_assoc. induction l as [|p l IH]; cbn [filter map]; [reflexivity|].
  destruct (fst p =? m); cbn [negb map]; [exact IH|]. f_equal. exact IH.
Qed.

Theorem map_fst_app_assoc : forall (m : N) d l, map fst (app_assoc m d l) = map fst l.
Proof.
  intros m d l. unfold app_assoc. apply (map_fst_map_upd bytes m (fun p => snd p ++ d)).
Qed.

Theorem nodup_set_assoc : forall A (m : N) (x : A) l, NoDup (map fst l) -> NoDup (map fst (set_assoc m x l)).
Proof.
  intros A m x l H.
  destruct (in_dec N.eq_dec m (map fst l)) as [Hin|Hin].
  - rewrite map_fst_set_assoc_old by assumption. exact H.
  - rewrite map_fst_set_assoc_new by assumption.
    eapply Permutation_NoDup; [apply Permutation_cons_append|]. constructor; assumption.
Qed.

Theorem nodup_del_assoc : forall A (m : N) (l : list (N * A)), NoDup (map fst l) -> NoDup (map fst (del_assoc m l)).
Proof.
  intros A m l H. rewrite map_fst_del_assoc. apply NoDup_filter. exact H.
Qed.

Print Assumptions parse_current_contents.
Print Assumptions sort_nums_ext.
Print Assumptions lookupN_set_assoc.
