(** Proofs about the ownership model at the granularity of the two system calls inside
    [FileSystem::lock_file] ([LockFd.v]): with the check after the flock (the name LOCK still refers
    to the inode_locked inode) there is a single owner in every interleaving of openers, closers and
    [destroy_database]; without it there is a schedule with two owners. *)
From Coq Require Import Lia.
From RainVerif.model Require Import LockFd.
Open Scope N_scope.

(** * The inductive invariant of the repaired variant

    at most one flock exists at all; when one exists it is on the inode the name LOCK refers to
    and its holder is the one open handle; when none exists no handle is open. An opener between
    its two system calls is not an open handle. *)
Definition flocks_ok (w : fworld) : Prop :=
  match fw_locks w with
  | [] => fw_open w = []
  | [(i, h)] => fw_cur w = Some i /\ fw_open w = [h]
  | _ :: _ :: _ => False
  end.

Definition fds_not_open (w : fworld) : Prop :=
  forall h, In h (fw_open w) -> ~ In h (map fst (fw_fds w)).

Definition finv (w : fworld) : Prop := flocks_ok w /\ fds_not_open w.

Lemma finv_init : finv fworld_init.
Proof. split; [reflexivity|]. intros h Hin. destruct Hin. Qed.

(** ** list helpers *)

Lemma existsb_fst_false (h : N) (l : list (N * N)) :
  existsb (fun p => fst p =? h) l = false <-> ~ In h (map fst l).
Proof.
  induction l as [|[x i] r IH]; cbn [existsb map In fst].
  - split; [intros _ Hf; exact Hf | reflexivity].
  - rewrite Bool.orb_false_iff, IH. destruct (N.eqb_spec x h) as [E|E].
    + split; [intros [Hd _]; discriminate | intros Hn; exfalso; apply Hn; left; exact E].
    + split.
      * intros [_ Hn] [Hc|Hc]; [exact (E Hc) | exact (Hn Hc)].
      * intros Hn. split; [reflexivity|]. intros Hc. apply Hn. right. exact Hc.
Qed.

Lemma existsb_eqb_false (h : N) (l : list N) :
  existsb (N.eqb h) l = false <-> ~ In h l.
Proof.
  induction l as [|x r IH]; cbn [existsb In].
  - split; [intros _ Hf; exact Hf | reflexivity].
  - rewrite Bool.orb_false_iff, IH. destruct (N.eqb_spec h x) as [E|E].
    + split; [intros [Hd _]; discriminate | intros Hn; exfalso; apply Hn; left; symmetry; exact E].
    + split.
      * intros [_ Hn] [Hc|Hc]; [exact (E (eq_sym Hc)) | exact (Hn Hc)].
      * intros Hn. split; [reflexivity|]. intros Hc. apply Hn. right. exact Hc.
Qed.

Lemma remove_fd_in (h h' : N) (l : list (N * N)) :
  In h' (map fst (remove_fd h l)) -> In h' (map fst l) /\ h' <> h.
Proof.
  unfold remove_fd. induction l as [|[x i] r IH]; cbn [filter map In fst].
  - intros Hf. destruct Hf.
  - destruct (N.eqb_spec x h) as [E|E]; cbn [negb map In fst].
    + intros Hin. destruct (IH Hin) as [Hr Hn]. split; [right; exact Hr | exact Hn].
    + intros [Hin|Hin].
      * subst h'. split; [left; reflexivity | exact E].
      * destruct (IH Hin) as [Hr Hn]. split; [right; exact Hr | exact Hn].
Qed.

Lemma remove_fd_absent (h : N) (l : list (N * N)) :
  ~ In h (map fst l) -> remove_fd h l = l.
Proof.
  unfold remove_fd. induction l as [|[x i] r IH]; cbn [filter map In fst]; intros Hn.
  - reflexivity.
  - destruct (N.eqb_spec x h) as [E|E]; cbn [negb].
    + exfalso. apply Hn. left. exact E.
    + rewrite IH; [reflexivity|]. intros Hc. apply Hn. right. exact Hc.
Qed.

Lemma lookup_fd_none (h : N) (l : list (N * N)) :
  lookup_fd h l = None <-> ~ In h (map fst l).
Proof.
  unfold lookup_fd. induction l as [|[x i] r IH]; cbn [find map In fst].
  - split; [intros _ Hf; exact Hf | reflexivity].
  - destruct (N.eqb_spec x h) as [E|E].
    + split; [discriminate | intros Hn; exfalso; apply Hn; left; exact E].
    + rewrite IH. split.
      * intros Hn [Hc|Hc]; [exact (E Hc) | exact (Hn Hc)].
      * intros Hn Hc. apply Hn. right. exact Hc.
Qed.

(** ** the two halves of [lock_file] preserve the invariant *)

Lemma f_open_fd_finv w h : finv w -> finv (fst (f_open_fd w h)).
Proof.
  destruct w as [c n lk fds op]. unfold finv, flocks_ok, fds_not_open, f_open_fd.
  cbn [fw_cur fw_next fw_locks fw_fds fw_open]. intros [Hl Hf].
  destruct (existsb (N.eqb h) op) eqn:Eo; cbn [orb fst]; [split; assumption|].
  destruct (existsb (fun p => fst p =? h) fds) eqn:Ef; cbn [fst]; [split; assumption|].
  apply existsb_eqb_false in Eo.
  assert (Hfds : forall i h', In h' op -> ~ In h' (map fst ((h, i) :: fds))).
  { intros i h' Hin [Hc|Hc]; cbn [fst] in Hc.
    - subst h'. exact (Eo Hin).
    - exact (Hf h' Hin Hc). }
  destruct c as [c|]; cbn [fst fw_cur fw_next fw_locks fw_fds fw_open].
  - split; [exact Hl | exact (Hfds c)].
  - split; [|exact (Hfds n)].
    destruct lk as [|[i0 h0] [|p r]]; [exact Hl | | exact Hl].
    destruct Hl as [Hc _]. discriminate.
Qed.

Lemma f_lock_finv w h : finv w -> finv (fst (f_lock true w h)).
Proof.
  destruct w as [c n lk fds op]. unfold finv, flocks_ok, fds_not_open, f_lock.
  cbn [fw_cur fw_next fw_locks fw_fds fw_open]. intros [Hl Hf].
  destruct (lookup_fd h fds) as [i|] eqn:El; cbn [fst]; [|split; assumption].
  assert (Hkeep : forall h', In h' op -> ~ In h' (map fst (remove_fd h fds))).
  { intros h' Hin Hc. apply remove_fd_in in Hc. exact (Hf h' Hin (proj1 Hc)). }
  destruct (inode_locked i lk) eqn:Elk; cbn [fst fw_cur fw_next fw_locks fw_fds fw_open];
    [split; assumption|].
  cbn [andb].
  destruct c as [c|]; cbn [negb fst fw_cur fw_next fw_locks fw_fds fw_open]; [|split; assumption].
  destruct (N.eqb_spec c i) as [E|E]; cbn [negb fst fw_cur fw_next fw_locks fw_fds fw_open];
    [|split; assumption].
  subst i. destruct lk as [|[i0 h0] [|p r]].
  - subst op. split; [split; reflexivity|].
    intros h' [Hin|Hin] Hc; [|destruct Hin]. subst h'.
    apply remove_fd_in in Hc. exact (proj2 Hc eq_refl).
  - exfalso. destruct Hl as [Hc _]. injection Hc as Hc. subst i0.
    cbn [inode_locked existsb fst] in Elk. rewrite N.eqb_refl in Elk. discriminate.
  - destruct Hl.
Qed.

Lemma fstep_finv w a : finv w -> finv (fst (fstep true w a)).
Proof.
  intros Hi. destruct a as [h | h | h | h | ]; cbn [fstep].
  - exact (f_open_fd_finv w h Hi).
  - exact (f_lock_finv w h Hi).
  - pose proof (f_open_fd_finv w h Hi) as Ho.
    destruct (f_open_fd w h) as [w' o]. cbn [fst] in Ho.
    destruct o; try exact Ho. exact (f_lock_finv w' h Ho).
  - destruct w as [c n lk fds op]. destruct Hi as [Hl Hf]. unfold finv, flocks_ok, fds_not_open in *.
    cbn [fw_cur fw_next fw_locks fw_fds fw_open] in *.
    destruct (existsb (N.eqb h) op); cbn [fst fw_cur fw_next fw_locks fw_fds fw_open];
      [|split; assumption].
    split.
    + destruct lk as [|[i0 h0] [|p r]]; [| |destruct Hl].
      * subst op. reflexivity.
      * destruct Hl as [Hc Hop]. subst op. cbn [filter snd].
        destruct (h0 =? h); cbn [negb]; [reflexivity | split; [exact Hc | reflexivity]].
    + intros h' Hin. apply filter_In in Hin. exact (Hf h' (proj1 Hin)).
  - destruct w as [c n lk fds op]. destruct Hi as [Hl Hf]. unfold finv, flocks_ok, fds_not_open in *.
    cbn [fw_cur fw_next fw_locks fw_fds fw_open] in *.
    destruct c as [c|]; [|split; assumption].
    destruct (inode_locked c lk) eqn:Elk; cbn [fst fw_cur fw_next fw_locks fw_fds fw_open];
      [split; assumption|].
    split; [|exact Hf].
    destruct lk as [|[i0 h0] [|p r]]; [exact Hl | | exact Hl].
    exfalso. destruct Hl as [Hc _]. injection Hc as Hc. subst i0.
    cbn [inode_locked existsb fst] in Elk. rewrite N.eqb_refl in Elk. discriminate.
Qed.

Lemma frun_finv acts : forall w, finv w -> finv (fst (frun true w acts)).
Proof.
  induction acts as [|a r IH]; intros w Hi; cbn [frun fst].
  - exact Hi.
  - apply IH. apply fstep_finv. exact Hi.
Qed.

(** states reachable from the initial world by any interleaving *)
Definition freach (b : bool) (w : fworld) : Prop := exists acts, w = fst (frun b fworld_init acts).

Lemma freach_finv w : freach true w -> finv w.
Proof. intros [acts ->]. apply frun_finv. exact finv_init. Qed.

(** ** what the invariant says *)

Lemma finv_one_owner w : finv w -> f_one_owner w.
Proof.
  unfold finv, flocks_ok, f_one_owner. intros [Hl _].
  destruct (fw_locks w) as [|[i0 h0] [|p r]]; [| |destruct Hl].
  - rewrite Hl. cbn [length]. lia.
  - destruct Hl as [_ Hop]. rewrite Hop. cbn [length]. lia.
Qed.

(** the open handle holds the only flock there is, and it is on the inode LOCK names *)
Lemma finv_open_lock w h : finv w -> fw_open w = [h] ->
  exists i, fw_cur w = Some i /\ fw_locks w = [(i, h)].
Proof.
  unfold finv, flocks_ok. intros [Hl _] Hop.
  destruct (fw_locks w) as [|[i0 h0] [|p r]]; [| |destruct Hl].
  - rewrite Hop in Hl. discriminate.
  - destruct Hl as [Hc Hop']. rewrite Hop in Hop'. injection Hop' as Hh. subst h0.
    exists i0. split; [exact Hc | reflexivity].
Qed.

(** no handle open: nobody holds a flock on any inode, named or not *)
Lemma finv_closed_no_lock w : finv w -> fw_open w = [] -> fw_locks w = [].
Proof.
  unfold finv, flocks_ok. intros [Hl _] Hop.
  destruct (fw_locks w) as [|[i0 h0] [|p r]]; [reflexivity | | destruct Hl].
  destruct Hl as [_ Hop']. rewrite Hop in Hop'. discriminate.
Qed.

(** the invariant in the form of separate facts *)
Lemma finv_facts w : finv w ->
  (forall h, In h (fw_open w) -> exists i, fw_cur w = Some i /\ In (i, h) (fw_locks w)) /\
  (forall i h, In (i, h) (fw_locks w) -> In h (fw_open w) /\ fw_cur w = Some i) /\
  NoDup (map fst (fw_locks w)) /\
  NoDup (fw_open w) /\
  (forall h, In h (fw_open w) -> lookup_fd h (fw_fds w) = None).
Proof.
  intros Hi. pose proof Hi as [Hl Hf]. unfold flocks_ok in Hl.
  assert (Hlast : forall h, In h (fw_open w) -> lookup_fd h (fw_fds w) = None).
  { intros h Hin. apply lookup_fd_none. exact (Hf h Hin). }
  destruct (fw_locks w) as [|[i0 h0] [|p r]]; [| |destruct Hl].
  - rewrite Hl in *. split; [|split; [|split; [|split]]].
    + intros h Hin. destruct Hin.
    + intros i h Hin. destruct Hin.
    + constructor.
    + constructor.
    + exact Hlast.
  - destruct Hl as [Hc Hop]. rewrite Hop in *. split; [|split; [|split; [|split]]].
    + intros h [Hin|Hin]; [|destruct Hin]. subst h. exists i0. split; [exact Hc | left; reflexivity].
    + intros i h [Hin|Hin]; [|destruct Hin]. injection Hin as Hii Hh. subst i h.
      split; [left; reflexivity | exact Hc].
    + cbn [map fst]. constructor; [intros Hin; destruct Hin | constructor].
    + constructor; [intros Hin; destruct Hin | constructor].
    + exact Hlast.
Qed.

(** * Single owner in every interleaving (repaired variant) *)
Theorem lockfd_single_owner acts : f_one_owner (fst (frun true fworld_init acts)).
Proof. apply finv_one_owner, frun_finv, finv_init. Qed.

(** ** ... and in every state on the way *)

Lemma frun_app b acts1 : forall w acts2,
  fst (frun b w (acts1 ++ acts2)) = fst (frun b (fst (frun b w acts1)) acts2).
Proof.
  induction acts1 as [|a r IH]; intros w acts2; cbn [app frun fst].
  - reflexivity.
  - apply IH.
Qed.

Theorem lockfd_single_owner_prefix acts n :
  f_one_owner (fst (frun true fworld_init (firstn n acts))).
Proof. apply lockfd_single_owner. Qed.

(** the states a run goes through, the first and the last one included *)
Fixpoint ftrace (b : bool) (w : fworld) (acts : list lf_act) : list fworld :=
  match acts with
  | [] => [w]
  | a :: r => w :: ftrace b (fst (fstep b w a)) r
  end.

Lemma ftrace_length b acts : forall w, length (ftrace b w acts) = S (length acts).
Proof.
  induction acts as [|a r IH]; intros w; cbn [ftrace length]; [reflexivity|].
  rewrite IH. reflexivity.
Qed.

(** the trace is the list of the states reached after the prefixes of the schedule *)
Lemma ftrace_nth b acts : forall w n, (n <= length acts)%nat ->
  nth_error (ftrace b w acts) n = Some (fst (frun b w (firstn n acts))).
Proof.
  induction acts as [|a r IH]; intros w n Hn; cbn [length] in Hn.
  - assert (n = 0%nat) as -> by lia. reflexivity.
  - destruct n as [|n]; cbn [ftrace nth_error firstn frun fst]; [reflexivity|].
    apply IH. lia.
Qed.

Lemma ftrace_last b acts : forall w d, last (ftrace b w acts) d = fst (frun b w acts).
Proof.
  induction acts as [|a r IH]; intros w d; [reflexivity|].
  cbn [frun fst]. rewrite <- (IH (fst (fstep b w a)) d). cbn [ftrace].
  destruct (ftrace b (fst (fstep b w a)) r) as [|x l] eqn:E; [|reflexivity].
  pose proof (ftrace_length b r (fst (fstep b w a))) as Hlen. rewrite E in Hlen. discriminate.
Qed.

Lemma ftrace_finv acts : forall w, finv w -> Forall finv (ftrace true w acts).
Proof.
  induction acts as [|a r IH]; intros w Hi; cbn [ftrace].
  - constructor; [exact Hi | constructor].
  - constructor; [exact Hi|]. apply IH. apply fstep_finv. exact Hi.
Qed.

Theorem lockfd_single_owner_always acts :
  Forall f_one_owner (ftrace true fworld_init acts).
Proof.
  eapply Forall_impl; [exact finv_one_owner|]. apply ftrace_finv. exact finv_init.
Qed.

(** * Exclusion while a handle is open (repaired variant) *)

Lemma fworld_eta w : mkFW (fw_cur w) (fw_next w) (fw_locks w) (fw_fds w) (fw_open w) = w.
Proof. destruct w. reflexivity. Qed.

(** a second opener is refused and leaves nothing behind *)
Theorem lockfd_open_refused_while_open w h0 h :
  finv w -> fw_open w = [h0] -> h <> h0 -> ~ In h (map fst (fw_fds w)) ->
  fstep true w (LfOpen h) = (w, LfErr).
Proof.
  intros Hi Hop Hne Hnf. destruct (finv_open_lock w h0 Hi Hop) as [i [Hc Hl]].
  cbn [fstep]. unfold f_open_fd. rewrite Hop, Hc. cbn [existsb].
  destruct (N.eqb_spec h h0) as [E|_]; [contradiction|]. cbn [orb].
  rewrite (proj2 (existsb_fst_false h (fw_fds w)) Hnf).
  unfold f_lock. cbn [fw_cur fw_next fw_locks fw_fds fw_open].
  unfold lookup_fd. cbn [find fst snd]. rewrite N.eqb_refl.
  rewrite Hl. cbn [inode_locked existsb fst]. rewrite N.eqb_refl. cbn [orb].
  unfold remove_fd. cbn [filter fst]. rewrite N.eqb_refl. cbn [negb].
  fold (remove_fd h (fw_fds w)). rewrite (remove_fd_absent h (fw_fds w) Hnf).
  rewrite <- Hl, <- Hc, <- Hop. rewrite fworld_eta. reflexivity.
Qed.

(** an opener that had opened LOCK before (whichever inode it got) fails in its second half *)
Theorem lockfd_lock_refused_while_open w h0 h i :
  finv w -> fw_open w = [h0] -> lookup_fd h (fw_fds w) = Some i ->
  fstep true w (LfLock h) =
    (mkFW (fw_cur w) (fw_next w) (fw_locks w) (remove_fd h (fw_fds w)) (fw_open w), LfErr).
Proof.
  intros Hi Hop Hfd. destruct (finv_open_lock w h0 Hi Hop) as [c [Hc Hl]].
  cbn [fstep]. unfold f_lock. rewrite Hfd, Hl, Hc. cbn [inode_locked existsb fst]. rewrite Bool.orb_false_r.
  rewrite (N.eqb_sym c i). destruct (i =? c); cbn [negb andb]; reflexivity.
Qed.

(** [destroy_database] fails and changes nothing *)
Theorem lockfd_destroy_refused_while_open w h0 :
  finv w -> fw_open w = [h0] -> fstep true w LfDestroy = (w, LfErr).
Proof.
  intros Hi Hop. destruct (finv_open_lock w h0 Hi Hop) as [c [Hc Hl]].
  cbn [fstep]. rewrite Hc, Hl. cbn [inode_locked existsb fst]. rewrite N.eqb_refl. reflexivity.
Qed.

Theorem lockfd_refused_while_open w h0 :
  finv w -> fw_open w = [h0] ->
  (forall h, h <> h0 -> ~ In h (map fst (fw_fds w)) ->
     snd (fstep true w (LfOpen h)) = LfErr /\ fw_open (fst (fstep true w (LfOpen h))) = fw_open w /\
     fst (fstep true w (LfOpen h)) = w) /\
  (forall h i, lookup_fd h (fw_fds w) = Some i ->
     snd (fstep true w (LfLock h)) = LfErr /\ fw_open (fst (fstep true w (LfLock h))) = fw_open w /\
     fw_locks (fst (fstep true w (LfLock h))) = fw_locks w /\
     fw_cur (fst (fstep true w (LfLock h))) = fw_cur w) /\
  snd (fstep true w LfDestroy) = LfErr /\ fst (fstep true w LfDestroy) = w.
Proof.
  intros Hi Hop. split; [|split].
  - intros h Hne Hnf. rewrite (lockfd_open_refused_while_open w h0 h Hi Hop Hne Hnf).
    repeat split.
  - intros h i Hfd. rewrite (lockfd_lock_refused_while_open w h0 h i Hi Hop Hfd).
    repeat split.
  - rewrite (lockfd_destroy_refused_while_open w h0 Hi Hop). split; reflexivity.
Qed.

(** the hypotheses are satisfiable, with a pending opener on the current and one on a stale inode *)
Example refused_hyps_sat :
  let w := fst (frun true fworld_init [LfOpenFd 3; LfDestroy; LfOpen 1; LfOpenFd 4]) in
  finv w /\ fw_open w = [1] /\ lookup_fd 3 (fw_fds w) = Some 0 /\ lookup_fd 4 (fw_fds w) = Some 1 /\
  fw_cur w = Some 1 /\ ~ In 2 (map fst (fw_fds w)).
Proof.
  split; [apply frun_finv, finv_init|]. vm_compute. repeat split; try reflexivity.
  intros [H|[H|H]]; [discriminate H | discriminate H | exact H].
Qed.

(** * The pinned code is refuted *)

(** opener 1 opens LOCK; destroy_database runs from start to end (the flock is free) and unlinks
    LOCK; opener 2 creates a new LOCK and locks it; opener 1 locks the inode it had opened *)
Definition fd_race_schedule : list lf_act := [LfOpenFd 1; LfDestroy; LfOpen 2; LfLock 1].

Theorem lockfd_pinned_two_owners :
  ~ f_one_owner (fst (frun false fworld_init fd_race_schedule)) /\
  snd (frun false fworld_init fd_race_schedule) = [LfParked; LfOk; LfOk; LfOk] /\
  fw_open (fst (frun false fworld_init fd_race_schedule)) = [1; 2] /\
  (* handle 1 holds a flock on inode 0, which has no name; LOCK is inode 1 *)
  fw_locks (fst (frun false fworld_init fd_race_schedule)) = [(0, 1); (1, 2)] /\
  fw_cur (fst (frun false fworld_init fd_race_schedule)) = Some 1.
Proof.
  split; [intros H; vm_compute in H; lia|].
  vm_compute. repeat split.
Qed.

Theorem lockfd_pinned_refuted :
  exists acts, ~ f_one_owner (fst (frun false fworld_init acts)).
Proof. exists fd_race_schedule. exact (proj1 lockfd_pinned_two_owners). Qed.

Example lockfd_repaired_on_race_schedule :
  snd (frun true fworld_init fd_race_schedule) = [LfParked; LfOk; LfOk; LfErr] /\
  fw_open (fst (frun true fworld_init fd_race_schedule)) = [2] /\
  fw_locks (fst (frun true fworld_init fd_race_schedule)) = [(1, 2)] /\
  fw_fds (fst (frun true fworld_init fd_race_schedule)) = [].
Proof. vm_compute. repeat split. Qed.

(** * Two racing openers, no destroy: exactly one wins *)

(** all ways of merging two sequences, each kept in its order *)
Fixpoint interleave {A : Type} (l1 : list A) : list A -> list (list A) :=
  fix aux (l2 : list A) : list (list A) :=
    match l1 with
    | [] => [l2]
    | x :: r1 =>
        match l2 with
        | [] => [l1]
        | y :: r2 => map (cons x) (interleave r1 l2) ++ map (cons y) (aux r2)
        end
    end.

Definition race_orders (a b : N) : list (list lf_act) :=
  interleave [LfOpenFd a; LfLock a] [LfOpenFd b; LfLock b].

Example race_orders_six a b :
  race_orders a b =
    [ [LfOpenFd a; LfLock a; LfOpenFd b; LfLock b];
      [LfOpenFd a; LfOpenFd b; LfLock a; LfLock b];
      [LfOpenFd a; LfOpenFd b; LfLock b; LfLock a];
      [LfOpenFd b; LfOpenFd a; LfLock a; LfLock b];
      [LfOpenFd b; LfOpenFd a; LfLock b; LfLock a];
      [LfOpenFd b; LfLock b; LfOpenFd a; LfLock a] ].
Proof. reflexivity. Qed.

(** the answers to the second halves, in schedule order *)
Fixpoint lock_outs (acts : list lf_act) (outs : list lf_out) : list (N * lf_out) :=
  match acts, outs with
  | LfLock h :: r, o :: s => (h, o) :: lock_outs r s
  | _ :: r, _ :: s => lock_outs r s
  | _, _ => []
  end.

Definition lock_oks (acts : list lf_act) (outs : list lf_out) : nat :=
  length (filter (fun p => match snd p with LfOk => true | _ => false end) (lock_outs acts outs)).

(** whoever locks first wins, the other one gets an error; nothing is left pending *)
Theorem lockfd_race_outcome w a b acts :
  finv w -> fw_open w = [] -> fw_fds w = [] -> a <> b -> In acts (race_orders a b) ->
  exists win lose,
    (win = a /\ lose = b \/ win = b /\ lose = a) /\
    lock_outs acts (snd (frun true w acts)) = [(win, LfOk); (lose, LfErr)] /\
    fw_open (fst (frun true w acts)) = [win] /\
    fw_fds (fst (frun true w acts)) = [].
Proof.
  intros Hi Hop Hfds Hne Hin.
  pose proof (finv_closed_no_lock w Hi Hop) as Hl.
  destruct w as [c n lk fds op]. cbn [fw_locks fw_fds fw_open] in *. subst lk fds op.
  assert (Hab : (a =? b) = false) by (apply N.eqb_neq; exact Hne).
  assert (Hba : (b =? a) = false) by (apply N.eqb_neq; intros E; exact (Hne (eq_sym E))).
  rewrite race_orders_six in Hin.
  destruct Hin as [<-|[<-|[<-|[<-|[<-|[<-|[]]]]]]];
    destruct c as [c|];
    repeat (progress (cbv delta [f_open_fd f_lock lookup_fd inode_locked remove_fd];
                      cbn [frun fstep find filter existsb orb andb negb fst snd
                           fw_cur fw_next fw_locks fw_fds fw_open lock_outs];
                      rewrite ?N.eqb_refl, ?Hab, ?Hba));
    first [ exists a, b; split; [left; split; reflexivity | repeat split; reflexivity]
          | exists b, a; split; [right; split; reflexivity | repeat split; reflexivity] ].
Qed.

Theorem lockfd_race_one_winner w a b acts :
  finv w -> fw_open w = [] -> fw_fds w = [] -> a <> b -> In acts (race_orders a b) ->
  lock_oks acts (snd (frun true w acts)) = 1%nat /\
  length (lock_outs acts (snd (frun true w acts))) = 2%nat /\
  length (fw_open (fst (frun true w acts))) = 1%nat.
Proof.
  intros Hi Hop Hfds Hne Hin.
  destruct (lockfd_race_outcome w a b acts Hi Hop Hfds Hne Hin) as [win [lose [_ [Ho [Hw _]]]]].
  unfold lock_oks. rewrite Ho, Hw. repeat split.
Qed.

(** the hypotheses hold initially and after an owner came and went *)
Example race_hyps_sat :
  (finv fworld_init /\ fw_open fworld_init = [] /\ fw_fds fworld_init = []) /\
  let w := fst (frun true fworld_init [LfOpen 7; LfClose 7]) in
  finv w /\ fw_open w = [] /\ fw_fds w = [] /\ fw_cur w = Some 0.
Proof.
  split; [split; [exact finv_init | split; reflexivity]|].
  split; [apply frun_finv, finv_init|]. vm_compute. repeat split.
Qed.

(** with a destroy between the two halves of the first opener the race is still decided for exactly
    one of them, but no longer for whoever locks first: the opener holding the unlinked inode is
    refused, the one that created the new LOCK wins *)
Example race_with_destroy :
  snd (frun true fworld_init [LfOpenFd 1; LfDestroy; LfOpenFd 2; LfLock 1; LfLock 2]) =
    [LfParked; LfOk; LfParked; LfErr; LfOk] /\
  snd (frun true fworld_init [LfOpenFd 1; LfDestroy; LfOpenFd 2; LfLock 2; LfLock 1]) =
    [LfParked; LfOk; LfParked; LfOk; LfErr].
Proof. vm_compute. split; reflexivity. Qed.

Print Assumptions fstep_finv.
Print Assumptions frun_finv.
Print Assumptions lockfd_single_owner.
Print Assumptions lockfd_single_owner_prefix.
Print Assumptions lockfd_single_owner_always.
Print Assumptions lockfd_refused_while_open.
Print Assumptions lockfd_pinned_refuted.
Print Assumptions lockfd_repaired_on_race_schedule.
Print Assumptions lockfd_race_outcome.
Print Assumptions lockfd_race_one_winner.
