(** Proofs about the bloom filter policy model ([model/Bloom.v]): no false negatives. *)
From Coq Require Import Lia ZArith ZifyN ZifyBool ZifyNat Arith.
From RainVerif Require Import Params.
From RainVerif.model Require Import Bytes Bloom.
Open Scope N_scope.
Ltac Zify.zify_post_hook ::= Z.div_mod_to_equations.
Arguments N.add : simpl never.
Arguments N.sub : simpl never.
Arguments N.mul : simpl never.
Arguments N.div : simpl never.
Arguments N.modulo : simpl never.
Arguments N.eqb : simpl never.
Arguments N.ltb : simpl never.
Arguments N.leb : simpl never.
Arguments N.pow : simpl never.
Arguments N.of_nat : simpl never.
Arguments N.to_nat : simpl never.

(** * [update_nth] *)

Lemma update_nth_length i f l : length (update_nth i f l) = length l.
Proof.
  revert i. induction l as [|x r IH]; intros i; destruct i; cbn [update_nth length]; auto.
Qed.

Lemma nth_update_nth_eq i f l d :
  (i < length l)%nat -> nth i (update_nth i f l) d = f (nth i l d).
Proof.
  revert i. induction l as [|x r IH]; intros i Hi; cbn [length] in Hi.
  - lia.
  - destruct i as [|i']; cbn [update_nth nth].
    + reflexivity.
    + apply IH. lia.
Qed.

Lemma nth_update_nth_neq i j f l d :
  i <> j -> nth j (update_nth i f l) d = nth j l d.
Proof.
  revert i j. induction l as [|x r IH]; intros i j Hij.
  - destruct i; reflexivity.
  - destruct i as [|i']; destruct j as [|j']; cbn [update_nth nth]; try reflexivity.
    + congruence.
    + apply IH. congruence.
Qed.

(** * [set_bit] / [test_bit] *)

Lemma set_bit_length arr b : length (set_bit arr b) = length arr.
Proof. unfold set_bit. apply update_nth_length. Qed.

Lemma pow2_neq_0 n : 2 ^ n <> 0.
Proof. apply N.pow_nonzero. discriminate. Qed.

Lemma land_lor_pow2_same x n : N.land (N.lor x (2 ^ n)) (2 ^ n) <> 0.
Proof.
  intros H.
  assert (Ht : N.testbit (N.land (N.lor x (2 ^ n)) (2 ^ n)) n = true).
  { rewrite N.land_spec, N.lor_spec, N.pow2_bits_true. rewrite orb_true_r. reflexivity. }
  rewrite H in Ht. rewrite N.bits_0 in Ht. discriminate.
Qed.

Lemma land_lor_mono x p q : N.land x q <> 0 -> N.land (N.lor x p) q <> 0.
Proof.
  intros H H0. rewrite N.land_lor_distr_l in H0.
  apply N.lor_eq_0_iff in H0. tauto.
Qed.

Lemma test_bit_true_iff arr b :
  test_bit arr b = true <-> N.land (nth (N.to_nat (b / 8)) arr 0) (2 ^ (b mod 8)) <> 0.
Proof.
  unfold test_bit. rewrite negb_true_iff, N.eqb_neq. tauto.
Qed.

Lemma test_bit_in_range arr b :
  test_bit arr b = true -> (N.to_nat (b / 8) < length arr)%nat.
Proof.
  intros H. apply test_bit_true_iff in H.
  destruct (Nat.lt_ge_cases (N.to_nat (b / 8)) (length arr)) as [Hlt|Hge]; [assumption|].
  rewrite nth_overflow in H by assumption. rewrite N.land_0_l in H. congruence.
Qed.

Lemma test_bit_set_same arr b :
  (N.to_nat (b / 8) < length arr)%nat -> test_bit (set_bit arr b) b = true.
Proof.
  intros Hb. apply test_bit_true_iff. unfold set_bit.
  rewrite nth_update_nth_eq by assumption.
  apply land_lor_pow2_same.
Qed.

Lemma test_bit_set_mono arr b b' :
  test_bit arr b' = true -> test_bit (set_bit arr b) b' = true.
Proof.
  intros H. pose proof (test_bit_in_range _ _ H) as Hr.
  apply test_bit_true_iff in H. apply test_bit_true_iff. unfold set_bit.
  destruct (Nat.eq_dec (N.to_nat (b / 8)) (N.to_nat (b' / 8))) as [Heq|Hne].
  - rewrite Heq. rewrite nth_update_nth_eq by assumption.
    apply land_lor_mono. assumption.
  - rewrite nth_update_nth_neq by assumption. assumption.
Qed.

(** * probes *)

Section BLOOMPROOFS.
Variable hash : bytes -> N.

Lemma probe_set_length k m h d arr : length (probe_set k m h d arr) = length arr.
Proof.
  revert h arr. induction k as [|k IH]; intros h arr; cbn [probe_set].
  - reflexivity.
  - rewrite IH. apply set_bit_length.
Qed.

Lemma probe_set_mono k m h d arr b :
  test_bit arr b = true -> test_bit (probe_set k m h d arr) b = true.
Proof.
  revert h arr. induction k as [|k IH]; intros h arr H; cbn [probe_set].
  - assumption.
  - apply IH. apply test_bit_set_mono. assumption.
Qed.

(** every bit position below [m] lies inside the array *)
Definition covers (m : N) (arr : bytes) : Prop := m <> 0 /\ m <= 8 * blen arr.

Lemma covers_in_range m arr h :
  covers m arr -> (N.to_nat ((h mod m) / 8) < length arr)%nat.
Proof.
  unfold covers, blen. intros [Hm Hle].
  pose proof (N.mod_upper_bound h m Hm) as Hlt. lia.
Qed.

Lemma covers_same_length m arr arr' :
  length arr' = length arr -> covers m arr -> covers m arr'.
Proof. unfold covers, blen. intros -> H. exact H. Qed.

Lemma probe_set_test k m h d arr arr' :
  covers m arr ->
  (forall b, test_bit (probe_set k m h d arr) b = true -> test_bit arr' b = true) ->
  probe_test k m h d arr' = true.
Proof.
  revert h arr. induction k as [|k IH]; intros h arr Hc Hsub; cbn [probe_test].
  - reflexivity.
  - cbn [probe_set] in Hsub.
    assert (Hb : test_bit arr' (h mod m) = true).
    { apply Hsub. apply probe_set_mono. apply test_bit_set_same.
      apply covers_in_range. assumption. }
    rewrite Hb.
    apply IH with (arr := set_bit arr (h mod m)).
    + apply covers_same_length with (arr := arr); [apply set_bit_length|assumption].
    + assumption.
Qed.

Lemma probe_test_le k k' m h d arr :
  (k' <= k)%nat -> probe_test k m h d arr = true -> probe_test k' m h d arr = true.
Proof.
  revert k' h. induction k as [|k IH]; intros k' h Hle H.
  - assert (k' = 0%nat) by lia. subst. reflexivity.
  - destruct k' as [|k'']; [reflexivity|].
    cbn [probe_test] in *.
    destruct (test_bit arr (h mod m)); [|discriminate].
    apply IH; [lia|assumption].
Qed.

Lemma add_key_length k m arr key : length (add_key hash k m arr key) = length arr.
Proof. unfold add_key. apply probe_set_length. Qed.

Lemma fold_add_key_length k m keys arr :
  length (fold_left (add_key hash k m) keys arr) = length arr.
Proof.
  revert arr. induction keys as [|a keys IH]; intros arr; cbn [fold_left].
  - reflexivity.
  - rewrite IH. apply add_key_length.
Qed.

Lemma fold_add_key_mono k m keys arr b :
  test_bit arr b = true -> test_bit (fold_left (add_key hash k m) keys arr) b = true.
Proof.
  revert arr. induction keys as [|a keys IH]; intros arr H; cbn [fold_left].
  - assumption.
  - apply IH. unfold add_key. apply probe_set_mono. assumption.
Qed.

Lemma fold_add_key_test k m keys arr key :
  covers m arr -> In key keys ->
  probe_test k m (w32 (hash key)) (bloom_delta (w32 (hash key)))
    (fold_left (add_key hash k m) keys arr) = true.
Proof.
  revert arr. induction keys as [|a keys IH]; intros arr Hc Hin.
  - destruct Hin.
  - cbn [fold_left]. destruct Hin as [Heq|Hin].
    + subst a. apply probe_set_test with (arr := arr); [assumption|].
      intros b Hb. apply fold_add_key_mono. exact Hb.
    + apply IH; [|assumption].
      apply covers_same_length with (arr := arr); [apply add_key_length|assumption].
Qed.

(** * [create_filter] / [key_may_match] *)

Lemma filter_bits_ge_64 bpk n : 64 <= filter_bits bpk n.
Proof.
  unfold filter_bits. destruct (n * bpk <? 64) eqn:Hlt; lia.
Qed.

Lemma filter_bits_mult8 bpk n : filter_bits bpk n / 8 * 8 = filter_bits bpk n.
Proof.
  unfold filter_bits. destruct (n * bpk <? 64) eqn:Hlt; lia.
Qed.

Lemma filter_bits_upper bpk n : filter_bits bpk n <= n * bpk + 71.
Proof.
  unfold filter_bits. destruct (n * bpk <? 64) eqn:Hlt; lia.
Qed.

Lemma zeros_length n : length (zeros n) = n.
Proof. induction n as [|n IH]; cbn [zeros length]; congruence. Qed.

(** the modulus is non-zero (and creation does not panic) when the [as u32] truncation of the
    bit count is the identity *)
Lemma create_filter_some k bpk keys :
  filter_bits bpk (N.of_nat (length keys)) < 4294967296 ->
  exists filter, create_filter hash k bpk keys = Some filter.
Proof.
  intros Hlt. unfold create_filter.
  pose proof (filter_bits_ge_64 bpk (N.of_nat (length keys))) as Hge.
  set (bits := filter_bits bpk (N.of_nat (length keys))) in *.
  assert (Hm : w32 bits = bits) by (unfold w32; lia).
  rewrite Hm.
  destruct (bits =? 0) eqn:Hz; [lia|].
  eexists. reflexivity.
Qed.

Lemma create_filter_nonempty k bpk keys filter :
  create_filter hash k bpk keys = Some filter -> (9 <= length filter)%nat.
Proof.
  unfold create_filter.
  pose proof (filter_bits_ge_64 bpk (N.of_nat (length keys))) as Hge.
  set (bits := filter_bits bpk (N.of_nat (length keys))) in *.
  destruct (w32 bits =? 0) eqn:Hz; [discriminate|].
  intros H. injection H as <-.
  cbn [length]. rewrite fold_add_key_length, zeros_length. lia.
Qed.

Lemma key_may_match_cons key k arr :
  arr <> [] ->
  key_may_match hash key (k :: arr) =
  if (w32 (blen arr * 8) =? 0) && negb (k =? 0) then MPanic
  else MOk (probe_test (N.to_nat k) (w32 (blen arr * 8)) (w32 (hash key))
              (bloom_delta (w32 (hash key))) arr).
Proof. destruct arr as [|a r]; [congruence|reflexivity]. Qed.

(** Strong form: needs neither [k < 256] nor the no-truncation hypothesis, only that creation
    did not panic.  (The filter stores [k mod 256 <= k] probes and creation and lookup agree on
    the truncated modulus.) *)
Theorem bloom_no_false_negative_strong k bpk keys key filter :
  create_filter hash k bpk keys = Some filter ->
  In key keys ->
  key_may_match hash key filter = MOk true.
Proof.
  unfold create_filter.
  pose proof (filter_bits_ge_64 bpk (N.of_nat (length keys))) as Hge.
  pose proof (filter_bits_mult8 bpk (N.of_nat (length keys))) as Hm8.
  set (bits := filter_bits bpk (N.of_nat (length keys))) in *.
  destruct (w32 bits =? 0) eqn:Hz; [discriminate|].
  intros H Hin. injection H as <-.
  set (m := w32 bits) in *.
  set (arr0 := zeros (N.to_nat (bits / 8))).
  set (arr := fold_left (add_key hash (N.to_nat k) m) keys arr0).
  assert (Hlen0 : length arr0 = N.to_nat (bits / 8)) by apply zeros_length.
  assert (Hlen : length arr = N.to_nat (bits / 8)).
  { unfold arr. rewrite fold_add_key_length. exact Hlen0. }
  assert (Hc : covers m arr0).
  { unfold covers, blen. rewrite Hlen0. split; [lia|]. unfold m, w32. lia. }
  assert (Hblen : blen arr * 8 = bits).
  { unfold blen. rewrite Hlen. lia. }
  rewrite key_may_match_cons by (destruct arr; [cbn [length] in Hlen; lia|discriminate]).
  rewrite Hblen. fold m. rewrite Hz. cbn [andb].
  f_equal.
  apply probe_test_le with (k := N.to_nat k).
  - pose proof (N.mod_le k 256). lia.
  - unfold arr. apply fold_add_key_test; assumption.
Qed.

Theorem bloom_no_false_negative k bpk keys key filter :
  k < 256 ->
  filter_bits bpk (N.of_nat (length keys)) < 4294967296 ->
  create_filter hash k bpk keys = Some filter ->
  In key keys ->
  key_may_match hash key filter = MOk true.
Proof.
  intros _ _. apply bloom_no_false_negative_strong.
Qed.

End BLOOMPROOFS.

(** * the instance used by raindb *)

Lemma num_probes_le_30 bpk : num_probes bpk <= 30.
Proof.
  unfold num_probes.
  destruct (bpk * 69 / 100 <? 1) eqn:H1; [lia|].
  destruct (30 <? bpk * 69 / 100) eqn:H2; lia.
Qed.

Lemma num_probes_ge_1 bpk : 1 <= num_probes bpk.
Proof.
  unfold num_probes.
  destruct (bpk * 69 / 100 <? 1) eqn:H1; [lia|].
  destruct (30 <? bpk * 69 / 100) eqn:H2; lia.
Qed.

Theorem bloom_policy_sound bpk keys key filter :
  bloom_create bpk keys = Some filter ->
  In key keys ->
  bloom_match key filter = MOk true.
Proof.
  unfold bloom_create, bloom_match. apply bloom_no_false_negative_strong.
Qed.

Theorem bloom_policy bpk keys key filter :
  filter_bits bpk (N.of_nat (length keys)) < 4294967296 ->
  bloom_create bpk keys = Some filter ->
  In key keys ->
  bloom_match key filter = MOk true.
Proof.
  intros Hb. unfold bloom_create, bloom_match.
  apply bloom_no_false_negative; [|assumption].
  pose proof (num_probes_le_30 bpk). lia.
Qed.

Lemma bloom_create_some bpk keys :
  filter_bits bpk (N.of_nat (length keys)) < 4294967296 ->
  exists filter, bloom_create bpk keys = Some filter.
Proof. unfold bloom_create. apply create_filter_some. Qed.

Lemma bloom_create_nonempty bpk keys filter :
  bloom_create bpk keys = Some filter -> (9 <= length filter)%nat.
Proof. unfold bloom_create. apply create_filter_nonempty. Qed.
