(** Non-vacuity of the persistence protocol model ([model/Proto.v], [model/Recover.v]) and of the
    side conditions of the crash safety theorem ([ProtoSteps.run_ok], [ProtoSteps.crash_k]): concrete
    runs, checked by computation at EVERY crash point (every prefix of the file operations, the last
    one whole or torn at several byte counts). Every statement is closed and proved by
    [vm_compute; reflexivity]. No axioms. *)
From Coq Require Import List NArith Bool Arith.
Import ListNotations.
From RainVerif Require Import Params.
From RainVerif.model Require Import Bytes Key Block Crc Log Table TableSpec Version Lsm DbSpec Codec WalModel Gc Recover Proto.
From RainVerif.proofs Require Import ContentsProofs ProtoDurable ProtoSteps ProtoOpen ProtoInstall.
Open Scope N_scope.

(** * boolean equalities *)
Fixpoint list_eqb {A} (eqb : A -> A -> bool) (a b : list A) : bool :=
  match a, b with
  | [], [] => true
  | x :: a', y :: b' => eqb x y && list_eqb eqb a' b'
  | _, _ => false
  end.

Definition opt_eqb {A} (eqb : A -> A -> bool) (a b : option A) : bool :=
  match a, b with
  | None, None => true
  | Some x, Some y => eqb x y
  | _, _ => false
  end.

Definition kv_eqb (a b : kv) : bool := bytes_eqb (fst a) (fst b) && bytes_eqb (snd a) (snd b).
Definition kvs_eqb : list kv -> list kv -> bool := list_eqb kv_eqb.

Definition wop_eqb (a b : wop) : bool :=
  match a, b with
  | WPut k v, WPut k' v' => bytes_eqb k k' && bytes_eqb v v'
  | WDel k, WDel k' => bytes_eqb k k'
  | _, _ => false
  end.
Definition batch_eqb (a b : batch) : bool := (fst a =? fst b) && list_eqb wop_eqb (snd a) (snd b).
Definition fmeta_eqb (a b : fmeta) : bool :=
  (fm_num a =? fm_num b) && (fm_size a =? fm_size b) && ikey_eqb (fm_small a) (fm_small b)
  && ikey_eqb (fm_large a) (fm_large b).
Definition ptr_eqb (a b : N * ikey) : bool := (fst a =? fst b) && ikey_eqb (snd a) (snd b).
Definition ms_eqb (a b : manifest_state) : bool :=
  (ms_number a =? ms_number b) && list_eqb (list_eqb fmeta_eqb) (ms_version a) (ms_version b)
  && (ms_wal a =? ms_wal b) && opt_eqb N.eqb (ms_prev_wal a) (ms_prev_wal b)
  && (ms_next a =? ms_next b) && (ms_seq a =? ms_seq b)
  && list_eqb ptr_eqb (ms_pointers a) (ms_pointers b)
  && Bool.eqb (ms_intact a) (ms_intact b) && (ms_size a =? ms_size b).
Definition wr_eqb (a b : wal_replay) : bool :=
  (wr_number a =? wr_number b) && list_eqb batch_eqb (wr_batches a) (wr_batches b)
  && Bool.eqb (wr_intact a) (wr_intact b).
Definition rec_eqb (a b : recovered) : bool :=
  ms_eqb (rc_manifest a) (rc_manifest b) && list_eqb wr_eqb (rc_wals a) (rc_wals b)
  && (rc_seq a =? rc_seq b).

(** * the checks, for any run from the empty directory *)
Definition effects (ops : list pop) : list fsop := snd (p_run prun_init ops).

(** every crash image recovers exactly the first [crash_k] acknowledged batches (contents and last
    sequence number); before CURRENT exists nothing was acknowledged *)
Definition crash_check (ops : list pop) (n : nat) (torn : option nat) : bool :=
  let eff := snd (p_run prun_init ops) in
  let img := crash_image empty_image eff n torn in
  let k := crash_k prun_init ops n torn in
  match recover_image img with
  | inl rc => kvs_eqb (rec_contents img rc) (replay [] (firstn k (acked_batches 0 ops)))
              && (rc_seq rc =? nops (firstn k (acked_batches 0 ops)))
  | inr ENoCurrent => Nat.eqb k 0
  | inr _ => false
  end.

Definition recover_check (ops : list pop) (n : nat) (torn : option nat) : bool :=
  match recover_image (crash_image empty_image (effects ops) n torn) with
  | inl _ => true
  | inr ENoCurrent => true
  | inr _ => false
  end.

Definition all_points (torns : list (option nat)) (ops : list pop) (chk : list pop -> nat -> option nat -> bool) : bool :=
  forallb (fun n => forallb (fun torn => chk ops n torn) torns) (seq 0 (S (length (effects ops)))).

Definition failing_points (torns : list (option nat)) (ops : list pop) (chk : list pop -> nat -> option nat -> bool)
  : list (nat * option nat) :=
  flat_map (fun n => map (fun torn => (n, torn)) (filter (fun torn => negb (chk ops n torn)) torns))
           (seq 0 (S (length (effects ops)))).

Definition contents_of (img : image) : option (list kv) :=
  match recover_image img with inl rc => Some (rec_contents img rc) | inr _ => None end.

(** the log reader on a file: nothing skipped, read to the end, no panic *)
Definition file_clean (f : bytes) : bool :=
  let rx := log_read_all_x f in
  (rx_skipped rx =? 0) && rx_intact rx && negb (rx_panic rx).
Definition image_logs_clean (img : image) : bool :=
  forallb (fun p => file_clean (snd p)) (i_manifests img) && forallb (fun p => file_clean (snd p)) (i_wals img).
(** every byte prefix of a file: nothing skipped (a torn tail is not a corruption), no panic *)
Definition prefixes_clean (f : bytes) : bool :=
  forallb (fun j => let rx := log_read_all_x (firstn j f) in (rx_skipped rx =? 0) && negb (rx_panic rx))
          (seq 0 (S (length f))).
Definition current_manifest (img : image) : option bytes :=
  match i_current img with
  | Some c => match parse_current c with Some n => lookupN n (i_manifests img) | None => None end
  | None => None
  end.

(** M6: every removal in the effects removes a file recovery does not need (in the right name
    space), and leaves the result of recovery and the recovered contents unchanged *)
Definition removal_check (eff : list fsop) (i : nat) : bool :=
  match nth_error eff i with
  | Some (FsRemove f) =>
      let img := apply_fsops empty_image (firstn i eff) in
      let img' := apply_fsop img (FsRemove f) in
      match recover_image img, recover_image img' with
      | inl rc, inl rc' =>
          match f with
          | FManifest n => negb (n =? ms_number (rc_manifest rc))
          | FTable n => negb (existsb (N.eqb n) (version_numbers (ms_version (rc_manifest rc))))
          | FWal n => negb (existsb (fun w => wr_number w =? n) (rc_wals rc))
          | FTemp _ => true
          | FCurrent => false
          | FLock => true
          end
          && rec_eqb rc rc' && kvs_eqb (rec_contents img rc) (rec_contents img' rc')
      | _, _ => false
      end
  | _ => true
  end.
Definition removals_check (eff : list fsop) : bool := forallb (removal_check eff) (seq 0 (length eff)).
Definition removed (eff : list fsop) : list fname :=
  flat_map (fun o => match o with FsRemove f => [f] | _ => [] end) eff.
(** the coarser [rec_needs] (which mixes the three name spaces by number) at each removal *)
Definition removal_needs (eff : list fsop) : list bool :=
  flat_map (fun i => match nth_error eff i with
                     | Some (FsRemove (FManifest n | FWal n | FTable n)) =>
                         let img := apply_fsops empty_image (firstn i eff) in
                         match recover_image img with inl rc => [rec_needs img rc n] | inr _ => [true] end
                     | _ => [] end) (seq 0 (length eff)).

(** the shape of the effects, without the bytes *)
Inductive fshape := SCreate (f : fname) | SAppend (f : fname) (len : nat) | STable (n : N) (entries : nat)
                  | SRename (n : N) | SRemove (f : fname).
Definition shape (o : fsop) : fshape :=
  match o with
  | FsCreate f => SCreate f | FsAppend f d => SAppend f (length d) | FsTable n es => STable n (length es)
  | FsRename n => SRename n | FsRemove f => SRemove f
  end.

(** every byte cut of the last operation of a crash prefix (an append of [len] bytes: 0 .. len+1;
    anything else: whole, or torn, which only matters for a table file) *)
Definition cuts_at (eff : list fsop) (n : nat) : list (option nat) :=
  None :: match n with
          | O => [Some 0%nat]
          | S m => match nth_error eff m with
                   | Some (FsAppend _ d) => map Some (seq 0 (S (S (length d))))
                   | _ => [Some 0%nat]
                   end
          end.
Definition all_cuts (ops : list pop) (chk : list pop -> nat -> option nat -> bool) : bool :=
  forallb (fun n => forallb (fun torn => chk ops n torn) (cuts_at (effects ops) n)) (seq 0 (S (length (effects ops)))).
Definition count_cuts (ops : list pop) : nat :=
  fold_left (fun a n => (a + length (cuts_at (effects ops) n))%nat) (seq 0 (S (length (effects ops)))) O.

Definition torns6 : list (option nat) := [None; Some 0%nat; Some 1%nat; Some 7%nat; Some 20%nat; Some (N.to_nat 100000)].

(** * 1. the first run: creation, writes, rotation, flush, reopen with reuse (log and manifest
    appended to), reopen without reuse with a flush in the middle of log replay, delete, rotate, flush *)
Definition oo_fresh : open_oracle := mkOO false 1000000 [] [].
Definition oo_reuse_all : open_oracle := mkOO true 1000000 [] [].
(** the log replayed holds the batches ending at 5, 6, 7: the memtable is "full" after 6 *)
Definition oo_cut : open_oracle := mkOO false 1000000 [6] [(7, 111); (8, 112)].

Definition ex_ops : list pop :=
  [ QOpen oo_fresh;
    QWrite [WPut [1] [10]; WPut [2] [20]; WPut [5] [50]];      (* 1 2 3 *)
    QWrite [WDel [1]];                                         (* 4 *)
    QRotate;
    QWrite [WPut [3] [30]];                                    (* 5, published while the table is built *)
    QFlush 0 100 4;
    QWrite [WPut [2] [21]];                                    (* 6 *)
    QOpen oo_reuse_all;
    QWrite [WPut [4] [40]];                                    (* 7 *)
    QOpen oo_cut;
    QWrite [WDel [3]];                                         (* 8 *)
    QRotate;
    QFlush 0 200 8 ].

Definition ex_eff : list fsop := effects ex_ops.
Definition ex_final : image := crash_image empty_image ex_eff (length ex_eff) None.

Example ex_run_ok : run_ok prun_init ex_ops = true.
Proof. vm_compute; reflexivity. Qed.

Example ex_not_failed : pr_failed (fst (p_run prun_init ex_ops)) = false.
Proof. vm_compute; reflexivity. Qed.

Example ex_effects_length : length (snd (p_run prun_init ex_ops)) = 42%nat.
Proof. vm_compute; reflexivity. Qed.


Example ex_effects_shape : map shape ex_eff =
  [ (* open (creation): manifest 1 + CURRENT, then the log and a fresh manifest 2 + CURRENT; manifest 1 collected *)
    SCreate (FManifest 1); SAppend (FManifest 1) 13; SCreate (FTemp 1); SAppend (FTemp 1) 20; SRename 1;
    SCreate (FWal 3); SCreate (FManifest 2); SAppend (FManifest 2) 7; SAppend (FManifest 2) 13;
    SCreate (FTemp 2); SAppend (FTemp 2) 20; SRename 2; SRemove (FManifest 1);
    (* two writes, rotate, write *)
    SAppend (FWal 3) 31; SAppend (FWal 3) 19; SCreate (FWal 4); SAppend (FWal 4) 21;
    (* flush: table 5 (4 entries), manifest record, log 3 collected *)
    SCreate (FTable 5); STable 5 4; SAppend (FManifest 2) 39; SRemove (FWal 3);
    (* write; reopen with reuse: NO file operation; write (appended to the reused log 4) *)
    SAppend (FWal 4) 21; SAppend (FWal 4) 21;
    (* reopen without reuse, the memtable "full" after sequence 6: tables 7 (2 entries) and 8 (1 entry),
       new log 9, new manifest 6 (snapshot + record) + CURRENT, log 4 and manifest 2 collected *)
    SCreate (FTable 7); STable 7 2; SCreate (FTable 8); STable 8 1; SCreate (FWal 9);
    SCreate (FManifest 6); SAppend (FManifest 6) 33; SAppend (FManifest 6) 65;
    SCreate (FTemp 6); SAppend (FTemp 6) 20; SRename 6; SRemove (FWal 4); SRemove (FManifest 2);
    (* write, rotate, flush: table 11, manifest record, log 9 collected *)
    SAppend (FWal 9) 19; SCreate (FWal 10); SCreate (FTable 11); STable 11 1; SAppend (FManifest 6) 40;
    SRemove (FWal 9) ].
Proof. vm_compute; reflexivity. Qed.

(** * 2. every crash point: every prefix of the 42 file operations, the last one whole or torn *)
Example ex_every_crash_point :
  forallb (fun n => forallb (fun torn => crash_check ex_ops n torn) [None; Some 0%nat; Some 1%nat; Some 7%nat; Some 20%nat; Some (N.to_nat 100000)])
          (seq 0 (S (length (snd (p_run prun_init ex_ops))))) = true.
Proof. vm_compute; reflexivity. Qed.

(** the same at EVERY byte cut of every append *)
Example ex_count_cuts : count_cuts ex_ops = 504%nat.
Proof. vm_compute; reflexivity. Qed.
Example ex_every_byte_cut : all_cuts ex_ops crash_check = true.
Proof. vm_compute; reflexivity. Qed.

Example ex_final_contents : contents_of ex_final = Some [([2], [21]); ([4], [40]); ([5], [50])].
Proof. vm_compute; reflexivity. Qed.

Example ex_acked : acked_batches 0 ex_ops =
  [ (1, [WPut [1] [10]; WPut [2] [20]; WPut [5] [50]]); (4, [WDel [1]]); (5, [WPut [3] [30]]);
    (6, [WPut [2] [21]]); (7, [WPut [4] [40]]); (8, [WDel [3]]) ].
Proof. vm_compute; reflexivity. Qed.

(** the contents recovered after 0, 1, .. 6 acknowledged batches: all different *)
Example ex_spec_contents : map (fun k => replay [] (firstn k (acked_batches 0 ex_ops))) (seq 0 7) =
  [ [];
    [([1], [10]); ([2], [20]); ([5], [50])];
    [([2], [20]); ([5], [50])];
    [([2], [20]); ([3], [30]); ([5], [50])];
    [([2], [21]); ([3], [30]); ([5], [50])];
    [([2], [21]); ([3], [30]); ([4], [40]); ([5], [50])];
    [([2], [21]); ([4], [40]); ([5], [50])] ].
Proof. vm_compute; reflexivity. Qed.

Example ex_k_values :
  map (fun n => crash_k prun_init ex_ops n None) (seq 0 (S (length ex_eff))) =
  [0; 0; 0; 0; 0; 0; 0; 0; 0; 0; 0; 0; 0; 0;  1; 2; 2; 3; 3; 3; 3; 3;  4; 5;
   5; 5; 5; 5; 5; 5; 5; 5; 5; 5; 5; 5; 5;  6; 6; 6; 6; 6; 6]%nat.
Proof. vm_compute; reflexivity. Qed.

(** torn at 20 bytes: the write whose append is cut is not counted (every write record here is
    19 bytes or more; the 19 byte ones are complete) *)
Example ex_k_values_torn20 :
  map (fun n => crash_k prun_init ex_ops n (Some 20%nat)) (seq 0 (S (length ex_eff))) =
  [0; 0; 0; 0; 0; 0; 0; 0; 0; 0; 0; 0; 0; 0;  0; 2; 2; 2; 3; 3; 3; 3;  3; 4;
   5; 5; 5; 5; 5; 5; 5; 5; 5; 5; 5; 5; 5;  6; 6; 6; 6; 6; 6]%nat.
Proof. vm_compute; reflexivity. Qed.

(** * 3. recovery never fails once CURRENT exists *)
Example ex_recovery_never_fails :
  forallb (fun n => forallb (fun torn => recover_check ex_ops n torn) torns6) (seq 0 (S (length ex_eff))) = true.
Proof. vm_compute; reflexivity. Qed.
Example ex_recovery_never_fails_every_cut : all_cuts ex_ops recover_check = true.
Proof. vm_compute; reflexivity. Qed.
(** ... and CURRENT exists from the fifth file operation on *)
Example ex_current_exists :
  map (fun n => match recover_image (crash_image empty_image ex_eff n None) with inl _ => true | inr _ => false end)
      (seq 0 (S (length ex_eff))) = repeat false 5 ++ repeat true 38.
Proof. vm_compute; reflexivity. Qed.

(** * 4. a smaller run without reuse; a torn tail in the middle of a multi-operation batch *)
Definition ex2_ops : list pop :=
  [ QOpen oo_fresh;
    QWrite [WPut [5] [50]; WPut [6] [60]; WDel [5]];           (* 1 2 3 *)
    QWrite [WPut [7] [70]; WDel [6]; WPut [8] [80]];           (* 4 5 6 *)
    QOpen oo_fresh;
    QWrite [WPut [9] [90]] ].                                  (* 7 *)
Definition ex2_eff : list fsop := effects ex2_ops.

Example ex2_run_ok : run_ok prun_init ex2_ops = true.
Proof. vm_compute; reflexivity. Qed.
Example ex2_not_failed : pr_failed (fst (p_run prun_init ex2_ops)) = false.
Proof. vm_compute; reflexivity. Qed.
Example ex2_effects_shape : map shape ex2_eff =
  [ SCreate (FManifest 1); SAppend (FManifest 1) 13; SCreate (FTemp 1); SAppend (FTemp 1) 20; SRename 1;
    SCreate (FWal 3); SCreate (FManifest 2); SAppend (FManifest 2) 7; SAppend (FManifest 2) 13;
    SCreate (FTemp 2); SAppend (FTemp 2) 20; SRename 2; SRemove (FManifest 1);
    SAppend (FWal 3) 29; SAppend (FWal 3) 29;
    SCreate (FTable 5); STable 5 6; SCreate (FWal 6); SCreate (FManifest 4); SAppend (FManifest 4) 7;
    SAppend (FManifest 4) 39; SCreate (FTemp 4); SAppend (FTemp 4) 20; SRename 4; SRemove (FWal 3);
    SRemove (FManifest 2); SAppend (FWal 6) 21 ].
Proof. vm_compute; reflexivity. Qed.
Example ex2_every_crash_point :
  forallb (fun n => forallb (fun torn => crash_check ex2_ops n torn) torns6) (seq 0 (S (length ex2_eff))) = true.
Proof. vm_compute; reflexivity. Qed.
Example ex2_every_byte_cut : all_cuts ex2_ops crash_check = true.
Proof. vm_compute; reflexivity. Qed.
Example ex2_recovery_never_fails : all_cuts ex2_ops recover_check = true.
Proof. vm_compute; reflexivity. Qed.
Example ex2_k_values :
  map (fun n => crash_k prun_init ex2_ops n None) (seq 0 (S (length ex2_eff))) =
  [0; 0; 0; 0; 0; 0; 0; 0; 0; 0; 0; 0; 0; 0;  1; 2; 2; 2; 2; 2; 2; 2; 2; 2; 2; 2; 2; 3]%nat.
Proof. vm_compute; reflexivity. Qed.

(** the second write (29 bytes: 7 of record header, 8 of sequence number, 1 of count, 5 + 3 + 5 of
    operations) cut after 25 bytes, one byte into its third operation: only the first batch is
    recovered, no part of the second *)
Definition ex2_torn : image := crash_image empty_image ex2_eff 15 (Some 25%nat).
Example ex2_torn_k : crash_k prun_init ex2_ops 15 (Some 25%nat) = 1%nat.
Proof. vm_compute; reflexivity. Qed.
Example ex2_torn_contents : contents_of ex2_torn = Some [([6], [60])].
Proof. vm_compute; reflexivity. Qed.
Example ex2_whole_contents : contents_of (crash_image empty_image ex2_eff 15 None) = Some [([7], [70]); ([8], [80])].
Proof. vm_compute; reflexivity. Qed.
Example ex2_torn_log_not_intact :
  match recover_image ex2_torn with
  | inl rc => map (fun w => (wr_number w, length (wr_batches w), wr_intact w)) (rc_wals rc)
  | inr _ => []
  end = [(3, 1%nat, false)].
Proof. vm_compute; reflexivity. Qed.

(** the session after that crash: reopened WITH the reuse option, but the log has a torn tail and
    is not reused; a write, a rotation, a flush; checked at every byte cut again, from the torn
    directory, against the first batch followed by what this session acknowledged *)
Definition crash_check_from (s : prun) (base : list batch) (ops : list pop) (n : nat) (torn : option nat) : bool :=
  let eff := snd (p_run s ops) in
  let img := crash_image (pr_img s) eff n torn in
  let k := crash_k s ops n torn in
  let acked := base ++ firstn k (acked_batches (nops base) ops) in
  match recover_image img with
  | inl rc => kvs_eqb (rec_contents img rc) (replay [] acked) && (rc_seq rc =? nops acked)
  | inr _ => false
  end.
Definition all_cuts_from (s : prun) (base : list batch) (ops : list pop) : bool :=
  let eff := snd (p_run s ops) in
  forallb (fun n => forallb (fun torn => crash_check_from s base ops n torn) (cuts_at eff n)) (seq 0 (S (length eff))).

Definition ex3_start : prun := mkPR ex2_torn None false.
Definition ex3_base : list batch := firstn 1 (acked_batches 0 ex2_ops).
Definition ex3_ops : list pop :=
  [ QOpen oo_reuse_all;
    QWrite [WPut [6] [61]; WPut [9] [90]];                     (* 4 5 *)
    QRotate;
    QFlush 0 300 5;
    QWrite [WDel [9]] ].                                       (* 6 *)
Example ex3_run_ok : run_ok ex3_start ex3_ops = true.
Proof. vm_compute; reflexivity. Qed.
Example ex3_not_failed : pr_failed (fst (p_run ex3_start ex3_ops)) = false.
Proof. vm_compute; reflexivity. Qed.
(** the manifest is intact and reused (appended to); the torn log is flushed to table 5 and replaced *)
Example ex3_effects_shape : map shape (snd (p_run ex3_start ex3_ops)) =
  [ SCreate (FTable 5); STable 5 3; SCreate (FWal 6); SAppend (FManifest 2) 39; SRemove (FWal 3);
    SAppend (FWal 6) 26; SCreate (FWal 7); SCreate (FTable 8); STable 8 2; SAppend (FManifest 2) 40;
    SRemove (FWal 6); SAppend (FWal 7) 19 ].
Proof. vm_compute; reflexivity. Qed.
Example ex3_every_byte_cut : all_cuts_from ex3_start ex3_base ex3_ops = true.
Proof. vm_compute; reflexivity. Qed.
Example ex3_final_contents :
  contents_of (apply_fsops ex2_torn (snd (p_run ex3_start ex3_ops))) = Some [([6], [61])].
Proof. vm_compute; reflexivity. Qed.

(** * 5. M2: CURRENT round trips *)
Example ex_current :
  map (fun n => parse_current (current_contents n)) [0; 1; 9; 10; 12345; 18446744073709551615]
  = map Some [0; 1; 9; 10; 12345; 18446744073709551615].
Proof. vm_compute; reflexivity. Qed.
Example ex_current_bytes : current_contents 12345 =
  [77; 65; 78; 73; 70; 69; 83; 84; 45; 49; 50; 51; 52; 53; 46; 109; 97; 110; 105; 102; 101; 115; 116; 10].
Proof. vm_compute; reflexivity. Qed.
Example ex_current_rejects :
  map parse_current [ []; [10]; removelast (current_contents 7); current_contents 7 ++ [10];
                      ascii_MANIFEST_ ++ ascii_dot_manifest ++ [10]; 0 :: current_contents 7 ]
  = [None; None; None; None; None; None].
Proof. vm_compute; reflexivity. Qed.

(** * 6. M1 on concrete files: the manifests and logs the model writes read back without a skipped
    record, to the end; every byte prefix of the manifest: nothing skipped, no panic *)
Example ex_files_clean : image_logs_clean ex_final = true.
Proof. vm_compute; reflexivity. Qed.
(** not only the final directory: after every prefix of the file operations *)
Example ex_files_clean_everywhere :
  forallb (fun n => image_logs_clean (crash_image empty_image ex_eff n None)) (seq 0 (S (length ex_eff))) = true.
Proof. vm_compute; reflexivity. Qed.
Example ex_final_files :
  (map (fun p => (fst p, length (snd p))) (i_manifests ex_final),
   map (fun p => (fst p, length (snd p))) (i_wals ex_final),
   map fst (i_tables ex_final), i_temps ex_final, option_map parse_current (i_current ex_final))
  = ([(6, 138%nat)], [(10, 0%nat)], [5; 7; 8; 11], [], Some (Some 6)).
Proof. vm_compute; reflexivity. Qed.
Example ex_manifest_prefixes_clean : option_map prefixes_clean (current_manifest ex_final) = Some true.
Proof. vm_compute; reflexivity. Qed.
(** the same for a manifest and a log with several records: the directory before the second reopen *)
Definition ex_mid : image := crash_image empty_image ex_eff 23 None.
Example ex_mid_files :
  (map (fun p => (fst p, length (snd p))) (i_manifests ex_mid), map (fun p => (fst p, length (snd p))) (i_wals ex_mid))
  = ([(2, 59%nat)], [(4, 63%nat)]).
Proof. vm_compute; reflexivity. Qed.
Example ex_mid_prefixes_clean :
  (option_map prefixes_clean (current_manifest ex_mid), option_map prefixes_clean (lookupN 4 (i_wals ex_mid)))
  = (Some true, Some true).
Proof. vm_compute; reflexivity. Qed.

(** * 7. M6: the files collected are not needed by recovery *)
Example ex_removed : removed ex_eff = [FManifest 1; FWal 3; FWal 4; FManifest 2; FWal 9].
Proof. vm_compute; reflexivity. Qed.
Example ex_removals_invisible : removals_check ex_eff = true.
Proof. vm_compute; reflexivity. Qed.
(** here even the coarser [rec_needs] is false at every removal *)
Example ex_removals_not_needed : removal_needs ex_eff = [false; false; false; false; false].
Proof. vm_compute; reflexivity. Qed.
Example ex2_removals_invisible : (removed ex2_eff, removals_check ex2_eff) = ([FManifest 1; FWal 3; FManifest 2], true).
Proof. vm_compute; reflexivity. Qed.
(** the check is not vacuous: removing a file that IS needed is detected *)
Example ex_removal_check_detects :
  map (fun f => removal_check (firstn 22 ex_eff ++ [FsRemove f]) 22) [FWal 4; FManifest 2; FTable 5; FWal 3]
  = [false; false; false; true].
Proof. vm_compute; reflexivity. Qed.

(** ** the literal reading of M6 with the number-only predicate [rec_needs] is FALSE
    "every file removed by [do_gc] has [rec_needs img rc n = false]" does not hold: [rec_needs]
    mixes the three name spaces, and a collected LOG may carry the number of the CURRENT MANIFEST.
    Here the first open leaves manifest 2 (recorded next file number 3) and log 3; the rotation
    creates log 4 without a manifest record; the reopen without reuse takes manifest number 3 + 1 = 4,
    flushes log 3 into table 5 (the empty log 4 consumes number 6), creates log 7, and collects logs
    3 and 4 and manifest 2 while CURRENT names manifest 4. Log 4 is not replayed and its removal
    changes nothing, yet [rec_needs img rc 4 = true]. The statement that holds is per name space
    ([removal_check] above). *)
Definition m6_ops : list pop :=
  [ QOpen (mkOO false 1000000 [] []); QWrite [WPut [1] [10]]; QRotate;
    QOpen (mkOO false 1000000 [] [(5, 100); (6, 100)]) ].
Definition m6_eff : list fsop := effects m6_ops.

Example m6_effects_shape : map shape m6_eff =
  [ SCreate (FManifest 1); SAppend (FManifest 1) 13; SCreate (FTemp 1); SAppend (FTemp 1) 20; SRename 1;
    SCreate (FWal 3); SCreate (FManifest 2); SAppend (FManifest 2) 7; SAppend (FManifest 2) 13;
    SCreate (FTemp 2); SAppend (FTemp 2) 20; SRename 2; SRemove (FManifest 1);
    SAppend (FWal 3) 21; SCreate (FWal 4);
    SCreate (FTable 5); STable 5 1; SCreate (FWal 7); SCreate (FManifest 4); SAppend (FManifest 4) 7;
    SAppend (FManifest 4) 39; SCreate (FTemp 4); SAppend (FTemp 4) 20; SRename 4;
    SRemove (FWal 3); SRemove (FWal 4); SRemove (FManifest 2) ].
Proof. vm_compute; reflexivity. Qed.

(** the per-name-space check passes on this run too; [rec_needs] is true at the third removal *)
Example m6_removals : (removed m6_eff, removal_needs m6_eff, removals_check m6_eff)
  = ([FManifest 1; FWal 3; FWal 4; FManifest 2], [false; false; true; false], true).
Proof. vm_compute; reflexivity. Qed.
Example m6_every_byte_cut : all_cuts m6_ops crash_check = true.
Proof. vm_compute; reflexivity. Qed.

Definition the_rc (img : image) : recovered :=
  match recover_image img with
  | inl rc => rc
  | inr _ => mkRec (mkMS 0 [] 0 None 0 0 [] false 0) [] 0
  end.

Example m6_rec_needs_mixes_name_spaces_refuted :
  exists ops idx n,
    run_ok prun_init ops = true /\
    pr_failed (fst (p_run prun_init ops)) = false /\
    nth_error (snd (p_run prun_init ops)) idx = Some (FsRemove (FWal n)) /\
    (let img := crash_image empty_image (snd (p_run prun_init ops)) idx None in
     exists rc, recover_image img = inl rc /\
       ms_number (rc_manifest rc) = n /\
       rec_needs img rc n = true /\
       forallb (fun w => negb (wr_number w =? n)) (rc_wals rc) = true /\
       (let img' := apply_fsop img (FsRemove (FWal n)) in
        exists rc', recover_image img' = inl rc' /\
          rec_eqb rc rc' = true /\
          kvs_eqb (rec_contents img rc) (rec_contents img' rc') = true)).
Proof.
  exists m6_ops, 25%nat, 4.
  split; [vm_compute; reflexivity|].
  split; [vm_compute; reflexivity|].
  split; [vm_compute; reflexivity|].
  exists (the_rc (crash_image empty_image (snd (p_run prun_init m6_ops)) 25 None)).
  split; [vm_compute; reflexivity|].
  split; [vm_compute; reflexivity|].
  split; [vm_compute; reflexivity|].
  split; [vm_compute; reflexivity|].
  exists (the_rc (apply_fsop (crash_image empty_image (snd (p_run prun_init m6_ops)) 25 None) (FsRemove (FWal 4)))).
  split; [vm_compute; reflexivity|].
  split; vm_compute; reflexivity.
Qed.

(** * 8. M5: a run with installs (a trivial move, then a real compaction) *)
(** [step_ok] except that an install on an open database must satisfy [install_okb] (the boolean
    half of [ProtoInstall.step_okP]) *)
Definition step_ok2 (s : prun) (o : pop) : bool :=
  match o, pr_db s with
  | QOpen oo, _ => open_okb oo (pr_img s)
  | QWrite b, Some d => write_okb d b
  | QWrite _, None => false
  | QRotate, Some d => match pd_imm d with Some _ => true | None => rotate_okb d end
  | QFlush l sz q, Some d => match pd_imm d with None => true | Some _ => flush_okb d l sz q end
  | QInstall del add ptr q, Some d => install_okb d del add ptr q
  | _, None => true
  end.
Fixpoint run_ok2 (s : prun) (ops : list pop) : bool :=
  match ops with
  | [] => true
  | o :: r => step_ok2 s o && run_ok2 (fst (p_step s o)) r
  end.

(** the decidable half of [install_preserves], on a FINITE SAMPLE: the entries of the new tables
    are entries of the old ones, and [visible] agrees for every user key occurring (and two absent
    ones) at the sequence numbers [qs]. (The hypothesis of M5 quantifies over all keys and all
    q >= pd_seq; for the real code it is what [compact_preserves_visible] provides.) An install
    whose edit does not apply counts as a failure here, so that the check is not vacuous. *)
Definition entry_eqb (a b : entry) : bool := ikey_eqb (fst a) (fst b) && bytes_eqb (snd a) (snd b).
Definition install_tables (d : pdb) (deleted : list (N * N)) (added : list (N * fmeta * list entry))
           (pointers : list (N * ikey)) (seq : N) : option (list entry * list entry) :=
  match apply_edit (pd_ver d) (edit_of (install_change' d deleted added pointers seq)) with
  | Some v' => Some (tab_entries (pd_img d) (pd_ver d),
                     tab_entries (apply_fsops (pd_img d) (fst (install_parts d added))) v')
  | None => None
  end.
Definition install_preserves_b (d : pdb) (deleted : list (N * N)) (added : list (N * fmeta * list entry))
           (pointers : list (N * ikey)) (seq : N) (qs : list N) : bool :=
  match install_tables d deleted added pointers seq with
  | Some (T, T') =>
      forallb (fun e => existsb (entry_eqb e) T) T'
      && forallb (fun k => forallb (fun q => opt_eqb bytes_eqb (visible T' q k) (visible T q k)) qs)
                 (user_keys T ++ [[0]; [9]])
  | None => false
  end.
Definition step_preserves_b (s : prun) (o : pop) : bool :=
  match o, pr_db s with
  | QInstall del add ptr q, Some d =>
      install_preserves_b d del add ptr q (map (fun i => pd_seq d + N.of_nat i) (seq 0 4))
  | _, _ => true
  end.
Fixpoint run_preserves_b (s : prun) (ops : list pop) : bool :=
  match ops with
  | [] => true
  | o :: r => step_preserves_b s o && run_preserves_b (fst (p_step s o)) r
  end.

(** first stage: two level 0 tables *)
Definition ex5_pre : list pop :=
  [ QOpen oo_fresh;
    QWrite [WPut [1] [10]; WPut [2] [20]];                     (* 1 2 *)
    QWrite [WPut [3] [30]; WPut [1] [11]];                     (* 3 4: overwrites key 1 *)
    QRotate; QFlush 0 100 4;                                   (* table A = 5 *)
    QWrite [WDel [2]; WPut [4] [40]];                          (* 5 6: deletes key 2 *)
    QWrite [WPut [3] [31]];                                    (* 7: overwrites key 3 *)
    QRotate; QFlush 0 120 7 ].                                 (* table B = 7 *)

Definition esA : list entry :=
  [ (mkIKey [1] 4 1, [11]); (mkIKey [1] 1 1, [10]); (mkIKey [2] 2 1, [20]); (mkIKey [3] 3 1, [30]) ].
Definition fmA : fmeta := mkFM 5 100 (mkIKey [1] 4 1) (mkIKey [3] 3 1).
Definition esB : list entry :=
  [ (mkIKey [2] 5 0, []); (mkIKey [3] 7 1, [31]); (mkIKey [4] 6 1, [40]) ].
Definition fmB : fmeta := mkFM 7 120 (mkIKey [2] 5 0) (mkIKey [4] 6 1).

(** the state after the first stage: the literals above are the metadata and entries of A and B *)
Example ex5_pre_state :
  option_map (fun d => (pd_ver d, pd_next d, pd_seq d, pd_pointers d, i_tables (pd_img d)))
             (pr_db (fst (p_run prun_init ex5_pre)))
  = Some ([[fmA; fmB]; []; []; []; []; []; []], 7, 7, [], [(5, Some esA); (7, Some esB)]).
Proof. vm_compute; reflexivity. Qed.

(** the output of compacting A (level 1 after the move) with B: for each user key the newest
    entry (the deletion of key 2 is kept), sorted by internal key; number 8 = pd_next + 1 *)
Definition esC : list entry :=
  [ (mkIKey [1] 4 1, [11]); (mkIKey [2] 5 0, []); (mkIKey [3] 7 1, [31]); (mkIKey [4] 6 1, [40]) ].
Definition fmC : fmeta := mkFM 8 150 (mkIKey [1] 4 1) (mkIKey [4] 6 1).

Definition ex5_ops : list pop :=
  ex5_pre ++
  [ QInstall [(0, 5)] [((1, fmA), esA)] [] 7;                                   (* trivial move of A to level 1 *)
    QInstall [(1, 5); (0, 7)] [((1, fmC), esC)] [(1, mkIKey [4] 6 1)] 7;        (* A + B -> C at level 1 *)
    QWrite [WPut [5] [50]; WDel [1]];                                           (* 8 9 *)
    QOpen (mkOO false 1000000 [] [(10, 130)]);
    QWrite [WPut [2] [22]] ].                                                   (* 10 *)
Definition ex5_eff : list fsop := effects ex5_ops.

Example ex5_run_ok2 : run_ok2 prun_init ex5_ops = true.
Proof. vm_compute; reflexivity. Qed.
Example ex5_not_failed : pr_failed (fst (p_run prun_init ex5_ops)) = false.
Proof. vm_compute; reflexivity. Qed.
Example ex5_effects_shape : map shape ex5_eff =
  [ SCreate (FManifest 1); SAppend (FManifest 1) 13; SCreate (FTemp 1); SAppend (FTemp 1) 20; SRename 1;
    SCreate (FWal 3); SCreate (FManifest 2); SAppend (FManifest 2) 7; SAppend (FManifest 2) 13;
    SCreate (FTemp 2); SAppend (FTemp 2) 20; SRename 2; SRemove (FManifest 1);
    SAppend (FWal 3) 26; SAppend (FWal 3) 26; SCreate (FWal 4);
    SCreate (FTable 5); STable 5 4; SAppend (FManifest 2) 39; SRemove (FWal 3);
    SAppend (FWal 4) 24; SAppend (FWal 4) 21; SCreate (FWal 6);
    SCreate (FTable 7); STable 7 3; SAppend (FManifest 2) 39; SRemove (FWal 4);
    (* the trivial move: one manifest record, no table written, nothing collected *)
    SAppend (FManifest 2) 42;
    (* the compaction: table 8 written, one manifest record, the inputs 5 and 7 collected *)
    SCreate (FTable 8); STable 8 4; SAppend (FManifest 2) 59; SRemove (FTable 5); SRemove (FTable 7);
    SAppend (FWal 6) 24;
    (* reopen without reuse: log 6 flushed to table 10, log 11, manifest 9 (snapshot with the
       compaction pointer and table 8 at level 1, then the record adding table 10) *)
    SCreate (FTable 10); STable 10 2; SCreate (FWal 11); SCreate (FManifest 9); SAppend (FManifest 9) 47;
    SAppend (FManifest 9) 40; SCreate (FTemp 9); SAppend (FTemp 9) 20; SRename 9;
    SRemove (FWal 6); SRemove (FManifest 2);
    SAppend (FWal 11) 21 ].
Proof. vm_compute; reflexivity. Qed.
Example ex5_effects_length : length ex5_eff = 46%nat.
Proof. vm_compute; reflexivity. Qed.

(** every crash point, in particular inside the two installs (table 8 created / unreadable /
    complete, the manifest record torn at every byte, between the two removals) *)
Example ex5_every_crash_point :
  forallb (fun n => forallb (fun torn => crash_check ex5_ops n torn) torns6) (seq 0 (S (length ex5_eff))) = true.
Proof. vm_compute; reflexivity. Qed.
Example ex5_count_cuts : count_cuts ex5_ops = 613%nat.
Proof. vm_compute; reflexivity. Qed.
Example ex5_every_byte_cut : all_cuts ex5_ops crash_check = true.
Proof. vm_compute; reflexivity. Qed.
Example ex5_recovery_never_fails : all_cuts ex5_ops recover_check = true.
Proof. vm_compute; reflexivity. Qed.
(** the installs are not writes: [crash_k] stays at 4 across them (file operations 27 .. 32) *)
Example ex5_k_values :
  map (fun n => crash_k prun_init ex5_ops n None) (seq 0 (S (length ex5_eff))) =
  [0; 0; 0; 0; 0; 0; 0; 0; 0; 0; 0; 0; 0; 0;  1; 2; 2; 2; 2; 2; 2;  3; 4; 4; 4; 4; 4; 4;  4; 4; 4; 4; 4; 4;
   5; 5; 5; 5; 5; 5; 5; 5; 5; 5; 5; 5;  6]%nat.
Proof. vm_compute; reflexivity. Qed.
Example ex5_final_contents :
  contents_of (apply_fsops empty_image ex5_eff) = Some [([2], [22]); ([3], [31]); ([4], [40]); ([5], [50])].
Proof. vm_compute; reflexivity. Qed.
(** the contents do not change across the installs: the same before the move, between the move
    and the compaction, with table 8 unreadable, and after the inputs are collected *)
Example ex5_contents_across_installs :
  map (fun n => contents_of (crash_image empty_image ex5_eff n None)) [27; 28; 29; 30; 31; 32; 33]%nat
  = repeat (Some [([1], [11]); ([3], [31]); ([4], [40])]) 7.
Proof. vm_compute; reflexivity. Qed.
(** the final state: table 10 at level 0, table 8 at level 1, the compaction pointer kept
    across the reopen *)
Example ex5_final_state :
  option_map (fun d => (map (map fm_num) (pd_ver d), pd_next d, pd_pointers d)) (pr_db (fst (p_run prun_init ex5_ops)))
  = Some ([[10]; [8]; []; []; []; []; []], 11, [(1, mkIKey [4] 6 1)]).
Proof. vm_compute; reflexivity. Qed.
(** M6 with table files: the inputs of the compaction are collected, and not needed *)
Example ex5_removals :
  (removed ex5_eff, removal_needs ex5_eff, removals_check ex5_eff)
  = ([FManifest 1; FWal 3; FWal 4; FTable 5; FTable 7; FWal 6; FManifest 2], repeat false 7, true).
Proof. vm_compute; reflexivity. Qed.
Example ex5_files_clean_everywhere :
  forallb (fun n => image_logs_clean (crash_image empty_image ex5_eff n None)) (seq 0 (S (length ex5_eff))) = true.
Proof. vm_compute; reflexivity. Qed.

(** the decidable half of [install_preserves] for both installs (finite sample: every user key
    occurring plus two absent ones, q = pd_seq .. pd_seq + 3) *)
Example ex5_installs_preserve_sample : run_preserves_b prun_init ex5_ops = true.
Proof. vm_compute; reflexivity. Qed.
Definition ex5_before_move : prun := fst (p_run prun_init (firstn 9 ex5_ops)).
Definition ex5_before_compaction : prun := fst (p_run prun_init (firstn 10 ex5_ops)).
Example ex5_install_steps :
  (nth_error ex5_ops 9, nth_error ex5_ops 10)
  = (Some (QInstall [(0, 5)] [((1, fmA), esA)] [] 7),
     Some (QInstall [(1, 5); (0, 7)] [((1, fmC), esC)] [(1, mkIKey [4] 6 1)] 7)).
Proof. vm_compute; reflexivity. Qed.
(** old and new table entries of the two installs: the move keeps them, the compaction drops
    the three shadowed entries *)
Example ex5_move_tables :
  match pr_db ex5_before_move with
  | Some d => install_tables d [(0, 5)] [((1, fmA), esA)] [] 7
  | None => None
  end = Some (esA ++ esB, esB ++ esA).
Proof. vm_compute; reflexivity. Qed.
Example ex5_compaction_tables :
  match pr_db ex5_before_compaction with
  | Some d => install_tables d [(1, 5); (0, 7)] [((1, fmC), esC)] [(1, mkIKey [4] 6 1)] 7
  | None => None
  end = Some (esB ++ esA, esC).
Proof. vm_compute; reflexivity. Qed.
(** the bound q >= pd_seq of the hypothesis matters: below it the compaction is visible (key 1 at
    sequence 1 was [10], its entry is dropped), and the sample check detects it *)
Example ex5_compaction_visible_below :
  (visible (esB ++ esA) 1 [1], visible esC 1 [1], visible (esB ++ esA) 7 [1], visible esC 7 [1])
  = (Some [10], None, Some [11], Some [11]).
Proof. vm_compute; reflexivity. Qed.
Example ex5_preserves_b_detects :
  match pr_db ex5_before_compaction with
  | Some d =>
      ( install_preserves_b d [(1, 5); (0, 7)] [((1, fmC), esC)] [(1, mkIKey [4] 6 1)] 7 [1],
        (* an output that loses the deletion of key 2 resurrects nothing here (no older table), but
           one that invents an entry, or drops the newest entry of key 3, is rejected *)
        install_preserves_b d [(1, 5); (0, 7)]
          [((1, fmC), [(mkIKey [1] 4 1, [11]); (mkIKey [2] 5 0, []); (mkIKey [3] 3 1, [30]); (mkIKey [4] 6 1, [40])])]
          [] 7 [7],
        install_preserves_b d [(1, 5); (0, 7)]
          [((1, fmC), [(mkIKey [1] 4 1, [12]); (mkIKey [2] 5 0, []); (mkIKey [3] 7 1, [31]); (mkIKey [4] 6 1, [40])])]
          [] 7 [7] )
  | None => (true, true, true)
  end = (false, false, false).
Proof. vm_compute; reflexivity. Qed.
(** [install_okb] is not vacuous either: a sequence number above the last published one, an output
    number that was already used at that level, or a move to a level where it overlaps, are rejected
    (the last one by the model: the run fails) *)
Example ex5_install_okb_detects :
  match pr_db ex5_before_compaction with
  | Some d =>
      ( install_okb d [(1, 5); (0, 7)] [((1, fmC), esC)] [] 8,
        install_okb d [(0, 7)] [((1, fmA), esA)] [] 7 )
  | None => (true, true)
  end = (false, false).
Proof. vm_compute; reflexivity. Qed.

(** * 9. the side conditions are needed: two sensitivity witnesses *)

(** (a) the sequence number of a flush. A flush that records a sequence number below those of the
    flushed entries ([flush_okb] false, so [run_ok] false) does not fail in the model, its
    directory recovers, but with last sequence number 0: the flushed entries (sequence numbers 1
    and 2) are above it and the acknowledged writes are not visible. With 1 only the first one
    is; with 2 ([run_ok] true) both are. *)
Definition sens_flush_ops (q : N) : list pop :=
  [ QOpen oo_fresh; QWrite [WPut [1] [10]; WPut [2] [20]]; QRotate; QFlush 0 100 q ].
Example sens_flush_seq_table :
  map (fun q => (run_ok prun_init (sens_flush_ops q), contents_of (pr_img (fst (p_run prun_init (sens_flush_ops q))))))
      [0; 1; 2]
  = [ (false, Some []); (false, Some [([1], [10])]); (true, Some [([1], [10]); ([2], [20])]) ].
Proof. vm_compute; reflexivity. Qed.

Example flush_seq_condition_needed_refuted :
  exists ops,
    pr_failed (fst (p_run prun_init ops)) = false /\
    run_ok prun_init ops = false /\
    (let img := pr_img (fst (p_run prun_init ops)) in
     exists rc, recover_image img = inl rc /\
       rc_seq rc = 0 /\
       rec_contents img rc = [] /\
       replay [] (acked_batches 0 ops) = [([1], [10]); ([2], [20])] /\
       kvs_eqb (rec_contents img rc) (replay [] (acked_batches 0 ops)) = false).
Proof.
  exists (sens_flush_ops 0).
  split; [vm_compute; reflexivity|].
  split; [vm_compute; reflexivity|].
  exists (the_rc (pr_img (fst (p_run prun_init (sens_flush_ops 0))))).
  split; [vm_compute; reflexivity|].
  split; [vm_compute; reflexivity|].
  split; [vm_compute; reflexivity|].
  split; vm_compute; reflexivity.
Qed.

(** (b) adding a (level, number) twice in the history of one manifest. Table 5 is flushed to
    level 0, moved to level 1, and moved back to level 0. Both installs succeed in the model and
    the running version has table 5 once at level 0; the manifest, read back, gives level 0 with
    table 5 TWICE (the builder accumulates the added files of all records; the deletion at level 0
    is cancelled by the second addition, both additions stay). The contents are the same, the
    version is not: the [nodup_ln] conjunct of [install_okb] is what excludes this run, and it is
    the only conjunct that is false for the second install. *)
Definition install_okb_conjuncts (d : pdb) (deleted : list (N * N)) (added : list (N * fmeta * list entry))
           (pointers : list (N * ikey)) (seq : N) : list bool :=
  let ops1 := fst (install_parts d added) in
  let next := snd (install_parts d added) in
  let c' := install_change' d deleted added pointers seq in
  [ CodecProofs.vchange_ok c';
    next <? two64;
    recorded_seq (pd_img d) <=? seq;
    seq <=? pd_seq d;
    nodup_ln (ManifestSem.lvl_nums (ma_added (recorded_acc (pd_img d)) ++ ManifestSem.news_of c'));
    forallb (fun a => fm_num (snd (fst a)) <=? next) added;
    match apply_edit (pd_ver d) (edit_of c') with
    | Some v' =>
        forallb (fun n => match table_entries_of (apply_fsops (pd_img d) ops1) n with Some _ => true | None => false end)
                (version_numbers v')
    | None => true
    end ].

Definition esT : list entry := [ (mkIKey [1] 1 1, [10]); (mkIKey [2] 2 1, [20]) ].
Definition fmT : fmeta := mkFM 5 100 (mkIKey [1] 1 1) (mkIKey [2] 2 1).
Definition sens_readd_ops : list pop :=
  [ QOpen oo_fresh; QWrite [WPut [1] [10]; WPut [2] [20]]; QRotate; QFlush 0 100 2;
    QInstall [(0, 5)] [((1, fmT), esT)] [] 2;          (* level 0 -> level 1 *)
    QInstall [(1, 5)] [((0, fmT), esT)] [] 2 ].        (* level 1 -> level 0: (0, 5) added a second time *)

Example sens_readd_effects : map shape (effects sens_readd_ops) =
  [ SCreate (FManifest 1); SAppend (FManifest 1) 13; SCreate (FTemp 1); SAppend (FTemp 1) 20; SRename 1;
    SCreate (FWal 3); SCreate (FManifest 2); SAppend (FManifest 2) 7; SAppend (FManifest 2) 13;
    SCreate (FTemp 2); SAppend (FTemp 2) 20; SRename 2; SRemove (FManifest 1);
    SAppend (FWal 3) 26; SCreate (FWal 4); SCreate (FTable 5); STable 5 2; SAppend (FManifest 2) 39;
    SRemove (FWal 3); SAppend (FManifest 2) 42; SAppend (FManifest 2) 42 ].
Proof. vm_compute; reflexivity. Qed.

Example readd_level_number_condition_needed_refuted :
  exists ops,
    pr_failed (fst (p_run prun_init ops)) = false /\
    run_ok2 prun_init (firstn 5 ops) = true /\
    run_ok2 prun_init ops = false /\
    (exists d del add ptr q,
       pr_db (fst (p_run prun_init (firstn 5 ops))) = Some d /\
       nth_error ops 5 = Some (QInstall del add ptr q) /\
       install_okb d del add ptr q = false /\
       install_okb_conjuncts d del add ptr q = [true; true; true; true; false; true; true]) /\
    (exists d rc,
       pr_db (fst (p_run prun_init ops)) = Some d /\
       recover_image (pd_img d) = inl rc /\
       map (map fm_num) (pd_ver d) = [[5]; []; []; []; []; []; []] /\
       map (map fm_num) (ms_version (rc_manifest rc)) = [[5; 5]; []; []; []; []; []; []] /\
       contents_of (pd_img d) = Some [([1], [10]); ([2], [20])]).
Proof.
  exists sens_readd_ops.
  split; [vm_compute; reflexivity|].
  split; [vm_compute; reflexivity|].
  split; [vm_compute; reflexivity|].
  split.
  - destruct (pr_db (fst (p_run prun_init (firstn 5 sens_readd_ops)))) as [d|] eqn:E; [|vm_compute in E; discriminate].
    exists d, [(1, 5)], [((0, fmT), esT)], [], 2.
    split; [reflexivity|]. split; [reflexivity|].
    vm_compute in E. injection E as <-.
    split; vm_compute; reflexivity.
  - destruct (pr_db (fst (p_run prun_init sens_readd_ops))) as [d|] eqn:E; [|vm_compute in E; discriminate].
    exists d, (the_rc (pd_img d)).
    split; [reflexivity|].
    vm_compute in E. injection E as <-.
    split; [vm_compute; reflexivity|].
    split; [vm_compute; reflexivity|].
    split; vm_compute; reflexivity.
Qed.

(** a reopen of that directory runs with the doubled level 0 *)
Example sens_readd_reopen :
  option_map (fun d => map (map fm_num) (pd_ver d))
             (pr_db (fst (p_run prun_init (sens_readd_ops ++ [QOpen oo_reuse_all]))))
  = Some [[5; 5]; []; []; []; []; []; []].
Proof. vm_compute; reflexivity. Qed.

Print Assumptions ex_every_crash_point.
Print Assumptions ex_every_byte_cut.
Print Assumptions ex3_every_byte_cut.
Print Assumptions ex_removals_invisible.
Print Assumptions m6_rec_needs_mixes_name_spaces_refuted.
Print Assumptions ex5_every_byte_cut.
Print Assumptions flush_seq_condition_needed_refuted.
Print Assumptions readd_level_number_condition_needed_refuted.
