(** Proofs about what triggers compactions ([model/Pick.v]): the size score computed by
    [Version::finalize] (the chosen level is the first one with the maximal score; a size
    compaction is required exactly when some level is at or over its budget) and the seek
    statistics of [record_read_sample] / [update_stats] (the recorded level is the level the
    recorded file lives at; the first trigger sticks; a file is never scheduled by fewer than
    100 charges). No axioms. *)
From Coq Require Import Lia ZArith ZifyN ZifyBool ZifyNat Arith.
From RainVerif Require Import Params.
From RainVerif.model Require Import Bytes Key Version Pick.
Open Scope N_scope.

(** * Part 1: the size score *)

Lemma max_bytes_pos l : 0 < max_bytes_for_level l.
Proof.
  induction l as [|l IH]; [reflexivity|].
  destruct l as [|l]; [reflexivity|].
  change (max_bytes_for_level (S (S l))) with (10 * max_bytes_for_level (S l)). lia.
Qed.

Lemma level_score_den_pos v l : 0 < snd (level_score v l).
Proof. destruct l; cbn [level_score snd]; [lia | apply max_bytes_pos]. Qed.

(** [score_gtb] compares the fractions by cross multiplication *)
Lemma score_gtb_true a b : score_gtb a b = true <-> fst b * snd a < fst a * snd b.
Proof. unfold score_gtb. apply N.ltb_lt. Qed.

Lemma score_gtb_false a b : score_gtb a b = false <-> fst a * snd b <= fst b * snd a.
Proof. unfold score_gtb. apply N.ltb_ge. Qed.

Lemma score_gt_irrefl a : score_gtb a a = false.
Proof. unfold score_gtb. apply N.ltb_irrefl. Qed.

Lemma score_gt_asym a c : score_gtb c a = true -> score_gtb a c = false.
Proof. rewrite score_gtb_true, score_gtb_false. lia. Qed.

(** a <= b < c gives a < c (positive denominators) *)
Lemma score_le_lt_trans a b c :
  0 < snd a -> 0 < snd b -> 0 < snd c ->
  score_gtb a b = false -> score_gtb c b = true -> score_gtb c a = true.
Proof.
  rewrite score_gtb_false, !score_gtb_true.
  destruct a as [a1 a2], b as [b1 b2], c as [c1 c2]. cbn [fst snd].
  intros Ha Hb Hc Hab Hbc.
  apply (N.mul_lt_mono_pos_r b2); [exact Hb|].
  apply N.le_lt_trans with (b1 * a2 * c2).
  - replace (a1 * c2 * b2) with (a1 * b2 * c2) by lia.
    apply N.mul_le_mono_r. exact Hab.
  - replace (b1 * a2 * c2) with (b1 * c2 * a2) by lia.
    replace (c1 * a2 * b2) with (c1 * b2 * a2) by lia.
    apply N.mul_lt_mono_pos_r; assumption.
Qed.

(** the loop invariant of [finalize]: [best] is the first level below [l] with the maximal
    score among the levels below [l] *)
Definition best_inv (v : version) (best l : nat) : Prop :=
  (best < l)%nat
  /\ (forall j, (j < l)%nat -> score_gtb (level_score v j) (level_score v best) = false)
  /\ (forall j, (j < best)%nat -> score_gtb (level_score v best) (level_score v j) = true).

Lemma best_level_from_inv v n : forall l best,
  best_inv v best l -> best_inv v (best_level_from v l n best) (l + n).
Proof.
  induction n as [|n IH]; intros l best H; cbn [best_level_from].
  - rewrite Nat.add_0_r. exact H.
  - replace (l + S n)%nat with (S l + n)%nat by lia. apply IH.
    destruct H as (Hlt & Hmax & Hfirst).
    destruct (score_gtb (level_score v l) (level_score v best)) eqn:G.
    + (* level [l] is strictly better than everything before *)
      assert (Hall : forall j, (j < l)%nat ->
                score_gtb (level_score v l) (level_score v j) = true).
      { intros j Hj.
        apply (score_le_lt_trans _ (level_score v best));
          [apply level_score_den_pos..|apply Hmax; exact Hj|exact G]. }
      split; [lia|]. split.
      * intros j Hj. destruct (Nat.eq_dec j l) as [->|Ne]; [apply score_gt_irrefl|].
        apply score_gt_asym. apply Hall. lia.
      * exact Hall.
    + split; [lia|]. split; [|exact Hfirst].
      intros j Hj. destruct (Nat.eq_dec j l) as [->|Ne]; [exact G|]. apply Hmax. lia.
Qed.

Lemma best_inv_init v : best_inv v 0 1.
Proof.
  split; [lia|]. split.
  - intros j Hj. replace j with O by lia. apply score_gt_irrefl.
  - intros j Hj. lia.
Qed.

Lemma size_compaction_level_inv v :
  best_inv v (size_compaction_level v) (N.to_nat MAX_NUM_LEVELS).
Proof.
  unfold size_compaction_level.
  change (N.to_nat MAX_NUM_LEVELS - 1)%nat with 6%nat.
  change (N.to_nat MAX_NUM_LEVELS) with (1 + 6)%nat.
  apply best_level_from_inv. apply best_inv_init.
Qed.

(** T1 *)
Theorem best_level_maximal v :
  (size_compaction_level v < N.to_nat MAX_NUM_LEVELS)%nat
  /\ (forall l, (l < N.to_nat MAX_NUM_LEVELS)%nat ->
        score_gtb (level_score v l) (level_score v (size_compaction_level v)) = false)
  /\ (forall l, (l < size_compaction_level v)%nat ->
        score_gtb (level_score v (size_compaction_level v)) (level_score v l) = true).
Proof. exact (size_compaction_level_inv v). Qed.

(** a level is at or over its budget *)
Definition level_over_budget (v : version) (l : nat) : Prop :=
  (l = O /\ (4 <= length (level_files v 0))%nat)
  \/ ((1 <= l)%nat /\ max_bytes_for_level l <= sum_sizes (level_files v l)).

Lemma score_ge1_iff v l :
  (snd (level_score v l) <=? fst (level_score v l)) = true <-> level_over_budget v l.
Proof.
  unfold level_over_budget. rewrite N.leb_le.
  destruct l as [|l]; cbn [level_score fst snd].
  - unfold L0_COMPACTION_TRIGGER.
    set (x := N.of_nat (length (level_files v 0))).
    assert (Hx : (4 <= length (level_files v 0))%nat <-> 4 <= x) by (subst x; lia).
    pose proof (N.div_mod x 4 ltac:(lia)) as E.
    pose proof (N.mod_lt x 4 ltac:(lia)) as R.
    split.
    + intros H. left. split; [reflexivity|]. apply Hx. lia.
    + intros [[_ H]|[H _]]; [|lia]. apply Hx in H. lia.
  - split.
    + intros H. right. split; [lia|exact H].
    + intros [[H _]|[_ H]]; [discriminate|exact H].
Qed.

(** T2 *)
Theorem requires_size_iff v :
  requires_size_compaction v = true <->
  exists l, (l < N.to_nat MAX_NUM_LEVELS)%nat
            /\ ((l = O /\ (4 <= length (level_files v 0))%nat)
                \/ ((1 <= l)%nat /\ max_bytes_for_level l <= sum_sizes (level_files v l))).
Proof.
  destruct (best_level_maximal v) as (Hlt & Hmax & _).
  unfold requires_size_compaction. cbv zeta. split.
  - intros H. exists (size_compaction_level v). split; [exact Hlt|].
    apply (proj1 (score_ge1_iff v _)). exact H.
  - intros (l & Hl & Hb).
    apply (proj2 (score_ge1_iff v l)) in Hb. apply N.leb_le in Hb. apply N.leb_le.
    specialize (Hmax l Hl). apply score_gtb_false in Hmax.
    pose proof (level_score_den_pos v l) as Pl.
    pose proof (level_score_den_pos v (size_compaction_level v)) as Pb.
    destruct (level_score v l) as [l1 l2].
    destruct (level_score v (size_compaction_level v)) as [b1 b2]. cbn [fst snd] in *.
    apply (N.mul_le_mono_pos_r _ _ l2); [exact Pl|].
    apply N.le_trans with (l1 * b2); [|exact Hmax].
    rewrite (N.mul_comm b2 l2). apply N.mul_le_mono_r. exact Hb.
Qed.

(** * Part 2: the seek statistics *)

(** the local [go] of [files_with_key] as a top-level function *)
Fixpoint fwk_go (level : nat) (ls : list (list fmeta)) : list (fmeta * nat) :=
  match ls with
  | [] => []
  | fs :: r => map (fun f => (f, level)) fs ++ fwk_go (S level) r
  end.

Lemma files_with_key_eq v t : files_with_key v t = fwk_go O (get_overlapping_files v t).
Proof. reflexivity. Qed.

Lemma fwk_go_in v : forall ls lvl,
  (forall i fs, nth_error ls i = Some fs ->
                forall f, In f fs -> In f (level_files v (lvl + i))) ->
  forall f level, In (f, level) (fwk_go lvl ls) -> In f (level_files v level).
Proof.
  induction ls as [|fs r IH]; intros lvl H f level Hin; cbn [fwk_go] in Hin; [contradiction|].
  apply in_app_or in Hin. destruct Hin as [Hin|Hin].
  - apply in_map_iff in Hin. destruct Hin as (g & E & Hg). inversion E; subst.
    specialize (H O fs eq_refl _ Hg). rewrite Nat.add_0_r in H. exact H.
  - apply (IH (S lvl)); [|exact Hin]. intros i fs' Hn g Hg.
    specialize (H (S i) fs' Hn g Hg).
    replace (S lvl + i)%nat with (lvl + S i)%nat by lia. exact H.
Qed.

Lemma insert_num_in' f l x : In x (insert_by_num_desc f l) <-> x = f \/ In x l.
Proof.
  induction l as [|g r IH]; cbn [insert_by_num_desc].
  - cbn [In]. intuition.
  - destruct (fm_num g <? fm_num f); cbn [In]; [intuition|]. rewrite IH. intuition.
Qed.

Lemma sort_num_in' l x : In x (sort_by_num_desc l) <-> In x l.
Proof.
  induction l as [|f l IH]; cbn [sort_by_num_desc fold_right]; [tauto|].
  fold (sort_by_num_desc l). rewrite insert_num_in', IH. cbn [In]. intuition.
Qed.

Lemma overlapping_l0_in fs u f : In f (overlapping_files_l0 fs u) -> In f fs.
Proof.
  unfold overlapping_files_l0. intros H. apply (proj1 (sort_num_in' _ _)) in H.
  apply (proj1 (filter_In _ _ _)) in H. exact (proj1 H).
Qed.

Lemma overlapping_level_in fs t f : In f (overlapping_files_level fs t) -> In f fs.
Proof.
  unfold overlapping_files_level. destruct fs as [|g r]; [intros []|].
  destruct (find_file_upper_bound (g :: r) t) as [i|]; [|intros []].
  destruct (nth_error (g :: r) i) as [h|] eqn:E; [|intros []].
  destruct (bytes_leb _ _); [|intros []].
  intros [<-|[]]. eapply nth_error_In. exact E.
Qed.

Lemma nth_error_map_inv {A B} (g : A -> B) : forall l i y,
  nth_error (map g l) i = Some y -> exists x, nth_error l i = Some x /\ y = g x.
Proof.
  induction l as [|a l IH]; intros [|i] y H; cbn [map nth_error] in *; try discriminate.
  - inversion H; subst. exists a. split; reflexivity.
  - apply IH. exact H.
Qed.

Lemma nth_error_nth' {A} (d : A) : forall l i x, nth_error l i = Some x -> nth i l d = x.
Proof.
  induction l as [|a l IH]; intros [|i] x H; cbn [nth nth_error] in *; try discriminate.
  - inversion H. reflexivity.
  - apply IH. exact H.
Qed.

(** the candidates of level [i] are files of level [i] *)
Lemma overlapping_nth v t i fs f :
  nth_error (get_overlapping_files v t) i = Some fs -> In f fs -> In f (level_files v i).
Proof.
  destruct v as [|l0 rest]; cbn [get_overlapping_files]; [destruct i; discriminate|].
  destruct i as [|i]; cbn [nth_error].
  - intros E Hin. inversion E; subst. apply overlapping_l0_in in Hin. exact Hin.
  - intros E Hin. apply nth_error_map_inv in E. destruct E as (fs0 & En & ->).
    apply overlapping_level_in in Hin.
    unfold level_files. cbn [nth]. rewrite (nth_error_nth' [] _ _ _ En). exact Hin.
Qed.

Lemma files_with_key_in v k f level :
  In (f, level) (files_with_key v k) -> In f (level_files v level).
Proof.
  rewrite files_with_key_eq. apply fwk_go_in.
  intros i fs Hn g Hg. cbn [Nat.add]. eapply overlapping_nth; eassumption.
Qed.

(** the file a sample on [k] charges (the youngest of at least two candidates) *)
Definition charged (v : version) (k : ikey) : option (fmeta * nat) :=
  match files_with_key v k with
  | (f, level) :: _ :: _ => Some (f, level)
  | _ => None
  end.

Lemma read_sample_eq v st k :
  read_sample v st k =
  match charged v k with
  | Some (f, level) => update_stats st f level
  | None => (st, false)
  end.
Proof.
  unfold read_sample, charged.
  destruct (files_with_key v k) as [|[f level] [|p r]]; reflexivity.
Qed.

Lemma charged_in v k f level : charged v k = Some (f, level) -> In f (level_files v level).
Proof.
  unfold charged. intros H. apply (files_with_key_in v k).
  destruct (files_with_key v k) as [|[g lv] [|p r]]; try discriminate.
  inversion H; subst. left. reflexivity.
Qed.

(** what [update_stats] does to [file_to_compact] and what it answers *)
Lemma update_stats_cases st f level :
  let r := update_stats st f level in
  (ss_to_compact st = None /\ (allowed_of st (fm_num f) - 1 <= 0)%Z
   /\ ss_to_compact (fst r) = Some (fm_num f, level) /\ snd r = true)
  \/ (ss_to_compact (fst r) = ss_to_compact st /\ snd r = false).
Proof.
  cbv zeta. unfold update_stats.
  destruct (ss_to_compact st) as [x|] eqn:E.
  - right. cbn [fst snd ss_to_compact]. split; reflexivity.
  - destruct (allowed_of st (fm_num f) - 1 <=? 0)%Z eqn:L; cbn [fst snd ss_to_compact].
    + left. repeat split. lia.
    + right. split; reflexivity.
Qed.

Lemma update_stats_allowed st f level :
  ss_allowed (fst (update_stats st f level)) =
  map (fun p => if fst p =? fm_num f then (fst p, (snd p - 1)%Z) else p) (ss_allowed st).
Proof.
  unfold update_stats. destruct (ss_to_compact st); [reflexivity|].
  destruct (_ <=? _)%Z; reflexivity.
Qed.

(** T4, one sample: the answer is [true] only at the moment the file is recorded ... *)
Lemma answer_true_sets v st k :
  snd (read_sample v st k) = true ->
  ss_to_compact st = None
  /\ exists f level, charged v k = Some (f, level)
                     /\ ss_to_compact (fst (read_sample v st k)) = Some (fm_num f, level).
Proof.
  rewrite read_sample_eq. destruct (charged v k) as [[f level]|]; [|discriminate].
  destruct (update_stats_cases st f level) as [(N0 & _ & S1 & _)|(_ & F)].
  - intros _. split; [exact N0|]. exists f, level. split; [reflexivity|exact S1].
  - intros T. rewrite F in T. discriminate.
Qed.

(** ... and otherwise the recorded file is unchanged *)
Lemma answer_false_keeps v st k :
  snd (read_sample v st k) = false ->
  ss_to_compact (fst (read_sample v st k)) = ss_to_compact st.
Proof.
  rewrite read_sample_eq. destruct (charged v k) as [[f level]|]; [|reflexivity].
  destruct (update_stats_cases st f level) as [(_ & _ & _ & T)|(K & _)].
  - intros F. rewrite F in T. discriminate.
  - intros _. exact K.
Qed.

Lemma first_trigger_sticks_step v st k x :
  ss_to_compact st = Some x ->
  ss_to_compact (fst (read_sample v st k)) = Some x /\ snd (read_sample v st k) = false.
Proof.
  intros H. destruct (snd (read_sample v st k)) eqn:A.
  - apply answer_true_sets in A. destruct A as (N0 & _). congruence.
  - split; [|reflexivity]. rewrite (answer_false_keeps _ _ _ A). exact H.
Qed.

(** T4 *)
Theorem first_trigger_sticks v keys : forall st x,
  ss_to_compact st = Some x ->
  Forall (fun a => a = (false, Some x)) (read_samples v st keys).
Proof.
  induction keys as [|k r IH]; intros st x H; cbn [read_samples]; [constructor|].
  destruct (first_trigger_sticks_step v st k x H) as (K & F).
  constructor; [rewrite K, F; reflexivity|]. apply IH. exact K.
Qed.

Theorem at_most_one_trigger v keys : forall st,
  (length (filter fst (read_samples v st keys)) <= 1)%nat.
Proof.
  induction keys as [|k r IH]; intros st; cbn [read_samples filter fst]; [cbn; lia|].
  destruct (snd (read_sample v st k)) eqn:A; [|apply IH].
  apply answer_true_sets in A. destruct A as (_ & f & level & _ & S1).
  pose proof (first_trigger_sticks v r _ _ S1) as F.
  cbn [length].
  assert (E : filter fst (read_samples v (fst (read_sample v st k)) r) = []).
  { induction F as [|a l Ha _ IHF]; [reflexivity|]. cbn [filter]. rewrite Ha. cbn [fst]. exact IHF. }
  rewrite E. cbn. lia.
Qed.

(** T3: the recorded level is the level the recorded file lives at *)
Definition charged_ok (v : version) (st : seekstate) : Prop :=
  forall n l, ss_to_compact st = Some (n, l) ->
              exists f, In f (level_files v l) /\ fm_num f = n.

Lemma read_sample_charged_ok v st k :
  charged_ok v st -> charged_ok v (fst (read_sample v st k)).
Proof.
  intros H n l E. destruct (snd (read_sample v st k)) eqn:A.
  - apply answer_true_sets in A. destruct A as (_ & f & level & C & S1).
    rewrite S1 in E. inversion E; subst. exists f. split; [|reflexivity].
    eapply charged_in. exact C.
  - rewrite (answer_false_keeps _ _ _ A) in E. exact (H n l E).
Qed.

Lemma ss_init_charged_ok v : charged_ok v (ss_init v).
Proof. intros n l E. discriminate. Qed.

Lemma read_samples_charged_ok v keys : forall st,
  charged_ok v st ->
  forall b n l, In (b, Some (n, l)) (read_samples v st keys) ->
                exists f, In f (level_files v l) /\ fm_num f = n.
Proof.
  induction keys as [|k r IH]; intros st H b n l Hin; cbn [read_samples] in Hin; [contradiction|].
  pose proof (read_sample_charged_ok v st k H) as H'.
  destruct Hin as [E|Hin].
  - inversion E as [[E1 E2]]. exact (H' n l E2).
  - exact (IH _ H' b n l Hin).
Qed.

Theorem charged_file_level_consistent v keys b n l :
  In (b, Some (n, l)) (read_samples v (ss_init v) keys) ->
  exists f, In f (level_files v l) /\ fm_num f = n.
Proof. apply read_samples_charged_ok. apply ss_init_charged_ok. Qed.

(** T5 *)
Theorem needs_two_files v st k :
  (length (files_with_key v k) < 2)%nat -> read_sample v st k = (st, false).
Proof.
  unfold read_sample. destruct (files_with_key v k) as [|[f level] [|p r]]; cbn [length]; intros H;
    try reflexivity. lia.
Qed.

(** T6 *)
Theorem initial_allowed_seeks_ge size : 100 <= initial_allowed_seeks size.
Proof. unfold initial_allowed_seeks. apply N.le_max_l. Qed.

(** the number of samples among [keys] that charge file number [n] *)
Definition charges (v : version) (n : N) (keys : list ikey) : nat :=
  length (filter (fun k => match charged v k with
                           | Some (f, _) => fm_num f =? n
                           | None => false
                           end) keys).

Lemma charges_cons v n k r :
  charges v n (k :: r) =
  ((match charged v k with
    | Some (f, _) => if (fm_num f =? n)%N then 1 else 0
    | None => 0
    end) + charges v n r)%nat.
Proof.
  unfold charges. cbn [filter]. destruct (charged v k) as [[f level]|]; [|reflexivity].
  destruct (fm_num f =? n); reflexivity.
Qed.

Lemma charges_le_length v n keys : (charges v n keys <= length keys)%nat.
Proof.
  induction keys as [|k r IH]; [cbn; lia|]. rewrite charges_cons. cbn [length].
  destruct (charged v k) as [[f level]|]; [destruct (fm_num f =? n)|]; lia.
Qed.

(** every table entry of file number [m] still has at least [100 - c m] seeks left, where
    [c m] counts the charges to [m] so far; the table has an entry for every file *)
Definition seek_inv (v : version) (st : seekstate) (c : N -> nat) : Prop :=
  map fst (ss_allowed st) = map fm_num (concat v)
  /\ forall p, In p (ss_allowed st) -> (100 - Z.of_nat (c (fst p)) <= snd p)%Z.

Lemma allowed_of_bound st n B :
  In n (map fst (ss_allowed st)) ->
  (forall p, In p (ss_allowed st) -> fst p = n -> (B <= snd p)%Z) ->
  (B <= allowed_of st n)%Z.
Proof.
  intros Hin Hb. unfold allowed_of.
  destruct (find (fun p => fst p =? n) (ss_allowed st)) as [p|] eqn:F.
  - apply find_some in F. destruct F as (Hp & E). apply N.eqb_eq in E. exact (Hb p Hp E).
  - apply in_map_iff in Hin. destruct Hin as (p & E & Hp).
    pose proof (find_none _ _ F p Hp) as X. cbv beta in X. rewrite E, N.eqb_refl in X.
    discriminate.
Qed.

Lemma level_files_in_concat v l f : In f (level_files v l) -> In f (concat v).
Proof.
  unfold level_files. revert l. induction v as [|fs v IH]; intros [|l] H; cbn [nth] in H;
    try contradiction; cbn [concat]; apply in_or_app.
  - left. exact H.
  - right. exact (IH l H).
Qed.

Lemma ss_init_seek_inv v : seek_inv v (ss_init v) (fun _ => O).
Proof.
  unfold seek_inv, ss_init. cbn [ss_allowed]. split.
  - rewrite map_map. cbn [fst]. reflexivity.
  - intros p Hp. apply in_map_iff in Hp. destruct Hp as (f & <- & _). cbn [fst snd].
    pose proof (initial_allowed_seeks_ge (fm_size f)). lia.
Qed.

Lemma update_stats_seek_inv v st c f level :
  seek_inv v st c ->
  seek_inv v (fst (update_stats st f level))
           (fun x => if x =? fm_num f then S (c x) else c x).
Proof.
  intros (Hk & Hb). unfold seek_inv. rewrite update_stats_allowed. split.
  - rewrite map_map. rewrite <- Hk. apply map_ext. intros p.
    destruct (fst p =? fm_num f); reflexivity.
  - intros p' Hp'. apply in_map_iff in Hp'. destruct Hp' as (p & <- & Hp).
    specialize (Hb p Hp).
    destruct (fst p =? fm_num f) eqn:E; cbn [fst snd]; rewrite E; lia.
Qed.

(** whenever a sample answers [true] recording file [n], the samples up to and including it
    charged file [n] at least [100 - c n] times *)
Lemma trigger_charges v keys : forall st c i n l,
  seek_inv v st c ->
  nth_error (read_samples v st keys) i = Some (true, Some (n, l)) ->
  (100 <= c n + charges v n (firstn (S i) keys))%nat.
Proof.
  induction keys as [|k r IH]; intros st c i n l Inv H; cbn [read_samples] in H.
  - destruct i; discriminate.
  - cbn [firstn]. rewrite charges_cons.
    rewrite read_sample_eq in H.
    destruct (charged v k) as [[f level]|] eqn:C.
    + destruct i as [|i]; cbn [nth_error] in H.
      * inversion H as [[A S1]]. clear H.
        destruct (update_stats_cases st f level) as [(_ & L & S2 & _)|(_ & F)];
          [|rewrite F in A; discriminate].
        rewrite S2 in S1. inversion S1; subst n l.
        rewrite N.eqb_refl.
        destruct Inv as (Hk & Hb).
        assert (Hin : In (fm_num f) (map fst (ss_allowed st))).
        { rewrite Hk. apply in_map. eapply level_files_in_concat. eapply charged_in. exact C. }
        pose proof (allowed_of_bound st (fm_num f) (100 - Z.of_nat (c (fm_num f)))%Z Hin) as B.
        assert (B' : (100 - Z.of_nat (c (fm_num f)) <= allowed_of st (fm_num f))%Z).
        { apply B. intros p Hp E. rewrite <- E. apply Hb. exact Hp. }
        lia.
      * pose proof (IH _ _ i n l (update_stats_seek_inv v st c f level Inv) H) as X.
        cbv beta in X. rewrite (N.eqb_sym (fm_num f) n).
        destruct (n =? fm_num f); lia.
    + destruct i as [|i]; cbn [nth_error] in H; [discriminate|].
      cbn [fst] in H. pose proof (IH _ _ i n l Inv H). lia.
Qed.

(** T6: a file is never scheduled by fewer than 100 charges to that very file *)
Theorem trigger_needs_100_charges v keys i n l :
  nth_error (read_samples v (ss_init v) keys) i = Some (true, Some (n, l)) ->
  (100 <= charges v n (firstn (S i) keys))%nat.
Proof.
  intros H. exact (trigger_charges v keys _ _ i n l (ss_init_seek_inv v) H).
Qed.

Lemma true_answer_some v keys : forall st i o,
  nth_error (read_samples v st keys) i = Some (true, o) -> exists n l, o = Some (n, l).
Proof.
  induction keys as [|k r IH]; intros st i o H; cbn [read_samples] in H.
  - destruct i; discriminate.
  - destruct i as [|i]; cbn [nth_error] in H.
    + inversion H as [[A S1]]. apply answer_true_sets in A.
      destruct A as (_ & f & level & _ & S2). rewrite S2. eauto.
    + eapply IH. exact H.
Qed.

Lemma all_false_none v keys : forall st,
  ss_to_compact st = None ->
  (forall i o, nth_error (read_samples v st keys) i <> Some (true, o)) ->
  Forall (fun a => a = (false, None)) (read_samples v st keys).
Proof.
  induction keys as [|k r IH]; intros st N0 H; cbn [read_samples] in *; [constructor|].
  destruct (snd (read_sample v st k)) eqn:A.
  - exfalso. exact (H O _ eq_refl).
  - pose proof (answer_false_keeps _ _ _ A) as K. rewrite N0 in K.
    constructor; [rewrite K; reflexivity|].
    apply IH; [exact K|]. intros i o. exact (H (S i) o).
Qed.

(** T6, by the total number of samples (file numbers need not even be unique) *)
Theorem no_trigger_before_100 v keys :
  (length keys < 100)%nat ->
  Forall (fun a => a = (false, None)) (read_samples v (ss_init v) keys).
Proof.
  intros Hlen. apply all_false_none; [reflexivity|].
  intros i o H. destruct (true_answer_some _ _ _ _ _ H) as (n & l & ->).
  apply trigger_needs_100_charges in H.
  pose proof (charges_le_length v n (firstn (S i) keys)) as L1.
  pose proof (firstn_length (S i) keys) as L2. lia.
Qed.

(** the form asked for, with the uniqueness of file numbers (part of [version_wf]) as a
    hypothesis; it is not used *)
Corollary no_trigger_before_100_wf v keys :
  NoDup (map fm_num (concat v)) ->
  (length keys < 100)%nat ->
  Forall (fun a => fst a = false) (read_samples v (ss_init v) keys).
Proof.
  intros _ Hlen. eapply Forall_impl; [|apply no_trigger_before_100; exact Hlen].
  intros a ->. reflexivity.
Qed.

(** * Part 3: examples *)

Definition pk_k (u : N) (s : N) : ikey := mkIKey [u] s OP_PUT.
Definition pk_young : fmeta := mkFM 5 1000 (pk_k 97 9) (pk_k 99 8).
Definition pk_old : fmeta := mkFM 3 2000 (pk_k 97 3) (pk_k 99 2).
(** a key held by a level-1 file (number 5) and a level-2 file (number 3) *)
Definition pk_v : version := [[]; [pk_young]; [pk_old]; []; []; []; []].
Definition pk_key : ikey := pk_k 98 20.

Example pk_files_with_key : files_with_key pk_v pk_key = [(pk_young, 1%nat); (pk_old, 2%nat)].
Proof. vm_compute. reflexivity. Qed.

Example pk_99_samples_no_trigger :
  read_samples pk_v (ss_init pk_v) (repeat pk_key 99) = repeat (false, None) 99.
Proof. vm_compute. reflexivity. Qed.

Example pk_100th_sample_triggers :
  skipn 99 (read_samples pk_v (ss_init pk_v) (repeat pk_key 101))
  = [(true, Some (5, 1%nat)); (false, Some (5, 1%nat))].
Proof. vm_compute. reflexivity. Qed.

(** a key only one file may hold charges nothing, however often it is sampled *)
Definition pk_v1 : version := [[]; [pk_young]; []; []; []; []; []].
Example pk_single_file_never_triggers :
  files_with_key pk_v1 pk_key = [(pk_young, 1%nat)]
  /\ read_samples pk_v1 (ss_init pk_v1) (repeat pk_key 300) = repeat (false, None) 300.
Proof. vm_compute. split; reflexivity. Qed.

(** a large file is allowed one seek per 16 KiB *)
Example pk_allowed_seeks :
  initial_allowed_seeks 1000 = 100 /\ initial_allowed_seeks 16384000 = 1000.
Proof. vm_compute. split; reflexivity. Qed.

Definition pk_f (n size : N) : fmeta := mkFM n size (pk_k 97 9) (pk_k 99 8).

(** four level-0 files *)
Definition pk_v_l0 : version :=
  [[pk_f 1 10; pk_f 2 10; pk_f 3 10; pk_f 4 10]; []; []; []; []; []; []].
Example pk_l0_trigger :
  level_score pk_v_l0 0 = (1, 1) /\ size_compaction_level pk_v_l0 = O
  /\ requires_size_compaction pk_v_l0 = true.
Proof. vm_compute. repeat split; reflexivity. Qed.

Definition pk_v_l0_3 : version := [[pk_f 1 10; pk_f 2 10; pk_f 3 10]; []; []; []; []; []; []].
Example pk_l0_three_files_no_trigger :
  level_score pk_v_l0_3 0 = (0, 1) /\ requires_size_compaction pk_v_l0_3 = false.
Proof. vm_compute. split; reflexivity. Qed.

(** level 1 at 9 MiB (of 10), level 2 at 105 MiB (of 100): level 2 wins *)
Definition pk_v_l2 : version :=
  [[]; [pk_f 1 9437184]; [pk_f 2 110100480]; []; []; []; []].
Example pk_l2_wins :
  level_score pk_v_l2 1 = (9437184, 10485760)
  /\ level_score pk_v_l2 2 = (110100480, 104857600)
  /\ score_gtb (level_score pk_v_l2 2) (level_score pk_v_l2 1) = true
  /\ size_compaction_level pk_v_l2 = 2%nat
  /\ requires_size_compaction pk_v_l2 = true.
Proof. vm_compute. repeat split; reflexivity. Qed.

(** the level-0 score is an integer quotient, as in the code: seven level-0 files score 1, not
    1.75, so a level 1 at one and a half times its budget is chosen first *)
Definition pk_v_l0_7 : version :=
  [[pk_f 1 10; pk_f 2 10; pk_f 3 10; pk_f 4 10; pk_f 5 10; pk_f 6 10; pk_f 7 10];
   [pk_f 8 15728640]; []; []; []; []; []].
Example pk_l0_integer_quotient :
  level_score pk_v_l0_7 0 = (1, 1) /\ size_compaction_level pk_v_l0_7 = 1%nat.
Proof. vm_compute. split; reflexivity. Qed.

(** equal scores: the first level stays *)
Definition pk_v_tie : version :=
  [[]; [pk_f 1 10485760]; [pk_f 2 104857600]; []; []; []; []].
Example pk_tie_first_level :
  score_gtb (level_score pk_v_tie 2) (level_score pk_v_tie 1) = false
  /\ size_compaction_level pk_v_tie = 1%nat.
Proof. vm_compute. split; reflexivity. Qed.
