(** Proofs about the scheduling of background work ([model/Work.v], property C09). *)
From Coq Require Import Lia.
From RainVerif.model Require Import Work.

Lemma maybe_schedule_inv s : work_inv_b s = true -> work_inv_b (maybe_schedule s) = true.
Proof.
  destruct s as [sc im ma ne ba sh t ru]. unfold work_inv_b, maybe_schedule; cbn.
  destruct sc, im, ma, ne, ba, sh, ru, t; cbn; intros H; try exact H; try reflexivity; try discriminate.
Qed.

(** [maybe_schedule] establishes the first conjunct whatever the state was *)
Lemma maybe_schedule_covers s :
  (negb (w_sched s) || negb (Nat.eqb (w_tasks s) 0)) = true ->
  (negb (w_running s) || negb (Nat.eqb (w_tasks s) 0)) = true ->
  work_inv_b (maybe_schedule s) = true.
Proof.
  destruct s as [sc im ma ne ba sh t ru]. unfold work_inv_b, maybe_schedule; cbn.
  destruct sc, im, ma, ne, ba, sh, ru, t; cbn; intros H1 H2; try reflexivity; try discriminate.
Qed.

Lemma w_open_inv n : work_inv_b (w_open n) = true.
Proof. destruct n; reflexivity. Qed.

Lemma wstep_inv s a : work_inv_b s = true -> work_inv_b (wstep s a) = true.
Proof.
  destruct s as [sc im ma ne ba sh t ru]. destruct a as [ | n | | | ok n | ]; unfold work_inv_b, wstep, maybe_schedule; cbn.
  - destruct sc, im, ma, ne, ba, sh, ru, t; cbn; intros H; try exact H; try reflexivity; try discriminate.
  - destruct n, sc, im, ma, ne, ba, sh, ru, t; cbn; intros H; try exact H; try reflexivity; try discriminate.
  - destruct sc, im, ma, ne, ba, sh, ru, t; cbn; intros H; try exact H; try reflexivity; try discriminate.
  - destruct sc, im, ma, ne, ba, sh, ru, t; cbn; intros H; try exact H; try reflexivity; try discriminate.
  - destruct ok, n, sc, im, ma, ne, ba, sh, ru; destruct t as [|[|t]]; cbn; intros H; try exact H; try reflexivity; try discriminate.
  - destruct sc, im, ma, ne, ba, sh, ru, t; cbn; intros H; try exact H; try reflexivity; try discriminate.
Qed.

Theorem work_inv_reachable needs0 acts : work_inv_b (wrun needs0 acts) = true.
Proof.
  unfold wrun. generalize (w_open_inv needs0). generalize (w_open needs0).
  induction acts as [|a acts IH]; intros s Hs; cbn [fold_left]; [exact Hs|].
  apply IH. apply wstep_inv. exact Hs.
Qed.

(** a writer that waits for the immutable memtable to be flushed (or a client that waits for its
    manual compaction, or a version that needs compaction) always has a task queued or running
    for it, unless the database is in a bad state (then writers get the error) or shutting down *)
Theorem pending_work_has_a_task needs0 acts :
  let s := wrun needs0 acts in
  w_bad s = false -> w_shut s = false ->
  (w_imm s || w_manual s || w_needs s) = true ->
  w_sched s = true /\ (1 <= w_tasks s)%nat.
Proof.
  intros s Hb Hs Hp. pose proof (work_inv_reachable needs0 acts) as H. fold s in H.
  unfold work_inv_b in H. rewrite Hb, Hs, Hp in H. cbn in H.
  destruct (w_sched s); cbn in H; [|discriminate]. split; [reflexivity|].
  destruct (w_tasks s); [cbn in H; destruct (w_running s); discriminate | lia].
Qed.

(** and when the compaction thread takes that task and its work succeeds, the immutable memtable
    is gone (flushing has priority over every other background work) *)
Theorem a_successful_round_flushes s needs :
  work_inv_b s = true -> w_bad s = false -> w_shut s = false -> w_imm s = true -> w_running s = false ->
  w_imm (wstep (wstep s WBgStart) (WBgDone true needs)) = false.
Proof.
  destruct s as [sc im ma ne ba sh t ru]. unfold work_inv_b, wstep, maybe_schedule; cbn.
  intros H Hb Hs Hi Hr. subst. destruct sc; cbn in H; [|discriminate].
  destruct t as [|t]; [cbn in H; discriminate|]. cbn. destruct ma, needs; reflexivity.
Qed.

(** the flag is cleared only by the compaction thread itself: a client never un-schedules work *)
Theorem clients_never_unschedule s a :
  (forall ok n, a <> WBgDone ok n) -> w_sched s = true -> w_sched (wstep s a) = true.
Proof.
  destruct s as [sc im ma ne ba sh t ru]. cbn. intros Ha Hs. subst.
  destruct a as [ | n | | | ok n | ]; unfold wstep, maybe_schedule; cbn.
  - destruct im, ba; reflexivity.
  - destruct n; reflexivity.
  - destruct ma; reflexivity.
  - destruct ru, t; reflexivity.
  - exfalso. exact (Ha ok n eq_refl).
  - reflexivity.
Qed.

(** the dump-level predicate is implied by the invariant *)
Theorem work_inv_dump_of s :
  work_inv_b s = true -> w_shut s = false ->
  work_inv_dump (w_sched s) (w_imm s) (w_manual s) (w_needs s) (w_bad s) = true.
Proof.
  destruct s as [sc im ma ne ba sh t ru]. unfold work_inv_b, work_inv_dump; cbn.
  intros H Hs. subst. destruct sc, im, ma, ne, ba; cbn in *; try reflexivity; try discriminate.
Qed.

(** sensitivity: without the check at the end of [DB::open] a recovered version that needs
    compaction is nobody's job *)
Example open_without_the_check_strands_work :
  work_inv_b (mkW false false false true false false 0 false) = false.
Proof. reflexivity. Qed.
