(** Read-through use of the LRU cache ([TableCache::find_table], [Table::get_block_reader]):
    look the key up; on a miss read the immutable file ([store]) and insert what was read; a table
    whose file is deleted is removed from the cache ([TableCache::remove_table]). Table files are never
    rewritten, so the file contents are a fixed function of the key (file number, or cache partition
    + block offset). Proved: for ANY capacity (0 included) and ANY sequence of reads and evictions,
    from the empty cache or any coherent one, every read answers exactly what the file holds —
    the cache is invisible. This discharges, for the model of [Cache.v], the assumption "a cache hit
    returns what a miss would read" of the trusted base. *)
From Coq Require Import List NArith Bool Lia Arith.
From RainVerif.model Require Import Cache.
From RainVerif.proofs Require Import CacheProofs.
Import ListNotations.
Open Scope N_scope.

Section ReadThrough.
Variable store : N -> N.

Definition rt_read (c : lru) (k : N) : lru * N :=
  match snd (lru_get c k) with
  | Some v => (fst (lru_get c k), v)
  | None => (lru_insert (fst (lru_get c k)) k (store k), store k)
  end.

Inductive rt_op := RRead (k : N) | REvict (k : N).

Definition rt_step (c : lru) (o : rt_op) : lru * option N :=
  match o with
  | RRead k => (fst (rt_read c k), Some (snd (rt_read c k)))
  | REvict k => (lru_remove c k, None)
  end.

Fixpoint rt_run (c : lru) (ops : list rt_op) : list (option N) :=
  match ops with
  | [] => []
  | o :: r => snd (rt_step c o) :: rt_run (fst (rt_step c o)) r
  end.

(** what a cache-less reader answers *)
Definition rt_spec (o : rt_op) : option N :=
  match o with RRead k => Some (store k) | REvict _ => None end.

Definition coherent (l : list (N * N)) : Prop :=
  forall k v, lru_find k l = Some v -> v = store k.

Lemma coherent_nil : coherent [].
Proof. intros k v H. discriminate H. Qed.

Lemma coherent_drop : forall k l, coherent l -> coherent (drop_key k l).
Proof.
  intros k l H k' v. rewrite find_drop. destruct (k' =? k); [discriminate|]. apply H.
Qed.

Lemma coherent_front : forall k v l, v = store k -> coherent l -> coherent ((k, v) :: drop_key k l).
Proof.
  intros k v l Hv H k' v'. rewrite find_cons. destruct (k =? k') eqn:E.
  - apply N.eqb_eq in E. subst k'. intros G. injection G as G. subst v'. exact Hv.
  - apply coherent_drop. exact H.
Qed.

Lemma coherent_removelast : forall l, coherent l -> coherent (removelast l).
Proof. intros l H k v G. apply H. apply removelast_find. exact G. Qed.

Lemma coherent_insert : forall c k, coherent (lru_entries c) ->
  coherent (lru_entries (lru_insert c k (store k))).
Proof.
  intros c k H. rewrite insert_entries. cbv zeta.
  destruct (Nat.ltb _ _); [apply coherent_removelast|]; apply coherent_front; auto.
Qed.

Lemma rt_read_correct : forall c k, coherent (lru_entries c) ->
  snd (rt_read c k) = store k /\ coherent (lru_entries (fst (rt_read c k))).
Proof.
  intros c k H. unfold rt_read. destruct (lru_find k (lru_entries c)) as [v|] eqn:E.
  - rewrite (get_hit c k v E). cbn [fst snd lru_entries]. split.
    + apply H. exact E.
    + apply coherent_front; [apply H; exact E | exact H].
  - rewrite (get_miss c k E). cbn [fst snd]. split; [reflexivity|]. apply coherent_insert. exact H.
Qed.

Lemma rt_step_correct : forall c o, coherent (lru_entries c) ->
  snd (rt_step c o) = rt_spec o /\ coherent (lru_entries (fst (rt_step c o))).
Proof.
  intros c [k|k] H; cbn [rt_step rt_spec fst snd].
  - destruct (rt_read_correct c k H) as [A B]. rewrite A. split; [reflexivity | exact B].
  - split; [reflexivity|]. apply coherent_drop. exact H.
Qed.

Theorem rt_run_transparent_from : forall ops c, coherent (lru_entries c) ->
  rt_run c ops = map rt_spec ops.
Proof.
  intros ops. induction ops as [|o r IH]; intros c H; [reflexivity|].
  cbn [rt_run map]. destruct (rt_step_correct c o H) as [A B]. rewrite A, (IH _ B). reflexivity.
Qed.

(** every read of every sequence, at every capacity, answers the file's contents *)
Theorem rt_run_transparent : forall cap ops,
  rt_run (lru_new cap) ops = map rt_spec ops.
Proof. intros cap ops. apply rt_run_transparent_from. apply coherent_nil. Qed.

(** the capacity bound also holds along read-through runs (each step is a cache operation or two) *)
Lemma rt_step_inv : forall cap c o, lru_inv cap c -> lru_inv cap (fst (rt_step c o)).
Proof.
  intros cap c [k|k] H; cbn [rt_step fst].
  - unfold rt_read. destruct (snd (lru_get c k)); cbn [fst].
    + apply inv_get. exact H.
    + apply inv_insert. apply inv_get. exact H.
  - apply inv_remove. exact H.
Qed.

Definition rt_exec (c : lru) (ops : list rt_op) : lru := fold_left (fun c o => fst (rt_step c o)) ops c.

Theorem rt_exec_inv : forall cap ops, lru_inv cap (rt_exec (lru_new cap) ops).
Proof.
  intros cap ops. unfold rt_exec. generalize (inv_new cap). generalize (lru_new cap).
  induction ops as [|o r IH]; intros c H; [exact H|]. cbn [fold_left]. apply IH. apply rt_step_inv. exact H.
Qed.

End ReadThrough.

(** necessity: a cache holding a value that the file does not hold is served (so coherence of the
    initial state is needed; the real caches start empty) *)
Example rt_incoherent_served :
  rt_run (fun _ => 7) (mkLru 2 [(1, 9)]) [RRead 1] = [Some 9].
Proof. vm_compute. reflexivity. Qed.

(** non-vacuity: a run with hits, misses, an eviction by capacity and an eviction by removal *)
Example rt_example :
  rt_run (fun k => k * 10) (lru_new 2) [RRead 1; RRead 2; RRead 1; RRead 3; RRead 2; REvict 1; RRead 1]
  = [Some 10; Some 20; Some 10; Some 30; Some 20; None; Some 10].
Proof. vm_compute. reflexivity. Qed.
