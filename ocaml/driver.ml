(* Correspondence driver: reads one case per line, evaluates the extracted Coq model on it and
   prints one canonical result line per case. Trusted glue: parsing and printing only. *)
open Model

(* ---------- conversions between OCaml ints and the extracted Coq numbers ---------- *)
let rec pos_of_int (i : int) : positive =
  if i = 1 then XH
  else if i land 1 = 0 then XO (pos_of_int (i lsr 1))
  else XI (pos_of_int (i lsr 1))

let n_of_int (i : int) : n = if i = 0 then N0 else Npos (pos_of_int i)

let rec int_of_pos = function
  | XH -> 1
  | XO p -> 2 * int_of_pos p
  | XI p -> 2 * int_of_pos p + 1

let int_of_n = function N0 -> 0 | Npos p -> int_of_pos p

let rec nat_of_int (i : int) : nat = if i <= 0 then O else S (nat_of_int (i - 1))
let rec int_of_nat = function O -> 0 | S k -> 1 + int_of_nat k

(* byte table so that byte values are shared *)
let byte_tab = Array.init 256 n_of_int

let bytes_of_string (s : string) : n list =
  let r = ref [] in
  for i = String.length s - 1 downto 0 do
    r := byte_tab.(Char.code s.[i]) :: !r
  done;
  !r

let hexdig = "0123456789abcdef"

let hex_of_bytes (l : n list) : string =
  let b = Buffer.create 64 in
  List.iter
    (fun x ->
      let v = int_of_n x in
      if v > 255 then Buffer.add_string b (Printf.sprintf "<%d>" v)
      else begin
        Buffer.add_char b hexdig.[v lsr 4];
        Buffer.add_char b hexdig.[v land 15]
      end)
    l;
  Buffer.contents b

let unhex (s : string) : string =
  let n = String.length s / 2 in
  String.init n (fun i -> Char.chr (int_of_string ("0x" ^ String.sub s (2 * i) 2)))

(* a byte-string token: x<hex> | p<len>.<a>.<b>  (byte i = (a + i*b) mod 256) *)
let parse_bytes (tok : string) : n list =
  if tok = "" then []
  else
    match tok.[0] with
    | 'x' -> bytes_of_string (unhex (String.sub tok 1 (String.length tok - 1)))
    | 'p' -> (
        match String.split_on_char '.' (String.sub tok 1 (String.length tok - 1)) with
        | [ l; a; b ] ->
            let l = int_of_string l and a = int_of_string a and b = int_of_string b in
            let r = ref [] in
            for i = l - 1 downto 0 do
              r := byte_tab.((a + i * b) land 255) :: !r
            done;
            !r
        | _ -> failwith ("bad pattern token " ^ tok))
    | _ -> failwith ("bad bytes token " ^ tok)

let split_nonempty c s = List.filter (fun x -> x <> "") (String.split_on_char c s)

let show_recs (l : n list list) : string =
  if l = [] then "-" else String.concat "," (List.map (fun r -> "x" ^ hex_of_bytes r) l)

(* ---------- suite: log ---------- *)
(* case: <id> <seq:0|1> <op> <op> ...
   op:  S:<rec>,<rec>,...[;<k>:<rec>]   T:<n>   M:<off>:<byte> *)
let parse_lop (tok : string) : lop =
  match tok.[0] with
  | 'S' ->
      let body = String.sub tok 2 (String.length tok - 2) in
      let main, partial =
        match String.index_opt body ';' with
        | None -> (body, None)
        | Some i ->
            let p = String.sub body (i + 1) (String.length body - i - 1) in
            let j = String.index p ':' in
            let k = int_of_string (String.sub p 0 j) in
            let r = parse_bytes (String.sub p (j + 1) (String.length p - j - 1)) in
            (String.sub body 0 i, Some (r, nat_of_int k))
      in
      LSess (List.map parse_bytes (split_nonempty ',' main), partial)
  | 'T' -> LTrunc (n_of_int (int_of_string (String.sub tok 2 (String.length tok - 2))))
  | 'M' -> (
      match String.split_on_char ':' tok with
      | [ _; off; b ] -> LMutate (n_of_int (int_of_string off), n_of_int (int_of_string b))
      | _ -> failwith "bad M op")
  | _ -> failwith ("bad log op " ^ tok)

let suite_log (line : string) : string =
  match split_nonempty ' ' line with
  | id :: seq :: ops ->
      let seq = seq = "1" in
      let ops = List.map parse_lop ops in
      let file, _ = log_script_run ops in
      let recs, panicked = log_read_all seq file in
      let spec =
        match log_script_spec ops with None -> "none" | Some l -> show_recs l
      in
      Printf.sprintf "%s %s %s %s | %s" id
        ("x" ^ hex_of_bytes file)
        (show_recs recs)
        (if panicked then "panic" else "eof")
        spec
  | _ -> failwith "bad log case"

(* ---------- suite: crcmask ---------- *)
let suite_crcmask (line : string) : string =
  match split_nonempty ' ' line with
  | [ id; v; d ] ->
      let v = n_of_int (int_of_string v) in
      let d = parse_bytes d in
      Printf.sprintf "%s %d %d %d" id
        (int_of_n (mask_checksum v))
        (int_of_n (unmask_checksum v))
        (int_of_n (crc32c d))
  | _ -> failwith "bad crcmask case"


(* ---------- suite: bloom ---------- *)
(* case: <id> <bpk> <probe> <k1,k2,...> *)
let show_match = function
  | MOk true -> '1'
  | MOk false -> '0'
  | MErr -> 'E'
  | MPanic -> 'P'

let suite_bloom (line : string) : string =
  let toks = String.split_on_char ' ' line in
  match toks with
  | id :: bpk :: probe :: rest ->
      let bpk = n_of_int (int_of_string bpk) in
      let probe = parse_bytes probe in
      let keys = match rest with [] -> [] | k :: _ -> List.map parse_bytes (split_nonempty ',' k) in
      (match bloom_create bpk keys with
       | None -> Printf.sprintf "%s panic - - | none" id
       | Some filter ->
           let res = String.of_seq (List.to_seq (List.map (fun k -> show_match (bloom_match k filter)) keys)) in
           let p = show_match (bloom_match probe filter) in
           let short = show_match (bloom_match probe [List.hd filter]) in
           Printf.sprintf "%s x%s %s %c%c | %s" id (hex_of_bytes filter)
             (if res = "" then "-" else res) p short
             (if res = "" then "-" else String.make (String.length res) '1'))
  | _ -> failwith "bad bloom case"

(* ---------- suite: fblock ---------- *)
let rec take k l = if k = 0 then [] else match l with [] -> [] | x :: r -> x :: take (k - 1) r

let suite_fblock (line : string) : string =
  match split_nonempty ' ' line with
  | id :: bpk :: evs ->
      let bpk = n_of_int (int_of_string bpk) in
      let start = ref 0 in
      let queries = ref [] and offs = ref [ 0 ] in
      let events =
        List.map
          (fun ev ->
            let body = String.sub ev 1 (String.length ev - 1) in
            match ev.[0] with
            | 'K' ->
                let k = parse_bytes body in
                queries := (!start, k) :: !queries;
                EvKey k
            | 'N' ->
                let o = int_of_string body in
                start := o;
                offs := o :: !offs;
                EvNotify (n_of_int o)
            | _ -> failwith "bad event")
          evs
      in
      let queries = List.rev !queries and offs = List.rev !offs in
      (match fb_build bpk events with
       | None -> Printf.sprintf "%s panic - - | none" id
       | Some block -> (
           match fb_parse block with
           | FErr -> Printf.sprintf "%s x%s parse-error - | none" id (hex_of_bytes block)
           | FPanic -> Printf.sprintf "%s x%s parse-panic - | none" id (hex_of_bytes block)
           | FOk r ->
               let q o k =
                 match fb_match r (n_of_int o) k with
                 | Some true -> '1'
                 | Some false -> '0'
                 | None -> 'P'
               in
               let own = String.of_seq (List.to_seq (List.map (fun (o, k) -> q o k) queries)) in
               let cross = Buffer.create 16 in
               List.iter
                 (fun (_, k) -> List.iter (fun o -> Buffer.add_char cross (q o k)) (take 6 offs))
                 (take 6 queries);
               let cross = Buffer.contents cross in
               Printf.sprintf "%s x%s %s %s | %s" id (hex_of_bytes block)
                 (if own = "" then "-" else own)
                 (if cross = "" then "-" else cross)
                 (if own = "" then "-" else String.make (String.length own) '1')))
  | _ -> failwith "bad fblock case"

let () =
  let suite = Sys.argv.(1) in
  let f =
    match suite with
    | "log" -> suite_log
    | "crcmask" -> suite_crcmask
    | "bloom" -> suite_bloom
    | "fblock" -> suite_fblock
    | _ -> failwith ("unknown suite " ^ suite)
  in
  try
    while true do
      let line = input_line stdin in
      if line <> "" then begin
        (try print_string (f line) with e -> Printf.printf "DRIVER-ERROR %s :: %s" (Printexc.to_string e) line);
        print_newline ()
      end
    done
  with End_of_file -> ()
