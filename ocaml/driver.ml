(* Correspondence driver: reads one case per line, evaluates the extracted Coq model on it and
   prints one canonical result line per case. Trusted glue: parsing and printing only. *)
open Model

(* ---------- conversions between OCaml ints and the extracted Coq numbers ---------- *)
let rec pos_of_int (i : int) : positive =
  if i = 1 then XH
  else if i land 1 = 0 then XO (pos_of_int (i lsr 1))
  else XI (pos_of_int (i lsr 1))

let n_of_int (i : int) : n = if i = 0 then N0 else Npos (pos_of_int i)

let rec int_of_pos = function
  | XH -> 1
  | XO p -> 2 * int_of_pos p
  | XI p -> 2 * int_of_pos p + 1

let int_of_n = function N0 -> 0 | Npos p -> int_of_pos p

let rec nat_of_int (i : int) : nat = if i <= 0 then O else S (nat_of_int (i - 1))
let rec int_of_nat = function O -> 0 | S k -> 1 + int_of_nat k

(* byte table so that byte values are shared *)
let byte_tab = Array.init 256 n_of_int

let bytes_of_string (s : string) : n list =
  let r = ref [] in
  for i = String.length s - 1 downto 0 do
    r := byte_tab.(Char.code s.[i]) :: !r
  done;
  !r

let hexdig = "0123456789abcdef"

let hex_of_bytes (l : n list) : string =
  let b = Buffer.create 64 in
  List.iter
    (fun x ->
      let v = int_of_n x in
      if v > 255 then Buffer.add_string b (Printf.sprintf "<%d>" v)
      else begin
        Buffer.add_char b hexdig.[v lsr 4];
        Buffer.add_char b hexdig.[v land 15]
      end)
    l;
  Buffer.contents b

let unhex (s : string) : string =
  let n = String.length s / 2 in
  String.init n (fun i -> Char.chr (int_of_string ("0x" ^ String.sub s (2 * i) 2)))

(* a byte-string token: x<hex> | p<len>.<a>.<b>  (byte i = (a + i*b) mod 256) *)
let parse_bytes (tok : string) : n list =
  if tok = "" then []
  else
    match tok.[0] with
    | 'x' -> bytes_of_string (unhex (String.sub tok 1 (String.length tok - 1)))
    | 'p' -> (
        match String.split_on_char '.' (String.sub tok 1 (String.length tok - 1)) with
        | [ l; a; b ] ->
            let l = int_of_string l and a = int_of_string a and b = int_of_string b in
            let r = ref [] in
            for i = l - 1 downto 0 do
              r := byte_tab.((a + i * b) land 255) :: !r
            done;
            !r
        | _ -> failwith ("bad pattern token " ^ tok))
    | 'r' -> (
        match String.split_on_char '.' (String.sub tok 1 (String.length tok - 1)) with
        | [ l; seed ] ->
            let l = int_of_string l in
            let x = ref (int_of_string seed land 0x7fffffff) in
            let out = Array.make l byte_tab.(0) in
            for i = 0 to l - 1 do
              x := (!x * 1103515245 + 12345) land 0x7fffffff;
              out.(i) <- byte_tab.((!x lsr 16) land 255)
            done;
            Array.to_list out
        | _ -> failwith ("bad random token " ^ tok))
    | _ -> failwith ("bad bytes token " ^ tok)

let split_nonempty c s = List.filter (fun x -> x <> "") (String.split_on_char c s)

let show_recs (l : n list list) : string =
  if l = [] then "-" else String.concat "," (List.map (fun r -> "x" ^ hex_of_bytes r) l)

(* ---------- suite: log ---------- *)
(* case: <id> <seq:0|1> <op> <op> ...
   op:  S:<rec>,<rec>,...[;<k>:<rec>]   T:<n>   M:<off>:<byte> *)
let parse_lop (tok : string) : lop =
  match tok.[0] with
  | 'S' ->
      let body = String.sub tok 2 (String.length tok - 2) in
      let main, partial =
        match String.index_opt body ';' with
        | None -> (body, None)
        | Some i ->
            let p = String.sub body (i + 1) (String.length body - i - 1) in
            let j = String.index p ':' in
            let k = int_of_string (String.sub p 0 j) in
            let r = parse_bytes (String.sub p (j + 1) (String.length p - j - 1)) in
            (String.sub body 0 i, Some (r, nat_of_int k))
      in
      LSess (List.map parse_bytes (split_nonempty ',' main), partial)
  | 'T' -> LTrunc (n_of_int (int_of_string (String.sub tok 2 (String.length tok - 2))))
  | 'M' -> (
      match String.split_on_char ':' tok with
      | [ _; off; b ] -> LMutate (n_of_int (int_of_string off), n_of_int (int_of_string b))
      | _ -> failwith "bad M op")
  | _ -> failwith ("bad log op " ^ tok)

let suite_log (line : string) : string =
  match split_nonempty ' ' line with
  | id :: seq :: ops ->
      let seq = seq = "1" in
      let ops = List.map parse_lop ops in
      let file, _ = log_script_run ops in
      let recs, panicked = log_read_all seq file in
      let spec =
        match log_script_spec ops with None -> "none" | Some l -> show_recs l
      in
      Printf.sprintf "%s %s %s %s | %s" id
        ("x" ^ hex_of_bytes file)
        (show_recs recs)
        (if panicked then "panic" else "eof")
        spec
  | _ -> failwith "bad log case"

(* ---------- suite: crcmask ---------- *)
let suite_crcmask (line : string) : string =
  match split_nonempty ' ' line with
  | [ id; v; d ] ->
      let v = n_of_int (int_of_string v) in
      let d = parse_bytes d in
      Printf.sprintf "%s %d %d %d" id
        (int_of_n (mask_checksum v))
        (int_of_n (unmask_checksum v))
        (int_of_n (crc32c d))
  | _ -> failwith "bad crcmask case"


(* ---------- suite: bloom ---------- *)
(* case: <id> <bpk> <probe> <k1,k2,...> *)
let show_match = function
  | MOk true -> '1'
  | MOk false -> '0'
  | MErr -> 'E'
  | MPanic -> 'P'

let suite_bloom (line : string) : string =
  let toks = String.split_on_char ' ' line in
  match toks with
  | id :: bpk :: probe :: rest ->
      let bpk = n_of_int (int_of_string bpk) in
      let probe = parse_bytes probe in
      let keys = match rest with [] -> [] | k :: _ -> List.map parse_bytes (split_nonempty ',' k) in
      (match bloom_create bpk keys with
       | None -> Printf.sprintf "%s panic - - | none" id
       | Some filter ->
           let res = String.of_seq (List.to_seq (List.map (fun k -> show_match (bloom_match k filter)) keys)) in
           let p = show_match (bloom_match probe filter) in
           let short = show_match (bloom_match probe [List.hd filter]) in
           Printf.sprintf "%s x%s %s %c%c | %s" id (hex_of_bytes filter)
             (if res = "" then "-" else res) p short
             (if res = "" then "-" else String.make (String.length res) '1'))
  | _ -> failwith "bad bloom case"

(* ---------- suite: fblock ---------- *)
let rec take k l = if k = 0 then [] else match l with [] -> [] | x :: r -> x :: take (k - 1) r

let suite_fblock (line : string) : string =
  match split_nonempty ' ' line with
  | id :: bpk :: evs ->
      let bpk = n_of_int (int_of_string bpk) in
      let start = ref 0 in
      let queries = ref [] and offs = ref [ 0 ] in
      let events =
        List.map
          (fun ev ->
            let body = String.sub ev 1 (String.length ev - 1) in
            match ev.[0] with
            | 'K' ->
                let k = parse_bytes body in
                queries := (!start, k) :: !queries;
                EvKey k
            | 'N' ->
                let o = int_of_string body in
                start := o;
                offs := o :: !offs;
                EvNotify (n_of_int o)
            | _ -> failwith "bad event")
          evs
      in
      let queries = List.rev !queries and offs = List.rev !offs in
      (match fb_build bpk events with
       | None -> Printf.sprintf "%s panic - - | none" id
       | Some block -> (
           match fb_parse block with
           | FErr -> Printf.sprintf "%s x%s parse-error - | none" id (hex_of_bytes block)
           | FPanic -> Printf.sprintf "%s x%s parse-panic - | none" id (hex_of_bytes block)
           | FOk r ->
               let q o k =
                 match fb_match r (n_of_int o) k with
                 | Some true -> '1'
                 | Some false -> '0'
                 | None -> 'P'
               in
               let own = String.of_seq (List.to_seq (List.map (fun (o, k) -> q o k) queries)) in
               let cross = Buffer.create 16 in
               List.iter
                 (fun (_, k) -> List.iter (fun o -> Buffer.add_char cross (q o k)) (take 6 offs))
                 (take 6 queries);
               let cross = Buffer.contents cross in
               Printf.sprintf "%s x%s %s %s | %s" id (hex_of_bytes block)
                 (if own = "" then "-" else own)
                 (if cross = "" then "-" else cross)
                 (if own = "" then "-" else String.make (String.length own) '1')))
  | _ -> failwith "bad fblock case"

(* ---------- entries, keys, cursor ops ---------- *)
let n_of_string (s : string) : n =
  (* decimal, up to u64 *)
  let r = ref N0 in
  String.iter
    (fun c ->
      r := N.add (N.mul !r (n_of_int 10)) (n_of_int (Char.code c - 48)))
    s;
  !r

let rec string_of_n (x : n) : string =
  (* decimal printing of possibly > 2^62 numbers *)
  match x with
  | N0 -> "0"
  | _ ->
      let ten = n_of_int 10 in
      let q = N.div x ten and r = N.modulo x ten in
      (if q = N0 then "" else string_of_n q) ^ string_of_int (int_of_n r)

let parse_entry (tok : string) : ikey * n list =
  match String.split_on_char ':' tok with
  | u :: s :: o :: rest ->
      ( { ik_user = parse_bytes u; ik_seq = n_of_string s; ik_op = n_of_int (int_of_string o) },
        match rest with [] -> [] | v :: _ -> parse_bytes v )
  | _ -> failwith ("bad entry " ^ tok)

let show_key (k : ikey) : string =
  Printf.sprintf "x%s:%s:%d" (hex_of_bytes k.ik_user) (string_of_n k.ik_seq) (int_of_n k.ik_op)

let show_entry ((k, v) : ikey * n list) : string = show_key k ^ ":x" ^ hex_of_bytes v

let show_entries es = if es = [] then "-" else String.concat "," (List.map show_entry es)

let parse_cop (tok : string) : cop =
  match tok.[0] with
  | 'f' -> CFirst
  | 'l' -> CLast
  | 'n' -> CNext
  | 'p' -> CPrev
  | 's' -> CSeek (fst (parse_entry (String.sub tok 1 (String.length tok - 1))))
  | _ -> failwith "bad cop"

let show_trace (l : (ikey * n list) option list) : string =
  if l = [] then "-"
  else String.concat "," (List.map (function None -> "inv" | Some e -> show_entry e) l)

let show_cmp = function Lt -> "-1" | Eq -> "0" | Gt -> "1"

(* ---------- suite: key ---------- *)
let suite_key (line : string) : string =
  match split_nonempty ' ' line with
  | [ id; a; b ] ->
      let ka, _ = parse_entry a and kb, _ = parse_entry b in
      let enc = ikey_encode ka in
      let parsed = match ikey_decode enc with Some k -> show_key k | None -> "none" in
      let bad = List.rev (n_of_int 2 :: List.tl (List.rev enc)) in
      let pb = match ikey_decode bad with Some _ -> 1 | None -> 0 in
      let ps = match ikey_decode (take 8 enc) with Some _ -> 1 | None -> 0 in
      let so = function Some s -> "x" ^ hex_of_bytes s | None -> "panic" in
      Printf.sprintf "%s %s %d x%s %s %d%d %s %s x%s x%s | none" id
        (show_cmp (ikey_cmp ka kb))
        (if ikey_eqb ka kb then 1 else 0)
        (hex_of_bytes enc) parsed pb ps
        (so (ikey_separator ka kb))
        (so (ikey_successor ka))
        (hex_of_bytes (bytes_separator ka.ik_user kb.ik_user))
        (hex_of_bytes (bytes_successor ka.ik_user))
  | _ -> failwith "bad key case"

(* ---------- suite: block ---------- *)
let bi_step es i = function
  | CSeek k -> Some (bi_seek es i k)
  | CFirst -> Some (bi_seek_first i)
  | CLast -> bi_seek_last es i
  | CNext -> Some (bi_next es i)
  | CPrev -> Some (bi_prev es i)

let suite_block (line : string) : string =
  match split_nonempty ' ' line with
  | id :: ri :: toks ->
      let ri = n_of_int (int_of_string ri) in
      let es = ref [] and ops = ref [] in
      List.iter
        (fun t ->
          let body = String.sub t 1 (String.length t - 1) in
          match t.[0] with
          | 'E' -> es := parse_entry body :: !es
          | 'O' -> ops := parse_cop body :: !ops
          | _ -> failwith "bad token")
        toks;
      let es = List.rev !es and ops = List.rev !ops in
      let raw = block_encode ri es in
      let size =
        int_of_n
          (bb_approx_size
             (List.fold_left (fun b (k, v) -> bb_add ri b (ikey_encode k) v) bb_new es))
      in
      (match block_decode raw with
       | DErr -> Printf.sprintf "%s x%s %d read-error | none" id (hex_of_bytes raw) size
       | DPanic -> Printf.sprintf "%s x%s %d read-panic | none" id (hex_of_bytes raw) size
       | DOk des ->
           (* BlockIter script *)
           let rec run i ops =
             match ops with
             | [] -> []
             | o :: r -> (
                 match bi_step des i o with
                 | None -> [ "panic" ]
                 | Some i' ->
                     (match bi_current des i' with None -> "inv" | Some e -> show_entry e)
                     :: run i' r)
           in
           let tr = run O ops in
           let spec_tr = show_trace (lc_run es (lc_first es) ops) in
           Printf.sprintf "%s x%s %d %s %s | %s %s" id (hex_of_bytes raw) size (show_entries des)
             (if tr = [] then "-" else String.concat "," tr)
             (show_entries es) spec_tr)
  | _ -> failwith "bad block case"

(* ---------- suite: table ---------- *)
let show_get = function
  | GFound v -> "Fx" ^ hex_of_bytes v
  | GDeleted -> "D"
  | GNotFound -> "N"

let suite_table (line : string) : string =
  match split_nonempty ' ' line with
  | id :: bs :: toks ->
      let bs, d3 =
        match String.split_on_char ':' bs with
        | [ b; d ] -> (n_of_int (int_of_string b), d = "1")
        | [ b ] -> (n_of_int (int_of_string b), true)
        | _ -> failwith "bad block size"
      in
      let es = ref [] and ops = ref [] and gets = ref [] in
      List.iter
        (fun t ->
          let body = String.sub t 1 (String.length t - 1) in
          match t.[0] with
          | 'E' -> es := parse_entry body :: !es
          | 'O' -> ops := parse_cop body :: !ops
          | 'G' -> gets := fst (parse_entry body) :: !gets
          | _ -> failwith "bad token")
        toks;
      let es = List.rev !es and ops = List.rev !ops and gets = List.rev !gets in
      (match table_build_bs bs es with
       | None -> Printf.sprintf "%s build-panic | none" id
       | Some t ->
           let lay =
             if t.t_index = [] then "-"
             else
               String.concat ","
                 (List.map2
                    (fun (k, _) b ->
                      Printf.sprintf "x%s/%d" (hex_of_bytes (ikey_encode k)) (List.length b))
                    t.t_index t.t_blocks)
           in
           let g k = { ik_user = k.ik_user; ik_seq = k.ik_seq; ik_op = n_of_int 1 } in
           let gres =
             if gets = [] then "-"
             else String.concat "," (List.map (fun k -> show_get (table_get d3 (fun _ _ -> true) t (g k))) gets)
           in
           let gspec =
             if gets = [] then "-"
             else String.concat "," (List.map (fun k -> show_get (get_spec es (g k))) gets)
           in
           let tr, ok = tl_run t tl_new ops in
           let script = if not ok then "panic" else show_trace tr in
           let spec_script = show_trace (lc_run es None ops) in
           let filt = if es = [] then "-" else String.make (List.length es) '1' in
           Printf.sprintf "%s %s 1 %s %s %s | 1 %s %s %s" id lay gres script filt gspec spec_script filt)
  | _ -> failwith "bad table case"

(* ---------- suite: vfn (selection functions over file metadata) ---------- *)
let parse_ikey (tok : string) : ikey = fst (parse_entry tok)
let opt_ikey tok = if tok = "-" then None else Some (parse_ikey tok)

let parse_file (tok : string) : int * fmeta =
  match String.split_on_char ':' (String.sub tok 1 (String.length tok - 1)) with
  | [ l; num; size; su; ss; so; lu; ls; lo ] ->
      ( int_of_string l,
        { fm_num = n_of_string num; fm_size = n_of_string size;
          fm_small = { ik_user = parse_bytes su; ik_seq = n_of_string ss; ik_op = n_of_int (int_of_string so) };
          fm_large = { ik_user = parse_bytes lu; ik_seq = n_of_string ls; ik_op = n_of_int (int_of_string lo) } } )
  | _ -> failwith ("bad file token " ^ tok)

let nums (fs : fmeta list) : string =
  if fs = [] then "-" else String.concat "," (List.map (fun f -> string_of_n f.fm_num) fs)

let levels_str (ls : fmeta list list) : string = String.concat "/" (List.map nums ls)

let suite_vfn (line : string) : string =
  match split_nonempty ' ' line with
  | id :: cfg :: func :: a1 :: a2 :: a3 :: toks ->
      let mfs, d1, d14 =
        match String.split_on_char ':' cfg with
        | [ m; d ] -> (n_of_string m, d = "1", true)
        | [ m; d; e ] -> (n_of_string m, d = "1", e = "1")
        | _ -> failwith "bad cfg"
      in
      let levels = Array.make 7 [] in
      let deleted = ref [] and added = ref [] in
      List.iter
        (fun t ->
          match t.[0] with
          | 'F' ->
              let l, f = parse_file t in
              levels.(l) <- levels.(l) @ [ f ]
          | 'A' ->
              let l, f = parse_file t in
              added := !added @ [ (nat_of_int l, f) ]
          | 'D' -> (
              match String.split_on_char ':' (String.sub t 1 (String.length t - 1)) with
              | [ l; n ] -> deleted := !deleted @ [ (nat_of_int (int_of_string l), n_of_string n) ]
              | _ -> failwith "bad D")
          | _ -> failwith "bad token")
        toks;
      let v = Array.to_list levels in
      let show_range = function
        | None -> "panic"
        | Some (a, b) -> show_key a ^ "~" ^ show_key b
      in
      let out =
        match func with
        | "range" -> show_range (key_range_for_files d1 levels.(0))
        | "range2" -> show_range (key_range_for_two d1 levels.(0) levels.(1))
        | "ffub" -> (
            match find_file_upper_bound levels.(1) (parse_ikey a1) with
            | None -> "none"
            | Some i -> string_of_int (int_of_nat i))
        | "ovl" ->
            let lo = if a2 = "-" then None else Some (parse_bytes a2) in
            let hi = if a3 = "-" then None else Some (parse_bytes a3) in
            if has_overlap_in_level v (nat_of_int (int_of_string a1)) lo hi then "1" else "0"
        | "score" ->
            Printf.sprintf "%d %d" (int_of_nat (size_compaction_level v)) (if requires_size_compaction v then 1 else 0)
        | "samples" ->
            let keys = List.map parse_ikey (split_nonempty ',' a1) in
            let res = read_samples v (ss_init v) keys in
            let show (a, st) = (if a then "1" else "0") ^ (match st with Some (nn, l) -> "@" ^ string_of_n nn ^ "/" ^ string_of_int (int_of_nat l) | None -> "@-") in
            let rec rle acc last count = function
              | [] -> List.rev (if count > 0 then (last ^ "x" ^ string_of_int count) :: acc else acc)
              | x :: r -> let cur = show x in
                  if cur = last then rle acc last (count + 1) r
                  else rle (if count > 0 then (last ^ "x" ^ string_of_int count) :: acc else acc) cur 1 r in
            let out = rle [] "" 0 res in
            if out = [] then "-" else String.concat "," out
        | "getfiles" -> levels_str (get_overlapping_files v (parse_ikey a1))
        | "oci" -> nums (overlapping_inputs v (nat_of_int (int_of_string a1)) (opt_ikey a2) (opt_ikey a3))
        | "plmo" ->
            string_of_int (int_of_nat (pick_level_for_memtable_output v mfs (parse_bytes a1) (parse_bytes a2)))
        | "fin" -> (
            let level = nat_of_int (int_of_string a1) in
            let seed = List.filter (fun x -> x <> "-") (split_nonempty ',' a2) |> List.map n_of_string in
            let base = List.filter (fun x -> x <> "-") (split_nonempty ',' a3) |> List.map parse_bytes in
            match finalize_inputs d1 d14 mfs v level (files_of v level seed) with
            | None -> "panic"
            | Some ci ->
                let bs = String.concat "" (List.map (fun u -> if is_base_level_for_key v level u then "1" else "0") base) in
                Printf.sprintf "%s %s %d %s %s" (nums ci.ci_in0) (nums ci.ci_in1)
                  (if is_trivial_move mfs ci then 1 else 0)
                  (match ci.ci_pointer with Some k -> show_key k | None -> "none")
                  (if bs = "" then "-" else bs))
        | "finspec" -> (
            (* a1 level, a2 seed, a3 = the implementation's answer "<in0>;<in1>" to be judged *)
            let level = nat_of_int (int_of_string a1) in
            let seed = List.filter (fun x -> x <> "-") (split_nonempty ',' a2) |> List.map n_of_string in
            match String.split_on_char ';' a3 with
            | [ i0; i1 ] ->
                let pick l s = files_of v l (List.filter (fun x -> x <> "-") (split_nonempty ',' s) |> List.map n_of_string) in
                let ci = { ci_level = level; ci_in0 = pick level i0; ci_in1 = pick (S level) i1; ci_grand = []; ci_pointer = None } in
                if not (version_wf v) then "skip" else if inputs_closed v (files_of v level seed) ci then "closed" else "NOT-CLOSED"
            | _ -> failwith "bad finspec")
        | "apply" -> (
            match apply_edit v { ve_deleted = !deleted; ve_added = !added } with
            | None -> "panic"
            | Some v' -> levels_str v')
        | _ -> failwith "unknown function"
      in
      Printf.sprintf "%s %s | none" id out
  | _ -> failwith "bad vfn case"

(* ---------- suite: dbhist (specification of the API) ---------- *)
let parse_wops (body : string) : wop list =
  List.map
    (fun el ->
      match String.index_opt el '=' with
      | Some i -> WPut (parse_bytes (String.sub el 0 i), parse_bytes (String.sub el (i + 1) (String.length el - i - 1)))
      | None -> WDel (parse_bytes el))
    (split_nonempty ';' body)

let name_id (s : string) : n =
  (* iterator names are small tokens: hash them to a number *)
  let h = ref 7 in
  String.iter (fun c -> h := (!h * 131 + Char.code c) land 0xFFFFFF) s;
  n_of_int !h

let parse_hop (tok : string) : hop =
  let body = String.sub tok 1 (String.length tok - 1) in
  let split1 c s = let i = String.index s c in (String.sub s 0 i, String.sub s (i + 1) (String.length s - i - 1)) in
  match tok.[0] with
  | 'P' -> let k, v = split1 '=' body in HWrite [ WPut (parse_bytes k, parse_bytes v) ]
  | 'D' -> HWrite [ WDel (parse_bytes body) ]
  | 'B' -> HWrite (parse_wops body)
  | 'G' -> HGet (parse_bytes body)
  | 'S' -> HSnap
  | 'R' -> HRelease (nat_of_int (int_of_string body))
  | 'H' -> let i, k = split1 ':' body in HGetAt (nat_of_int (int_of_string i), parse_bytes k)
  | 'J' -> let nm, sn = split1 ':' body in
      HIterNew (name_id nm, if sn = "-" then None else Some (nat_of_int (int_of_string sn)))
  | 'K' -> let nm, ops = split1 ':' body in
      HIterOps (name_id nm,
        List.map (fun o -> match o.[0] with
          | 'f' -> IFirst | 'l' -> ILast | 'n' -> INext | 'p' -> IPrev
          | 's' -> ISeek (parse_bytes (String.sub o 1 (String.length o - 1)))
          | _ -> failwith "bad iop") (split_nonempty ',' ops))
  | 'Q' -> HIterDrop (name_id body)
  | 'A' -> HScan
  | 'O' | 'N' -> HReopen
  | 'C' | 'W' | 'X' | 'L' | 'T' | 'Z' | 'Y' | 'E' | 'V' | 'M' -> HOther
  | _ -> failwith ("bad hop " ^ tok)

let show_pairs (m : (n list * n list) list) : string =
  if m = [] then "-" else String.concat "," (List.map (fun (k, v) -> hex_of_bytes k ^ "=" ^ hex_of_bytes v) m)

let show_hres = function
  | ROk -> "ok"
  | RAny -> "*"
  | RNoSnap -> "nosnap"
  | RNoIter -> "noiter"
  | RVal None -> "nf"
  | RVal (Some v) -> "v" ^ hex_of_bytes v
  | RPairs m -> show_pairs m
  | RSnapId i -> "s" ^ string_of_int (int_of_nat i)
  | RTrace t ->
      if t = [] then "-"
      else String.concat "," (List.map (function
        | OSkip -> "skip" | OInvalid -> "inv"
        | OAt (k, v) -> hex_of_bytes k ^ "=" ^ hex_of_bytes v) t)

let suite_dbhist (line : string) : string =
  match split_nonempty ' ' line with
  | id :: _cfg :: ops ->
      let res = spec_run spec_init (List.map parse_hop ops) in
      Printf.sprintf "%s %s" id (String.concat " " (List.map show_hres res))
  | _ -> failwith "bad dbhist case"

(* ---------- suite: dumpcheck (judging a structural dump of the implementation) ---------- *)
let between (s : string) (tag : string) : string =
  (* contents of tag[...] *)
  let key = tag ^ "[" in
  let kl = String.length key in
  let rec find i = if i + kl > String.length s then raise Not_found else if String.sub s i kl = key then i + kl else find (i + 1) in
  let st = find 0 in
  let rec close i depth = match s.[i] with
    | '[' -> close (i + 1) (depth + 1)
    | ']' -> if depth = 0 then i else close (i + 1) (depth - 1)
    | _ -> close (i + 1) depth in
  let en = close st 0 in
  String.sub s st (en - st)

let parse_entries (s : string) : (ikey * n list) list =
  if s = "-" || s = "none" then [] else List.map parse_entry (split_nonempty ',' s)

let parse_dump (dump : string) : lsm * bool =
      let lv = String.split_on_char '/' (between dump "V") in
      let unreadable = ref false in
      let store = ref [] in
      let version =
        List.map
          (fun l ->
            if l = "-" then []
            else
              List.map
                (fun f ->
                  match String.split_on_char '@' f with
                  | [ num; size; range; ents ] ->
                      let sm, lg = match String.split_on_char '~' range with [ a; b ] -> (a, b) | _ -> failwith "range" in
                      let es =
                        if String.length ents >= 10 && String.sub ents 0 10 = "unreadable" then (unreadable := true; [])
                        else parse_entries ents in
                      store := (n_of_string num, es) :: !store;
                      { fm_num = n_of_string num; fm_size = n_of_string size;
                        fm_small = parse_ikey sm; fm_large = parse_ikey lg }
                  | _ -> failwith ("bad file " ^ f))
                (String.split_on_char '+' l))
          lv
      in
      let mem = parse_entries (between dump "mem") in
      let imms = between dump "imm" in
      let imm = if imms = "none" then None else Some (parse_entries imms) in
      let seq = n_of_string (between dump "seq") in
      let snaps = List.map n_of_string (split_nonempty ',' (between dump "snaps")) in
      ({ l_mem = mem; l_imm = imm; l_ver = version; l_store = !store; l_seq = seq;
         l_snaps = snaps; l_next = n_of_string (between dump "next"); l_panic = false }, !unreadable)

(* ---------- suite: itercheck (the DatabaseIterator model on a dumped state) ---------- *)
let suite_itercheck (line : string) : string =
  match split_nonempty ' ' line with
  | [ id; dump; q; ops ] ->
      let st, _ = parse_dump dump in
      let q = if q = "-" then st.l_seq else n_of_string q in
      let iops =
        List.map (fun o -> match o.[0] with
          | 'f' -> IFirst | 'l' -> ILast | 'n' -> INext | 'p' -> IPrev
          | 's' -> ISeek (parse_bytes (String.sub o 1 (String.length o - 1)))
          | _ -> failwith "bad iop") (split_nonempty ',' ops) in
      let tr, ok = d_run (d_new (iter_children st) q) iops in
      Printf.sprintf "%s %s" id (if ok then show_hres (RTrace tr) else show_hres (RTrace tr) ^ ",PANIC")
  | _ -> failwith "bad itercheck case"

let suite_dumpcheck (line : string) : string =
  match split_nonempty ' ' line with
  | [ id; dump ] ->
      let st, unreadable_flag = parse_dump dump in
      let unreadable = ref unreadable_flag in
      let version = st.l_ver and store = ref st.l_store and seq = st.l_seq and snaps = st.l_snaps in
      let lookup nn = match List.assoc_opt nn !store with Some es -> es | None -> [] in
      let shape = shape_ok version lookup && not !unreadable && lsm_wf_b st in
      let all = all_entries st in
      let views = List.map (fun q -> show_pairs (contents all q)) (seq :: snaps) in
      (* every key read back through the model of the lookup path agrees with the view *)
      let getok =
        List.for_all
          (fun q ->
            List.for_all
              (fun k -> db_get_at st k q = visible all q k)
              (user_keys all))
          (seq :: snaps)
      in
      (* the scheduling invariant on the flags of the dump: work[<scheduled><imm><manual><needs>] *)
      let work =
        match (try Some (between dump "work") with Not_found -> None) with
        | Some w when String.length w = 4 ->
            let b i = w.[i] = '1' in
            let bad = (try between dump "bad" = "1" with Not_found -> false) in
            if work_inv_dump (b 0) (b 1) (b 2) (b 3) bad then 1 else 0
        | _ -> 1 in
      Printf.sprintf "%s shape=%d getpath=%d work=%d views=%s" id (if shape then 1 else 0) (if getok then 1 else 0) work
        (String.concat ";" views)
  | _ -> failwith "bad dumpcheck case"

(* ---------- suite: wspec (contents after every prefix of the write tokens) ---------- *)
let suite_wspec (line : string) : string =
  match split_nonempty ' ' line with
  | id :: ws ->
      let ops = List.concat_map (fun w -> [ parse_hop w; HScan ]) ws in
      let res = spec_run spec_init (HScan :: ops) in
      let scans = List.filter_map (function RPairs m -> Some (show_pairs m) | _ -> None) res in
      Printf.sprintf "%s %s" id (String.concat ";" scans)
  | _ -> failwith "bad wspec case"

(* ---------- suite: lock (ownership model) ---------- *)
let suite_lock (line : string) : string =
  match split_nonempty ' ' line with
  | id :: steps ->
      let w = ref world_init in
      let contents : (string * string) list ref = ref [] in
      let show_out = function OOk -> "ok" | OErr -> "err" | ONoHandle -> "nohandle" in
      let is_open h = List.exists (fun x -> x = h) !w.w_open in
      let res =
        List.map
          (fun st ->
            let body = String.sub st 1 (String.length st - 1) in
            match st.[0] with
            | 'O' ->
                let w', o = step0 !w (AOpen (name_id body)) in
                w := w'; show_out o
            | 'X' ->
                let w', o = step0 !w (AClose (name_id body)) in
                w := w'; show_out o
            | 'Z' | 'Y' ->
                (* close while the background thread is parked: nobody gets in before the close
                   has returned *)
                let w', o = step0 !w (AClose (name_id body)) in
                w := w'; if o = OOk then "excluded" else show_out o
            | 'D' ->
                let w', o = step0 !w ADestroy in
                if o = OOk then contents := [];
                w := w'; show_out o
            | 'P' ->
                let i = String.index body ':' and j = String.index body '=' in
                let h = name_id (String.sub body 0 i) in
                if is_open h then begin
                  let k = hex_of_bytes (parse_bytes (String.sub body (i + 1) (j - i - 1))) in
                  let v = hex_of_bytes (parse_bytes (String.sub body (j + 1) (String.length body - j - 1))) in
                  contents := (k, v) :: List.remove_assoc k !contents;
                  "ok"
                end else "nohandle"
            | 'G' ->
                let i = String.index body ':' in
                let h = name_id (String.sub body 0 i) in
                if is_open h then begin
                  let k = hex_of_bytes (parse_bytes (String.sub body (i + 1) (String.length body - i - 1))) in
                  match List.assoc_opt k !contents with Some v -> "v" ^ v | None -> "nf"
                end else "nohandle"
            | 'R' ->
                (* racing opens: the first action to run wins iff the lock is free; winners are
                   closed again afterwards *)
                let w', o = step0 !w (AOpen (n_of_int 999999)) in
                if o = OOk then begin
                  let w'', _ = step0 w' (AClose (n_of_int 999999)) in
                  w := w''; "wins=1"
                end else "wins=0"
            | 'Q' ->
                if !w.w_lock <> None then "wins=0,notdestroyed" else "wins<=1"
            | _ -> failwith "bad lock step")
          steps
      in
      Printf.sprintf "%s %s" id (String.concat " " res)
  | _ -> failwith "bad lock case"

(* ---------- suite: lockp (ownership with a non-atomic destroy_database) ---------- *)
let suite_lockp (line : string) : string =
  match split_nonempty ' ' line with
  | id :: steps ->
      let w = ref pworld_init in
      let maxopen = ref 0 in
      let show = function POk -> "ok" | PErr -> "err" | PNone -> "none" | PParked -> "parked" in
      let res =
        List.map
          (fun st ->
            let body = String.sub st 1 (String.length st - 1) in
            let a = match st.[0] with
              | 'O' -> POpenH (name_id body)
              | 'X' -> PCloseH (name_id body)
              | 'E' -> PDestroyStart
              | 'F' -> PDestroyUnlink
              | 'H' -> PDestroyFinish
              | _ -> failwith "bad lockp step" in
            (* H lets the destroyer finish from wherever it is parked *)
            if st.[0] = 'H' && !w.pw_dphase = n_of_int 1 then w := fst (pstep true !w PDestroyUnlink);
            let w', o = pstep true !w a in
            w := w';
            maxopen := Stdlib.max !maxopen (Stdlib.List.length w'.pw_open);
            (* closing a handle that is not open *)
            if st.[0] = 'X' && o = PNone then "nohandle" else show o)
          steps
      in
      Printf.sprintf "%s %s | maxopen=%d" id (String.concat " " res) !maxopen
  | _ -> failwith "bad lockp case"

(* ---------- suite: lockfd (lock_file in its two system calls) ---------- *)
let suite_lockfd (line : string) : string =
  match split_nonempty ' ' line with
  | id :: steps ->
      let w = ref fworld_init in
      let show = function LfOk -> "ok" | LfErr -> "err" | LfNone -> "none" | LfParked -> "parked" in
      let res =
        List.map
          (fun st ->
            let body = String.sub st 1 (String.length st - 1) in
            match st.[0] with
            | 'P' | 'G' -> "*"
            | c ->
                let a = match c with
                  | 'O' -> LfOpen (name_id body)
                  | 'X' -> LfClose (name_id body)
                  | 'I' -> LfOpenFd (name_id body)
                  | 'L' -> LfLock (name_id body)
                  | 'D' -> LfDestroy
                  | _ -> failwith "bad lockfd step" in
                let w', o = fstep true !w a in
                w := w';
                show o)
          steps
      in
      Printf.sprintf "%s %s" id (String.concat " " res)
  | _ -> failwith "bad lockfd case"

(* ---------- suite: sched (the concurrency model on Tier-A scripts) ---------- *)
(* case: <id> <cfg> step ...  with a third field d6fix flag appended to cfg as "...:reuse:d6"
   (default 1). Steps the model does not cover (scans, snapshots, compaction of tables) print "*". *)
let suite_sched (line : string) : string =
  match split_nonempty ' ' line with
  | id :: cfg :: steps ->
      let d6 = (match String.split_on_char ':' cfg with [ _; _; _; _; d ] -> d = "1" | _ -> true) in
      let st = ref c_init in
      let next_tid = ref 100 in
      let names : (string * n) list ref = ref [] in
      let armed : (string * string) list ref = ref [] in
      let ch take rot = { ch_take = nat_of_int take; ch_rotate = rot } in
      let at_point (p : pc) (point : string) : bool =
        match p, point with
        | RCaptured _, "get:after_unlock" -> true
        | WBeforeWal _, "write:before_wal" -> true
        | WLeading (_, _, _, todo, next), "write:after_wal" ->
            (match p with WLeading (g, base, _, _, _) -> N.eqb next (N.add base (n_of_int 1)) && todo <> [] || (todo = [] && List.concat (List.map snd g) = []) | _ -> false)
        | WLeading (_, base, _, _, next), "write:between_inserts" -> not (N.eqb next (N.add base (n_of_int 1)))
        | WLeading (_, _, _, [], _), "write:after_memtable" -> true
        | FBuilding _, "flush:building" -> true
        | _ -> false
      in
      let finished t = match pc_of !st t with Some (Done _) -> true | None -> true | _ -> false in
      (* run thread t until it is done, blocked, or (if armed) parked at its point *)
      let run_thread (name : string) (t : n) (take : int) (rot : bool) =
        let fuel = ref 10000 in
        let continue_ = ref true in
        let first = ref true in
        while !continue_ && !fuel > 0 do
          decr fuel;
          (match pc_of !st t with
           | Some p when (match List.assoc_opt name !armed with Some pt -> at_point p pt | None -> false) ->
               armed := List.remove_assoc name !armed;
               continue_ := false
           | _ ->
               (match cstep d6 !st t (ch take (rot && !first)) with
                | None -> continue_ := false
                | Some s' -> st := s'; first := false))
        done
      in
      let run_fresh prog take rot =
        incr next_tid;
        let t = n_of_int !next_tid in
        st := spawn !st t prog;
        run_thread "" t take rot;
        t
      in
      let result t =
        match pc_of !st t with
        | Some (Done (Some (Some v))) -> "v" ^ hex_of_bytes v
        | Some (Done (Some None)) -> "nf"
        | Some (Done None) -> "ok"
        | _ -> "stuck"
      in
      let prog_of (op : string) : prog option =
        let body = String.sub op 1 (String.length op - 1) in
        match op.[0] with
        | 'P' | 'D' | 'B' -> (match parse_hop op with HWrite b -> Some (PWrite b) | _ -> None)
        | 'G' -> Some (PGet (parse_bytes body))
        | _ -> None
      in
      let flush () =
        (* force_memtable_compaction: an empty write that rotates, then the background flush *)
        ignore (run_fresh (PWrite []) 1 true);
        ignore (run_fresh PFlush 1 false)
      in
      let res =
        List.map
          (fun step ->
            let body = String.sub step 1 (String.length step - 1) in
            match step.[0] with
            | 'M' -> (
                match body.[0] with
                | 'C' -> flush (); "ok"
                | _ -> (
                    match prog_of body with
                    | Some p -> let t = run_fresh p 1 false in result t
                    | None -> "*"))
            | 'A' ->
                let i = String.index body ':' in
                armed := (String.sub body 0 i, String.sub body (i + 1) (String.length body - i - 1)) :: !armed;
                "ok"
            | 'T' -> (
                let i = String.index body ':' in
                let name = String.sub body 0 i and op = String.sub body (i + 1) (String.length body - i - 1) in
                match op.[0] with
                | 'C' ->
                    (* a thread calling compact_range: rotation now, the flush runs on `bg` *)
                    ignore (run_fresh (PWrite []) 1 true);
                    incr next_tid;
                    let t = n_of_int !next_tid in
                    st := spawn !st t PFlush;
                    names := ("bg", t) :: (name, t) :: !names;
                    run_thread "bg" t 1 false;
                    "ok"
                | _ -> (
                    match prog_of op with
                    | Some p ->
                        incr next_tid;
                        let t = n_of_int !next_tid in
                        st := spawn !st t p;
                        names := (name, t) :: !names;
                        run_thread name t 8 false;
                        "ok"
                    | None -> "*"))
            | 'V' -> "*"
            | 'U' -> (
                match List.assoc_opt body !names with
                | Some t -> armed := List.remove_assoc body !armed; run_thread body t 8 false;
                    (* followers and queued writers behind a released leader *)
                    List.iter (fun (nm, t') -> if nm <> body then run_thread nm t' 8 false) !names;
                    "*"
                | None -> "*")
            | 'J' -> (
                match List.assoc_opt body !names with
                | Some t -> if finished t then result t else (run_thread body t 8 false; result t)
                | None -> "*")
            | 'Q' -> "ok"
            | _ -> "*")
          steps
      in
      Printf.sprintf "%s %s" id (String.concat " " res)
  | _ -> failwith "bad sched case"

(* ---------- suite: codec ---------- *)
let show_wops (ops : wop list) : string =
  if ops = [] then "-"
  else String.concat ";" (List.map (function
    | WPut (k, v) -> "x" ^ hex_of_bytes k ^ "=x" ^ hex_of_bytes v
    | WDel k -> "x" ^ hex_of_bytes k) ops)

let show_vchange (c : vchange) : string =
  let o = function None -> "-" | Some v -> string_of_n v in
  let dels = List.sort compare (List.map (fun (l, nn) -> (int_of_n l, string_of_n nn, nn)) c.vc_deleted) in
  String.concat ","
    ([ "w=" ^ o c.vc_wal; "pw=" ^ o c.vc_prev_wal; "cf=" ^ o c.vc_curr_file; "ps=" ^ o c.vc_prev_seq ]
     @ List.map (fun (l, k) -> Printf.sprintf "P%d:%s" (int_of_n l) (show_key k)) c.vc_pointers
     @ List.map (fun (l, sn, _) -> Printf.sprintf "D%d:%s" l sn) (List.sort (fun (l1, _, n1) (l2, _, n2) -> compare (l1, int_of_n n1) (l2, int_of_n n2)) dels)
     @ List.map (fun (l, f) -> Printf.sprintf "N%d:%s:%s:%s:%s" (int_of_n l) (string_of_n f.fm_num) (string_of_n f.fm_size) (show_key f.fm_small) (show_key f.fm_large)) c.vc_new)

let suite_codec (line : string) : string =
  match split_nonempty ' ' line with
  | id :: "B" :: seq :: cut :: rest ->
      let ops = match rest with [] -> [] | b :: _ -> parse_wops b in
      let bytes = batch_encode (n_of_string seq) ops in
      let show = function None -> "err" | Some (s, o) -> string_of_n s ^ "|" ^ show_wops o in
      Printf.sprintf "%s x%s %s %s | none" id (hex_of_bytes bytes) (show (batch_decode bytes))
        (show (batch_decode (take (int_of_string cut) bytes)))
  | id :: "V" :: cut :: toks ->
      let c = ref vc_empty in
      let opt s = if s = "-" then None else Some (n_of_string s) in
      let pref p t = String.length t >= String.length p && String.sub t 0 (String.length p) = p in
      let after p t = String.sub t (String.length p) (String.length t - String.length p) in
      let key3 a b cc = { ik_user = parse_bytes a; ik_seq = n_of_string b; ik_op = n_of_int (int_of_string cc) } in
      List.iter
        (fun t ->
          let v = !c in
          if pref "w=" t then c := { v with vc_wal = opt (after "w=" t) }
          else if pref "pw=" t then c := { v with vc_prev_wal = opt (after "pw=" t) }
          else if pref "cf=" t then c := { v with vc_curr_file = opt (after "cf=" t) }
          else if pref "ps=" t then c := { v with vc_prev_seq = opt (after "ps=" t) }
          else
            match t.[0], String.split_on_char ':' (String.sub t 1 (String.length t - 1)) with
            | 'P', [ l; a; b; cc ] -> c := { v with vc_pointers = v.vc_pointers @ [ (n_of_string l, key3 a b cc) ] }
            | 'D', [ l; nn ] -> c := { v with vc_deleted = v.vc_deleted @ [ (n_of_string l, n_of_string nn) ] }
            | 'N', [ l; nn; sz; a1; a2; a3; b1; b2; b3 ] ->
                c := { v with vc_new = v.vc_new @ [ (n_of_string l, { fm_num = n_of_string nn; fm_size = n_of_string sz; fm_small = key3 a1 a2 a3; fm_large = key3 b1 b2 b3 }) ] }
            | _ -> failwith ("bad token " ^ t))
        toks;
      let bytes = vchange_encode !c in
      let show = function None -> "err" | Some v -> show_vchange v in
      let enc = if List.length !c.vc_deleted <= 1 then "x" ^ hex_of_bytes bytes else "len" ^ string_of_int (List.length bytes) in
      Printf.sprintf "%s %s %s %s | none" id enc (show (vchange_decode bytes))
        (if List.length !c.vc_deleted <= 1 then show (vchange_decode (take (int_of_string cut) bytes)) else "skip")
  | _ -> failwith "bad codec case"

(* ---------- suite: gccheck (the remove_obsolete_files model on an observed directory) ---------- *)
let suite_gccheck (line : string) : string =
  match split_nonempty ' ' line with
  | [ id; facts ] ->
      let listing = split_nonempty ';' (between facts "D") in
      let g = String.split_on_char '|' (between facts "G") in
      (match g with
       | [ live; inuse; wal; prev; man; cur ] ->
           let nums s = List.map n_of_string (split_nonempty ';' s) in
           let view = { g_live = nums live; g_inuse = nums inuse; g_wal = n_of_string wal;
                        g_prev_wal = (if prev = "-" then None else Some (n_of_string prev));
                        g_manifest = n_of_string man } in
           let cur = nums cur in
           let fname_of (s : string) : fname option =
             let num_between pre suf =
               let l = String.length s and lp = String.length pre and ls = String.length suf in
               if l > lp + ls && String.sub s 0 lp = pre && String.sub s (l - ls) ls = suf
               then (try Some (n_of_string (String.sub s lp (l - lp - ls))) with _ -> None) else None in
             if s = "CURRENT" then Some FCurrent else if s = "LOCK" then Some FLock
             else match num_between "MANIFEST-" ".manifest" with Some nn -> Some (FManifest nn) | None ->
               match num_between "wal/wal-" ".log" with Some nn -> Some (FWal nn) | None ->
               match num_between "data/" ".rdb" with Some nn -> Some (FTable nn) | None ->
               match num_between "" ".dbtemp" with Some nn -> Some (FTemp nn) | None -> None in
           let verdicts =
             List.map
               (fun s ->
                 match fname_of s with
                 | None -> "unknown:" ^ s
                 | Some f ->
                     if not (keep view f) then "model-deletes:" ^ s
                     else
                       (match f with
                        | FCurrent | FLock -> "needed"
                        | FManifest nn -> if nn = view.g_manifest then "needed" else "orphan-manifest:" ^ s
                        | FWal nn -> if int_of_n nn >= int_of_n view.g_wal || view.g_prev_wal = Some nn then "needed" else "extra:" ^ s
                        | FTable nn -> if List.mem nn cur then "needed" else if List.mem nn view.g_live || List.mem nn view.g_inuse then "held:" ^ s else "extra:" ^ s
                        | FTemp _ -> "extra:" ^ s))
               listing
           in
           let bad = List.filter (fun v -> v <> "needed") verdicts in
           let missing = List.filter (fun nn -> not (List.mem ("data/" ^ string_of_n nn ^ ".rdb") listing)) cur in
           Printf.sprintf "%s %s" id
             (if bad = [] && missing = [] then "exact"
              else String.concat "," (bad @ List.map (fun nn -> "missing:" ^ string_of_n nn) missing))
       | _ -> failwith "bad gc facts")
  | _ -> failwith "bad gccheck case"

(* ---------- suite: stepcheck (every installed version change re-derived by the LSM model) ---------- *)
let brackets (s : string) : string list =
  (* "X[a][b][c]" -> ["a"; "b"; "c"] *)
  let res = ref [] and depth = ref 0 and start = ref 0 in
  String.iteri (fun i c ->
    if c = '[' then (if !depth = 0 then start := i + 1; incr depth)
    else if c = ']' then (decr depth; if !depth = 0 then res := String.sub s !start (i - !start) :: !res)) s;
  List.rev !res

let suite_stepcheck (line : string) : string =
  match split_nonempty ' ' line with
  | [ id; evs ] ->
      let version = ref (List.init 7 (fun _ -> [])) in
      let store : (n * (ikey * n list) list) list ref = ref [] in
      let mfs = ref (n_of_int 4096) in
      let recovering = ref false in
      let pending = ref None in
      let problems = ref [] in
      let nsteps = ref 0 in
      let complain msg = if List.length !problems < 3 then problems := msg :: !problems in
      let entries_of nn = match List.assoc_opt nn !store with Some es -> es | None -> [] in
      let nums_of fs = List.sort compare (List.map (fun f -> string_of_n f.fm_num) fs) in
      List.iter
        (fun ev ->
          let args = brackets ev in
          match ev.[0], args with
          | 'O', m :: _ -> mfs := n_of_string m; recovering := true; pending := None
          | 'R', _ -> recovering := false
          | 'C', [ level; in0; in1; ss ] ->
              (* the inputs were selected on the version current at this moment *)
              pending := Some (int_of_string level, split_nonempty ';' in0, split_nonempty ';' in1, n_of_string ss, !version)
          | 'M', _ -> ()
          | 'I', [ del; add; _seq ] ->
              incr nsteps;
              let dels = List.map (fun d -> match String.split_on_char ':' d with [ l; nn ] -> (int_of_string l, n_of_string nn) | _ -> failwith "del") (split_nonempty ';' del) in
              let adds =
                if add = "-" then []
                else
                  List.map
                    (fun a ->
                      match String.split_on_char '@' a with
                      | [ l; num; size; range; ents ] ->
                          let sm, lg = match String.split_on_char '~' range with [ x; y ] -> (x, y) | _ -> failwith "range" in
                          let es = if ents = "unreadable" then (complain ("unreadable new table " ^ num); []) else parse_entries ents in
                          (int_of_string l, { fm_num = n_of_string num; fm_size = n_of_string size; fm_small = parse_ikey sm; fm_large = parse_ikey lg }, es)
                      | _ -> failwith ("bad add " ^ a))
                    (String.split_on_char '+' add)
              in
              let v = !version in
              (* bounds of every new file are its first and last entry *)
              List.iter (fun (_, f, es) ->
                if es <> [] && not (file_bounds_ok es f) then complain ("bounds of new file " ^ string_of_n f.fm_num ^ " are not its first/last entry")) adds;
              (* a memtable flush may be installed in the middle of a running compaction *)
              (* a trivial move re-adds the number it deletes: it is never the install of the merging
                 compaction whose start was seen (that one may have been abandoned at shutdown) *)
              let is_move = (match dels, adds with [ (_, dn) ], [ (_, f, _) ] -> f.fm_num = dn | _ -> false) in
              let pend = if dels = [] || is_move then None else !pending in
              (match pend, dels, adds with
               | Some (level, in0, in1, ss, v), _, _ ->
                   pending := None;
                   let lv = nat_of_int level in
                   let f0 = files_of v lv (List.map n_of_string in0) and f1 = files_of v (S lv) (List.map n_of_string in1) in
                   if List.length f0 <> List.length in0 || List.length f1 <> List.length in1 then
                     complain (Printf.sprintf "compaction at level %d: inputs %s / %s are not files of levels %d / %d of the model's version" level (String.concat ";" in0) (String.concat ";" in1) level (level + 1))
                   else begin
                     let ci = { ci_level = lv; ci_in0 = f0; ci_in1 = f1; ci_grand = []; ci_pointer = None } in
                     if version_wf v && not (inputs_closed v f0 ci) then
                       complain (Printf.sprintf "compaction at level %d: inputs %s / %s are not closed" level (String.concat ";" in0) (String.concat ";" in1));
                     let inputs = List.map (fun f -> entries_of f.fm_num) (f0 @ f1) in
                     let kept = compact_entries ss (is_base_level_for_key v lv) inputs in
                     let observed = List.concat (List.map (fun (_, _, es) -> es) adds) in
                     if kept <> observed then
                       complain (Printf.sprintf "compaction at level %d (smallest snapshot %s): outputs differ from the model's merge: model keeps %d entries, implementation wrote %d" level (string_of_n ss) (List.length kept) (List.length observed));
                     if List.exists (fun (l, _, _) -> l <> level + 1) adds then complain "compaction output not at level+1";
                     let expect_del = List.sort compare (List.map (fun f -> (level, f.fm_num)) f0 @ List.map (fun f -> (level + 1, f.fm_num)) f1) in
                     if List.sort compare dels <> expect_del then complain "compaction edit does not delete exactly its inputs"
                   end
               | None, [ (dl, dn) ], [ (al, f, _) ] when f.fm_num = dn ->
                   (* trivial move *)
                   let lv = nat_of_int dl in
                   if al <> dl + 1 then complain "trivial move not to level+1";
                   (match finalize_inputs true true !mfs v lv (files_of v lv [ dn ]) with
                    | Some ci ->
                        if nums_of ci.ci_in0 <> [ string_of_n dn ] || ci.ci_in1 <> [] || not (is_trivial_move !mfs ci) then
                          complain (Printf.sprintf "file %s moved from level %d although the model does not allow a trivial move" (string_of_n dn) dl)
                    | None -> complain "model panics on trivial move inputs")
               | None, [], _ ->
                   List.iter
                     (fun (l, f, es) ->
                       store := (f.fm_num, es) :: !store;
                       if es <> [] then begin
                         let expect =
                           if !recovering then 0
                           else int_of_nat (pick_level_for_memtable_output v !mfs f.fm_small.ik_user f.fm_large.ik_user) in
                         if l <> expect then
                           complain (Printf.sprintf "flushed table %s placed at level %d, model says %d" (string_of_n f.fm_num) l expect)
                       end)
                     adds
               | None, _, _ -> complain "version change that is neither a flush, a compaction nor a trivial move");
              List.iter (fun (_, f, es) -> if not (List.mem_assoc f.fm_num !store) then store := (f.fm_num, es) :: !store) adds;
              (* a moved file keeps its entries *)
              let edit = { ve_deleted = List.map (fun (l, nn) -> (nat_of_int l, nn)) dels;
                           ve_added = List.map (fun (l, f, _) -> (nat_of_int l, f)) adds } in
              (match apply_edit v edit with
               | None -> complain "the model's VersionBuilder panics on this change (overlap in a level)"
               | Some v' ->
                   version := v';
                   if not (version_wf v') then complain "version not well formed after the change")
          | _ -> ())
        (String.split_on_char '|' evs);
      Printf.sprintf "%s %s steps=%d" id
        (if !problems = [] then "ok" else String.concat ";;" (List.rev_map (fun x -> String.map (fun c -> if c = ' ' then '_' else c) x) !problems))
        !nsteps
  | [ id ] -> id ^ " ok steps=0"
  | _ -> failwith "bad stepcheck case"


(* ---------- suite: recover (the recovery function on a directory image) ---------- *)
let parse_image (img : string) : image =
  let pairs tag f =
    List.map
      (fun item ->
        match String.index_opt item '=' with
        | Some i -> (n_of_string (String.sub item 0 i), f (String.sub item (i + 1) (String.length item - i - 1)))
        | None -> failwith ("bad image item " ^ item))
      (split_nonempty ';' (between img tag)) in
  let cur =
    let v = between img "C" in
    if v = "-" then None else Some (parse_bytes v) in
  { i_current = cur;
    i_manifests = pairs "M" parse_bytes;
    i_wals = pairs "W" parse_bytes;
    i_tables = pairs "T" (fun e -> if e = "unreadable" then None else Some (parse_entries e));
    i_temps = List.map (fun x -> (n_of_string x, [])) (split_nonempty ';' (between img "X")) }

let show_rec_error = function
  | ENoCurrent -> "no-current" | EBadCurrent -> "bad-current" | ENoManifest -> "no-manifest"
  | EManifestPanic -> "manifest-panic" | EManifestDecode -> "manifest-decode"
  | EManifestSkipped -> "manifest-skipped" | EManifestFields -> "manifest-fields"
  | EOverlap -> "overlap" | EMissingFile -> "missing-file" | EWalPanic -> "wal-panic"
  | EWalDecode -> "wal-decode"

let suite_recover (line : string) : string =
  (* <id> IMG[...] *)
  let sp = String.index line ' ' in
  let id = String.sub line 0 sp in
  let img = parse_image (String.sub line (sp + 1) (String.length line - sp - 1)) in
  match recover_image img with
  | Inr e -> Printf.sprintf "%s err %s" id (show_rec_error e)
  | Inl r ->
      let needed =
        List.filter (fun f -> rec_needs img r f)
          (List.map fst img.i_manifests @ List.map fst img.i_wals @ List.map fst img.i_tables) in
      Printf.sprintf "%s ok %s %s readable=%b man=%s wal=%s next=%s intact=%b wals=%s needs=%s" id
        (string_of_n r.rc_seq) (show_pairs (rec_contents img r)) (rec_readable img r)
        (string_of_n r.rc_manifest.ms_number) (string_of_n r.rc_manifest.ms_wal)
        (string_of_n r.rc_manifest.ms_next) r.rc_manifest.ms_intact
        (String.concat ";" (List.map (fun w -> string_of_n w.wr_number ^ ":" ^ string_of_int (List.length w.wr_batches) ^ ":" ^ string_of_bool w.wr_intact) r.rc_wals))
        (String.concat ";" (List.map string_of_n needed))

(* ---------- suite: proto (the persistence protocol re-derives the directory) ---------- *)
let split_on_string (sep : char) (s : string) = String.split_on_char sep s

let norm_manifest (bytes : n list) =
  let rx = log_read_all_x bytes in
  match decode_changes rx.rx_records with
  | Some cs -> Some (List.map (fun c -> { c with vc_deleted = List.sort compare c.vc_deleted }) cs, rx.rx_intact, rx.rx_skipped)
  | None -> None

let show_change (c : vchange) : string =
  let o = function None -> "-" | Some x -> string_of_n x in
  Printf.sprintf "{wal=%s prev=%s next=%s seq=%s ptr=[%s] del=[%s] new=[%s]}" (o c.vc_wal) (o c.vc_prev_wal) (o c.vc_curr_file) (o c.vc_prev_seq)
    (String.concat ";" (List.map (fun (l, k) -> string_of_n l ^ "@" ^ show_key k) c.vc_pointers))
    (String.concat ";" (List.map (fun (l, x) -> string_of_n l ^ ":" ^ string_of_n x) c.vc_deleted))
    (String.concat ";" (List.map (fun (l, f) -> Printf.sprintf "%s:%s@%s@%s~%s" (string_of_n l) (string_of_n f.fm_num) (string_of_n f.fm_size) (show_key f.fm_small) (show_key f.fm_large)) c.vc_new))

let image_diff (real : image) (model : image) : string option =
  let nums l = List.sort compare (List.map (fun (x, _) -> string_of_n x) l) in
  let first_some l = List.fold_left (fun acc f -> match acc with Some _ -> acc | None -> f ()) None l in
  first_some [
    (fun () -> if real.i_current <> model.i_current then
        Some (Printf.sprintf "CURRENT: implementation %s, model %s"
                (match real.i_current with None -> "absent" | Some b -> "x" ^ hex_of_bytes b)
                (match model.i_current with None -> "absent" | Some b -> "x" ^ hex_of_bytes b)) else None);
    (fun () -> if nums real.i_manifests <> nums model.i_manifests then
        Some (Printf.sprintf "manifest files: implementation [%s], model [%s]" (String.concat ";" (nums real.i_manifests)) (String.concat ";" (nums model.i_manifests))) else None);
    (fun () -> if nums real.i_wals <> nums model.i_wals then
        Some (Printf.sprintf "log files: implementation [%s], model [%s]" (String.concat ";" (nums real.i_wals)) (String.concat ";" (nums model.i_wals))) else None);
    (fun () -> if nums real.i_tables <> nums model.i_tables then
        Some (Printf.sprintf "table files: implementation [%s], model [%s]" (String.concat ";" (nums real.i_tables)) (String.concat ";" (nums model.i_tables))) else None);
    (fun () -> if nums real.i_temps <> nums model.i_temps then
        Some (Printf.sprintf "temp files: implementation [%s], model [%s]" (String.concat ";" (nums real.i_temps)) (String.concat ";" (nums model.i_temps))) else None);
    (fun () -> first_some (List.map (fun (nn, rb) () ->
        match List.assoc_opt nn model.i_wals with
        | Some mb when mb = rb -> None
        | Some mb -> Some (Printf.sprintf "log %s: bytes differ (implementation %d bytes, model %d bytes)" (string_of_n nn) (List.length rb) (List.length mb))
        | None -> None) real.i_wals));
    (fun () -> first_some (List.map (fun (nn, re) () ->
        match List.assoc_opt nn model.i_tables with
        | Some me when me = re -> None
        | Some me -> Some (Printf.sprintf "table %s: entries differ (implementation %s, model %s)" (string_of_n nn)
                            (match re with None -> "unreadable" | Some es -> string_of_int (List.length es))
                            (match me with None -> "unreadable" | Some es -> string_of_int (List.length es)))
        | None -> None) real.i_tables));
    (fun () -> first_some (List.map (fun (nn, rb) () ->
        match List.assoc_opt nn model.i_manifests with
        | None -> None
        | Some mb ->
            (match norm_manifest rb, norm_manifest mb with
             | Some (rc, ri, rs), Some (mc, mi, ms) ->
                 if rc = mc && ri = mi && rs = ms && List.length rb = List.length mb then None
                 else if List.length rc <> List.length mc then
                   Some (Printf.sprintf "manifest %s: %d records in the implementation's file, %d in the model's" (string_of_n nn) (List.length rc) (List.length mc))
                 else if rc = mc then Some (Printf.sprintf "manifest %s: same records but different framing (%d / %d bytes)" (string_of_n nn) (List.length rb) (List.length mb))
                 else
                   let rec firstdiff i a b = match a, b with
                     | x :: a', y :: b' -> if x = y then firstdiff (i + 1) a' b' else Some (i, x, y)
                     | _ -> None in
                   (match firstdiff 0 rc mc with
                    | Some (i, x, y) -> Some (Printf.sprintf "manifest %s record %d: implementation %s, model %s" (string_of_n nn) i (show_change x) (show_change y))
                    | None -> Some "manifest differs")
             | None, _ -> Some (Printf.sprintf "manifest %s of the implementation does not decode" (string_of_n nn))
             | _, None -> Some (Printf.sprintf "manifest %s of the model does not decode" (string_of_n nn)))) real.i_manifests));
  ]

let parse_add (a : string) =
  match String.split_on_char '@' a with
  | [ l; num; size; range; ents ] ->
      let sm, lg = match String.split_on_char '~' range with [ x; y ] -> (x, y) | _ -> failwith "range" in
      let es = if ents = "unreadable" then [] else parse_entries ents in
      ((n_of_string l, { fm_num = n_of_string num; fm_size = n_of_string size; fm_small = parse_ikey sm; fm_large = parse_ikey lg }), es)
  | _ -> failwith ("bad add " ^ a)

let parse_adds add = if add = "-" || add = "" then [] else List.map parse_add (String.split_on_char '+' add)

let max_seq (es : (ikey * n list) list) : n =
  List.fold_left (fun m (k, _) -> if N.ltb m k.ik_seq then k.ik_seq else m) N0 es

(* events after an open / inside an operation -> protocol steps *)
let installs_of (evs : string list) : pop list =
  let ptrs = ref [] and recseq = ref None in
  List.concat_map
    (fun ev ->
      let args = brackets ev in
      match ev.[0], args with
      | 'N', _ -> [ QRotate ]
      | 'L', _ :: _ :: _ :: p :: more ->
          (match more with [ sq ] when sq <> "-" -> recseq := Some (n_of_string sq) | _ -> recseq := None);
          ptrs := List.map (fun x -> match String.index_opt x '@' with
                     | Some i -> (n_of_string (String.sub x 0 i), parse_ikey (String.sub x (i + 1) (String.length x - i - 1)))
                     | None -> failwith "ptr") (split_nonempty ';' p);
          []
      | 'I', [ del; add; seq ] ->
          let dels = List.map (fun d -> match String.split_on_char ':' d with [ l; nn ] -> (n_of_string l, n_of_string nn) | _ -> failwith "del") (split_nonempty ';' del) in
          let adds = parse_adds add in
          (* the sequence number the record carries was fixed before the manifest append *)
          let q = match !recseq with Some x -> x | None -> n_of_string seq in
          recseq := None;
          let p = !ptrs in
          ptrs := [];
          if dels = [] then
            (match adds with
             | [] -> [ QFlush (N0, N0, q) ]
             | [ ((l, f), _) ] -> [ QFlush (l, f.fm_size, q) ]
             | _ -> [ QInstall (dels, adds, p, q) ])
          else [ QInstall (dels, adds, p, q) ]
      | _ -> [])
    evs

(* the file operations of a step as the harness prints them; appends to logs are left out on both
   sides (the foreground appends while the background thread works), runs of removals are sorted *)
let fname_str = function
  | FCurrent -> "CURRENT" | FLock -> "LOCK"
  | FManifest n -> "MANIFEST-" ^ string_of_n n ^ ".manifest"
  | FWal n -> "wal-" ^ string_of_n n ^ ".log"
  | FTable n -> string_of_n n ^ ".rdb"
  | FTemp n -> string_of_n n ^ ".dbtemp"

let norm_ops (l : string list) : string list =
  let l = List.filter (fun t -> not (String.length t > 6 && String.sub t 0 6 = "w:wal-") && not (String.length t > 1 && t.[0] = 'a')) l in
  (* collapse consecutive equal writes, sort runs of removals *)
  let rec collapse = function
    | a :: (b :: _ as r) when a = b && String.length a > 1 && a.[0] = 'w' -> collapse r
    | a :: r -> a :: collapse r
    | [] -> [] in
  let l = collapse l in
  let rec runs acc cur = function
    | [] -> List.rev (if cur = [] then acc else List.rev_append (List.rev (List.sort compare cur)) acc)
    | t :: r when String.length t > 1 && t.[0] = 'd' -> runs acc (t :: cur) r
    | t :: r -> runs (t :: (if cur = [] then acc else List.rev_append (List.rev (List.sort compare cur)) acc)) [] r in
  runs [] [] l

let fsops_diff (real : string) (effects : fsop list) : string option =
  let model =
    List.concat_map (function
      | FsCreate f -> [ "c:" ^ fname_str f ]
      | FsAppend (f, _) -> [ "w:" ^ fname_str f ]
      | FsTable (n, _) -> [ "w:" ^ string_of_n n ^ ".rdb" ]
      | FsRename n -> [ "r:" ^ string_of_n n ^ ".dbtemp>CURRENT" ]
      | FsRemove f -> [ "d:" ^ fname_str f ]) effects in
  let r = norm_ops (if real = "-" then [] else String.split_on_char ',' real) in
  let m = norm_ops model in
  if r = m then None
  else Some (Printf.sprintf "implementation [%s], model [%s]" (String.concat "," r) (String.concat "," m))

let suite_proto (line : string) : string =
  match split_nonempty ' ' line with
  | id :: segs ->
      let state = ref prun_init in
      let problem = ref None in
      let nsteps = ref 0 and nsegs = ref 0 in
      List.iteri
        (fun si seg ->
          if !problem = None then
            match String.split_on_char '%' seg with
            | op :: res :: evs :: img :: rest when evs <> "closed" ->
                let real_ops = match rest with [ x ] -> Some x | _ -> None in
                incr nsegs;
                let evl = if evs = "-" then [] else String.split_on_char '|' evs in
                let real = parse_image img in
                let run pops =
                  let st, _ = p_run !state pops in st in
                let finish pops =
                  let st, effects = p_run !state pops in
                  (match real_ops with
                   | Some r when !problem = None && not st.pr_failed ->
                       (match fsops_diff r effects with
                        | Some d -> problem := Some (Printf.sprintf "op %d %s: order of file operations: %s" si (if String.length op > 40 then String.sub op 0 40 else op) d)
                        | None -> ())
                   | _ -> ());
                  nsteps := !nsteps + List.length pops;
                  state := st;
                  if st.pr_failed then problem := Some (Printf.sprintf "op %d %s: the model's step fails (open error or assertion)" si (String.sub op 0 1))
                  else match image_diff real st.pr_img with
                    | Some d -> problem := Some (Printf.sprintf "op %d %s: %s" si (if String.length op > 40 then String.sub op 0 40 else op) d)
                    | None -> () in
                (match op.[0] with
                 | 'O' ->
                     if res <> "ok" then problem := Some (Printf.sprintf "op %d: open failed in the implementation: %s" si res)
                     else begin
                       let cfg = String.split_on_char ':' (String.sub op 1 (String.length op - 1)) in
                       let mfs = n_of_string (List.nth cfg 1) and reuse = List.nth cfg 3 = "1" in
                       (* events up to R[] belong to the open *)
                       let rec split_at_r acc = function
                         | [] -> (List.rev acc, [])
                         | e :: r -> if e.[0] = 'R' then (List.rev acc, r) else split_at_r (e :: acc) r in
                       let inside, after = split_at_r [] evl in
                       let adds = List.concat_map (fun ev -> match ev.[0], brackets ev with
                         | 'I', [ _; add; _ ] -> parse_adds add | _ -> []) inside in
                       let sizes = List.map (fun ((_, f), _) -> (f.fm_num, f.fm_size)) adds in
                       let cuts_all = List.map (fun (_, es) -> max_seq es) adds in
                       (* a table that ends with the last batch of a log is normally the flush at the end of that log *)
                       let img0 = !state.pr_img in
                       let ends = match recover_image img0 with
                         | Inl rc -> List.concat_map (fun w -> match List.rev w.wr_batches with b :: _ -> [ batch_last_seq b ] | [] -> []) rc.rc_wals
                         | Inr _ -> [] in
                       let cuts1 = List.filter (fun c -> not (List.mem c ends)) cuts_all in
                       let mk cuts = QOpen { oo_reuse = reuse; oo_max_file_size = mfs; oo_cuts = cuts; oo_sizes = sizes } :: installs_of after in
                       let try1 = mk cuts1 in
                       let st1 = run try1 in
                       if cuts1 <> cuts_all && (st1.pr_failed || image_diff real st1.pr_img <> None) then finish (mk cuts_all)
                       else finish try1
                     end
                 | 'P' | 'D' | 'B' ->
                     let w = match parse_hop op with HWrite b -> b | _ -> failwith "write" in
                     let pre, rest = match evl with e :: r when e.[0] = 'N' -> ([ QRotate ], r) | _ -> ([], evl) in
                     finish (pre @ (if res = "ok" then [ QWrite w ] else []) @ installs_of rest)
                 | _ -> finish (installs_of evl))
            | _ -> ())
        segs;
      Printf.sprintf "%s %s segs=%d steps=%d" id
        (match !problem with None -> "ok" | Some p -> "DIFF:" ^ String.map (fun c -> if c = ' ' then '_' else c) p) !nsegs !nsteps
  | _ -> failwith "bad proto case"

(* ---------- suite: wfault (the write path under a failing log append, Faults.v) ---------- *)
let suite_wfault (line : string) : string =
  (* <id> <j>:<n> op op ...   the append of operation j lets n bytes through and fails (j = -1: no fault) *)
  match split_nonempty ' ' line with
  | id :: plan :: ops ->
      let j, nb = match String.split_on_char ':' plan with [ a; b ] -> (int_of_string a, int_of_string b) | _ -> failwith "plan" in
      let ws = List.mapi (fun i op ->
        let w = match parse_hop op with HWrite b -> b | _ -> failwith "wfault op" in
        (w, if i = j then FailAfter (nat_of_int nb) else NoFault)) ops in
      let s, rs = f_run f_init ws in
      Printf.sprintf "%s %s | %s | x%s | %s" id
        (String.concat ";" (List.map (function WOk -> "ok" | WErr -> "err") rs))
        (show_pairs (f_contents s)) (hex_of_bytes s.f_wal)
        (match f_reopen s with Some m -> show_pairs m | None -> "open-err")
  | _ -> failwith "bad wfault case"

(* ---------- suite: tfile (table file layout: block trailers, handles, footer) ---------- *)
let suite_tfile (line : string) : string =
  (* <id> x<file> <m_off>:<m_size>,<i_off>:<i_size> <off:size;...> <off:newb:open:bits> ... *)
  match split_nonempty ' ' line with
  | id :: file :: foot :: blocks :: muts ->
      let file = parse_bytes file in
      let hp s = match String.split_on_char ':' s with [ a; b ] -> { h_off = n_of_string a; h_size = n_of_string b } | _ -> failwith "handle" in
      let mh, ih = match String.split_on_char ',' foot with [ a; b ] -> (hp a, hp b) | _ -> failwith "footer" in
      let bl = if blocks = "-" then [] else List.map hp (String.split_on_char ';' blocks) in
      (* a handle that points beyond the end of the file reads as BShort (lemma
         read_block_at_beyond_eof); evaluating read_block_at on it would convert an offset of up
         to 2^64 to a unary nat *)
      let ok_block f h =
        if N.ltb (n_of_int (List.length f)) (N.add (N.add h.h_off h.h_size) (n_of_int 5)) then false
        else match read_block_at f h with BOk (_, _) -> true | _ -> false in
      let problems = ref [] in
      let complain m = if List.length !problems < 3 then problems := m :: !problems in
      (* the unchanged file: footer decodes to the reported handles and re-encodes to its last 48
         bytes; every block passes the check *)
      (match file_footer file with
       | Some (m, i) ->
           if m <> mh || i <> ih then complain "footer handles differ from the reader's";
           let n = List.length file in
           let tail = List.filteri (fun k _ -> k >= n - 48) file in
           if footer_encode m i <> tail then complain "footer_encode differs from the last 48 bytes"
       | None -> complain "model cannot decode the footer");
      List.iter (fun h -> if not (ok_block file h) then complain (Printf.sprintf "block at %s fails the model's check" (string_of_n h.h_off))) (mh :: ih :: bl);
      let nm = ref 0 in
      List.iter
        (fun mu ->
          if mu <> "-" then
            match String.split_on_char ':' mu with
            | [ off; nb; op; bits ] ->
                incr nm;
                let f' = update_at (nat_of_int (int_of_string off)) (n_of_int (int_of_string nb)) file in
                let model_open, same =
                  match file_footer f' with
                  | Some (m, i) -> (ok_block f' i && ok_block f' m, m = mh && i = ih)
                  | None -> (false, false) in
                if model_open <> (op = "1") then
                  complain (Printf.sprintf "byte %s := %s: open %s in the implementation, %s in the model" off nb op (if model_open then "1" else "0"))
                else if model_open && same && bits <> "-" then
                  List.iteri (fun k h ->
                    let mb = ok_block f' h in
                    if k < String.length bits && (bits.[k] = '1') <> mb then
                      complain (Printf.sprintf "byte %s := %s: block %d readable=%c in the implementation, %b in the model" off nb k bits.[k] mb)) bl
            | _ -> failwith "mutation")
        muts;
      Printf.sprintf "%s %s blocks=%d mutations=%d" id
        (if !problems = [] then "ok" else "DIFF:" ^ String.concat ";;" (List.rev_map (fun x -> String.map (fun c -> if c = ' ' then '_' else c) x) !problems))
        (List.length bl) !nm
  | _ -> failwith "bad tfile case"

(* ---------- suite: cache (the LRU cache) ---------- *)
let suite_cache (line : string) : string =
  match split_nonempty ' ' line with
  | id :: cap :: ops ->
      let parse op =
        let body = String.sub op 1 (String.length op - 1) in
        match op.[0] with
        | 'I' -> let i = String.index body '=' in
            CInsert (n_of_string (String.sub body 0 i), n_of_string (String.sub body (i + 1) (String.length body - i - 1)))
        | 'G' -> CGet (n_of_string body)
        | 'R' -> CRemove (n_of_string body)
        | _ -> failwith "bad cache op" in
      let res = lru_run (lru_new (nat_of_int (int_of_string cap))) (List.map parse ops) in
      Printf.sprintf "%s %s" id
        (String.concat " " (List.map (fun (v, n) -> (match v with Some x -> string_of_n x | None -> "-") ^ "," ^ string_of_int (int_of_nat n)) res))
  | _ -> failwith "bad cache case"

(* ---------- suite: names (file naming and recognition) ---------- *)
let suite_names (line : string) : string =
  let show = function
    | None -> "none"
    | Some KCurrent -> "C" | Some KLock -> "L"
    | Some (KManifest x) -> "M" ^ string_of_n x | Some (KWal x) -> "W" ^ string_of_n x
    | Some (KTable x) -> "T" ^ string_of_n x | Some (KTemp x) -> "X" ^ string_of_n x in
  match split_nonempty ' ' line with
  | [ id; t ] ->
      if t.[0] = 'F' then begin
        let num = if String.length t > 2 then n_of_string (String.sub t 2 (String.length t - 2)) else N0 in
        let k = match t.[1] with
          | 'M' -> KManifest num | 'W' -> KWal num | 'T' -> KTable num | 'X' -> KTemp num
          | 'C' -> KCurrent | _ -> KLock in
        let name = file_name k in
        Printf.sprintf "%s x%s %s" id (hex_of_bytes name) (show (parse_name name))
      end else begin
        let raw = parse_bytes (String.sub t 1 (String.length t - 1)) in
        (* the harness only parses valid UTF-8; ASCII names are generated *)
        Printf.sprintf "%s %s" id (show (parse_name raw))
      end
  | _ -> failwith "bad names case"

let () =
  let suite = Sys.argv.(1) in
  let f =
    match suite with
    | "log" -> suite_log
    | "crcmask" -> suite_crcmask
    | "bloom" -> suite_bloom
    | "fblock" -> suite_fblock
    | "key" -> suite_key
    | "block" -> suite_block
    | "table" -> suite_table
    | "vfn" -> suite_vfn
    | "dbhist" -> suite_dbhist
    | "dumpcheck" -> suite_dumpcheck
    | "itercheck" -> suite_itercheck
    | "wspec" -> suite_wspec
    | "lock" -> suite_lock
    | "lockp" -> suite_lockp
    | "lockfd" -> suite_lockfd
    | "sched" -> suite_sched
    | "codec" -> suite_codec
    | "gccheck" -> suite_gccheck
    | "stepcheck" -> suite_stepcheck
    | "recover" -> suite_recover
    | "proto" -> suite_proto
    | "wfault" -> suite_wfault
    | "tfile" -> suite_tfile
    | "cache" -> suite_cache
    | "names" -> suite_names
    | _ -> failwith ("unknown suite " ^ suite)
  in
  try
    while true do
      let line = input_line stdin in
      if line <> "" then begin
        (try print_string (f line) with e ->
          let id = try String.sub line 0 (String.index line ' ') with Not_found -> line in
          Printf.printf "%s DRIVER-ERROR %s :: %s" id (Printexc.to_string e)
            (if String.length line > 300 then String.sub line 0 300 else line));
        print_newline ()
      end
    done
  with End_of_file -> ()
