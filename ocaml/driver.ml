(* Correspondence driver: reads one case per line, evaluates the extracted Coq model on it and
   prints one canonical result line per case. Trusted glue: parsing and printing only. *)
open Model

(* ---------- conversions between OCaml ints and the extracted Coq numbers ---------- *)
let rec pos_of_int (i : int) : positive =
  if i = 1 then XH
  else if i land 1 = 0 then XO (pos_of_int (i lsr 1))
  else XI (pos_of_int (i lsr 1))

let n_of_int (i : int) : n = if i = 0 then N0 else Npos (pos_of_int i)

let rec int_of_pos = function
  | XH -> 1
  | XO p -> 2 * int_of_pos p
  | XI p -> 2 * int_of_pos p + 1

let int_of_n = function N0 -> 0 | Npos p -> int_of_pos p

let rec nat_of_int (i : int) : nat = if i <= 0 then O else S (nat_of_int (i - 1))
let rec int_of_nat = function O -> 0 | S k -> 1 + int_of_nat k

(* byte table so that byte values are shared *)
let byte_tab = Array.init 256 n_of_int

let bytes_of_string (s : string) : n list =
  let r = ref [] in
  for i = String.length s - 1 downto 0 do
    r := byte_tab.(Char.code s.[i]) :: !r
  done;
  !r

let hexdig = "0123456789abcdef"

let hex_of_bytes (l : n list) : string =
  let b = Buffer.create 64 in
  List.iter
    (fun x ->
      let v = int_of_n x in
      if v > 255 then Buffer.add_string b (Printf.sprintf "<%d>" v)
      else begin
        Buffer.add_char b hexdig.[v lsr 4];
        Buffer.add_char b hexdig.[v land 15]
      end)
    l;
  Buffer.contents b

let unhex (s : string) : string =
  let n = String.length s / 2 in
  String.init n (fun i -> Char.chr (int_of_string ("0x" ^ String.sub s (2 * i) 2)))

(* a byte-string token: x<hex> | p<len>.<a>.<b>  (byte i = (a + i*b) mod 256) *)
let parse_bytes (tok : string) : n list =
  if tok = "" then []
  else
    match tok.[0] with
    | 'x' -> bytes_of_string (unhex (String.sub tok 1 (String.length tok - 1)))
    | 'p' -> (
        match String.split_on_char '.' (String.sub tok 1 (String.length tok - 1)) with
        | [ l; a; b ] ->
            let l = int_of_string l and a = int_of_string a and b = int_of_string b in
            let r = ref [] in
            for i = l - 1 downto 0 do
              r := byte_tab.((a + i * b) land 255) :: !r
            done;
            !r
        | _ -> failwith ("bad pattern token " ^ tok))
    | _ -> failwith ("bad bytes token " ^ tok)

let split_nonempty c s = List.filter (fun x -> x <> "") (String.split_on_char c s)

let show_recs (l : n list list) : string =
  if l = [] then "-" else String.concat "," (List.map (fun r -> "x" ^ hex_of_bytes r) l)

(* ---------- suite: log ---------- *)
(* case: <id> <seq:0|1> <op> <op> ...
   op:  S:<rec>,<rec>,...[;<k>:<rec>]   T:<n>   M:<off>:<byte> *)
let parse_lop (tok : string) : lop =
  match tok.[0] with
  | 'S' ->
      let body = String.sub tok 2 (String.length tok - 2) in
      let main, partial =
        match String.index_opt body ';' with
        | None -> (body, None)
        | Some i ->
            let p = String.sub body (i + 1) (String.length body - i - 1) in
            let j = String.index p ':' in
            let k = int_of_string (String.sub p 0 j) in
            let r = parse_bytes (String.sub p (j + 1) (String.length p - j - 1)) in
            (String.sub body 0 i, Some (r, nat_of_int k))
      in
      LSess (List.map parse_bytes (split_nonempty ',' main), partial)
  | 'T' -> LTrunc (n_of_int (int_of_string (String.sub tok 2 (String.length tok - 2))))
  | 'M' -> (
      match String.split_on_char ':' tok with
      | [ _; off; b ] -> LMutate (n_of_int (int_of_string off), n_of_int (int_of_string b))
      | _ -> failwith "bad M op")
  | _ -> failwith ("bad log op " ^ tok)

let suite_log (line : string) : string =
  match split_nonempty ' ' line with
  | id :: seq :: ops ->
      let seq = seq = "1" in
      let ops = List.map parse_lop ops in
      let file, _ = log_script_run ops in
      let recs, panicked = log_read_all seq file in
      let spec =
        match log_script_spec ops with None -> "none" | Some l -> show_recs l
      in
      Printf.sprintf "%s %s %s %s | %s" id
        ("x" ^ hex_of_bytes file)
        (show_recs recs)
        (if panicked then "panic" else "eof")
        spec
  | _ -> failwith "bad log case"

(* ---------- suite: crcmask ---------- *)
let suite_crcmask (line : string) : string =
  match split_nonempty ' ' line with
  | [ id; v; d ] ->
      let v = n_of_int (int_of_string v) in
      let d = parse_bytes d in
      Printf.sprintf "%s %d %d %d" id
        (int_of_n (mask_checksum v))
        (int_of_n (unmask_checksum v))
        (int_of_n (crc32c d))
  | _ -> failwith "bad crcmask case"

let () =
  let suite = Sys.argv.(1) in
  let f =
    match suite with
    | "log" -> suite_log
    | "crcmask" -> suite_crcmask
    | _ -> failwith ("unknown suite " ^ suite)
  in
  try
    while true do
      let line = input_line stdin in
      if line <> "" then begin
        (try print_string (f line) with e -> Printf.printf "DRIVER-ERROR %s :: %s" (Printexc.to_string e) line);
        print_newline ()
      end
    done
  with End_of_file -> ()
